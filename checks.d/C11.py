ID = "C11"
CHECK = {
    "level": "exploration",
    "assumptions": [
        "timeoutThreshold > 0 (bb_worker passes 100ms; with 0 the re-arm loop would spin on a zero timer), maximumSuspension >= 0, timeout >= 0",
        "all durations are whole ticks (tick = 1ns, 1ms or 1s), d <= 40, m <= 60, th <= 12 ticks, at most 3 concurrent readers with at most 4 suspensions each",
        "Resume() is only called by whoever called Suspend() (the clock documents a panic otherwise)",
        "base clock is bb-storage SystemClock on testing/synctest fake time (behind a pass-through wrapper that only counts NewTimer calls and stops handing out live timers after 5000, so that a spinning re-arm loop is reported instead of hanging): time does not advance while a goroutine is runnable, so scheduling latency between a timer firing and the clock handling it is not explored",
        "scheduling latency between a base timer firing and the clock handling it is explored separately (TestC11SuspendableClockLateTicks) over a hand-written manual base clock whose ticks carry the instant the timer fired and are delivered by the harness, possibly late; there the oracle bounds what the clock may believe by [U(fired), U(handled)]",
        "executor sub-check: Execute() may be called up to 4 ticks before the command starts, the consumer of its execution state updates taking the first two updates (fetching inputs, running) late; time Execute() spends waiting for the worker to take a state update is not run time of the command, so the timeline model stays anchored at the instant the runner is invoked",
        "events at the same instant as a base-timer expiry may be processed in either order; the oracle accepts both",
        "LocalBuildExecutor is driven with fakes: empty build directory, CAS holding only the command, a runner that answers a finished context like a gRPC client stub (status.FromContextError)",
        "buffers handed out by SuspendingBlobAccess.Get are finished exactly once (read to the end / closed / discarded), as the Buffer contract demands",
        "the context handed to LocalBuildExecutor.Execute() may be cancelled by the worker at any instant (generated: before/at the creation of the run context, around the earliest instant the timeout may fire, around budget / hard bound / finish); the fake runner answers a cancelled context like a gRPC client stub, so a run that ended by that cancellation is reported with code CANCELLED (local_build_executor.go documents no other mapping; only a logged I/O error takes precedence)",
    ],
    "tests": [
        T("susclock", "TestC11SuspendableClockTimeline",
          {"checks": 30000, "shards": 2, "timeout": 300},
          {"checks": 250000, "shards": 16, "timeout": 1200}),
        T("susclock", "TestC11SuspendableClockLateTicks",
          {"checks": 15000, "shards": 2, "timeout": 300},
          {"checks": 150000, "shards": 16, "timeout": 1200}),
        T("susclock", "TestC11SuspendingDecorators",
          {"checks": 12000, "shards": 2, "timeout": 300},
          {"checks": 80000, "shards": 16, "timeout": 1200}),
        T("susclock", "TestC11ExecutorTimeout",
          {"checks": 8000, "shards": 2, "timeout": 300},
          {"checks": 60000, "shards": 16, "timeout": 1200}),
    ],
}
META = {
    "text": "Generated timelines (suspend/resume intervals of up to three concurrent readers, nested and overlapping, "
            "command finishing at a generated instant or never) are run against the real SuspendableClock over the real "
            "SystemClock on synctest fake time and compared with a naive per-tick model of unsuspended time; the suspending "
            "storage decorators are driven by a rapid state machine with a counting Suspendable. A further part runs real goroutines on real time "
            "(readers hammering Suspend/Resume while run contexts end) and checks, as validity predicates over every schedule, that the outcome of a run "
            "context is recorded before Done() announces it. Search, not proof.",
    "design_ref": "6/C11",
    "note": "Trusts testing/synctest's fake time, the per-tick reference model, and that real callers use timeoutThreshold > 0. "
            "Same-instant orders between harness events and timer expiries are partly left to the Go scheduler (both accepted).",
    "technique": "property-based testing (rapid) of generated timelines under a simulated clock against a reference model of unsuspended time",
}

ID = "C07"
CHECK = {
    "level": "exploration",
    "assumptions": [
        "handle methods (GetMutableProto/Release) and Selector/Learner methods are called serially (documented global lock); only MutableProtoStore.Get and the storage Get/Put it issues overlap",
        "the largest size class of a platform queue never changes while a request is in flight (the scheduler only adds/removes size classes below the predeclared maximum); smaller ones may change between Select and Succeeded",
        "size-class lists hold 1-6 strictly increasing positive values; calculator parameters in the documented ranges: exponent in [0,1], timeout multiplier in [1,4], minimum timeout in [0,1h], convergence error in [1e-6,0.1]",
        "stored PreviousExecutionStats are arbitrary wire-format messages (odd durations, timestamps, NaN/Inf/out-of-range probabilities included)",
        "where two Get calls for one digest both had to read the cache and overlapped, only the weaker oracle is applied to that digest (ordered selection of the applied updates ending in the latest one): the second reader may legitimately start from an older message",
    ],
    "tests": [
        T("sizeclass", "TestC07ChoicesWellFormed",
          {"checks": 25000, "shards": 2, "timeout": 300},
          {"checks": 250000, "shards": 8, "timeout": 1500}),
        T("sizeclass", "TestC07StatsPersistence",
          {"checks": 6000, "shards": 2, "timeout": 300, "steps": 40},
          {"checks": 60000, "shards": 8, "timeout": 1500, "steps": 60}),
        # Deterministic scripts of the repaired defects F1-F3 (harness/sizeclass/FINDINGS.md).
        T("sizeclass", "TestC07Regress.*",
          {"checks": 1, "shards": 1, "timeout": 120},
          {"checks": 1, "shards": 1, "timeout": 120}),
    ],
}
META = {
    "text": "Generated search (rapid state machines), no proof of absence. (b) the real analyzers, strategy calculators, Outcomes and timeout extractor are driven directly with generated stored statistics, size-class lists, parameters and outcome sequences; every choice is checked for well-formedness and the recorded statistics are compared with a model fed from the reported outcomes. (c) the real BlobAccessMutableProtoStore runs inside a synctest bubble over a fake cache whose reads and writes park, so the interleaving of Get, Release and asynchronous write-back (with failures) is a generated value; after draining, the cache contents are compared with the updates applied.",
    "design_ref": "6/C07",
    "note": "Trusts the hand-written fakes (stats store/handle, clock, random numbers, parking ISCC) and the model of what each reported outcome must record (taken from the Learner documentation and upstream tests). A power iteration that never ends would show up as a time-out (inconclusive), not as a violation. Linearity of the protocol inside the scheduler (sub-check a) is decided by the scheduler simulator part.",
    "technique": "stateful model-based property testing (rapid) with harness-owned schedules (testing/synctest) and a token-sequence reference model",
}

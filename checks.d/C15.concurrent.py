ID = "C15"
TESTS = [
    T("filepool", "TestC15FilePoolConcurrent",
      {"checks": 1200, "shards": 2, "timeout": 300},
      {"checks": 10000, "shards": 4, "timeout": 1500},
      race=True),
]
ASSUMPTIONS = [
    "C15 concurrent: every file handle is used by one goroutine only (documented: handles are not thread-safe); 2-4 goroutines with 1-2 files each share one pool; real goroutines under the race detector, not synctest: which refusals occur in the tight variant depends on the Go scheduler, every oracle holds in every schedule (a refusal is accepted only for a resource the configuration makes insufficient; the file must then be what the reported result says)",
    "C15 concurrent: the in-memory device takes no lock, like the memory-mapped device in production; the pool has to keep concurrent accesses on disjoint sectors (a data race on device bytes is reported by the race detector and counts as a violation)",
]

ID = "C19"
TESTS = [
    # Scripted: three identical duplicates waiting behind an OPEN parked before / after the directory call; open-owner and
    # lock-owner seqids wrapping from 2^32-1 to 1 (0 rejected as out of order), with retransmissions across the wrap.
    # STATE ID seqids at the wrap (hook VerifSetNFS40StateIDSeqID): OPEN, OPEN_CONFIRM, open state ID placed at 2^32-1, CLOSE,
    # identical CLOSE (seeded change C19-6A); the same for LOCKU, LOCK (existing lock-owner), OPEN_DOWNGRADE and OPEN (upgrade),
    # with old / future state ID seqids on both sides of the wrap (OLD_STATEID / BAD_STATEID modulo 2^32).
    T("nfs40sim", "TestC19NFS40Regress.*",
      {"checks": 1, "shards": 1, "timeout": 120},
      {"checks": 1, "shards": 1, "timeout": 120}, plain=True),
]

ID = "C19"
TESTS = [
    # Scripted: three identical duplicates waiting behind an OPEN parked before / after the directory call; open-owner and
    # lock-owner seqids wrapping from 2^32-1 to 1 (0 rejected as out of order), with retransmissions across the wrap.
    T("nfs40sim", "TestC19NFS40Regress.*",
      {"checks": 1, "shards": 1, "timeout": 120},
      {"checks": 1, "shards": 1, "timeout": 120}, plain=True),
]

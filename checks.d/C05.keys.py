ID = "C05"
TESTS = [
    T("platformkey", "TestC05PlatformKeyInjective",
      {"checks": 20000, "shards": 2, "timeout": 300},
      {"checks": 150000, "shards": 8, "timeout": 1200}),
    T("platformkey", "TestC05PlatformTrieModel",
      {"checks": 3000, "shards": 2, "timeout": 300},
      {"checks": 60000, "shards": 8, "timeout": 1200}),
]
ASSUMPTIONS = [
    "C05 key level: 'platform properties equal the action's' is decided on platform.Key (the scheduler compares nothing else): two (instance name prefix, Platform) inputs in REv2 normal form must give equal keys iff they are equal; instance name prefixes come from a fixed set of 7 nested names, property strings from fragments special to the JSON encoding",
    "platform.Trie.Remove is only called for keys that are present (the scheduler removes a platform queue exactly once)",
]

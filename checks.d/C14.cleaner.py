ID = "C14"
TESTS = [
    # The IdleInvoker lock (pkg/cleaner) is probed at every quiescent point of the C12 schedules;
    # a leaked lock ends the run with a VERIF-VIOLATION line (the bubble could never drain).
    T("isolation", "TestC12IdleInvokerSchedules",
      {"checks": 8000, "shards": 2, "timeout": 300},
      {"checks": 100000, "shards": 4, "timeout": 1500}),
]
ASSUMPTIONS = ["C14 for pkg/cleaner: IdleInvoker.VerifState() (TryLock) at every quiescent point of generated Acquire/Release/cancel schedules"]

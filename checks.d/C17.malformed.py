ID = "C17"
ENV = {"GOMAXPROCS": "2", "GOGC": "400"}
TESTS = [
    T("inputroot", "TestC17Malformed",
      {"checks": 2000, "shards": 2, "timeout": 300},
      {"checks": 30000, "shards": 8, "timeout": 1500}, env=ENV),
]
ASSUMPTIONS = [
    "TestC17Malformed: a Directory object is unusable if a child name is not a valid path component (path.NewComponent: empty, '.', '..', contains '/' or NUL), a name occurs twice, a file or directory digest is absent or not a well-formed SHA-256 digest with a non-negative size, a symlink target contains NUL (the UNIX path parser documents the rejection), a string is not UTF-8 or the message does not parse (protobuf library used as the judge), the referenced size_bytes differs from the stored object, or the message exceeds the configured maximum Directory size (64 KiB here); such an object must give an error on every access that needs its contents, while its parent still lists it as a directory (directories are loaded lazily) and everything else answers as the model says",
    "TestC17Malformed: an EMPTY symlink target is documented neither by REv2 nor by the code as valid or invalid: the directory may be refused (then it is treated like any unusable directory) or presented with the target '.' (what the UNIX path parser makes of an empty path); nothing else is accepted",
]

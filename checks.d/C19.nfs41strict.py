ID = "C19"
TESTS = [
    # Found C19/inflight-false-retry-gets-original-reply/nfs41 (fixed by /repo commit 88326dd); fails on a tree without that fix.
    T("nfs41sim", "TestC19NFS41InflightFalseRetry",
      {"checks": 2500, "shards": 2, "timeout": 300, "args": ["-rapid.shrinktime=15s"]},
      {"checks": 20000, "shards": 4, "timeout": 1500}),
    T("nfs41sim", "TestC19StrictRegress.*",
      {"checks": 1, "shards": 1, "timeout": 120},
      {"checks": 1, "shards": 1, "timeout": 120}, plain=True),
]
ASSUMPTIONS = [
    "nfs41strict: for a false retry that arrives while the original is still being processed, 'content differs' is judged by the same rule the code applies to completed requests (the original's complete reply does not fit the number or types of the retry's operations); such a retry must be refused by SEQUENCE and never receive the original's reply",
]

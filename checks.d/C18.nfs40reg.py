ID = "C18"
TESTS = [
    # Scripted: every fault point once (VirtualOpenChild before/after, allocator, VirtualOpenSelf for OPEN / CLAIM_PREVIOUS /
    # anonymous I/O, leaf I/O with open and special state IDs), each followed by the accounting oracles and a retransmission.
    T("nfs40sim", "TestC18NFS40Regress.*",
      {"checks": 1, "shards": 1, "timeout": 120},
      {"checks": 1, "shards": 1, "timeout": 120}, plain=True),
]

ID = "C05"
CHECK = {
    "level": "exploration",
    "assumptions": ["one generated action per step with quiescence (testing/synctest) after each: interleavings are explored at lock-release granularity of the scheduler's single lock, not inside critical sections", 'fakes: CAS, authorizers (always allow), UUID generator (counter), scripted size-class analyzer; Send never blocks', "the read-only snapshot hook (build tag verif) is trusted to report the scheduler's objects; every verdict that uses it is paired with an observation through the public RPC surface (stream messages, Synchronize responses, List* RPCs)"],
    "tests": [
        T("schedsim", "TestC05RoutingAndDrains",
          {"checks": 1500, "shards": 4, "timeout": 600},
          {"checks": 15000, "shards": 16, "timeout": 3000}),
        T("schedsim", "TestC05Regress.*",
          {"checks": 1, "shards": 1, "timeout": 120},
          {"checks": 1, "shards": 1, "timeout": 120}, plain=True),
    ],
}
META = {
    "text": "Generated search over scheduler histories (rapid, model-based, harness-owned clock and schedule); explores thousands of distinct non-trivial histories per run, shrinks failures to a minimal script; no proof of absence. " + 'Reference longest-prefix routing over the queues listed by the public API; new assignments only to workers of that queue and selected size class, never to drained/terminating workers; work conservation at quiescence.',
    "design_ref": "6/C05",
    "note": "Interleavings are explored at the points the harness owns: between steps (one call per step, quiescence after each), while the scheduler holds its lock (UUID generator and learner call-backs deliver timer ticks and cancellations), right after it released the lock before a worker waits (Done() hook), between a wake-up and the re-acquisition of the lock (clock gate), during the action fetch, and with Send/authorizer calls parked; interleavings inside one lock section of the scheduler are not. Liveness only as 'returned by quiescence in simulated time'. Trusts the verif snapshot hook paired with public-API observations; drains, terminating workers, queue set and learner outcomes are model-owned.",
    "technique": "stateful model-based property testing (rapid) of the real scheduler under a simulated clock inside testing/synctest, history oracle + structural invariant walk",
}

ID = "C20"
TESTS = [
    T("nfs40sim", "TestC20NFS40ByteRangeLocks",
      {"checks": 3000, "shards": 2, "timeout": 300},
      {"checks": 40000, "shards": 5, "timeout": 1500}),
    T("nfs40sim", "TestC20NFS40Regress.*",
      {"checks": 1, "shards": 1, "timeout": 120},
      {"checks": 1, "shards": 1, "timeout": 120}, plain=True),
]
ASSUMPTIONS = [
    "NFSv4.0 locks: the single byte at offset 2^64-1 is not representable by the lock table (exclusive end 2^64-1 means 'to end of file'); ranges never start there and the model ignores that byte",
    "NFSv4.0 locks: the lock table is keyed by lock-owner only, so when one lock-owner has lock state on a file through the opens of two open-owners, CLOSE (or expiry) of one of these opens frees all bytes of that lock-owner on the file (semantics of the fix db7d309, same as the NFSv4.1 program)",
]

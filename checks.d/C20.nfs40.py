ID = "C20"
TESTS = [
    T("nfs40sim", "TestC20NFS40ByteRangeLocks",
      {"checks": 2500, "shards": 2, "timeout": 300},
      {"checks": 20000, "shards": 16, "timeout": 1500}),
]
ASSUMPTIONS = [
    "NFSv4.0 locks: the single byte at offset 2^64-1 is not representable by the lock table (exclusive end 2^64-1 means 'to end of file'); ranges never start there and the model ignores that byte",
    "NFSv4.0 locks: a lock-owner is used with at most one open (open-owner) per file in LOCK requests (excluded inputs are counted); LOCKT may name any owner",
]

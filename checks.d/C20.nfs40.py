ID = "C20"
TESTS = [
    T("nfs40sim", "TestC20NFS40ByteRangeLocks",
      {"checks": 3000, "shards": 2, "timeout": 300},
      {"checks": 40000, "shards": 5, "timeout": 1500}),
    T("nfs40sim", "TestC20NFS40Regress.*",
      {"checks": 1, "shards": 1, "timeout": 120},
      {"checks": 1, "shards": 1, "timeout": 120}, plain=True),
]
ASSUMPTIONS = [
    "NFSv4.0 locks: the single byte at offset 2^64-1 is not representable by the lock table (exclusive end 2^64-1 means 'to end of file'); ranges never start there and the model ignores that byte",
    "NFSv4.0 locks: the lock table is keyed by lock-owner only, so when one lock-owner has lock state on a file through the opens of two open-owners, CLOSE (or expiry) of one of these opens frees all bytes of that lock-owner on the file (semantics of the fix db7d309, same as the NFSv4.1 program)",
    "NFSv4.0 locks: all client simulators use the same open-owner and lock-owner byte strings (oo0, oo1, lo0, lo1); owners are scoped by client ID (RFC 7530 9.1.1), so the model keys them by (client registration, bytes)",
    "NFSv4.0 locks: after every CLOSE, LOCKU, RELEASE_LOCKOWNER, SETCLIENTID_CONFIRM and every clock step or request after which a lease has run out (and twice in the final drain) the lock table of every file that ever carried a lock is read back with LOCKT: by an observer (a client of its own whose lock-owner never locks, so every lock conflicts with it; WRITE and READ) and by every lock-owner the model says holds bytes there (WRITE); units the model expects to be free of foreign locks are probed as maximal runs (one WRITE LOCKT succeeds iff the whole run is free), all others unit by unit. These LOCKTs are real requests: they enter the server (reclaiming what has expired) and renew the lease of the client they name, and the model accounts for that",
]

ID = "C18"
TESTS = [
    # Scripted: the first OPEN of a new open-owner parked inside VirtualOpenChild (before / after the directory acted), a
    # second request of the same open-owner (its next OPEN, or an identical retransmission) waiting behind it and held by
    # the harness's clock at the clock reading of enter() when it wakes up; then, before it reacquires the server: more than
    # a lease with the client renewing (open-owner forgotten, client alive), exactly a lease, a lease without renewal
    # (client gone), re-registration; then OPEN_CONFIRM and the final drain (no records, every file closed).
    T("nfs40sim", "TestC18NFS40Window.*",
      {"checks": 1, "shards": 1, "timeout": 120},
      {"checks": 1, "shards": 1, "timeout": 120}, plain=True),
]

ID = "C09"
TESTS = [
    # The C09 clause "a result only references blobs that are in the CAS; storage failures surface as an
    # error status" decided for the REAL LocalBuildExecutor / OutputHierarchy (harness/accache scripts the
    # base executor): per generated scenario every CAS Put/Get and every directory call of the upload
    # phase is failed once (Put also: context cancelled there).
    T("outputs", "TestC09ExecutorUploadFaults",
      {"checks": 250, "shards": 4, "timeout": 300},
      {"checks": 2500, "shards": 8, "timeout": 1500}),
    T("outputs", "TestC09OutputHierarchyUploadFaults",
      {"checks": 2500, "shards": 2, "timeout": 300},
      {"checks": 40000, "shards": 8, "timeout": 1500}),
]
ASSUMPTIONS = [
    "C09 executor part: LocalBuildExecutor.Execute and OutputHierarchy.UploadOutputs write to the CAS handed to them directly (the batching/flushing decorators are the accache part's business); a failing Put/Get stores/returns nothing and fails with a status drawn from 12 gRPC codes; a cancelled context makes the fake CAS, runner and build directory creator refuse every later call (gRPC client behaviour)",
    "C09 executor part: directory calls of the upload phase (Lstat, ReadDir, Readlink, Enter*, UploadFile) fail with a drawn gRPC status or EIO/EACCES/ENOSPC/ELOOP; ENOENT is never injected (documented as 'output absent', not a failure)",
    "C09 executor part: as the code documents ('Even when errors occur, the remainder of the output files is still uploaded'), a fault excuses exactly the entry whose upload it hit -- the file being uploaded, the output directory whose Tree/Directory message was refused, or the entry (with its subtree) whose Lstat/ReadDir/Readlink/Enter failed; the Tree of an enclosing output directory is then listed without that entry, with a non-OK status. Which Put belongs to which output is derived from the call sequence on the wrapped directory handles (UploadFile in progress; otherwise the last Lstat)",
    "C09 executor part: in the in-memory rig, when the fault-free run is OK the response carries the injected status code (first error wins, util.StatusWrap keeps the code); in the naive/virtual rigs only 'non-OK' is required",
    "C09 executor part: at most 48 fault positions per scenario (drawn subset beyond); Directory messages are stored in map order, so the k-th Put may name a different Directory blob in the repeated run (the oracle does not depend on which)",
]

ID = "C08"
CHECK = {
    "level": "exploration",
    "assumptions": [
        "the scheduler never sends an instance name suffix / digest function the worker cannot parse (the scheduler validated them when the client submitted the action)",
        "the scheduler never leaves desired_state unset in reply to a Completed report (InMemoryBuildQueue.completeTask always answers with the next task or Idle); such drawn replies are replaced by Idle and counted under excluded_by_generator",
        "BuildExecutor.Execute always returns a non-nil ExecuteResponse and sends progress updates with plain blocking sends (as every executor in pkg/builder does)",
        "a Synchronize call given an already cancelled context fails like a gRPC call would; an RPC error means the request may or may not have reached the scheduler",
        "harness process runs with GOMAXPROCS=1 so that the interleaving of Run with the executor goroutine is decided by the generated script (one generated yield point inside Timer.Stop)",
    ],
    "tests": [
        T("workerclient", "TestC08RunModel",
          {"checks": 80000, "shards": 2, "timeout": 300},
          {"checks": 600000, "shards": 12, "timeout": 1500}),
        T("workerclient", "TestC08WorkerThreadLoop",
          {"checks": 30000, "shards": 2, "timeout": 300},
          {"checks": 250000, "shards": 4, "timeout": 1500}),
    ],
}
META = {
    "text": "Generated search (rapid scripts inside testing/synctest bubbles) over scheduler reply sequences, executor progress/completion timings, readiness failures and shutdown instants against the real BuildClient.Run and LaunchWorkerThread; the oracle is a history model kept by the scripted scheduler and the instrumented executor (object identity of reported updates/responses, one Execute at a time, prefer_being_idle rules, may-terminate rule). Exploration only: no proof of absence.",
    "design_ref": "6/C08",
    "note": "Trusts the hand-written fakes (scripted OperationQueueClient, parking BuildExecutor, fake clock) and the history model of what the scheduler may believe; goroutine scheduling inside one Run call is fixed by GOMAXPROCS=1 plus one generated yield point; when a due timer and a pending update race in Run's select the update is taken (the other legal choice is reached by firing the timer before emitting). The loop test's back-off sleeps use LaunchWorkerThread's own unseeded generator, so its timings are not replayable bit for bit.",
    "technique": "stateful property-based testing (rapid) with harness-owned schedule and clock (testing/synctest) against a history model",
}

ID = "C08"
CHECK = {
    "level": "exploration",
    "assumptions": [
        "the scheduler never sends an instance name suffix / digest function the worker cannot parse (the scheduler validated them when the client submitted the action)",
        "the scheduler never leaves desired_state unset in reply to a Completed report (InMemoryBuildQueue.completeTask always answers with the next task or Idle); two thirds of such drawn replies are replaced by Idle and counted under excluded_by_generator, one third (drawn permission nil_to_completed) is sent as drawn: the request/executor oracles then apply unchanged (the worker must keep reporting Completed with the same response), but the 'missed the last provided next-sync by more than a minute' branch of the may-terminate oracle is not judged until the next valid execute/idle reply, because BuildClient then derives its one-minute bound from a synchronisation time it lowered itself (observation O1 in fakes_test.go, unreachable with replies a scheduler sends)",
        "BuildExecutor.Execute always returns a non-nil ExecuteResponse and sends progress updates with plain blocking sends (as every executor in pkg/builder does: localBuildExecutor and noopBuildExecutor return NewDefaultExecuteResponse(request) on every path, the decorators dereference response.Result without a nil test, and BuildClient.Run itself reads Completed.Status of the reported response; a nil response would be a caller bug that crashes the worker, so it is not generated)",
        "ASSUMPTION stricter than the property text, matches the current code: a reply whose next_synchronization_at is absent/invalid is discarded as a whole, so Execute must never start for the action such a reply carried (BuildClient.Run returns the timestamp error before looking at desired_state)",
        "ASSUMPTION stricter than the property text, matches the current code: one BuildClient.Run performs at most one Synchronize call (run_model hands out exactly one scripted reply per Run and reports a second call as a violation)",
        "freshness/completion oracle: when Run reaches its select with execution updates already buffered (or the channel closed), it takes them even if the synchronisation timer is also due, and reports the latest state ('Send a new update with the latest state, regardless of the next synchronization time', build_client.go Run). The fake clock of run_model fires timers only when the script says so, so the other outcome Go's select could pick with a real, already expired timer (report the previous state once more) is not generated for this oracle; in the loop test the demand is made only when the previous reply carried a next-sync strictly in the future, i.e. the timer cannot be due",
        "freshness/completion oracle: 'available at Run entry' is judged conservatively from outside: buffered items are counted with len() on the executor's end of the update channel at an instant where every goroutine is durably blocked; Completed is demanded only if Execute had returned and the buffer was not full (then the sending goroutine cannot be blocked, so Completed is in the buffer or was consumed before); with a full buffer only the newest progress update whose send completed is demanded",
        "loop test livelock backstop: 3000 Synchronize calls at one instant of bubble time are reported as a violation of the 'eventually returns after shutdown / keeps synchronizing' oracle (the unchanged worker issues at most a few dozen: one per zero-latency scripted reply plus one per batch of execution updates); without it a worker that spins at one bubble instant ends as an inconclusive real-time time-out instead of a violation",
        "a Synchronize call given an already cancelled context fails like a gRPC call would; an RPC error means the request may or may not have reached the scheduler",
        "harness process runs with GOMAXPROCS=1 so that the interleaving of Run with the executor goroutine is decided by the generated script (one generated yield point inside Timer.Stop)",
    ],
    "tests": [
        T("workerclient", "TestC08RunModel",
          {"checks": 80000, "shards": 2, "timeout": 300},
          {"checks": 600000, "shards": 12, "timeout": 1500}),
        T("workerclient", "TestC08WorkerThreadLoop",
          {"checks": 30000, "shards": 2, "timeout": 300},
          {"checks": 250000, "shards": 4, "timeout": 1500}),
    ],
}
META = {
    "text": "Generated search (rapid scripts inside testing/synctest bubbles) over scheduler reply sequences, executor progress/completion timings, readiness failures and shutdown instants against the real BuildClient.Run and LaunchWorkerThread; the oracle is a history model kept by the scripted scheduler and the instrumented executor (object identity of reported updates/responses, one Execute at a time, prefer_being_idle rules, may-terminate rule, freshness/completion rule: what had reached the update channel before Run looked at it - the newest buffered progress update, or Completed once Execute has returned - must be in the request). Exploration only: no proof of absence.",
    "design_ref": "6/C08",
    "note": "Trusts the hand-written fakes (scripted OperationQueueClient, parking BuildExecutor, fake clock) and the history model of what the scheduler may believe; goroutine scheduling inside one Run call is fixed by GOMAXPROCS=1 plus one generated yield point; when a due timer and a pending update race in Run's select the update is taken (the other legal choice is reached by firing the timer before emitting). The loop test's back-off sleeps use LaunchWorkerThread's own unseeded generator, so its timings are not replayable bit for bit.",
    "technique": "stateful property-based testing (rapid) with harness-owned schedule and clock (testing/synctest) against a history model",
}

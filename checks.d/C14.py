ID = "C14"
CHECK = {
    "level": "exploration",
    "assumptions": [
        "lock-leak search is single-threaded: a lock that cannot be try-locked while no call is in progress was leaked by the call just made; every call is issued only after all probes passed, so a leak is reported instead of deadlocking the next call",
        "a call that deadlocks against itself (double lock inside one call) shows as a time-out (inconclusive), not as a violation",
        "probes cover the mutex of every directory object the case has a reference to, fileBackedFile.lock of every pool-backed file created so far, and the NFS handle pool lock; locks of other packages are probed by their own harnesses",
        "same input restrictions as C13 (ASSUMPTION: no rename of a directory into its own subtree, which the code leaves to the kernel / NFS client; leaf I/O calls only on files opened with the matching share bit)",
        "calls probed in addition to C13's grammar: InstallHooks, VirtualApply (payload known / unknown to the fetcher) and VirtualSetAttributes on directories in every state (uninitialised, initialised, removed); on pool-backed files VirtualOpenSelf (also with O_TRUNC, on unlinked files, with share masks 0/4/7), VirtualRead, VirtualWrite, VirtualSeek, VirtualAllocate, VirtualSetAttributes (size, permissions, chown) and VirtualClose, each with a generated one-shot failure of the pool file underneath (ReadAt, WriteAt incl. short writes, Truncate, GetNextRegionOffset); every lock is probed after every single call",
    ],
    "tests": [
        T("vfsdir", "TestC14DirectoryLockLeak",
          {"checks": 2000, "shards": 4, "timeout": 300, "steps": 40},
          {"checks": 30000, "shards": 16, "timeout": 1500, "steps": 60}),
    ],
}
META = {
    "text": "Generated call histories over the real InMemoryPrepopulatedDirectory and its pool-backed files with injected failures (InitialContentsFetcher incl. colliding names, file allocator, file pool, pool file I/O, symlink factory), calls on removed and uninitialised directories, every bulk call, InstallHooks/VirtualApply/VirtualSetAttributes and every Leaf call; after every call every directory, file and handle-pool lock must be free (verif-tagged TryLock probes). Error returns reached are listed per (function, code). Exploration only: paths not reached are not covered.",
    "design_ref": "6/C14",
    "note": "Part (a) of DESIGN 6/C14 for package virtual's directory code. LockPile PBT (b) and concurrent stress (c) are separate part files. Trusts the TryLock probes in verif_hooks.go.",
    "technique": "stateful property testing (rapid) with fault injection and lock-free-at-quiescence probes after every call",
}

ID = "C14"
TESTS = [
    # NFSv4.1 server + opened files pool + NFS handle pool: TryLock probes after every request of the
    # general C18 history generator with injected VFS failures; a request that hangs on a leaked mutex
    # is reported by a real-time watchdog (VERIF-VIOLATION line).
    T("nfs41sim", "TestC14NFS41LocksReleased",
      {"checks": 3000, "shards": 2, "timeout": 300, "args": ["-rapid.shrinktime=15s"]},
      {"checks": 25000, "shards": 4, "timeout": 1500}),
]
ASSUMPTIONS = [
    "C14 for pkg/filesystem/virtual/nfsv4 (NFSv4.1 program, OpenedFilesPool) and the NFS handle pool: the locks are probed with the verif-tagged TryLock hooks at every quiescence of generated multi-client histories (all requests returned or parked inside leaf I/O / around VirtualOpenChild, where the program holds none of its locks); the lock of a client incarnation that has a request in flight is not probed by VerifStateCounts (the hook skips it) but by VerifClientLocksFree, which TryLocks the lock of every client incarnation after every request: the harness parks requests only inside VirtualRead/VirtualWrite and immediately before/after VirtualOpenChild, and a duplicate of an in-flight request waits on a channel after leaving the program lock, so no request that has not returned is inside a client incarnation lock at quiescence; a request that blocks on a mutex within its own step (before the next probe) is still reported by the 45 s real-time watchdog outside the synctest bubble",
    "C14/nfs41: error returns are reached through generated state-ID/file-handle/range deviations and one-shot injected failures (StatusErrIO, StatusErrAccess, StatusErrNoEnt) of VirtualOpenChild, VirtualOpenSelf, file allocation, VirtualRead, VirtualWrite and VirtualSetAttributes; the returns reached are listed as labels error_return:<operation>:<status>",
    "C14/nfs41: the busy mark of a session slot counts as an internal lock: a request refused by SEQUENCE (NFS4ERR_TOO_MANY_OPS for a COMPOUND with more operations than the granted ca_maxoperations) must leave its slot usable; every request that the harness did not park and that is not a duplicate of an in-flight request must have returned at the next quiescence (each runs in its own goroutine inside the bubble; one that waits on a channel forever is reported with the script, one that waits on a mutex by the 45 s watchdog)",
]

ID = "C14"
TESTS = [
    # NFSv4.1 server + opened files pool + NFS handle pool: TryLock probes after every request of the
    # general C18 history generator with injected VFS failures; a request that hangs on a leaked mutex
    # is reported by a real-time watchdog (VERIF-VIOLATION line).
    T("nfs41sim", "TestC14NFS41LocksReleased",
      {"checks": 3000, "shards": 2, "timeout": 300, "args": ["-rapid.shrinktime=15s"]},
      {"checks": 25000, "shards": 4, "timeout": 1500}),
]
ASSUMPTIONS = [
    "C14 for pkg/filesystem/virtual/nfsv4 (NFSv4.1 program, OpenedFilesPool) and the NFS handle pool: the locks are probed with the verif-tagged TryLock hooks at every quiescence of generated multi-client histories (all requests returned or parked inside leaf I/O / around VirtualOpenChild, where the program holds none of its locks); the lock of a client incarnation that has a request in flight is not probed by VerifStateCounts (the hook skips it), a leak there shows as a later request of that client that never returns, which a 45 s real-time watchdog outside the synctest bubble reports",
    "C14/nfs41: error returns are reached through generated state-ID/file-handle/range deviations and one-shot injected failures (StatusErrIO, StatusErrAccess, StatusErrNoEnt) of VirtualOpenChild, VirtualOpenSelf, file allocation, VirtualRead, VirtualWrite and VirtualSetAttributes; the returns reached are listed as labels error_return:<operation>:<status>",
]

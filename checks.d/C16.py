ID = "C16"
CHECK = {
    "level": "exploration",
    "assumptions": [
        "VirtualRead/VirtualWrite/VirtualAllocate/VirtualSeek/VirtualClose are only issued with a share bit the harness has opened and not yet closed (FUSE/NFS front ends guarantee it)",
        "Unlink is never called more often than links exist (documented panic)",
        "set-size/chmod/getattr/persistency are only issued while the file has a link or an open descriptor; a link/descriptor a blocked write/allocate/set-size goes through is not dropped before that call returned (front ends hold it for the duration of the call); such refused inputs are counted in excluded_by_generator",
        "an upload counts as a reference from the instant it freezes the file (after the documented wait for writers), as the code documents ('unlinked before uploading could start' -> NOT_FOUND)",
        "the pool file is an in-memory fake without holes; pool I/O faults are one-shot and only armed for the call that is being issued",
        "blocked mutating calls released together may run in any order (all permutations accepted)",
    ],
    "tests": [
        T("poolfile", "TestC16PoolFileLifetimeAndUpload",
          {"checks": 12000, "shards": 2, "timeout": 300},
          {"checks": 150000, "shards": 16, "timeout": 1500}),
    ],
}
META = {
    "text": "Generated search over histories and harness-owned schedules of one pool-backed file (raw, behind the FUSE and behind the NFS link-count decorator) against a reference model of references and bytes; no proof of absence. Interleavings are chosen by the generator at every point where the code can block (writers vs. frozen readers/uploads, upload vs. open writers and the delay channel, CAS Put parked before/in the middle of/after reading the blob).",
    "design_ref": "6/C16",
    "note": "Trusts testing/synctest quiescence detection, the in-memory pool-file and CAS fakes and the naive model; operations on a dead file other than link/open/upload/open-frozen/stat are not generated because no front end can issue them.",
    "technique": "stateful model-based property testing (rapid) with harness-owned schedules (testing/synctest), instrumented pool file and parking fake CAS",
}

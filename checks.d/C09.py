ID = "C09"
CHECK = {
    "level": "fault_enumeration",
    "assumptions": [
        "the executor stack is assembled by the harness in the order of cmd/bb_worker/main.go (base executor writing through the batched CAS writer -> StorageFlushingBuildExecutor -> CachingBuildExecutor over the global CAS and the AC); main.go itself is not executed, and the pass-through decorators between the two (timestamps, metrics, file pool stats, cost computing, test-infrastructure-failure detection) are left out",
        "the base executor is scripted: like LocalBuildExecutor it uploads every output through the writer it was given, attaches the first upload error to the response and only references blobs whose Put was acknowledged; its response always has a non-nil Result",
        "the status code of an injected error is drawn per fault from 12 gRPC codes (Unavailable, Internal, DeadlineExceeded, AlreadyExists, Aborted, ResourceExhausted, NotFound, PermissionDenied, Canceled without the context being cancelled, Unknown, FailedPrecondition, DataLoss): every failed back-end call counts as a failure whatever its code (an AC Put answered AlreadyExists stored nothing)",
        "a failing back-end call stores nothing (no 'written but acknowledgement lost' faults); after a context-cancellation fault every later call on that context fails with Canceled",
        "a third fault kind cancels the operation's context at a FindMissing / output Put while the back ends ignore contexts (the call, in-flight and later calls complete normally): nothing fails at the back end, so only the general oracles apply (flush success => every acknowledged blob stored; OK response / AC entry => every referenced blob stored; flush error => error status, not cached, nothing advertised)",
        "a failure of the historical-execute-response write or of the Action Cache write (both happen after a successful flush) must yield an error status and no cache entry, but is not required to clear output digests: they all exist in the CAS at that point, and the code only prunes on flush failure",
        "blob contents come from a pool of 8 small values (so duplicates and the empty blob are frequent); at most 9 uploads per action; upload concurrency 1-3",
    ],
    "tests": [
        T("accache", "TestC09PipelineFaults",
          {"checks": 6000, "shards": 2, "timeout": 300},
          {"checks": 35000, "shards": 8, "timeout": 1500}),
        T("accache", "TestC09BatchedStoreFlush",
          {"checks": 8000, "shards": 2, "timeout": 300},
          {"checks": 80000, "shards": 8, "timeout": 1500}),
    ],
}
META = {
    "text": "Generated action outcomes and output sets are run through the real batched-store / storage-flushing / caching executors over fake CAS and AC back ends; for every generated scenario every fallible back-end call (FindMissing, CAS Put, AC Put) is failed once with an error (status code drawn per fault), once by cancelling the context, and (FindMissing / output Put) once by cancelling the context while the back ends ignore the cancellation, so fault positions are exhaustive per scenario while scenarios are sampled. The batched store alone is additionally explored as a state machine with randomly armed faults. No proof of absence over scenarios.",
    "design_ref": "6/C09",
    "note": "Trusts the hand-written fake CAS/AC (digest-verifying, recording, with per-call fault plans), the scripted base executor as a stand-in for LocalBuildExecutor, and the harness' copy of the decorator order of cmd/bb_worker/main.go.",
    "technique": "per-scenario exhaustive fault enumeration inside property-based generation (rapid), plus a model-based state machine for the batched store",
}

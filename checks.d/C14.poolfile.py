ID = "C14"
TESTS = [
    T("poolfile", "TestC14PoolFileLocksReleased",
      {"checks": 2500, "shards": 2, "timeout": 300},
      {"checks": 40000, "shards": 6, "timeout": 1500}),
    T("poolfile", "TestC14NFSHandleResolveTerminates",
      {"checks": 3000, "shards": 2, "timeout": 300},
      {"checks": 60000, "shards": 4, "timeout": 1500}),
]
ASSUMPTIONS = [
    "C14 NFS file handle resolution (nfs_handle_allocator.go): the HandleResolvers are the repository's own (resolvable CAS file factory, character device factory); a resolve that does not return is judged by a stall watchdog whose goroutine dump must show the call blocked in sync.RWMutex inside nfs_handle_allocator.go (no progress during 20 on-time one-second ticks), anything else is inconclusive",
    "C14 pool-backed files (pool_backed_file_allocator.go, nfs_handle_allocator.go): the state machine of C16 judged for locks: one file per case, raw or behind the FUSE / NFS stateful handle allocator; one-shot pool I/O faults and CAS failures are the failing calls; 'lock' covers the file's mutex and its frozen state (mutating calls wait while an upload or frozen reader holds the file, so a failed upload that stays 'frozen' blocks later calls on the same file for ever); the verdict 'blocked for ever' is synctest's (nothing in the bubble can run)",
]

ID = "C19"
TESTS = [
    # Fixed scripts for COMPOUNDs under SEQUENCE that end at an operation NFSv4.1 does not have (RENEW,
    # OPEN_CONFIRM, SETCLIENTID, SETCLIENTID_CONFIRM, RELEASE_LOCKOWNER, literal OP_ILLEGAL): retransmission,
    # duplicate of the in-flight original, false retries in both directions of the OP_ILLEGAL exemption of
    # the shape rule. The generated counterpart lives in TestC19NFS41ExactlyOnce (action illegal_op).
    T("nfs41sim", "TestC19IllegalOpRegress.*",
      {"checks": 1, "shards": 1, "timeout": 120},
      {"checks": 1, "shards": 1, "timeout": 120}, plain=True),
]
ASSUMPTIONS = [
    "nfs41illegal: an operation that NFSv4.1 does not have is answered with result opcode OP_ILLEGAL and NFS4ERR_OP_ILLEGAL (RFC 8881 15.2/18, the default branch of the operation switch of opSequence and the upstream SETCLIENTID-under-SEQUENCE test); for the five NFSv4.0-only operations (result opcode of the operation, NFS4ERR_NOTSUPP) is accepted as well, which the error table of RFC 8881 lists for operations that are mandatory to not implement",
]

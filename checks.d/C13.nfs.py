ID = "C13"
TESTS = [
    T("nfsfront", "TestC13NFSFrontEndModel",
      {"checks": 500, "shards": 4, "timeout": 300, "steps": 40},
      {"checks": 5000, "shards": 8, "timeout": 1500, "steps": 60},
      env={"GOMAXPROCS": "2", "GOGC": "400"}),
    T("nfsfront", "TestC13NFS41FrontEndModel",
      {"checks": 500, "shards": 4, "timeout": 300, "steps": 40},
      {"checks": 5000, "shards": 8, "timeout": 1500, "steps": 60},
      env={"GOMAXPROCS": "2", "GOGC": "400"}),
]
ASSUMPTIONS = [
    "nfs: one client that follows the protocol: SETCLIENTID/SETCLIENTID_CONFIRM (4.0) resp. EXCHANGE_ID/CREATE_SESSION/RECLAIM_COMPLETE and one slot with consecutive sequence IDs (4.1); one open-owner, OPEN_CONFIRM when asked for, open-owner sequence IDs advance as RFC 7530 9.1.7 says; at most one file open at a time, opens are short (OPEN, optional WRITE/READ, optionally one directory operation, CLOSE); on NFSv4.0 the open-owner's next transaction follows every CLOSE (the state retained for replaying the CLOSE, which keeps an unlinked file's handle resolvable, is C18's subject: until then PUTFH of such a handle may answer OK or STALE); the clock does not move, so no lease expires",
    "nfs: PUTFH only with handles that an earlier reply contained (GETFH or the filehandle attribute), READDIR cookies only ones an earlier READDIR of the same directory returned (never the reserved 1 and 2), maxcount >= 16; READ/WRITE with the open state ID only as the open mode allows, otherwise the anonymous state ID on regular files",
    "nfs: a directory is never renamed into its own subtree (counted in excluded_by_generator); CREATE attributes are empty; symlink targets are relative UNIX paths",
    "nfs: where RFC 7530/8881 and the tree's POSIX answer differ both are accepted: RENAME onto an incompatible or non-empty target (ISDIR/NOTDIR/NOTEMPTY or EXIST), LOOKUPP of a non-root directory (documented as unimplemented: NOENT, or the parent), zero-length new name of RENAME (BADNAME or INVAL), READLINK of a non-symlink (INVAL or WRONG_TYPE), CREATE of a device node (PERM, BADTYPE or NOTSUPP, or EXIST/NOENT when those apply as well), OPEN/READ/WRITE of a FIFO or socket (SYMLINK as the code documents, INVAL or WRONG_TYPE), LINK of an unlinked leaf to an existing name (EXIST or STALE); NFSv4.1 OPEN EXCLUSIVE4 answers INVAL and NFSv4.0 EXCLUSIVE4 behaves like GUARDED4 (both documented in the programs)",
    "nfs: READDIR entries attached after the cookie was handed out may or may not be reported; everything that existed since then must be reported exactly once; a cookie stays attached to its entry (anchor: cookie is the change counter value at attach time); directories report numlinks ImplicitDirectoryLinkCount, symlinks are stateless leaves shared per target with numlinks StatelessLeafLinkCount (NFS handle allocator)",
    "nfs: file contents live in a trivially correct in-memory FilePool; sizes: names a-e (profile small: <= 6 live directories, depth <= 3, <= 14 entries) or w00-w15 (profile wide: 12-16 entries in the root, <= 8 directories, depth <= 2, <= 26 entries), READDIR pages from 1 entry to all, files up to ~16 bytes",
]

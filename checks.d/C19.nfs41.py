ID = "C19"
TESTS = [
    T("nfs41sim", "TestC19NFS41ExactlyOnce",
      {"checks": 5000, "shards": 2, "timeout": 300, "args": ["-rapid.shrinktime=15s"]},
      {"checks": 30000, "shards": 5, "timeout": 1500}),
    T("nfs41sim", "TestC19Regress.*",
      {"checks": 1, "shards": 1, "timeout": 120},
      {"checks": 1, "shards": 1, "timeout": 120}, plain=True),
]
ASSUMPTIONS = [
    "nfs41: 'content differs' (NFS4ERR_SEQ_FALSE_RETRY required) is asserted only for differences in the number or types of the operations covered by the cached reply, which is what the code and the upstream FalseRetries tests document as checked; a retry that differs in arguments only must be answered with that error or with the original's cached reply, and must never execute",
    "nfs41: a retransmission of a request sent without sa_cachethis may be answered either byte-identically or with the documented NFS4ERR_RETRY_UNCACHED_REP form (original SEQUENCE result + second operation failing with that status)",
]

ID = "C19"
TESTS = [
    T("nfs41sim", "TestC19NFS41ExactlyOnce",
      {"checks": 3500, "shards": 3, "timeout": 300, "args": ["-rapid.shrinktime=15s"]},
      {"checks": 30000, "shards": 5, "timeout": 1500}),
    T("nfs41sim", "TestC19Regress.*",
      {"checks": 1, "shards": 1, "timeout": 120},
      {"checks": 1, "shards": 1, "timeout": 120}, plain=True),
]
ASSUMPTIONS = [
    "nfs41: RFC 8881 2.10.6.1.3.1 only obliges the server to detect a false retry where it can; slot sequence IDs start at 1 in every new session and cannot be chosen by the client, so their wrap-around (2^32 requests on one slot) is reached through the verif-tagged hook VerifSetSlotSequenceID: it sets the last processed sequence ID of an idle slot to 2^32-3..2^32-1 or 0 and discards the slot's cached reply, i.e. it leaves the slot as 2^32 well-formed requests without a retained reply would (the model expects NFS4ERR_SEQ_MISORDERED for a retransmission of that sequence ID, as for a fresh slot); likewise the seqid of a live state ID of a client without a request in flight is placed at 2^32-3..2^32-1 through VerifSetStateIDSeqID; the CREATE_SESSION sequence ID is drawn by the server from its random number generator, which the harness owns: it is made to start at 2^32-3..2^32-1 and 0 so that CREATE_SESSION, its replay and the misordered variants straddle the wrap-around",
    "nfs41: 'content differs' (NFS4ERR_SEQ_FALSE_RETRY required) is asserted only for differences in the number or types of the operations covered by the cached reply, which is what the code and the upstream FalseRetries tests document as checked; a retry that differs in arguments only must be answered with that error or with the original's cached reply, and must never execute",
    "nfs41: a COMPOUND under SEQUENCE that reaches an operation NFSv4.1 does not have (RENEW, OPEN_CONFIRM, SETCLIENTID, SETCLIENTID_CONFIRM, RELEASE_LOCKOWNER, literal OP_ILLEGAL) must end there with result opcode OP_ILLEGAL and NFS4ERR_OP_ILLEGAL (RFC 8881 15.2/18, the default branch of the operation switch of opSequence, the upstream SETCLIENTID-under-SEQUENCE test; for the five NFSv4.0-only operations the pair <operation>/NFS4ERR_NOTSUPP of the RFC 8881 error table is accepted as well); its reply is a reply like any other for retransmissions and in-flight duplicates; for false retries the documented exemption applies: a retained OP_ILLEGAL result fits any requested operation at its position (so a retry that differs only there or behind it gets NFS4ERR_SEQ_FALSE_RETRY or the retained reply), whereas a requested OP_ILLEGAL/NFSv4.0-only operation fits no retained result of another type (NFS4ERR_SEQ_FALSE_RETRY required)",
    "nfs41: a retransmission of a request sent without sa_cachethis may be answered either byte-identically or with the documented NFS4ERR_RETRY_UNCACHED_REP form (original SEQUENCE result + second operation failing with that status)",
]

ID = "C14"
TESTS = [
    # Fixed script: a COMPOUND with more operations than ca_maxoperations is refused with NFS4ERR_TOO_MANY_OPS
    # and leaves nothing behind on its slot (retransmission refused again, other slots go on, the next request
    # with the same sequence ID executes, parks, is duplicated, retained and replayed). The generated
    # counterpart lives in the nfs41sim histories (actions too_many_ops, max_ops).
    T("nfs41sim", "TestC14TooManyOpsRegress.*",
      {"checks": 1, "shards": 1, "timeout": 120},
      {"checks": 1, "shards": 1, "timeout": 120}, plain=True),
]
ASSUMPTIONS = [
    "nfs41limits: ca_maxoperations is the only negotiated session limit the NFSv4.1 program polices (it contains no NFS4ERR_REQ_TOO_BIG / NFS4ERR_REP_TOO_BIG / NFS4ERR_REP_TOO_BIG_TO_CACHE); a COMPOUND with more operations than the CREATE_SESSION reply granted, sent with the slot's next sequence ID, must be refused by SEQUENCE with NFS4ERR_TOO_MANY_OPS as its only result (RFC 8881 18.36.3, 18.46.3), executes nothing and does not consume the slot's sequence ID; the reply the slot retained for the previous sequence ID may be discarded at that moment (what the code documents) or kept, so a retransmission of the previous request is answered NFS4ERR_SEQ_MISORDERED or from the cache, never executed",
]

ID = "C16"
TESTS = [
    T("poolfile", "TestC16HandoverWakeups",
      {"checks": 3000, "shards": 2, "timeout": 300},
      {"checks": 40000, "shards": 4, "timeout": 1500}),
]
ASSUMPTIONS = [
    "handover sub-check: two calls are started before one synctest.Wait; which of them reaches the file's lock first is steered by rapid draws (spawn order; a chmod parked inside the default-attributes setter, i.e. while fileBackedFile holds its lock, behind which both calls queue up) and, in one case out of six, left to the Go scheduler with the default GOMAXPROCS. The steering relies on scheduler behaviour (GOMAXPROCS=1: a goroutine readied last runs first) only for COVERAGE of both orders (labels handover_*_recheck / *_mutators_first / *_waiter_got_file show a starved order); the verdict is a validity predicate that accepts every order and uses event stamps from one atomic counter, so it does not depend on the schedule",
    "handover sub-check: an upload / frozen open that stops waiting for writers WITH a writable descriptor still open must have had its delay channel closed; observed through the code's own counter buildbarn_virtual_pool_backed_file_allocator_writable_file_upload_delay_timeouts_total, whose help text documents exactly this ('... while one or more writable file descriptors were present, due to the maximum permitted delay being reached'); the collector is obtained from the default prometheus registry by registering an identical descriptor (AlreadyRegisteredError.ExistingCollector). If the help text or name changes the probe reports 'unknown', the oracle is skipped and every case is labelled metrics_probe_unavailable",
]

ID = "C14"
TESTS = [
    T("lockpile", "TestC14LockPileSchedules",
      {"checks": 8000, "shards": 2, "timeout": 300},
      {"checks": 120000, "shards": 8, "timeout": 1500}),
]
ASSUMPTIONS = ["C14(b): LockPile is exercised over instrumented TryLockers; the interleaving of lock operations is generated, the algorithm itself is the real pkg/sync code"]

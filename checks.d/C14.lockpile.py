ID = "C14"
TESTS = [
    T("lockpile", "TestC14LockPileSchedules",
      {"checks": 8000, "shards": 2, "timeout": 300},
      {"checks": 120000, "shards": 8, "timeout": 1500}),
]
ASSUMPTIONS = ["C14(b): LockPile is exercised over instrumented TryLockers; the interleaving of lock operations is generated, the algorithm itself is the real pkg/sync code"]
TESTS.append(
    # race=True: built with the Go race detector (a data race between two concurrent calls fails the test).
    T("vfsdir", "TestC14DirectoryConcurrentStress",
      {"checks": 1000, "shards": 3, "timeout": 600},
      {"checks": 10000, "shards": 4, "timeout": 2400},
      race=True))
ASSUMPTIONS.append("C14(c): concurrent stress uses the Go scheduler's interleavings (not generated, not replayable bit-for-bit); only a confirmed mutex cycle or leaked lock (no operation completed between two goroutine dumps 2 s apart and every unfinished thread parked in sync.Mutex/RWMutex) is a violation; other time-outs, in particular threads that are still runnable (a livelock cannot be told from slow progress without owning the schedule), are inconclusive")
ASSUMPTIONS.append("C14(c): the stress threads play a kernel: the fixed directories a/b/c are moved to another parent only under a rename mutex and after an ancestor check (Linux s_vfs_rename_mutex), they keep their names, and no other directory is ever a rename target directory, so no call can move a directory into its own subtree; InstallHooks is not called concurrently with other calls (callers install hooks before a directory is exposed)")
ASSUMPTIONS.append("C14(c): named attributes in the stress (kinds xattrSet / xattrList / xattrRemove: OPENATTR on a child file or directory, then create+write+close, list+read, remove of an attribute value) are only issued under the NFS handle allocator (the FUSE front end has no OPENATTR); both trees are wired with the in-memory named attributes factory as virtual_build_directory.go InstallHooks() does")

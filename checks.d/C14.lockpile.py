ID = "C14"
TESTS = [
    T("lockpile", "TestC14LockPileSchedules",
      {"checks": 8000, "shards": 2, "timeout": 300},
      {"checks": 120000, "shards": 8, "timeout": 1500}),
]
ASSUMPTIONS = ["C14(b): LockPile is exercised over instrumented TryLockers; the interleaving of lock operations is generated, the algorithm itself is the real pkg/sync code"]
TESTS.append(
    T("vfsdir", "TestC14DirectoryConcurrentStress",
      {"checks": 1500, "shards": 2, "timeout": 600},
      {"checks": 20000, "shards": 4, "timeout": 2400}))
ASSUMPTIONS.append("C14(c): concurrent stress uses the Go scheduler's interleavings (not generated, not replayable bit-for-bit); only a confirmed mutex cycle (two identical goroutine dumps) is a violation, other time-outs are inconclusive")

ID = "C13"
TESTS = [
    T("fusefront", "TestC13FUSEFrontEndModel",
      {"checks": 1200, "shards": 4, "timeout": 300, "steps": 40},
      {"checks": 8000, "shards": 8, "timeout": 1500, "steps": 60}),
]
ASSUMPTIONS = [
    "fuse: the harness plays a kernel that follows the FUSE protocol: only node IDs from entry replies (LOOKUP/MKDIR/MKNOD/SYMLINK/CREATE/LINK/READDIRPLUS) are used, FORGET counts never exceed the lookups received, a node ID is not used after its last lookup was forgotten, a node with an open handle is never forgotten completely, every handle is released exactly once, READ/LSEEK only on handles opened for reading resp. WRITE/FALLOCATE for writing, OPEN/READ/WRITE only on regular files, READLINK only on symlinks, no SETATTR on symlinks and no size change on anything but regular files, RENAME flags are 0, a directory is never renamed into its own subtree; the one deliberate deviation is the read-only GETATTR probe of forgotten node IDs at the very end of a case (the front end documents a panic for unknown node IDs)",
    "fuse: READDIR offsets sent on a directory handle are 0 or offsets returned earlier on the same handle",
    "fuse: where POSIX and Linux disagree or the code's choice is not specified (UNLINK of a directory: EPERM/EISDIR; MKNOD of a refused type on an existing name: EPERM/EEXIST/ENOENT; CREATE on an existing FIFO/socket/symlink: any error) a set of statuses is accepted; chown is answered EPERM as the tree's own tests document",
    "fuse: symlinks are stateless leaves under the FUSE handle allocator (inode number a function of the target, constant link count 9999); LINK of a symlink node ID that stands for several symlink objects is not generated",
    "fuse: FilterChildren is not generated over subtrees that hold a hidden file (whether those are reported to the filter is not documented); InitialContentsFetchers and the file pool never fail here (vfsdir covers injected failures)",
    "fuse: the in-memory FilePool has no holes inside files (SEEK_DATA/SEEK_HOLE answers follow from that); sizes: names from {a,b,A,c,.hidden}, at most 6 live directories, 4 file handles, 3 directory handles, READDIR buffers of 1-3 entries, files up to ~48 bytes",
]

ID = "C04"
CHECK = {
    "level": "exploration",
    "assumptions": [
        "one generated action per step with quiescence (testing/synctest) after each; workers report completion and ask for work in separate calls so that the queue contents before each request are known exactly",
        "the reference model reads the queue contents (queued operations, executing workers, last-started times) from the read-only snapshot hook taken right before the request; the decision itself is observed through the Synchronize response",
        "scores tied within 1e-9 relative (different priorities) are treated as ties: every tied candidate is accepted",
        "direct hand-off resets all stickiness windows of the worker (as the code does); the documentation does not say otherwise",
    ],
    "tests": [
        T("schedsim", "TestC04FairOrder",
          {"checks": 1500, "shards": 4, "timeout": 600},
          {"checks": 25000, "shards": 12, "timeout": 3000}),
        T("schedsim", "TestC04StickinessWindows",
          {"checks": 1500, "shards": 4, "timeout": 600},
          {"checks": 25000, "shards": 12, "timeout": 3000}),
        T("schedsim", "TestC04NoTaskQueuedWhileWorkerWaits",
          {"checks": 1500, "shards": 2, "timeout": 600},
          {"checks": 25000, "shards": 12, "timeout": 3000}),
        T("schedsim", "TestC04Regress.*",
          {"checks": 1, "shards": 1, "timeout": 120},
          {"checks": 1, "shards": 1, "timeout": 120}, plain=True),
    ],
}
META = {
    "text": "Generated search over scheduler histories with an independent reference model of the documented fair-scheduling policy that yields the set of acceptable tasks for every request for work; the task actually handed out must be in that set. Thousands of decisions per run, >90% with a singleton acceptable set; no proof of absence, starvation freedom over unbounded time only sampled.",
    "design_ref": "6/C04",
    "note": "Only pure 'ask for work' calls are validated (completion and pick in one call are not); queue contents come from the verif snapshot hook; near-ties accept several answers.",
    "technique": "model-based property testing (rapid) with a reference fair-queue model computing acceptable-choice sets; validity predicate over each Synchronize response",
}

ID = "C18"
TESTS = [
    T("nfs41sim", "TestC18NFS41StateAccounting",
      {"checks": 3500, "shards": 3, "timeout": 300, "args": ["-rapid.shrinktime=15s"]},
      {"checks": 30000, "shards": 5, "timeout": 1500}),
    T("nfs41sim", "TestC18Regress.*",
      {"checks": 1, "shards": 1, "timeout": 120},
      {"checks": 1, "shards": 1, "timeout": 120}, plain=True),
]
ASSUMPTIONS = [
    "nfs41: leaves are instrumented in-memory files of the harness (counting opens/closes per share bit, parking inside VirtualRead/VirtualWrite) underneath the real NFS handle allocator decorator; the root directory is the real in-memory prepopulated directory behind a decorator that parks before/after the real VirtualOpenChild (outside the directory lock)",
    "nfs41: lease expiry is modelled exactly as documented by the code: an incarnation is reclaimed by the first call that enters the program more than the lease time after its last renewal (completion of its last SEQUENCE compound / successful CREATE_SESSION / EXCHANGE_ID that created it) while none of its compounds is in flight",
    "nfs41: injected VFS failures are one-shot and fail the call before the fake has done anything (a failed VirtualOpenSelf/VirtualOpenChild/file allocation has not opened or created the file; a failed VirtualRead/VirtualWrite/VirtualSetAttributes has not changed it), which is the contract the real pool-backed files follow",
    "nfs41: OPEN(CLAIM_PREVIOUS) by an open-owner that has open state for the file with delegate type NONE may be granted as a further OPEN of that owner (what the code documents) or refused; in every other case it must be refused with NFS4ERR_RECLAIM_BAD or NFS4ERR_NO_GRACE (the server has no grace period); the four delegation claims and share_deny != NONE must be refused (any of the statuses the code or RFC 8881 18.16 name) with leaf counters, file count, root change ID and state record counts unchanged",
    "nfs41: PUTFH of a file that is neither linked nor open is expected to fail with NFS4ERR_STALE: the property text only requires reachability while open; NFS4ERR_STALE afterwards is what the wired NFSStatefulHandleAllocator.ResolveHandle and OpenedFilesPool.Resolve document for a handle they no longer track",
    "nfs41: state-ID 'other' values are only unique per client incarnation, so a foreign state ID is judged in the requesting client's own namespace (RFC 8881 8.2.4)",
    "nfs41: the seqid of a state ID can only reach its wrap-around through 2^32 state-changing operations; the verif-tagged hook VerifSetStateIDSeqID places the seqid of a live open or lock state ID at 2^32-3..2^32-1 while no request of that client is in flight and changes nothing else; from there the model follows what the code documents: incrementSeqID goes from 2^32-1 to 1 (RFC 8881 8.2.2: zero is reserved for 'most recent'), nfs41CompareStateSeqID judges old/future by 32 bit serial-number arithmetic (a seqid the state ID had up to 2^31 bumps ago => NFS4ERR_OLD_STATEID, one it will have => NFS4ERR_BAD_STATEID)",
]

ID = "C18"
TESTS = [
    T("nfs41sim", "TestC18NFS41StateAccounting",
      {"checks": 5000, "shards": 2, "timeout": 300, "args": ["-rapid.shrinktime=15s"]},
      {"checks": 30000, "shards": 5, "timeout": 1500}),
    T("nfs41sim", "TestC18Regress.*",
      {"checks": 1, "shards": 1, "timeout": 120},
      {"checks": 1, "shards": 1, "timeout": 120}, plain=True),
]
ASSUMPTIONS = [
    "nfs41: leaves are instrumented in-memory files of the harness (counting opens/closes per share bit, parking inside VirtualRead/VirtualWrite) underneath the real NFS handle allocator decorator; the root directory is the real in-memory prepopulated directory behind a decorator that parks before/after the real VirtualOpenChild (outside the directory lock)",
    "nfs41: lease expiry is modelled exactly as documented by the code: an incarnation is reclaimed by the first call that enters the program more than the lease time after its last renewal (completion of its last SEQUENCE compound / successful CREATE_SESSION / EXCHANGE_ID that created it) while none of its compounds is in flight",
    "nfs41: state-ID 'other' values are only unique per client incarnation, so a foreign state ID is judged in the requesting client's own namespace (RFC 8881 8.2.4)",
]

ID = "C13"
TESTS = [
    T("vfsdir", "TestC13WideListings",
      {"checks": 800, "shards": 4, "timeout": 300, "steps": 50},
      {"checks": 4000, "shards": 8, "timeout": 1500, "steps": 70}),
]
ASSUMPTIONS = ["C13 wide listings: 16 names, one directory filled to 12-16 entries, listing page sizes 1-8 and 'all', at most 4 open listings; otherwise the generator restrictions of directory_model apply"]

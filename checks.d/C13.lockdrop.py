ID = "C13"
TESTS = [
    T("vfsdir", "TestC13LockDropWindows",
      {"checks": 1500, "shards": 2, "timeout": 600},
      {"checks": 8000, "shards": 8, "timeout": 2400}),
]
ASSUMPTIONS = ["C13 lock-drop windows: real goroutines; whether the call under test was already waiting for the pinned child lock when the mutation ran depends on a 2 ms grace period, which only affects which of the allowed outcomes occurs (never a false alarm)"]

ID = "C11"
TESTS = [
    T("susclock", "TestC11WiredExecutor",
      {"checks": 6000, "shards": 2, "timeout": 300},
      {"checks": 40000, "shards": 16, "timeout": 1200}),
]
ASSUMPTIONS = [
    "wired mode: the stalls during the run are real calls through NewSuspendingBlobAccess / NewSuspendingDirectoryFetcher / NewJoinedSuspendable "
    "on the SuspendableClock that LocalBuildExecutor's execution timeout uses (as cmd/bb_worker wires them); the backend behind the decorators "
    "is a fake whose call, or the stream of the buffer it returned, blocks until the harness releases the answer at a generated tick; the reader "
    "finishes the buffer (exactly once) in the instant the answer is released, so suspension intervals are exactly the generated ones",
    "stream-parked Gets are consumed only by operations that read up to the stall (ToByteSlice, ToProto, IntoWriter, ReadAt, ToReader/ToChunkReader "
    "read to the end), and a failing stream fails at or after the stall position, so that the transfer cannot end before the stall",
    "the context handed to Execute() may be cancelled at any instant, also before Execute() creates the run context; the fake runner answers a "
    "cancelled context like a gRPC client stub (status CANCELLED), which is what the response must then carry unless an I/O error was logged",
]

ID = "C11"
TESTS = [
    T("susclock", "TestC11ContendedOutcome",
      {"checks": 700, "shards": 4, "timeout": 300},
      {"checks": 3000, "shards": 8, "timeout": 1800}),
]
ASSUMPTIONS = [
    "C11 contended outcome: Suspend()/Resume() of concurrent storage reads may hold the clock's lock at the instant a run context ends, and a base clock's Now() may take a while; the waiters read Err() and Value(UnsuspendedDurationKey{}) immediately after Done(), as LocalBuildExecutor.Execute() and the runner client do. Real goroutines on real time: the schedule is the Go runtime's (each script is executed several times); every oracle is a validity predicate that holds in every schedule (no elapsed-time verdicts: only 'duration <= wall time between creation and wake-up' and 'suspended throughout => not before timeout + maximum compensation', both lower bounds on wall time that load can only make easier to satisfy)",
]

ID = "C19"
TESTS = [
    # Scripted: the first OPEN of a new open-owner spends two lease periods inside VirtualOpenChild (parked before / after
    # the directory acted); its retransmission right after the reply, and another one a lease period later, must get the
    # cached reply (the open-owner's idle period starts when the transaction completes); a retransmission that waited behind
    # the slow OPEN and is held at the clock reading of enter() for exactly a lease must get the original's reply as well.
    T("nfs40sim", "TestC19NFS40Window.*",
      {"checks": 1, "shards": 1, "timeout": 120},
      {"checks": 1, "shards": 1, "timeout": 120}, plain=True),
]

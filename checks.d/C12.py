ID = "C12"
CHECK = {
    "level": "fault_enumeration",
    "assumptions": [
        "IdleInvoker.Release is only called by a thread that holds an acquisition (Release on a zero use count is documented misuse and panics by design); never generated",
        "the scheduler never runs the same cacheable action digest twice concurrently on one worker (mayBeRunInParallel=false => digest-named directory); the generator picks another digest instead and counts the exclusion",
        "distinct action digests differ in their first 16 hex characters (documented as 'more than sufficient to prevent collisions')",
        "a waiter's context is only cancelled while it really waits for a cleaning; the context of the call that runs the cleaner is not cancelled (outcome not documented)",
        "the Cleaner receives a context derived from the caller's (used only to attribute a cleaner call to a thread; an untagged call yields INCONCLUSIVE, not a violation)",
        "the build directory is an in-memory fake of builder.BuildDirectory whose root Mkdir fails with EEXIST on an existing name, RemoveAll removes the whole subtree, and a successful cleaning empties the root (what cleaner.NewDirectoryCleaner does)",
        "fallible directory calls of concurrently runnable threads are released one at a time (lowest or highest thread first, generated); at most two faults per run (one generated background fault plus the enumerated one)",
        "in the isolation sub-checks LocalBuildExecutor's deferred buildDirectory.Close() (anchor local_build_executor.go:178-192) is taken as given (that the real Execute() closes the build directory exactly once on every exit path, and asks for a digest-less directory iff do_not_cache, is decided separately by the executor part, TestC12ExecutorBuildDirectoryLifecycle): the harness always calls Close exactly once per successful GetBuildDirectory, also after cancelling the action's context",
    ],
    "tests": [
        T("isolation", "TestC12IdleInvokerSchedules",
          {"checks": 30000, "shards": 2, "timeout": 300},
          {"checks": 250000, "shards": 4, "timeout": 1500}),
        T("isolation", "TestC12BuildDirectoryCreators",
          {"checks": 2000, "shards": 4, "timeout": 300},
          {"checks": 15000, "shards": 8, "timeout": 1500}),
        T("isolation", "TestC12CleanRunner",
          {"checks": 30000, "shards": 2, "timeout": 300},
          {"checks": 250000, "shards": 4, "timeout": 1500}),
    ],
}
META = {
    "text": "Generated thread schedules (harness-owned through testing/synctest and a parked, fallible cleaner) against the real IdleInvoker, the real Shared(Clean(Root)) build directory creator stack and the real CleanRunner. For the creator stack every fallible call position of every generated scenario is failed once (fault enumeration: exhaustive per scenario for single faults on top of an optional generated background fault, random over scenarios). Search, not proof: schedules are explored at the granularity of blocking points (cleaner, base runner, fallible directory calls), 2-4 threads.",
    "design_ref": "6/C12",
    "note": "Trusts the in-memory BuildDirectory fake, the idle/busy automaton transcribed from the property text, and that LocalBuildExecutor closes every directory it obtained. Interleavings inside the IdleInvoker's mutex-protected sections are left to the Go scheduler (GOMAXPROCS>1), not enumerated.",
    "technique": "stateful property-based testing (rapid) with synctest-owned schedules, reference model + event-log automaton, per-scenario fault enumeration",
}

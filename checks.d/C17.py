ID = "C17"
# Single-threaded search per shard: two OS threads and a relaxed GC keep the
# shards from fighting each other (and other checks) for cores.
ENV = {"GOMAXPROCS": "2", "GOGC": "400"}
CHECK = {
    "level": "fault_enumeration",
    "assumptions": [
        "the fake CAS (hand-written blobstore.BlobAccess) hands out bb-storage CAS buffers that verify size and checksum, like a remote storage backend; storage faults are one-shot (error, corrupted bytes, truncated bytes, NOT_FOUND) on a chosen read; for file blobs additionally an object that lost its tail served through a NON-validating buffer (buffer.NewValidatedBufferFromReaderAt, as local file/block device storage does): a read of a CAS-backed file must then return exactly the digest's bytes or an error status",
        "naiveBuildDirectory: an object served short through a non-validating buffer is not an input (no fetcher can notice); cancellation of the caller's context is injected when a chosen file download starts, or with the last downloads held in flight once all have started, against a fake CAS that honours the context; with the hard link cache only 'cancel when download #k starts' with k below the number of distinct (digest, executable) pairs is used (requests served from the cache or waiting for somebody else's download never reach the CAS, and a held download makes the other requests for the same file wait while occupying download slots), and a second merge with a live context follows",
        "naiveBuildDirectory: the harness plays the action on the real directory as root, so permission bits are asserted (no write bit on any input file in a build directory or on any entry of the hard link cache: cas.NewBlobAccessFileFetcher creates them 0444/0555 and HardlinkingFileFetcher shares them as hard links) instead of attempting writes; an action is modelled as being able to unlink, replace (unlink + create, create + rename over) and remove input files of its own build directory, not to chmod them (in production it runs as another user than the worker)",
        "symlink targets are compared after a normal form that preserves POSIX pathname resolution (empty and '.' components dropped, '..' kept except directly below '/', trailing slash kept): the virtual file system stores targets as parsed paths and naiveBuildDirectory writes the parsed form to disk; generated targets are relative or absolute, with '..' anywhere, trailing slashes, non-ASCII UTF-8, control characters, up to 700 bytes (below PATH_MAX); targets that are not UTF-8 cannot be carried by a REv2 Directory message (proto3 string) and count as a malformed message; a target containing NUL is malformed (rejected by the UNIX path parser)",
        "VirtualRemove is documented to behave 'like rmdir(), unlink() or a mixture' and Directory.Remove as 'the equivalent of os.Remove()': the codes those calls document are accepted (ENOENT; ENOTEMPTY or EEXIST for a non-empty directory; ENOTDIR for rmdir of a non-directory; EPERM or EISDIR for unlink of a directory). VirtualRename documents no codes: an impossible rename (no such source, directory over non-directory or the reverse, non-empty target) only has to fail with an error other than an I/O error and change nothing. EEXIST for create/mkdir/symlink/link onto an existing name and ENOENT/EISDIR/EINVAL for lookups, opens and readlink of the wrong kind of node are still compared exactly (POSIX codes the FUSE/NFS clients rely on)",
        "after MergeDirectoryContents fails because a name already exists (EEXIST), the leaves created for the new root directory are not checked for release (the pinned code does not unlink them; recorded as observation, proposed-fixes/0002); everywhere else leaves created by a directory load that fails must have been unlinked (fetchContentsUnwrapped: 'Ensure that leaves are properly unlinked if this method fails'), judged by the NFS handle pool being empty after the tree is torn down",
        "a directory is never renamed into its own subtree (kernel / NFS client reject this before calling the file system; excluded and counted)",
        "VirtualWrite / VirtualRead / VirtualClose are only issued on a leaf that was opened with that share bit (the CAS file panics by design on an un-intercepted write); VirtualWrite is never issued after a refused open",
        "hard links are only made to immutable leaves (CAS files, symlinks); locally created files are not hard linked (keeps the reference model a plain tree)",
        "no hidden-files pattern; deterministic initial-contents sorter (sorted or a fixed permutation instead of the global random shuffle); case-sensitive normalizer in 3 of 4 cases, case-insensitive (bb_worker option case_insensitive) in 1 of 4",
        "on a case-insensitive mount an input directory with two names differing only by case counts as a directory with duplicate names: its contents must be an error, not a tree and not a panic (finding C17/case-insensitive-name-collision-panics; while that is listed as open in known_findings.json such directories are renamed by the generator and counted as excluded)",
        "a rename between two names of byte-identical immutable leaves may or may not be a no-op (stateless handles are deduplicated by the NFS allocator): both POSIX outcomes are accepted",
        "chmod on CAS-backed files is not exercised (the code documents it as tolerated for Bazel's sake)",
        "the reference model (plain mutable tree expanded from the DAG templates) and the rendering used to compare both sides are trusted",
    ],
    "tests": [
        T("inputroot", "TestC17InputRootModel",
          {"checks": 2000, "shards": 2, "timeout": 300},
          {"checks": 10000, "shards": 16, "timeout": 1500}, env=ENV),
        T("inputroot", "TestC17MalformedAndFaults",
          {"checks": 50, "shards": 2, "timeout": 300},
          {"checks": 300, "shards": 16, "timeout": 1500}, env=ENV),
        T("inputroot", "TestC17CASFilesImmutable",
          {"checks": 1200, "shards": 2, "timeout": 300},
          {"checks": 10000, "shards": 8, "timeout": 1500}, env=ENV),
        T("inputroot", "TestC17CachingFetcherDifferential",
          {"checks": 6000, "shards": 1, "timeout": 300},
          {"checks": 40000, "shards": 4, "timeout": 1500}, env=ENV),
        T("inputroot", "TestC17NaiveBuildDirectory",
          {"checks": 500, "shards": 3, "timeout": 300},
          {"checks": 1500, "shards": 8, "timeout": 1500}, env=ENV),
    ],
}
META = {
    "text": "Generated search, no proof of absence. The real lazy input root stack (BlobAccessDirectoryFetcher + CachingDirectoryFetcher with a 1-3 entry cache, CASInitialContentsFetcher, BlobAccess/StatelessHandleAllocating CAS file factory, InMemoryPrepopulatedDirectory with FUSE or NFS handle allocator, virtualBuildDirectory.MergeDirectoryContents; thorough also naiveBuildDirectory + HardlinkingFileFetcher on disk) is driven by rapid-generated Directory DAGs and step scripts and compared, answer by answer, with a plain mutable copy of the expanded DAG. Storage faults are enumerated exhaustively per scenario (every CAS read x 4 fault kinds), hence level fault_enumeration; tree shapes, exploration orders and local edits are sampled.",
    "design_ref": "6/C17",
    "note": "Trusts the hand-written fake CAS, the in-memory file pool used for locally created files, and the reference model. Does not go through the FUSE/NFSv4 front ends (NFSv4 OPEN/WRITE/SETATTR refusal on CAS files is left to the C18/C19 simulators); named attributes, hidden files and access monitoring (UnreadDirectoryMonitor) are not exercised. The NFS handle pool count after tearing the tree down is part of the verdict (leaves of a failed directory load are released), except after a MergeDirectoryContents that collided with existing names. In the caching-fetcher differential only 'fails / returns this message' is compared; status codes and texts of errors are a diagnostic label.",
    "technique": "stateful model-based property testing (rapid) with per-scenario storage-fault enumeration, plus a cached-vs-uncached differential for the directory fetcher",
}

ID = "C18"
CHECK = {
    "level": "exploration",
    "assumptions": [],
    "tests": [],   # filled by the part files C18.nfs40.py and C18.nfs41.py
}
META = {
    "text": "Generated multi-client NFSv4.0/4.1 COMPOUND histories (protocol-following client simulators with drawn deviations, lossy network, simulated clock, parked leaf I/O) against the real programs with counting leaves; no proof of absence.",
    "design_ref": "6/C18",
    "note": "Client simulators learn client IDs, state IDs and sequence numbers only from replies; leaf opens/closes are counted by an instrumented leaf; internal record counts come from the verif hook and are paired with protocol-level observations.",
    "technique": "stateful model-based property testing (rapid) of the real NFSv4 programs inside testing/synctest; history oracle over replies and counting leaves",
}

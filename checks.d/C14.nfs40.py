ID = "C14"
TESTS = [
    # NFSv4.0 server, opened-files pool, NFS handle allocator, root directory and pool-backed files: TryLock probes of every
    # lock after every request / release / clock step of generated multi-client histories with injected file system faults
    # (VirtualOpenChild before/after, file allocator, VirtualOpenSelf, leaf I/O), rejected requests and requests parked
    # inside the fakes; a leaked lock is also seen as a later request that blocks although the model expects it to return.
    T("nfs40sim", "TestC14NFS40LocksReleased",
      {"checks": 2500, "shards": 2, "timeout": 300},
      {"checks": 20000, "shards": 4, "timeout": 1500}),
]
ASSUMPTIONS = [
    "C14 for the NFSv4.0 server: a request parked by the harness sits inside a fake (directory wrapper around VirtualOpenChild, counting leaf in front of VirtualRead/VirtualWrite/VirtualSetAttributes) and therefore outside every lock of the code under test; the probes are TryLock hooks (VerifStateCounts, VerifOpenedCount, VerifUseCount, VerifNFSHandlePoolLockIsFree, VerifLockIsFree, VerifLeafLockIsFree) taken when all other requests have returned or are parked",
    "C14 for the NFSv4.0 server: injected faults are one-shot and belong to one request: the root directory handed to the program fails VirtualOpenChild before calling the real directory or after it (then it closes the file it had opened; a created file stays created), the file allocator fails (the real directory reports EIO and logs), VirtualOpenSelf fails before the real file is asked, leaf I/O fails before the real file is asked; statuses EIO, EACCES, EROFS, ENXIO",
]

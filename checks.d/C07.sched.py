ID = "C07"
TESTS = [
    T("schedsim", "TestC07LearnerProtocolLinear",
      {"checks": 1500, "shards": 4, "timeout": 600},
      {"checks": 25000, "shards": 16, "timeout": 3000}),
]
ASSUMPTIONS = ["C07(a): the scripted analyzer records every Selector/Learner call; learner requests for retries/background runs are drawn by the generator"]

ID = "C20"
TESTS = [
    T("nfs41sim", "TestC20NFS41ByteRangeLocks",
      {"checks": 3500, "shards": 3, "timeout": 300, "args": ["-rapid.shrinktime=15s"]},
      {"checks": 30000, "shards": 5, "timeout": 1500}),
    T("nfs41sim", "TestC20Regress.*",
      {"checks": 1, "shards": 1, "timeout": 120},
      {"checks": 1, "shards": 1, "timeout": 120}, plain=True),
]
ASSUMPTIONS = [
    "nfs41: 'releases precisely the owner's bytes and nothing else' is observed through LOCKT by an observer lock-owner of a separate client that never holds a lock: after every step that closed, unlocked, freed or reclaimed lock state (and once before the final lease expiry) it tests each of the 13 units of the files concerned for READ and for WRITE; both answers are compared with the per-byte model (a unit held shared by others denies WRITE only, a unit held exclusively denies both, a free unit denies neither)",
    "nfs41: lock ranges begin and end at 14 points (offsets 0..6 and 2^64-7..2^64-1), so the byte space compresses to 13 units; ranges starting at offset 2^64-1 are not generated (the lock table documents non-empty ranges with an exclusive end <= 2^64-1, so byte 2^64-1 is not representable; counted as excluded)",
    "nfs41: owners are (client ID, lock-owner bytes); CLOSE / lease expiry / re-registration release all bytes the lock-owners of that open hold on that file (POSIX record-lock semantics: the lock table is keyed by owner and file)",
]

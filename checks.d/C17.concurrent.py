ID = "C17"
ENV = {"GOMAXPROCS": "2", "GOGC": "400"}
TESTS = [
    T("inputroot", "TestC17ConcurrentFirstAccess",
      {"checks": 500, "shards": 2, "timeout": 300},
      {"checks": 8000, "shards": 8, "timeout": 1500}, env=ENV),
]
ASSUMPTIONS = [
    "TestC17ConcurrentFirstAccess: real goroutines inside a testing/synctest bubble; the fetch of the directory's Directory object is parked deterministically in the fake CAS, but whether the other callers have already reached the directory lock when it is released is only observed (goroutine dump, bounded wait), not forced: sync.Mutex waits are invisible to synctest. It only decides whether a case counts as non-trivial; every interleaving has the same allowed outcomes. A caller that never returns is reported by a 150 s real-time watchdog (VERIF-VIOLATION, exit 1)",
    "TestC17ConcurrentFirstAccess: 'the contents are loaded once' is judged by the documented contract of InitialContentsFetcher (\"FetchContents() should be called until it succeeds at most once\"): CAS reads of the directory's Directory object are counted (half of the cases without the directory cache, where every FetchContents is a CAS read); several fetches in flight at once are only a diagnostic label",
]

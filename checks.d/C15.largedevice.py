ID = "C15"
TESTS = [
    T("filepool", "TestC15LargeDeviceOffsets",
      {"checks": 500, "shards": 2, "timeout": 300},
      {"checks": 2500, "shards": 16, "timeout": 1500}),
]
ASSUMPTIONS = [
    "C15 large devices: sector sizes of 512 B .. 16 MiB on a sparse in-memory device of up to 2^32-1 sectors (only written 4 KiB pages are kept; unwritten device bytes read 0xa5); a harness-owned SectorAllocator hands out the drawn sector numbers one at a time (the interface allows returning fewer sectors than requested), so the placement of files does not depend on the bitmap allocator's cursor",
]

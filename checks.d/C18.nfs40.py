ID = "C18"
TESTS = [
    T("nfs40sim", "TestC18NFS40OpenAccounting",
      {"checks": 3000, "shards": 2, "timeout": 300},
      {"checks": 40000, "shards": 5, "timeout": 1500}),
]
ASSUMPTIONS = [
    "NFSv4.0: the reference model mirrors the documented laziness of the server: expired leases and unused open-owners are reclaimed by the next call that enters the server; closes that belong to a request are carried out when that request returns (so equality of open counts is asserted when no request is in flight, a lower bound otherwise)",
    "NFSv4.0: random numbers handed to the program are distinct (counter based); file names a, b, c in the root directory only; OPEN claims NULL and PREVIOUS (delegation claims only as rejected requests)",
    "NFSv4.0: every oracle of the simulator (C14 lock probes, C18 accounting, C19 replay, C20 lock table) is fatal in every test function of the package, whatever profile met it; the failure message names the property the oracle belongs to. The profiles only differ in what they make likely",
    "NFSv4.0: 'state IDs are honoured only for the client they were issued for' cannot be observed in NFSv4.0: READ/WRITE/SETATTR/CLOSE/LOCK/LOCKU/OPEN_CONFIRM/OPEN_DOWNGRADE carry no client ID, the state ID is the only thing that names the client (RFC 7530 section 9.1.4: state IDs are unique across all clients of a server instance; the checks of 9.1.4.4 have no per-caller step), so a state ID sent by another client simulator is indistinguishable from the owner using it and is honoured (nfs40_program.go getOpenOwnerFileByStateID / getLockOwnerFileByStateID look the state up by its 'other' field only). What is asserted instead: a state ID of a client whose lease expired or that re-registered is rejected; a lock-owner's client ID must equal the open-owner's (NFS4ERR_INVAL); a foreign client ID in LOCKT/RELEASE_LOCKOWNER selects that client's owners",
    "NFSv4.0 faults: OPEN, READ, WRITE, SETATTR carry generated one-shot faults of the file system below the server (root directory handed to the program fails VirtualOpenChild before calling the real directory, or after it - then it closes the file it had opened, a created file stays created; the file allocator fails, so the real directory reports EIO and logs once; VirtualOpenSelf fails before the real file is asked; leaf I/O fails before the real file is asked; EIO/EACCES/EROFS/ENXIO). A fault belongs to the request, not to its retransmissions",
]

ID = "C18"
TESTS = [
    T("nfs40sim", "TestC18NFS40OpenAccounting",
      {"checks": 3000, "shards": 2, "timeout": 300},
      {"checks": 40000, "shards": 5, "timeout": 1500}),
]
ASSUMPTIONS = [
    "NFSv4.0: the reference model mirrors the documented laziness of the server: expired leases and unused open-owners are reclaimed by the next call that enters the server; closes that belong to a request are carried out when that request returns (so equality of open counts is asserted when no request is in flight, a lower bound otherwise)",
    "NFSv4.0: random numbers handed to the program are distinct (counter based); file names a, b, c in the root directory only; OPEN claims NULL and PREVIOUS (delegation claims only as rejected requests)",
]

ID = "C09"
TESTS = [
    T("accache", "TestC09ConsecutiveActions",
      {"checks": 3000, "shards": 2, "timeout": 300},
      {"checks": 20000, "shards": 8, "timeout": 1500}),
]
ASSUMPTIONS = [
    "C09 consecutive actions: as in cmd/bb_worker/main.go one BatchedStoreBlobAccess writer/flusher pair and one executor stack serve all actions of a worker thread, strictly one action at a time, each Execute under a context of its own; the flush callback is documented to 'return any errors that occurred' and resets them, and flushLocked discards every pending write on return, so an action during which no back-end call fails is required to behave exactly like an action on a fresh pipeline (apart from blobs already being in the CAS)",
    "C09 consecutive actions: faults are attributed to the action during which they were reached, not to the action at which they were planned (a fault in action k changes what the CAS holds and hence which calls action k+1 makes)",
]

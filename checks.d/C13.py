ID = "C13"
CHECK = {
    "level": "exploration",
    "assumptions": [
        "a directory is never renamed into its own subtree (kernel and NFS clients refuse this before calling the server; the code carries a TODO for the missing check); counted in excluded_by_generator",
        "CreateChildren / InitialContentsFetcher results never contain two names that collide under the ComponentNormalizer (the code panics by design)",
        "symlink targets are unique per case: whether two symlinks with one target are one node or two is handle allocator specific (NFS dedups by target, FUSE does not)",
        "VirtualLink of a symlink that has been unlinked everywhere is not generated (outcome is handle allocator specific)",
        "a directory that is still uninitialised (lazy) has never been observed by any client, so its change ID is only required not to decrease while it is initialised or force-emptied; ChangeInfo.Before may then be later than the value read before the call",
        "where two POSIX errors apply at once (VirtualMknod: EEXIST/ENOENT vs EPERM/EIO, VirtualLink: EEXIST/ENOENT vs ESTALE) either is accepted",
        "case-insensitive rename of a name onto itself (a -> A) is treated as renaming a file onto itself: no effect, as the code does",
        "file contents live in a trivially correct in-memory FilePool (the block device pool is C15's subject); only package virtual is under test",
        "sizes: names from {a,b,A,c,.hidden}, at most 6 live directories plus removed ones still referenced, lazy specs of depth <= 2, listing page sizes 1-3, at most 3 open listings",
    ],
    "tests": [
        T("vfsdir", "TestC13DirectoryModel",
          {"checks": 2000, "shards": 4, "timeout": 300, "steps": 40},
          {"checks": 24000, "shards": 16, "timeout": 1500, "steps": 60}),
    ],
}
META = {
    "text": "Generated call histories (rapid state machine) over the real InMemoryPrepopulatedDirectory, wired to the real pool-backed file allocator and the real NFS/FUSE handle allocators, compared after every call with a naive POSIX-style reference tree: status/errno, ChangeInfo, complete observable state of every known directory, change IDs, hard-link sharing, and exactly-once reporting of paginated listings kept open across mutations. Exploration only: no proof of absence.",
    "design_ref": "6/C13",
    "note": "Direct API only; the same scripts through the NFSv4 COMPOUND and FUSE RawFileSystem front ends and the native-fuzz campaign of DESIGN 6/C13 are not built. Trusts the naive reference tree and the mirror of which calls initialise a lazy directory. Single-threaded: interleavings inside one call are C14(c)'s subject.",
    "technique": "stateful model-based property testing (rapid) against a naive POSIX tree model",
}

ID = "C13"
CHECK = {
    "level": "exploration",
    "assumptions": [
        "ASSUMPTION (real precondition): a directory is never renamed into its own subtree. VirtualRename has no ancestor check (in_memory_prepopulated_directory.go carries the TODO 'Pick up an interlock and check for potential creation of cyclic directory structures'), neither the FUSE nor the NFSv4 front end adds one; the code relies on its callers: the Linux VFS (lock_rename: s_vfs_rename_mutex plus ancestor test, EINVAL) and NFS clients refuse such a rename before it reaches the server. Counted in excluded_by_generator",
        "CreateChildren calls and InitialContentsFetcher results with two spellings of one name under the ComponentNormalizer ARE generated (the code documents an InvalidArgument error that leaves the directory unchanged resp. uninitialised); the same spelling twice cannot be expressed (map keys)",
        "symlinks with equal targets are generated; whether they are one node or several is handle allocator specific and the reference tree follows the allocator in use: the NFS allocator hands out one node for all linked symlinks of one target (nfsStatelessHandleAllocation.AsLinkableLeaf: 'Reuse an existing leaf if one exists'), the FUSE allocator one node per creation with an inode number that is a function of the target",
        "VirtualLink of a symlink that has been unlinked everywhere is not generated (outcome is handle allocator specific)",
        "a directory that is still uninitialised (lazy) has never been observed by any client, so its change ID is only required not to decrease while it is initialised or force-emptied; ChangeInfo.Before may then be later than the value read before the call",
        "where two POSIX errors apply at once (VirtualMknod: EEXIST/ENOENT vs EPERM/EIO, VirtualLink: EEXIST/ENOENT vs ESTALE) either is accepted",
        "case-insensitive rename of a name onto itself (a -> A) is treated as renaming a file onto itself: no effect, as the code does",
        "file contents live in a trivially correct in-memory FilePool (the block device pool is C15's subject); only package virtual is under test",
        "VirtualSetAttributes of a directory with a size is accepted as EINVAL (the code's choice) or EISDIR (POSIX truncate); chown of directories and files is EPERM, as the tree's own tests document",
        "leaf calls: VirtualRead/VirtualSeek only on a file opened with the read bit, VirtualWrite/VirtualAllocate only with the write bit (the front ends guarantee it), no open outlives a step; VirtualOpenSelf and VirtualSetAttributes also on files that were unlinked everywhere (ESTALE where the pool file is needed); share masks 0 and masks with unknown bits (4, 7) are passed to VirtualOpenSelf/VirtualClose in pairs (the code counts set bits); one-shot failures of the pool file's ReadAt/WriteAt (also short writes)/Truncate/GetNextRegionOffset must surface as EIO and leave the file as the pool file left it",
        "named attributes (NFSv4 OPENATTR, NFS handle allocator only; wiring and generator restrictions as stated for C14): VirtualOpenNamedAttributes answers NOENT without createDirectory while no attribute directory exists, creates it with createDirectory, hands out the same directory object from then on, WRONG_TYPE for nodes inside an attribute directory, ACCESS/NOENT for symlinks, FIFOs and sockets (named_attributes_factory.go, placeholder_file.go); the attribute directory is modelled as one more directory of the reference tree (always case sensitive, no hidden files) that is emptied recursively and tombstoned when its owner loses its last link / is removed; isInNamedAttributeDirectory is true exactly for nodes of attribute directories; hasNamedAttributes equals 'the attribute directory exists and is not empty' (inMemoryNamedAttributes.VirtualGetAttributes) and is NOT compared while the attribute directory is still uninitialised, i.e. touched by nothing but OPENATTR (the code answers true there; vfsdir/FINDINGS.md note N1); OPENATTR on nodes that no longer exist is not generated",
        "sizes: names from {a,b,A,c,.hidden}, at most 6 live directories plus removed ones still referenced, lazy specs of depth <= 2, listing page sizes 1-3, at most 3 open listings; one case in six uses the wide profile (16 names, one directory filled to 12-16 entries, page sizes 1-8 and 'all', at most 4 open listings, three in ten cursor steps rewind)",
    ],
    "tests": [
        T("vfsdir", "TestC13DirectoryModel",
          {"checks": 2000, "shards": 4, "timeout": 300, "steps": 40},
          {"checks": 16000, "shards": 12, "timeout": 1500, "steps": 60}),
    ],
}
META = {
    "text": "Generated call histories (rapid state machine) over the real InMemoryPrepopulatedDirectory, wired to the real pool-backed file allocator and the real NFS/FUSE handle allocators, compared after every call with a naive POSIX-style reference tree: status/errno, ChangeInfo, complete observable state of every known directory, change IDs, hard-link sharing, and exactly-once reporting of paginated listings kept open across mutations. Exploration only: no proof of absence.",
    "design_ref": "6/C13",
    "note": "Direct API only; the same scripts through the NFSv4 COMPOUND and FUSE RawFileSystem front ends and the native-fuzz campaign of DESIGN 6/C13 are not built. Trusts the naive reference tree and the mirror of which calls initialise a lazy directory. Single-threaded: interleavings inside one call are C14(c)'s subject.",
    "technique": "stateful model-based property testing (rapid) against a naive POSIX tree model",
}

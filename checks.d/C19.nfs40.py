ID = "C19"
TESTS = [
    T("nfs40sim", "TestC19NFS40Retransmission",
      {"checks": 3000, "shards": 2, "timeout": 300},
      {"checks": 40000, "shards": 5, "timeout": 1500}),
]
ASSUMPTIONS = [
    "NFSv4.0: byte equality is asserted for the result of the seqid-bearing operation (and the operations before it); two OPENs under one seqid with different arguments are the same request (RFC 7530 9.1.9) and get the cached reply. The operation that follows a replayed successful OPEN in the generated COMPOUND (GETFH) must also return what it returned the first time, i.e. the replay re-establishes the opened file as current file handle (the reply the client gets for its retransmitted PUTFH; OPEN; GETFH must be the reply it was given the first time; Linux nfsd keeps the file handle in its replay cache for the same reason); the pinned tree returned the directory's handle (finding C19/nfs40-replayed-open-loses-current-filehandle, fixed)",
    "NFSv4.0: any number of identical retransmissions may wait behind an in-progress transaction of an open-owner and wake up on their own (each must return with the original's reply, whatever order the Go scheduler serves them in); a waiter whose content differs from those (other operation, other state ID, the owner's next request) is held by the harness's clock at the clock reading of enter() when it wakes up and let go by a generated 'release' step (label waiter_with_other_content_held_at_reentry), so that the order of service is the harness's; identical retransmissions are held that way too with a drawn probability, and clock steps, RENEWs and other requests are generated while they are held (see the reentry window assumptions of C18)",
    "NFSv4.0: the client chooses the seqid of the first request of a new open-owner or lock-owner (RFC 7530 9.1.7); the simulators start from 0, 1 or 2^32-4..2^32-1. The successor of 2^32-1 is 1: nextSeqID in nfs40_program.go documents that owner seqids follow the state ID rule of RFC 7530 9.1.3 (zero is skipped), and the model follows the code's documentation; a first seqid of 0 is accepted like any other",
]

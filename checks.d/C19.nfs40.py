ID = "C19"
TESTS = [
    T("nfs40sim", "TestC19NFS40Retransmission",
      {"checks": 3000, "shards": 2, "timeout": 300},
      {"checks": 40000, "shards": 5, "timeout": 1500}),
]
ASSUMPTIONS = [
    "NFSv4.0: byte equality is asserted for the result of the seqid-bearing operation (and the operations before it); two OPENs under one seqid with different arguments are the same request (RFC 7530 9.1.9) and get the cached reply; at most one request waits behind an in-progress transaction of an open-owner (a second waiter would make the wake-up order scheduler dependent)",
]

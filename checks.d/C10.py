ID = "C10"
CHECK = {
    "level": "exploration",
    "assumptions": [
        "paths are compared lexically (REv2 paths; the code documents '..' as reversible): 'a/../b' is 'b' whether or not 'a' exists",
        "strings with NUL bytes are not generated (rejected by the path parser for a different, documented reason)",
        "only output_paths declares outputs in the pinned tree; REv2.0 output_files/output_directories are generated only next to a non-empty output_paths, where REv2 says they are ignored",
        "a path declared k times verbatim may be reported 1..k times; a path spelled with a trailing slash whose location holds a non-directory may be reported or not",
        "symlink targets are compared up to POSIX equivalence (empty and '.' components dropped, '/..' == '/'), not byte for byte",
        "UploadOutputs may (but need not) fail when a declared output is a special file or lies below a non-directory; otherwise it must succeed",
        "an input root holding a non-directory where a parent directory of an output is needed contradicts the command: CreateParentDirectories may succeed (documented EEXIST tolerance) or fail, but must not touch anything else",
        "directory listings returned by the UploadableDirectory are sorted by name, as the real implementations do",
    ],
    "tests": [
        T("outputs", "TestC10OutputHierarchyModel",
          {"checks": 60000, "shards": 4, "timeout": 300},
          {"checks": 600000, "shards": 14, "timeout": 1500}),
        T("outputs", "TestC10PathEscapeDifferential",
          {"checks": 150000, "shards": 2, "timeout": 300},
          {"checks": 1500000, "shards": 4, "timeout": 1500}),
        T("outputs", "TestC10PathEscapeExhaustive",
          {"checks": 1, "shards": 1, "timeout": 300},
          {"checks": 1, "shards": 1, "timeout": 600}),
    ],
}
META = {
    "text": "Generated search (rapid) over commands and produced file trees against an independent lexical path normaliser and a ground-truth in-memory tree; ActionResult, CAS contents and every Tree (parsed at wire level) are compared with the model. Exploration only: no proof of absence.",
    "design_ref": "6/C10",
    "note": "Trusts the hand-written in-memory BuildDirectory/CAS fakes and the reference normaliser; list order inside the ActionResult is left free.",
    "technique": "model-based property testing (rapid) with reference normaliser, wire-level Tree checker and bounded-exhaustive path differential",
}

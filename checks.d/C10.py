ID = "C10"
CHECK = {
    "level": "exploration",
    "assumptions": [
        "paths are compared lexically (REv2 paths; the code documents '..' as reversible): 'a/../b' is 'b' whether or not 'a' exists",
        "strings with NUL bytes are not generated (rejected by the path parser for a different, documented reason)",
        "only output_paths declares outputs in the pinned tree; REv2.0 output_files/output_directories are generated only next to a non-empty output_paths, where REv2 says they are ignored",
        "a path declared k times verbatim may be reported 1..k times; a path spelled with a trailing slash whose location holds a non-directory may be reported or not",
        "symlink targets are compared up to POSIX equivalence (empty and '.' components dropped, '/..' == '/'), not byte for byte",
        "UploadOutputs may (but need not) fail when a declared output is a special file or lies below a non-directory; otherwise it must succeed",
        "an input root holding a non-directory where a parent directory of an output is needed contradicts the command: CreateParentDirectories may succeed (documented EEXIST tolerance) or fail, but must not touch anything else",
        "directory listings returned by the in-memory UploadableDirectory are sorted by name, as the real implementations do",
        "I/O errors during the run are reported through the InstallHooks error logger after the outputs were produced; the fake CAS refuses Put/Get on a done context like a gRPC client; such a response may carry any non-OK status but must still list the outputs that exist",
        "naive backend: a file rewritten in place between UploadFile's digest pass and upload pass may be left out of the result (upload fails), but no blob may be stored under a digest that its bytes do not hash to",
        "LocalBuildExecutor rig: execution time-outs never fire (fake clock); the fake runner creates stdout/stderr like bb_runner; input roots contain no special files",
        "naive backend: a real local file system under the driver's per-run scratch directory; virtual backend: FUSE handle allocator, case-sensitive names, sorted listings, in-memory file pool",
        "ASSUMPTION beyond the statement (matches the code's documented behaviour 'Even when errors occur, the remainder of the output files is still uploaded'): when UploadOutputs / Execute ends with an error, every existing declared output that the failure did not hit must still be listed exactly; an injected storage or directory failure (1 case in 3 of the hierarchy_model rigs: one CAS Put, Lstat, ReadDir, Readlink, Enter or UploadFile call fails, or the context is cancelled at a Put) excuses only the entry whose upload it hit (file being uploaded; output directory whose Tree/Directory message was refused; entry and subtree whose Lstat/ReadDir/Readlink/Enter failed), must surface as an error, and nothing may be listed whose blobs are not in the CAS. ENOENT is never injected (documented as 'absent')",
        "stdout_digest / stderr_digest are set iff the stream is non-empty (the code documents that empty streams get no digest; an explicit digest of the empty blob is accepted too) and name that stream's bytes; *_raw, if a future executor inlines it, must equal the stream",
        "entries of the build directory documented by the code: root, tmp, server_logs (Execute) and stdout, stderr (runner); a rejected command may leave only root behind",
    ],
    "tests": [
        # (a) OutputHierarchy against the in-memory tree.
        T("outputs", "TestC10OutputHierarchyModel",
          {"checks": 30000, "shards": 4, "timeout": 300},
          {"checks": 400000, "shards": 6, "timeout": 1500}),
        # (a') construction accept/reject and normalised parents only.
        T("outputs", "TestC10PathEscapeDifferential",
          {"checks": 60000, "shards": 2, "timeout": 300},
          {"checks": 1000000, "shards": 2, "timeout": 1500}),
        T("outputs", "TestC10PathEscapeExhaustive",
          {"checks": 1, "shards": 1, "timeout": 300},
          {"checks": 1, "shards": 1, "timeout": 600}),
        # (b) the same through LocalBuildExecutor.Execute (fake runner looks at
        # the input root when it is invoked).
        T("outputs", "TestC10LocalBuildExecutor",
          {"checks": 4000, "shards": 2, "timeout": 300},
          {"checks": 60000, "shards": 4, "timeout": 1500}),
        # (c) real build directory implementations as holders of the tree.
        T("outputs", "TestC10VirtualBuildDirectory",
          {"checks": 8000, "shards": 2, "timeout": 300},
          {"checks": 150000, "shards": 2, "timeout": 1500}),
        T("outputs", "TestC10LocalBuildExecutorVirtual",
          {"checks": 3000, "shards": 2, "timeout": 300},
          {"checks": 40000, "shards": 4, "timeout": 1500}),
        T("outputs", "TestC10NaiveBuildDirectory",
          {"checks": 400, "shards": 2, "timeout": 300},
          {"checks": 10000, "shards": 4, "timeout": 1500}),
        T("outputs", "TestC10LocalBuildExecutorNaive",
          {"checks": 200, "shards": 2, "timeout": 300},
          {"checks": 5000, "shards": 4, "timeout": 1500}),
    ],
}
META = {
    "text": "Generated search (rapid) over commands and produced file trees against an independent lexical path normaliser and a ground-truth in-memory tree; ActionResult, CAS contents and every Tree (parsed at wire level) are compared with the model. Exploration only: no proof of absence.",
    "design_ref": "6/C10",
    "note": "Trusts the hand-written in-memory BuildDirectory/CAS fakes, the package-os read-back of the real file system, the Virtual* read-back of the virtual directory and the reference normaliser; list order inside the ActionResult is left free. Native go-fuzz target FuzzC10PathEscape exists but is not registered (the prebuilt test binary has no coverage instrumentation).",
    "technique": "model-based property testing (rapid) with reference normaliser, wire-level Tree checker and bounded-exhaustive path differential",
}

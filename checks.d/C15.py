ID = "C15"
CHECK = {
    "level": "fault_enumeration",
    "assumptions": [
        "file offsets and sizes are bounded by (sectorCount+4) sectors per file (files may exceed the device, but not int64/uint32 limits)",
        "a hole source is never longer than the initial size of the file it backs (HoleSource contract: reads past its end are null bytes; only pool.ZeroHoleSource is used by callers in /repo)",
        "injected device faults are honest: a failing ReadAt/WriteAt transfers exactly the byte count it reports (0 or half the buffer)",
        "a Truncate that reports an injected failure must leave the file untouched (old length, every old byte, same sectors; an honest short device write may have zeroed exactly the bytes it reported, all past the requested size inside the new last sector); only when the hole source's own Truncate is the failing call the state 'sectors past the new size released, tail of the last sector zeroed, old length, cut-off part reads as the untruncated hole source' is accepted as well",
        "file handles are used from one goroutine at a time (documented: handles are not thread-safe)",
        "quota probe after every step: an empty WriteAt at offset size+k is answered by the quota layer alone (it charges k, forwards, and releases k again; the base file answers an empty write with (0, nil) without looking at the offset), so it measures the remaining size quota without touching sectors, device or hole source; scratch files for the probe are empty zero-hole-source files that are closed again at once",
        "a hole source fault may be a short read only together with a non-nil, non-EOF error (io.ReaderAt / HoleSource contract); a short count with a nil error is outside the contract and not generated",
        "two-fault runs: the second fault is numbered in the call sequence of the run that already has the first fault injected; pairs are drawn (not enumerated) per scenario",
    ],
    "tests": [
        T("filepool", "TestC15FilePoolModel",
          {"checks": 3000, "shards": 2, "timeout": 300, "steps": 50},
          {"checks": 30000, "shards": 8, "timeout": 1500, "steps": 80}),
        T("filepool", "TestC15FilePoolFaults",
          {"checks": 900, "shards": 2, "timeout": 300},
          {"checks": 10000, "shards": 6, "timeout": 1500}),
        T("filepool", "TestC15BitmapAllocatorModel",
          {"checks": 6000, "shards": 1, "timeout": 300, "steps": 60},
          {"checks": 80000, "shards": 2, "timeout": 1500, "steps": 120}),
    ],
}
META = {
    "text": "Generated search, no proof of absence. (1) rapid state machine over QuotaEnforcing(BlockDeviceBacked(BitmapSectorAllocator)) on an in-memory device against a naive sparse-file model: every open file is read back completely and its data/hole map probed after every step, quota and sector arithmetic predicted exactly, then everything is closed and the whole capacity (sectors, file quota, byte quota) re-obtained. After every step the quota actually charged is measured (exactly MaxFiles-open more files, exactly the model's remaining bytes, through a scratch file and through an empty write on every open file), and every model hole source must have been closed exactly once by the Close of its file, never earlier and never used afterwards. (2) Fault enumeration: every fallible call of a generated scenario (device read/write, hole source read/seek/truncate/close, base-pool NewFile, allocator) is made to fail once, exhaustively per scenario, and the same model plus the full-capacity check must hold; on top of that a few drawn pairs of faults per scenario (2 quick, up to 12 thorough; thorough scenarios up to 40 steps). (3) The bitmap allocator alone against a set model. Level is fault_enumeration because fault positions are enumerated exhaustively inside each generated scenario; scenarios themselves are sampled.",
    "design_ref": "6/C15",
    "note": "Trusts the naive model and the hand-written fakes (memory device, spy allocator, hole source). Sector sizes {1,2,3,4,8,16,512}, sector counts {1..8,63..65,127..129}, at most 5 files, sequential interleavings only. No native coverage-guided fuzzing (cannot be seeded; the rapid search already reaches the 64-bit word boundaries of the bitmap).",
    "technique": "stateful model-based property testing (rapid) against a sparse-file reference model, with per-scenario exhaustive fault enumeration",
}

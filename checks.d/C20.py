ID = "C20"
CHECK = {
    "level": "exploration",
    "assumptions": [
        "ByteRangeLockSet.Set(lock) is only called after Test reported no conflict (documented precondition)",
        "offset universe compressed to 33 units (16 lowest bytes, one gap, 16 highest offsets)",
    ],
    "tests": [
        T("lockset", "TestC20LockSetModel",
          {"checks": 20000, "shards": 2, "timeout": 300},
          {"checks": 150000, "shards": 6, "timeout": 1500}),
    ],
}
META = {
    "text": "Generated search (rapid state machines) against a per-byte reference model; no proof of absence. The lock table is compared with the model by exhaustive probing after every step.",
    "design_ref": "6/C20",
    "note": "Trusts the naive per-byte model and the 33-unit compression of the offset space; Set is only called after a non-conflicting Test, as documented.",
    "technique": "stateful model-based property testing (rapid) against a per-byte reference lock map",
}

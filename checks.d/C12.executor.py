ID = "C12"
TESTS = [
    # Two C12 clauses for the REAL LocalBuildExecutor.Execute: the build directory obtained from the
    # BuildDirectoryCreator is closed exactly once on every exit path (fault per stage / cancellation at
    # every recorded call), and do_not_cache actions ask for a non-digest (parallel-safe) directory.
    # One case in five drives LocalBuildExecutor.CheckReadiness() instead (readiness_faults_test.go):
    # same tracked build directory, every recorded call failed once and cancelled once.
    T("outputs", "TestC12ExecutorBuildDirectoryLifecycle",
      {"checks": 250, "shards": 4, "timeout": 300},
      {"checks": 5000, "shards": 8, "timeout": 1500}),
]
ASSUMPTIONS = [
    "C12 executor part: 'Close is called on every exit path' is judged on a wrapper around the BuildDirectory the fake creator returns and around every handle entered from it; handles entered from the build directory must be closed before it and nothing may be called on a handle after its Close (the code's defers run in that order; a directory that removes itself on Close must not be in use)",
    "C12 executor part: a failing Close of the build directory must yield a non-OK response ('Failed to close build directory', its code when nothing failed earlier); the result of Close on entered handles is ignored by the code and nothing is required of it",
    "C12 executor part: GetBuildDirectory receives nil iff Action.do_not_cache (local_build_executor.go: actionDigestIfNotRunInParallel), else the digest of the action being executed; SharedBuildDirectoryCreator maps nil to a counter-named directory and a digest to a digest-named one (checked by the isolation package)",
    "C12 executor part, readiness checks: CheckReadiness() asks GetBuildDirectory for a nil digest (it belongs to no action); it does not remove check_readiness itself (nothing in the code documents a removal: that is left to Close of the build directory, i.e. to SharedBuildDirectoryCreator's RemoveAll, checked by the isolation package), so the oracle only requires that nothing else is created; the result of the deferred buildDirectory.Close() is dropped by the code, so a failing Close requires nothing of the returned error; 'the runner will validate that it exists' is judged when the fake runner is called (directory present, build directory still open, path = build directory path + check_readiness)",
    "C12 executor part: one fault per run; outer-context cancellation is delivered at recorded call boundaries only; execution time-outs never fire (fake clock); fake runner/CAS/creator refuse a done context, in-memory directory calls ignore it",
]

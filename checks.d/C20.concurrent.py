ID = "C20"
TESTS = [
    T("lockset", "TestC20OpenedFileConcurrentOwners",
      {"checks": 800, "shards": 4, "timeout": 300},
      {"checks": 3000, "shards": 8, "timeout": 1500},
      race=True),
]
ASSUMPTIONS = [
    "C20 concurrent owners: LOCK/LOCKU/LOCKT of different lock-owners on one opened file may run at the same time (NFSv4.1 serialises per client incarnation only; the NFSv4.0 and NFSv4.1 programs share one OpenedFilesPool), so OpenedFile.Lock/Unlock and OpenedFilesPool.TestLock are driven from one goroutine per owner released from a spinning barrier; the schedule is the Go runtime's (each script is executed several times), every oracle is a validity predicate that holds in every schedule: no byte held exclusively by one owner and at all by another, a refusal is explained by a lock held before or after the round, the table read back with LOCKT equals the per-byte reference table",
]

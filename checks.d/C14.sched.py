ID = "C14"
TESTS = [
    T("schedsim", "TestC14SchedulerLockReleased",
      {"checks": 1500, "shards": 2, "timeout": 600},
      {"checks": 15000, "shards": 8, "timeout": 3000}),
]
ASSUMPTIONS = ["C14 scheduler part: the lock probe is a TryLock on InMemoryBuildQueue's lock through the verif hook at quiescence of the synctest bubble (every goroutine durably blocked), i.e. a lock held across a blocking wait by design would be reported; the scheduler documents that it never waits with the lock held"]

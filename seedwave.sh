#!/bin/sh
# ./seedwave.sh C01 C02 ... : evaluates /tmp/seed-<ID>/out/{A,B} with seedtest.py (sequentially).
for p in "$@"; do
  for v in A B; do
    d=/tmp/seed-$p/out/$v
    [ -f $d/patch.diff ] || continue
    echo "=== $p/$v"
    /verif/seedtest.py $d $p 2>&1 | python3 -c "
import sys,json
t=sys.stdin.read()
try:
    r=json.loads(t[t.index('{'):])
    print({k:r.get(k) for k in ['demo_unchanged_pass','patch_applies','builds','demo_with_patch_fails','suite_passes']}, [(x['check'],x['caught'],x['wall_s'],x['first'][:160]) for x in r.get('results',[])])
except Exception as e:
    print('ERR',e,t[-800:])
"
  done
done

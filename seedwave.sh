#!/bin/sh
# ./seedwave.sh <prefix> C01 C02 ... : evaluates /tmp/<prefix>-<ID>/out/{A,B} with seedtest.py (sequentially).
prefix=$1; shift
for p in "$@"; do
  for v in A B; do
    d=/tmp/$prefix-$p/out/$v
    [ -f $d/patch.diff ] || continue
    echo "=== $p/$v"
    /verif/seedtest.py $d $p > /dev/null 2>&1
    tail -1 /verif/seeded_log.jsonl | python3 -c "
import sys,json
r=json.loads(sys.stdin.read())
print({k:r.get(k) for k in ['demo_mode','demo_unchanged_pass','patch_applies','builds','demo_with_patch_fails','suite_passes']}, [(x['check'],x['caught'],x['wall_s'],x['first'][:200]) for x in r.get('results',[])])
if r.get('demo_unchanged_pass') is False: print('  unchanged demo output:', r.get('demo_unchanged_output','')[-400:])
"
  done
done

#!/usr/bin/env python3
"""Confirms a seeded change with seedtest.py and keeps it under /verif/seeded/<seed id>.

  ./keepseed.py <dir with patch.diff, demo_test.go, notes.txt> <seed id> <property id> [--checks C01,C06] [--first-missed "why"]

The summary is taken from the WHAT paragraph of notes.txt, the precondition from its NEEDS TO MANIFEST paragraph.
A seed whose demonstration does not behave (passes unchanged / fails with the patch) or that breaks the suite is not kept."""
import json, os, re, shutil, subprocess, sys

src, sid, pid = os.path.abspath(sys.argv[1]), sys.argv[2], sys.argv[3]
extra = sys.argv[4:]
missed_note = None
if "--first-missed" in extra:
    i = extra.index("--first-missed")
    missed_note = extra[i + 1]
    del extra[i:i + 2]
subprocess.run(["/verif/seedtest.py", src, pid] + extra, stdout=subprocess.DEVNULL)
rec = [r for r in map(json.loads, open("/verif/seeded_log.jsonl").read().strip().splitlines()) if r.get("seed") == src][-1]
ok = rec.get("demo_unchanged_pass") and rec.get("patch_applies") and rec.get("builds") and rec.get("demo_with_patch_fails") and rec.get("suite_passes")
if not ok:
    print(sid, "NOT KEPT", {k: rec.get(k) for k in ["demo_unchanged_pass", "patch_applies", "builds", "demo_with_patch_fails", "suite_passes"]})
    print((rec.get("demo_unchanged_output") or rec.get("demo_with_patch_output") or "")[-600:])
    sys.exit(1)
notes = open(os.path.join(src, "notes.txt")).read()


def para(*heads):
    for h in heads:
        m = re.search(r"^" + h + r"[^\n]*?[:\n](.*?)(?:\n\s*\n|\Z)", notes, re.M | re.S | re.I)
        if m:
            return " ".join((m.group(0)).split())[:700]
    return ""


head = notes.strip().splitlines()[0].strip()
meta = {
    "id": sid,
    "breaks_property": pid,
    "summary": (head + " | " + para("WHAT", "CHANGE", "THE CHANGE"))[:900],
    "needs_to_manifest": para("NEEDS TO MANIFEST", "WHAT IT NEEDS", "PRECONDITION", "NEEDS"),
    "wave": int(os.environ.get("SEED_WAVE","3")),
    "confirmed_by_lead": {
        "demo_passes_on_unchanged_tree": True, "patch_applies_and_builds": True, "existing_suite_still_passes": True, "demo_fails_with_patch": True,
        "how": "seedtest.py: scratch worktree of /repo HEAD under /var/tmp; go build ./pkg/... ./cmd/{bb_scheduler,bb_worker,bb_runner}; go test ./... (baseline packages ok); demo run with and without the patch (mode %s)" % rec.get("demo_mode"),
    },
    "checks_run": [],
}
if missed_note:
    meta["first_evaluation"] = missed_note
heads = {"repo_head": subprocess.check_output(["git", "-C", "/repo", "rev-parse", "--short", "HEAD"], text=True).strip(),
         "verif_head": subprocess.check_output(["git", "-C", "/verif", "rev-parse", "--short", "HEAD"], text=True).strip()}
for r in rec["results"]:
    meta["checks_run"].append(dict({"check": r["check"], "tier": "quick", "caught": r["caught"], "wall_s": r["wall_s"], "first_failure": r["first"]}, **heads))
dst = os.path.join("/verif/seeded", sid)
os.makedirs(dst, exist_ok=True)
for f in ["patch.diff", "demo_test.go", "notes.txt"]:
    shutil.copy(os.path.join(src, f), os.path.join(dst, f))
json.dump(meta, open(os.path.join(dst, "meta.json"), "w"), indent=1)
print(sid, "KEPT", [(r["check"], "CAUGHT" if r["caught"] else "MISSED", r["wall_s"], r["first"][:160]) for r in rec["results"]])

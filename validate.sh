#!/bin/sh
# Validates MANIFEST.json and all evidence files against the schemas.
cd "$(dirname "$0")" && python3-vt - <<'PY'
import json, jsonschema, glob
jsonschema.validate(json.load(open('MANIFEST.json')), json.load(open('/root/.vp/MANIFEST.schema.json')))
s = json.load(open('/root/.vp/EVIDENCE.schema.json'))
for p in sorted(glob.glob('evidence/*.json')):
    jsonschema.validate(json.load(open(p)), s)
    print('ok', p)
print('manifest ok')
PY

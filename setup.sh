#!/bin/sh
# Pre-builds every harness test binary against /repo (offline; warms the Go build cache).
cd "$(dirname "$0")" || exit 2
exec python3 - <<'PY'
import sys, importlib.util, importlib.machinery, os
sys.argv = ["check", "C20"]
spec = importlib.util.spec_from_loader("check", importlib.machinery.SourceFileLoader("check", os.path.join(os.getcwd(), "check")))
mod = importlib.util.module_from_spec(spec)
spec.loader.exec_module(mod)
pk = sorted({(t["pkg"], bool(t.get("race"))) for c in mod.CHECKS.values() for t in c["tests"]})
for p, r in pk:
    print("building", p, "race" if r else "")
    mod.build(p, r)
print("setup ok")
PY

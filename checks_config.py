"""Which test functions decide which property, and how hard each tier tries.

One file per property in checks.d/<ID>.py defining ID, CHECK and META.
CHECK["tests"] is a list of T(pkg, TestName, quick, thorough, **kw) where
quick/thorough are dicts {checks: rapid cases per shard, shards: parallel
processes with derived seeds, timeout: wall-clock guard in seconds (only ever
yields "inconclusive"), steps: optional -rapid.steps, args: extra argv} or None
to skip the test in that tier. kw: env={...}, race=True.
"""
import glob
import os


def T(pkg, name, quick, thorough, **kw):
    d = {"pkg": pkg, "name": name, "quick": quick, "thorough": thorough}
    d.update(kw)
    return d


CHECKS = {}
META = {}
_parts = []
for _p in sorted(glob.glob(os.path.join(os.path.dirname(os.path.abspath(__file__)), "checks.d", "C*.py"))):
    _g = {"T": T}
    with open(_p) as _f:
        exec(compile(_f.read(), _p, "exec"), _g)
    if "CHECK" in _g:
        CHECKS[_g["ID"]] = _g["CHECK"]
        META[_g["ID"]] = _g["META"]
    else:
        # Part file checks.d/<ID>.<part>.py: ID, TESTS, optional ASSUMPTIONS;
        # merged into the property's main file (which must exist).
        _g["_part"] = os.path.basename(_p).split(".")[1]
        _parts.append(_g)
# A part file <ID>.<part>.py is merged only once the lead has accepted it (token "<ID>.<part>" in
# claimed.txt), or when VERIF_ALL_PARTS=1 (used by the agents that are still developing a part).
_claimed = set(open(os.path.join(os.path.dirname(os.path.abspath(__file__)), "claimed.txt")).read().split())
for _g in _parts:
    if _g["ID"] + "." + _g["_part"] not in _claimed and os.environ.get("VERIF_ALL_PARTS") != "1":
        continue
    if _g["ID"] in CHECKS:
        CHECKS[_g["ID"]]["tests"].extend(_g["TESTS"])
        CHECKS[_g["ID"]].setdefault("assumptions", []).extend(_g.get("ASSUMPTIONS", []))

#!/usr/bin/env python3
"""Evaluates one seeded change (a patch that breaks a property while compiling and passing the existing tests).

  ./seedtest.py <dir with patch.diff, demo_test.go, notes.txt> <property id> [--checks C01,C06] [--scale S] [--demo-dir pkg/scheduler]

Steps, all in a scratch worktree of /repo's HEAD under /var/tmp (removed afterwards):
  1. demo on the unchanged tree must PASS      2. apply patch; go build ./... must succeed
  3. the pinned test suite must still pass     4. demo with the patch must FAIL
  5. run the property's check(s) with VERIF_REPO=<worktree>: caught iff exit 1 with a VIOLATION line.
Prints a JSON record; appends it to seeded_log.jsonl.
"""
import json, os, re, subprocess, sys, time, shutil

src = os.path.abspath(sys.argv[1])
pid = sys.argv[2]
checks = [pid]
scale = "1"
demo_dir = None
args = sys.argv[3:]
while args:
    a = args.pop(0)
    if a == "--checks":
        checks = args.pop(0).split(",")
    elif a == "--scale":
        scale = args.pop(0)
    elif a == "--demo-dir":
        demo_dir = args.pop(0)

env = dict(os.environ, GOFLAGS="-mod=mod", GOPROXY="off")
env.pop("GOSUMDB", None)
wt = "/var/tmp/seedtest-%d" % os.getpid()
subprocess.run(["git", "-C", "/repo", "worktree", "add", "-q", "--detach", wt, "HEAD"], check=True)
rec = {"seed": src, "property": pid}
try:
    demo = os.path.join(src, "demo_test.go")
    text = open(demo).read()
    if demo_dir is None:
        m = re.search(r"(pkg/[A-Za-z0-9_/]+|cmd/[A-Za-z0-9_/]+|internal/[A-Za-z0-9_/]+)", text[:2000])
        demo_dir = m.group(1).rstrip("/") if m else None
        while demo_dir and (os.path.basename(demo_dir).startswith("zz_") or not os.path.isdir(os.path.join(wt, demo_dir))):
            demo_dir = os.path.dirname(demo_dir)
    if demo_dir is None:
        raise SystemExit("cannot tell the demo's package directory; pass --demo-dir")
    pkgname = re.search(r"^package (\w+)", text, re.M).group(1)
    dirpkg = subprocess.run(["go", "list", "-f", "{{.Name}}", "./" + demo_dir], cwd=wt, env=env, capture_output=True, text=True).stdout.strip()
    mode = "internal" if pkgname == dirpkg else ("external" if pkgname == dirpkg + "_test" else "own-directory")
    rec["demo_mode"] = mode
    if mode == "own-directory":
        demo_dir = os.path.join(demo_dir, "zz_seed_demo")
        os.makedirs(os.path.join(wt, demo_dir), exist_ok=True)
    demo_dst = os.path.join(wt, demo_dir, "zz_seed_demo_test.go")
    shutil.copy(demo, demo_dst)
    mt = re.findall(r"^func (Test[A-Za-z0-9_]+)\(", text, re.M)
    run = "^(" + "|".join(mt) + ")$"

    def demo_run():
        d = os.path.join(wt, demo_dir)
        if mode == "internal":
            # File-list mode: the package's own *_test.go files do not compile (no generated mocks).
            files = subprocess.run(["go", "list", "-f", '{{join .GoFiles " "}}', "."], cwd=d, env=env, capture_output=True, text=True).stdout.split()
        else:
            files = []
        cmd = ["go", "test", "-mod=mod", "-vet=off", "-count=1", "-run", run] + files + ["zz_seed_demo_test.go"]
        p = subprocess.run(cmd, cwd=d, env=env, capture_output=True, text=True, timeout=1200)
        return p.returncode, (p.stdout + p.stderr)[-1500:]

    rc, out = demo_run()
    rec["demo_unchanged_pass"] = rc == 0
    if rc != 0:
        rec["demo_unchanged_output"] = out
    a = subprocess.run(["git", "apply", os.path.join(src, "patch.diff")], cwd=wt, capture_output=True, text=True)
    rec["patch_applies"] = a.returncode == 0
    if a.returncode != 0:
        rec["apply_error"] = a.stderr[-500:]
        raise SystemExit(0)
    b = subprocess.run(["go", "build", "./pkg/...", "./cmd/bb_scheduler", "./cmd/bb_worker", "./cmd/bb_runner"], cwd=wt, env=env, capture_output=True, text=True)
    rec["builds"] = b.returncode == 0
    rc, out = demo_run()
    rec["demo_with_patch_fails"] = rc != 0 and "build failed" not in out and "cannot find" not in out
    rec["demo_with_patch_output"] = out[-600:]
    os.remove(demo_dst)
    if mode == "own-directory":
        shutil.rmtree(os.path.join(wt, demo_dir), ignore_errors=True)
    t = subprocess.run(["go", "test", "-mod=mod", "-vet=off", "-count=1", "-timeout", "25m", "./..."], cwd=wt, env=env, capture_output=True, text=True)
    fails = [l for l in t.stdout.splitlines() if l.startswith("FAIL") or l.startswith("--- FAIL")]
    # Packages whose tests do not compile (missing generated mocks) fail identically on the unchanged tree;
    # compare with the baseline list of passing packages instead.
    oks = sorted(l.split()[1] for l in t.stdout.splitlines() if l.startswith("ok "))
    rec["suite_ok_packages"] = oks
    base_ok = ["github.com/buildbarn/bb-remote-execution/pkg/filesystem/access", "github.com/buildbarn/bb-remote-execution/pkg/scheduler/invocation", "github.com/buildbarn/bb-remote-execution/pkg/scheduler/platform"]
    rec["suite_passes"] = all(p in oks for p in base_ok)
    rec["results"] = []
    for c in checks:
        t0 = time.time()
        p = subprocess.run(["/verif/check", c, "--scale", scale], env=dict(os.environ, VERIF_REPO=wt), capture_output=True, text=True)
        first = ""
        for l in p.stdout.splitlines():
            if "rapid] failed" in l or "VERIF-VIOLATION" in l:
                first = l.strip()[:400]
                break
        rec["results"].append({"check": c, "rc": p.returncode, "caught": p.returncode == 1 and "VIOLATION property=" in p.stdout, "wall_s": round(time.time() - t0, 1), "first": first})
finally:
    subprocess.run(["git", "-C", "/repo", "worktree", "remove", "--force", wt])
    # the build output and work directories of the scratch tree go with it
    import re as _re
    _tag = _re.sub(r"[^A-Za-z0-9]+", "_", wt).strip("_")
    shutil.rmtree("/verif/bin/alt-" + _tag, ignore_errors=True)
    shutil.rmtree("/verif/.work/alt-" + _tag, ignore_errors=True)
    print(json.dumps(rec, indent=1))
    with open("/verif/seeded_log.jsonl", "a") as f:
        f.write(json.dumps(rec) + "\n")

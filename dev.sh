#!/bin/sh
# Development aid: ./dev.sh <pkg> <TestRegexp> <checks> <seed> [extra test flags]
# Builds the harness package against $VERIF_REPO (default /repo) and runs one test, printing the head of the output.
set -e
pkg=$1; run=$2; checks=${3:-500}; seed=${4:-1}; shift 4 || true
cd /verif/harness
export GOFLAGS=-mod=mod GOPROXY=off
go test -c -tags verif -vet=off -o /verif/bin/$pkg.test ./$pkg
mkdir -p /verif/.work/dev/ev
cd /verif/.work/dev
rm -rf ev/* testdata
VERIF_EVIDENCE_DIR=/verif/.work/dev/ev VERIF_KNOWN_FINDINGS=/verif/known_findings.json /verif/bin/$pkg.test -test.run "$run" -rapid.checks $checks -rapid.seed $seed -test.timeout 600s "$@" > out.log 2>&1 || true
grep -v '^\s*$' out.log | grep -v '\[rapid\] draw' | head -${HEAD:-70}
python3 - <<'EOF'
import json,glob
for p in glob.glob('/verif/.work/dev/ev/*.json'):
    d=json.load(open(p))
    print(p.split('/')[-1], 'evals',d['evaluations'],'nontrivial',len(d['hashes']))
    print(json.dumps(d['labels'],sort_keys=True))
    if d.get('notes'): print('NOTES',d['notes'][:5])
EOF

#!/usr/bin/env python3
"""Sensitivity trials: apply one textual mutation to a scratch worktree of /repo, run checks against it,
report caught/missed, revert.

  ./mutate.py <worktree> <mutations.json> [--scale S] [--only name]

mutations.json: list of {"name", "file", "old", "new", "checks": ["C01", ...]} ("old" must occur exactly once).
Results are appended to sensitivity_log.jsonl.
"""
import json, subprocess, sys, os, time

wt = sys.argv[1]
muts = json.load(open(sys.argv[2]))
scale = "1"
only = None
args = sys.argv[3:]
while args:
    a = args.pop(0)
    if a == "--scale":
        scale = args.pop(0)
    elif a == "--only":
        only = args.pop(0)
for m in muts:
    if only and m["name"] != only:
        continue
    path = os.path.join(wt, m["file"])
    src = open(path).read()
    if src.count(m["old"]) != 1:
        print("SKIP %s: pattern occurs %d times" % (m["name"], src.count(m["old"])))
        continue
    open(path, "w").write(src.replace(m["old"], m["new"]))
    try:
        b = subprocess.run(["go", "build", "./" + os.path.dirname(m["file"])], cwd=wt, capture_output=True, text=True)
        if b.returncode != 0:
            print("SKIP %s: does not compile: %s" % (m["name"], b.stderr[:300]))
            continue
        for c in m["checks"]:
            t0 = time.time()
            env = dict(os.environ, VERIF_REPO=wt)
            p = subprocess.run(["/verif/check", c, "--scale", scale], env=env, capture_output=True, text=True)
            caught = p.returncode == 1
            first = ""
            for l in p.stdout.splitlines():
                if ("C0" in l or "C1" in l or "C2" in l) and ":" in l and ("rapid] failed" in l or "VERIF-VIOLATION" in l):
                    first = l.strip()[:300]
                    break
            rec = {"mutation": m["name"], "check": c, "rc": p.returncode, "caught": caught, "wall_s": round(time.time() - t0, 1), "first": first}
            print(json.dumps(rec))
            with open("/verif/sensitivity_log.jsonl", "a") as f:
                f.write(json.dumps(rec) + "\n")
    finally:
        open(path, "w").write(src)

#!/usr/bin/env python3
"""Rewrites the block between <!-- SEEDED-TABLE-BEGIN --> and <!-- SEEDED-TABLE-END --> in DESIGN.md from seeded/*/meta.json."""
import json, glob, os, re
rows = []
for p in sorted(glob.glob('/verif/seeded/*/meta.json')):
    m = json.load(open(p))
    d = os.path.dirname(p)
    notes = open(os.path.join(d, 'notes.txt')).read() if os.path.exists(os.path.join(d, 'notes.txt')) else ''
    diff = open(os.path.join(d, 'patch.diff')).read()
    files = sorted(set(re.findall(r'^\+\+\+ b/(\S+)', diff, re.M)))
    what = m.get('summary') or ''
    if len(what) > 420:
        what = what[:417] + '...'
    runs = m.get('checks_run', [])
    # final verdict per check = last run of that check
    last = {}
    first = {}
    for r in runs:
        first.setdefault(r['check'], r)
        last[r['check']] = r
    verdicts = []
    for c in sorted(last):
        v = 'caught' if last[c]['caught'] else 'MISSED'
        if last[c]['caught'] and (not first[c]['caught'] or (m.get('first_evaluation') and c == m['breaks_property'])):
            v = 'caught after strengthening (missed at first)'
        if not last[c]['caught'] and m.get('lead_assessment'):
            v = 'not caught; judged outside the statement (see meta.json)'
        verdicts.append('%s: %s' % (c, v))
    rows.append('| %s | %s | %s | %s |' % (m['id'], ', '.join(os.path.basename(f) for f in files), what.replace('|', '/'), '; '.join(verdicts)))
table = '| seed | file | what it breaks and what it needs | quick tier verdict |\n|---|---|---|---|\n' + '\n'.join(rows) + '\n'
s = open('/verif/DESIGN.md').read()
b, e = '<!-- SEEDED-TABLE-BEGIN -->', '<!-- SEEDED-TABLE-END -->'
if b not in s:
    s += '\n### 12.6 Independently seeded changes (`seeded/<id>/`: patch.diff, demo_test.go, notes.txt, meta.json)\n\nEach change was written by a fresh sub-agent that saw only the property text and a scratch worktree; the lead confirmed (seedtest.py) that it compiles, that the 39-test baseline still passes, that its demonstration passes on the unchanged tree and fails with the change, and then ran the property\'s quick tier against it.\n\n' + b + '\n' + e + '\n'
s = s[:s.index(b) + len(b)] + '\n' + table + s[s.index(e):]
open('/verif/DESIGN.md', 'w').write(s)
print(len(rows), 'rows')

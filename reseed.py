#!/usr/bin/env python3
"""Re-runs checks against a kept seed (/verif/seeded/<id>) and appends the result to its meta.json.
  ./reseed.py <id> [--checks C14,C12] [--scale S]"""
import json, os, subprocess, sys, time
sid = sys.argv[1]
d = os.path.join('/verif/seeded', sid)
meta = json.load(open(os.path.join(d, 'meta.json')))
checks = [meta['breaks_property']]
scale = '1'
a = sys.argv[2:]
while a:
    x = a.pop(0)
    if x == '--checks': checks = a.pop(0).split(',')
    elif x == '--scale': scale = a.pop(0)
wt = '/var/tmp/reseed-%d' % os.getpid()
subprocess.run(['git', '-C', '/repo', 'worktree', 'add', '-q', '--detach', wt, 'HEAD'], check=True)
try:
    subprocess.run(['git', 'apply', os.path.join(d, 'patch.diff')], cwd=wt, check=True)
    for c in checks:
        t0 = time.time()
        p = subprocess.run(['/verif/check', c, '--scale', scale], env=dict(os.environ, VERIF_REPO=wt), capture_output=True, text=True)
        first = ''
        for l in p.stdout.splitlines():
            if 'rapid] failed' in l or 'VERIF-VIOLATION' in l:
                first = l.strip()[:400]; break
        r = {'check': c, 'tier': 'quick', 'caught': p.returncode == 1 and 'VIOLATION property=' in p.stdout, 'wall_s': round(time.time() - t0, 1), 'first_failure': first,
             'repo_head': subprocess.check_output(['git', '-C', '/repo', 'rev-parse', '--short', 'HEAD'], text=True).strip(),
             'verif_head': subprocess.check_output(['git', '-C', '/verif', 'rev-parse', '--short', 'HEAD'], text=True).strip(), 'rerun': True}
        meta.setdefault('checks_run', []).append(r)
        print(sid, c, 'CAUGHT' if r['caught'] else 'MISSED rc=%d' % p.returncode, r['wall_s'], first[:200])
finally:
    subprocess.run(['git', '-C', '/repo', 'worktree', 'remove', '--force', wt])
    # the build output and work directories of the scratch tree go with it
    import re, shutil
    tag = re.sub(r'[^A-Za-z0-9]+', '_', wt).strip('_')
    shutil.rmtree('/verif/bin/alt-' + tag, ignore_errors=True)
    shutil.rmtree('/verif/.work/alt-' + tag, ignore_errors=True)
    json.dump(meta, open(os.path.join(d, 'meta.json'), 'w'), indent=1)

package accache

import (
	"context"
	"fmt"
	"net/url"
	"sort"
	"strings"
	"testing"
	"time"

	remoteexecution "github.com/bazelbuild/remote-apis/build/bazel/remote/execution/v2"
	re_blobstore "github.com/buildbarn/bb-remote-execution/pkg/blobstore"
	"github.com/buildbarn/bb-remote-execution/pkg/builder"
	"github.com/buildbarn/bb-remote-execution/pkg/filesystem/access"
	"github.com/buildbarn/bb-remote-execution/pkg/filesystem/pool"
	cas_proto "github.com/buildbarn/bb-remote-execution/pkg/proto/cas"
	"github.com/buildbarn/bb-remote-execution/pkg/proto/remoteworker"
	"github.com/buildbarn/bb-storage/pkg/blobstore"
	"github.com/buildbarn/bb-storage/pkg/digest"
	"golang.org/x/sync/semaphore"
	status_pb "google.golang.org/genproto/googleapis/rpc/status"
	"google.golang.org/grpc/codes"
	"google.golang.org/grpc/status"
	"google.golang.org/protobuf/proto"
	"pgregory.net/rapid"

	"verif/harness/internal/simkit"
)

// upload is one blob the scripted base executor stores and references.
type upload struct {
	Role  string `json:"role"` // file, tree, rootdir, stdout, stderr, log
	Data  string `json:"data"`
	Style int    `json:"style"` // buffer implementation used
}

// scenario is one generated action execution.
type scenario struct {
	DoNotCache bool `json:"do_not_cache"`
	// Request: "ok", "nil_action" or "bad_digest" (both rejected by the
	// caching executor with an error).
	Request string `json:"request"`
	// Outcome scripted for the base executor.
	Code        int32    `json:"code"` // gRPC status code of the base response
	ErrorFirst  bool     `json:"error_first"`
	ExitCode    int32    `json:"exit_code"`
	StopOnError bool     `json:"stop_on_error"`
	Uploads     []upload `json:"uploads"`
	Preexisting []string `json:"preexisting"` // contents already in the CAS
	BatchSize   int      `json:"batch_size"`
	Concurrency int64    `json:"concurrency"`
	// DelayOrder: contents in the order in which concurrent transfers
	// of them finish (only relevant if Concurrency > 1).
	DelayOrder []string `json:"delay_order"`
}

func (sc *scenario) cacheAllowed() bool {
	return sc.Request == "ok" && !sc.DoNotCache && sc.Code == 0 && sc.ExitCode == 0
}

func (sc *scenario) distinctContents() []string {
	seen := map[string]bool{}
	var out []string
	for _, u := range sc.Uploads {
		if !seen[u.Data] {
			seen[u.Data] = true
			out = append(out, u.Data)
		}
	}
	sort.Strings(out)
	return out
}

func genScenario(rt *rapid.T) scenario {
	sc := scenario{
		DoNotCache:  rapid.IntRange(0, 4).Draw(rt, "do_not_cache") == 0,
		Request:     rapid.SampledFrom([]string{"ok", "ok", "ok", "ok", "ok", "ok", "ok", "ok", "ok", "ok", "nil_action", "bad_digest"}).Draw(rt, "request"),
		ErrorFirst:  rapid.Bool().Draw(rt, "error_first"),
		StopOnError: rapid.Bool().Draw(rt, "stop_on_error"),
		BatchSize:   rapid.IntRange(1, 5).Draw(rt, "batch_size"),
		Concurrency: int64(rapid.SampledFrom([]int{1, 1, 2, 3}).Draw(rt, "concurrency")),
	}
	// Most actions succeed; the interesting failures are rare in
	// practice but common here.
	sc.Code = int32(rapid.SampledFrom([]codes.Code{codes.OK, codes.OK, codes.OK, codes.OK, codes.DeadlineExceeded, codes.Internal, codes.InvalidArgument}).Draw(rt, "code"))
	sc.ExitCode = rapid.SampledFrom([]int32{0, 0, 0, 0, 1, 2, -1, 255}).Draw(rt, "exit_code")

	n := rapid.IntRange(0, 9).Draw(rt, "n_uploads")
	haveStdout, haveStderr := false, false
	for i := 0; i < n; i++ {
		role := rapid.SampledFrom([]string{"file", "file", "file", "tree", "tree", "rootdir", "stdout", "stderr", "log"}).Draw(rt, "role")
		if role == "stdout" {
			if haveStdout {
				role = "file"
			}
			haveStdout = true
		}
		if role == "stderr" {
			if haveStderr {
				role = "file"
			}
			haveStderr = true
		}
		sc.Uploads = append(sc.Uploads, upload{
			Role:  role,
			Data:  rapid.SampledFrom(contentPool).Draw(rt, "data"),
			Style: rapid.IntRange(0, 1).Draw(rt, "style"),
		})
	}
	distinct := sc.distinctContents()
	for _, c := range distinct {
		if rapid.IntRange(0, 4).Draw(rt, "preexisting") == 0 {
			sc.Preexisting = append(sc.Preexisting, c)
		}
	}
	if sc.Concurrency > 1 && len(distinct) > 0 {
		sc.DelayOrder = rapid.Permutation(distinct).Draw(rt, "delay_order")
	}
	return sc
}

// scriptedExecutor is the base BuildExecutor: it uploads the scenario's
// blobs through the CAS writer it was given (as LocalBuildExecutor does)
// and references every blob whose Put was acknowledged.
type scriptedExecutor struct {
	sc     *scenario
	w      *world
	writer blobstore.BlobAccess

	// Observations.
	acked      []string          // contents whose Put returned nil
	putErrors  int               // Puts that returned an error
	baseStatus *status_pb.Status // status when Execute returned
	readers    []*trackedReader
}

func attachError(response *remoteexecution.ExecuteResponse, err error) {
	// Same rule as builder.attachErrorToExecuteResponse: first error wins.
	if status.ErrorProto(response.Status) == nil {
		response.Status = status.Convert(err).Proto()
	}
}

func (be *scriptedExecutor) CheckReadiness(ctx context.Context) error { return nil }

func (be *scriptedExecutor) Execute(ctx context.Context, filePool pool.FilePool, monitor access.UnreadDirectoryMonitor, digestFunction digest.Function, request *remoteworker.DesiredState_Executing, executionStateUpdates chan<- *remoteworker.CurrentState_Executing) *remoteexecution.ExecuteResponse {
	sc := be.sc
	response := builder.NewDefaultExecuteResponse(request)
	response.Result.ExitCode = sc.ExitCode
	scripted := status.Error(codes.Code(sc.Code), "scripted failure of the action")
	if sc.Code != 0 && sc.ErrorFirst {
		attachError(response, scripted)
	}
	for i, u := range sc.Uploads {
		data := []byte(u.Data)
		d := digestOf(data)
		b, r := be.w.newTrackedBuffer(data, u.Style)
		be.readers = append(be.readers, r)
		if err := be.writer.Put(ctx, d, b); err != nil {
			be.putErrors++
			attachError(response, status.Errorf(status.Code(err), "Failed to store output #%d: %s", i, err))
			if sc.StopOnError {
				break
			}
			continue
		}
		be.acked = append(be.acked, u.Data)
		name := fmt.Sprintf("o%d", i)
		switch u.Role {
		case "file":
			response.Result.OutputFiles = append(response.Result.OutputFiles, &remoteexecution.OutputFile{Path: name, Digest: d.GetProto()})
		case "tree":
			response.Result.OutputDirectories = append(response.Result.OutputDirectories, &remoteexecution.OutputDirectory{Path: name, TreeDigest: d.GetProto()})
		case "rootdir":
			// A directory advertised with both a Tree and its
			// root Directory message; here both are this blob.
			response.Result.OutputDirectories = append(response.Result.OutputDirectories, &remoteexecution.OutputDirectory{Path: name, TreeDigest: d.GetProto(), RootDirectoryDigest: d.GetProto()})
		case "stdout":
			response.Result.StdoutDigest = d.GetProto()
		case "stderr":
			response.Result.StderrDigest = d.GetProto()
		case "log":
			response.ServerLogs[name] = &remoteexecution.LogFile{Digest: d.GetProto()}
		}
	}
	if sc.Code != 0 && !sc.ErrorFirst {
		attachError(response, scripted)
	}
	be.baseStatus = proto.Clone(response.Status).(*status_pb.Status)
	if response.Status == nil {
		be.baseStatus = nil
	}
	return response
}

// observation is everything one run of the pipeline exposes.
type observation struct {
	Response    *remoteexecution.ExecuteResponse
	BaseStatus  *status_pb.Status
	Acked       []string
	PutErrors   int
	ACEntries   []acEntry
	CASKeys     map[string]bool
	ExtraBlobs  [][]byte // CAS blobs that are not scenario contents
	Calls       []callRec
	Reached     []reachedFault
	Problems    []string
	BufProblems []string
	ActionKey   string
	Flushes     []error // what the flush callback returned, per call
}

var browserURL = &url.URL{Scheme: "http", Host: "browser.example"}

// runPipeline builds the worker's executor stack in the order of
// cmd/bb_worker/main.go (base executor writing through the batched CAS
// writer -> storage flushing -> caching over the global CAS and the AC)
// and executes the scenario once under the given fault plan.
func runPipeline(sc *scenario, plan map[string]string, code codes.Code) *observation {
	w := newWorld()
	for k, v := range plan {
		w.plan[k] = v
		w.planCode[k] = code
	}
	globalCAS := newFakeCAS(w)
	for _, c := range sc.Preexisting {
		globalCAS.blobs[keyOf(digestOf([]byte(c)))] = []byte(c)
	}
	for i, c := range sc.DelayOrder {
		w.delays[keyOf(digestOf([]byte(c)))] = time.Duration(i+1) * time.Millisecond
	}
	actionCache := &fakeAC{w: w, cas: globalCAS}

	writer, flusher := re_blobstore.NewBatchedStoreBlobAccess(globalCAS, digest.KeyWithoutInstance, sc.BatchSize, semaphore.NewWeighted(sc.Concurrency))
	base := &scriptedExecutor{sc: sc, w: w, writer: writer}
	// The flusher is wrapped only to observe what it reports.
	var flushResults []error
	observedFlusher := func(ctx context.Context) error {
		err := flusher(ctx)
		flushResults = append(flushResults, err)
		return err
	}
	var executor builder.BuildExecutor = builder.NewStorageFlushingBuildExecutor(base, observedFlusher)
	executor = builder.NewCachingBuildExecutor(executor, globalCAS, actionCache, browserURL)

	action := &remoteexecution.Action{DoNotCache: sc.DoNotCache, CommandDigest: digestOf([]byte("command")).GetProto(), InputRootDigest: digestOf(nil).GetProto()}
	actionData, err := proto.Marshal(action)
	if err != nil {
		panic(err)
	}
	actionDigest := digestOf(actionData)
	request := &remoteworker.DesiredState_Executing{ActionDigest: actionDigest.GetProto(), Action: action}
	switch sc.Request {
	case "nil_action":
		request.Action = nil
	case "bad_digest":
		request.ActionDigest = &remoteexecution.Digest{Hash: "not-a-hash", SizeBytes: 3}
	}

	ctx, cancel := context.WithCancel(context.Background())
	defer cancel()
	w.cancel = cancel
	updates := make(chan *remoteworker.CurrentState_Executing, 16)
	response := executor.Execute(ctx, nil, nil, digestFunction, request, updates)

	obs := &observation{
		Response:    response,
		BaseStatus:  base.baseStatus,
		Acked:       base.acked,
		PutErrors:   base.putErrors,
		ACEntries:   actionCache.entries,
		CASKeys:     map[string]bool{},
		Calls:       w.calls,
		Reached:     w.reached,
		Problems:    w.problems,
		BufProblems: w.bufferProblems(true),
		ActionKey:   keyOf(actionDigest),
		Flushes:     flushResults,
	}
	scenarioKeys := poolKeys
	for _, k := range globalCAS.keys() {
		obs.CASKeys[k] = true
		if !scenarioKeys[k] {
			obs.ExtraBlobs = append(obs.ExtraBlobs, globalCAS.blobs[k])
		}
	}
	return obs
}

// fallible is one call of the fault-free run at which a fault can be
// injected.
type fallible struct {
	Key   string `json:"key"`
	Class string `json:"class"` // fm, put (output blob through the batched writer), her (historical execute response), ac
	Phase int    `json:"-"`
}

func classifyCall(c callRec) string {
	switch {
	case c.Store == "ac":
		return "ac"
	case c.Op == "FindMissing":
		return "fm"
	}
	if strings.HasPrefix(c.Key, "PUT:other#") {
		return "her"
	}
	return "put"
}

// canonicalCalls orders the fallible calls of the fault-free run in a way
// that does not depend on how concurrent uploads were scheduled.
func canonicalCalls(calls []callRec) []fallible {
	out := make([]fallible, 0, len(calls))
	for _, c := range calls {
		out = append(out, fallible{Key: c.Key, Class: classifyCall(c), Phase: c.Phase})
	}
	rank := map[string]int{"fm": 0, "put": 1, "her": 2, "ac": 3}
	sort.SliceStable(out, func(i, j int) bool {
		a, b := out[i], out[j]
		ra, rb := rank[a.Class], rank[b.Class]
		// FindMissing #n has phase n and precedes the writes of phase n+1.
		pa, pb := 2*a.Phase, 2*b.Phase
		if a.Class != "fm" {
			pa--
		}
		if b.Class != "fm" {
			pb--
		}
		if a.Class == "her" || a.Class == "ac" {
			pa = 1 << 30
		}
		if b.Class == "her" || b.Class == "ac" {
			pb = 1 << 30
		}
		if pa != pb {
			return pa < pb
		}
		if ra != rb {
			return ra < rb
		}
		return a.Key < b.Key
	})
	return out
}

type runScript struct {
	Scenario scenario `json:"scenario"`
	Fault    int      `json:"fault"` // index into the canonical fallible calls; -1 = fault-free
	Call     string   `json:"call,omitempty"`
	Kind     string   `json:"kind,omitempty"`
	Code     string   `json:"code,omitempty"` // status code of the injected error (kind "error")
}

func statusOK(s *status_pb.Status) bool { return status.ErrorProto(s) == nil }

// checkRun is the oracle for one run. fault is nil for the fault-free run.
func checkRun(sc *scenario, obs *observation, fault *fallible, kind string) error {
	r := obs.Response
	if r == nil || r.Result == nil {
		return fmt.Errorf("pipeline returned a response without a result: %v", r)
	}
	if len(obs.Problems) > 0 {
		return fmt.Errorf("back ends observed: %v", obs.Problems)
	}
	// Every buffer handed to the batched writer is consumed or discarded exactly once.
	if len(obs.BufProblems) > 0 {
		return fmt.Errorf("buffer accounting: %v", obs.BufProblems)
	}
	finalOK := statusOK(r.Status)

	// Only complete, successful results reach the Action Cache.
	if len(obs.ACEntries) > 1 {
		return fmt.Errorf("Action Cache written %d times", len(obs.ACEntries))
	}
	for _, e := range obs.ACEntries {
		switch {
		case sc.Request != "ok":
			return fmt.Errorf("result cached for a malformed request (%s)", sc.Request)
		case sc.DoNotCache:
			return fmt.Errorf("result cached although the action has do_not_cache set")
		case sc.Code != 0:
			return fmt.Errorf("result cached although the action failed with status code %v", codes.Code(sc.Code))
		case sc.ExitCode != 0 || e.Result.ExitCode != 0:
			return fmt.Errorf("result with exit code %d (scripted %d) cached", e.Result.ExitCode, sc.ExitCode)
		case e.Key != obs.ActionKey:
			return fmt.Errorf("result cached under %s instead of the action digest %s", e.Key, obs.ActionKey)
		case len(e.MissingAtPut) > 0:
			return fmt.Errorf("result cached while the CAS lacked blobs it references: %v", e.MissingAtPut)
		case !finalOK:
			return fmt.Errorf("result cached but the response carries error %v", r.Status)
		case !proto.Equal(e.Result, r.Result):
			return fmt.Errorf("cached result %v differs from the result returned %v", e.Result, r.Result)
		}
	}

	advertised := referencedDigests(r.Result, r.ServerLogs)
	// A response without error only advertises blobs that are stored.
	if finalOK {
		for _, ref := range advertised {
			d, err := digestFunction.NewDigestFromProto(ref.Digest)
			if err != nil {
				return fmt.Errorf("malformed digest advertised at %s", ref.Where)
			}
			if !obs.CASKeys[keyOf(d)] {
				return fmt.Errorf("response has OK status but advertises %s = %s which is not in the CAS", ref.Where, keyOf(d))
			}
		}
	}
	// The flush runs after every action. If (its last invocation) reports success, every
	// write the batching layer acknowledged is stored; if it reports an
	// error, the response carries an error, is not cached and advertises
	// no digests.
	if len(obs.Flushes) == 0 {
		return fmt.Errorf("flush callback was not invoked")
	}
	if flushErr := obs.Flushes[len(obs.Flushes)-1]; flushErr == nil {
		for _, c := range obs.Acked {
			if k := keyOf(digestOf([]byte(c))); !obs.CASKeys[k] {
				return fmt.Errorf("flush reported success but acknowledged blob %q (%s) is not in the CAS", c, k)
			}
		}
	} else {
		if finalOK {
			return fmt.Errorf("flush failed (%v) but the response has OK status", flushErr)
		}
		if len(obs.ACEntries) != 0 {
			return fmt.Errorf("flush failed (%v) but the result was cached", flushErr)
		}
		if len(advertised) != 0 {
			return fmt.Errorf("flush failed (%v) but the response still advertises %d digests", flushErr, len(advertised))
		}
	}
	// First error wins: an error reported by the base executor is never replaced.
	if !statusOK(obs.BaseStatus) && !proto.Equal(obs.BaseStatus, r.Status) {
		return fmt.Errorf("base executor reported %v but the pipeline returned status %v", obs.BaseStatus, r.Status)
	}

	if fault == nil {
		if len(obs.Reached) != 0 {
			return fmt.Errorf("harness: fault reached in fault-free run: %v", obs.Reached)
		}
		if obs.PutErrors != 0 {
			return fmt.Errorf("fault-free run: %d uploads were refused", obs.PutErrors)
		}
		wantOK := sc.Code == 0 && sc.Request == "ok"
		if finalOK != wantOK {
			return fmt.Errorf("fault-free run: response status %v, expected ok=%v", r.Status, wantOK)
		}
		if got, want := len(obs.ACEntries) == 1, sc.cacheAllowed(); got != want {
			return fmt.Errorf("fault-free run: cached=%v, but caching allowed=%v", got, want)
		}
		// Everything acknowledged by the batching layer is stored once the flush succeeded.
		for _, c := range obs.Acked {
			if k := keyOf(digestOf([]byte(c))); !obs.CASKeys[k] {
				return fmt.Errorf("fault-free run: acknowledged blob %q (%s) not in the CAS after a successful flush", c, k)
			}
		}
		if len(advertised) != len(referencedDigestsOfScenario(sc)) {
			return fmt.Errorf("fault-free run: response advertises %d digests, the action produced %d", len(advertised), len(referencedDigestsOfScenario(sc)))
		}
		// Uncached results are stored in the CAS instead (documented extension).
		if sc.Request == "ok" && !sc.cacheAllowed() {
			if len(obs.ExtraBlobs) != 1 {
				return fmt.Errorf("fault-free run: uncached result, but %d historical execute responses in the CAS", len(obs.ExtraBlobs))
			}
			var her cas_proto.HistoricalExecuteResponse
			if err := proto.Unmarshal(obs.ExtraBlobs[0], &her); err != nil || her.ExecuteResponse == nil {
				return fmt.Errorf("fault-free run: extra CAS blob is not a HistoricalExecuteResponse: %v", err)
			}
		}
		return nil
	}

	reached := false
	for _, f := range obs.Reached {
		if f.Key == fault.Key {
			reached = true
		}
	}
	if !reached {
		// The run is identical to the fault-free one up to the fault.
		return fmt.Errorf("harness: planned fault %s was not reached; calls=%+v", fault.Key, obs.Calls)
	}
	if kind == faultCancelIgnored {
		// Nothing failed at the back end: whether the operation fails is
		// up to the code, and the oracles above (flush success => all
		// acknowledged blobs stored, OK response / AC entry => all
		// referenced blobs stored) decide. If nothing was left unwritten
		// the result may legitimately be cached.
		return nil
	}
	if finalOK {
		return fmt.Errorf("%s fault (%s) at %s was reached but the response has OK status", fault.Class, kind, fault.Key)
	}
	if len(obs.ACEntries) != 0 {
		return fmt.Errorf("%s fault (%s) at %s was reached but the result was cached", fault.Class, kind, fault.Key)
	}
	switch fault.Class {
	case "fm", "put":
		// A failed output write / flush: the response no longer advertises output digests.
		if len(advertised) != 0 {
			var where []string
			for _, ref := range advertised {
				where = append(where, ref.Where)
			}
			return fmt.Errorf("%s fault (%s) at %s: response still advertises %v", fault.Class, kind, fault.Key, where)
		}
	case "ac", "her":
		// All outputs were flushed before; what is advertised must exist.
		for _, ref := range advertised {
			d, err := digestFunction.NewDigestFromProto(ref.Digest)
			if err != nil || !obs.CASKeys[keyOf(d)] {
				return fmt.Errorf("%s fault: response advertises %s which is not in the CAS", fault.Class, ref.Where)
			}
		}
	}
	return nil
}

func referencedDigestsOfScenario(sc *scenario) []string {
	var out []string
	for _, u := range sc.Uploads {
		out = append(out, u.Role)
		if u.Role == "rootdir" {
			out = append(out, u.Role)
		}
	}
	return out
}

func TestC09PipelineFaults(t *testing.T) {
	rec := simkit.NewRecorder(t, "C09", "pipeline_faults",
		"scenario = generated action (do_not_cache, request well-formed or not), scripted outcome (status code, exit code), 0-9 output blobs (files, trees, root dirs, stdout, stderr, server logs) drawn from 8 contents so duplicates and the empty blob are common, some already in the CAS, batch size 1-5, upload concurrency 1-3 with generated transfer order; real BatchedStoreBlobAccess -> StorageFlushingBuildExecutor -> CachingBuildExecutor over fake CAS/AC. One fault-free run enumerates the fallible calls (FindMissing, CAS Put, AC Put, historical-response Put), then one run per (call x {error with a status code drawn per fault from 12 codes, ctx cancelled, ctx cancelled but ignored by the back ends (FindMissing/output Put only)}). Oracle: AC entry => !do_not_cache & status OK & exit 0 & every referenced digest in the CAS at the moment of the AC Put; reached error/cancel fault => status non-OK & not cached & (output write/flush fault) no digests advertised; flush()==nil => every acknowledged blob stored, flush()!=nil => status non-OK & not cached & nothing advertised; OK response advertises only stored blobs; first error wins; fault-free => cached iff allowed; every buffer released exactly once. NON-TRIVIAL = fault reached and scenario has >=2 distinct blobs; distinct by (scenario, fault index, kind); evaluations = (scenario, fault) runs")
	rapid.Check(t, func(rt *rapid.T) {
		sc := genScenario(rt)
		type run struct {
			script runScript
			fault  *fallible
			obs    *observation
		}
		var runs []run
		inBubble(t, func() {
			free := runPipeline(&sc, nil, codes.OK)
			runs = append(runs, run{script: runScript{Scenario: sc, Fault: -1}, obs: free})
			calls := canonicalCalls(free.Calls)
			for i := range calls {
				for _, kind := range []string{faultError, faultCancel, faultCancelIgnored} {
					f := calls[i]
					if kind == faultCancelIgnored && f.Class != "fm" && f.Class != "put" {
						// After the flush a cancellation nobody notices changes nothing.
						continue
					}
					// The status code of a failing call is drawn per
					// fault: the code under test must not read a
					// particular code as success or as retryable.
					code, codeName := codes.OK, ""
					if kind == faultError {
						code = rapid.SampledFrom(errorCodes).Draw(rt, "error_code")
						codeName = code.String()
					}
					obs := runPipeline(&sc, map[string]string{f.Key: kind}, code)
					runs = append(runs, run{script: runScript{Scenario: sc, Fault: i, Call: f.Class, Kind: kind, Code: codeName}, fault: &f, obs: obs})
				}
			}
		})

		distinct := len(sc.distinctContents())
		dups := len(sc.Uploads) > distinct
		hasEmpty := false
		for _, u := range sc.Uploads {
			if u.Data == "" {
				hasEmpty = true
			}
		}
		for _, r := range runs {
			if err := checkRun(&sc, r.obs, r.fault, r.script.Kind); err != nil {
				rt.Fatalf("%v; script=%+v calls=%+v response=%v", err, r.script, r.obs.Calls, r.obs.Response)
			}
			labels := []string{fmt.Sprintf("batch=%d", sc.BatchSize), fmt.Sprintf("concurrency=%d", sc.Concurrency)}
			if dups {
				labels = append(labels, "duplicates")
			}
			if hasEmpty {
				labels = append(labels, "empty_blob")
			}
			if len(sc.Preexisting) > 0 {
				labels = append(labels, "some_preexisting")
			}
			switch {
			case sc.Request != "ok":
				labels = append(labels, "outcome:bad_request")
			case sc.cacheAllowed():
				labels = append(labels, "outcome:cacheable")
			case sc.DoNotCache && sc.Code == 0 && sc.ExitCode == 0:
				labels = append(labels, "outcome:do_not_cache_only")
			case sc.Code == 0:
				labels = append(labels, "outcome:exit_nonzero")
			default:
				labels = append(labels, "outcome:status_nonok")
			}
			nFM := 0
			for _, c := range r.obs.Calls {
				if c.Op == "FindMissing" {
					nFM++
				}
			}
			if nFM >= 2 {
				labels = append(labels, "multi_batch")
			}
			if r.fault == nil {
				labels = append(labels, "fault_free")
				if len(r.obs.ACEntries) == 1 {
					labels = append(labels, "fault_free:cached")
				}
			} else {
				labels = append(labels, "fault:"+r.fault.Class, "kind:"+r.script.Kind)
				if r.script.Code != "" {
					labels = append(labels, "error_code:"+r.fault.Class+":"+r.script.Code)
				}
				if r.fault.Class == "fm" || r.fault.Class == "put" {
					if r.obs.PutErrors > 0 {
						// The sticky error of an intermediate flush surfaced in a later upload.
						labels = append(labels, "fault_in_intermediate_flush")
					} else {
						labels = append(labels, "fault_in_final_flush")
					}
					if sc.cacheAllowed() && len(r.obs.ACEntries) == 0 {
						labels = append(labels, "fault_blocks_caching")
					}
					if r.script.Kind == faultCancelIgnored {
						// Did the cancellation leave blobs unwritten (flush must fail) or not?
						if r.obs.Flushes[len(r.obs.Flushes)-1] != nil {
							labels = append(labels, "cancel_ignored:flush_failed")
						} else {
							labels = append(labels, "cancel_ignored:flush_ok")
						}
						if len(r.obs.ACEntries) == 1 {
							labels = append(labels, "cancel_ignored:cached")
						}
					}
				} else if len(referencedDigests(r.obs.Response.Result, r.obs.Response.ServerLogs)) > 0 {
					// Visible on purpose: after a failed AC / historical-response
					// write the (fully stored) outputs stay advertised.
					labels = append(labels, "late_fault_outputs_still_advertised")
				}
			}
			rec.Case(r.script, r.fault != nil && distinct >= 2, labels...)
		}
	})
}

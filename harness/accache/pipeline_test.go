package accache

import (
	"context"
	"fmt"
	"net/url"
	"os"
	"sort"
	"strings"
	"testing"
	"time"

	remoteexecution "github.com/bazelbuild/remote-apis/build/bazel/remote/execution/v2"
	re_blobstore "github.com/buildbarn/bb-remote-execution/pkg/blobstore"
	"github.com/buildbarn/bb-remote-execution/pkg/builder"
	"github.com/buildbarn/bb-remote-execution/pkg/filesystem/access"
	"github.com/buildbarn/bb-remote-execution/pkg/filesystem/pool"
	cas_proto "github.com/buildbarn/bb-remote-execution/pkg/proto/cas"
	"github.com/buildbarn/bb-remote-execution/pkg/proto/remoteworker"
	"github.com/buildbarn/bb-storage/pkg/blobstore"
	"github.com/buildbarn/bb-storage/pkg/digest"
	"golang.org/x/sync/semaphore"
	status_pb "google.golang.org/genproto/googleapis/rpc/status"
	"google.golang.org/grpc/codes"
	"google.golang.org/grpc/status"
	"google.golang.org/protobuf/proto"
	"pgregory.net/rapid"

	"verif/harness/internal/simkit"
)

// upload is one blob the scripted base executor stores and references.
type upload struct {
	Role  string `json:"role"` // file, tree, rootdir, stdout, stderr, log
	Data  string `json:"data"`
	Style int    `json:"style"` // buffer implementation used
}

// scenario is one generated action execution.
type scenario struct {
	DoNotCache bool `json:"do_not_cache"`
	// Request: "ok", "nil_action" or "bad_digest" (both rejected by the
	// caching executor with an error).
	Request string `json:"request"`
	// Outcome scripted for the base executor.
	Code        int32    `json:"code"` // gRPC status code of the base response
	ErrorFirst  bool     `json:"error_first"`
	// ExplicitOK: a successful base executor reports success as an
	// explicit status with code OK instead of leaving the status unset
	// (the two mean the same; both occur on the wire).
	ExplicitOK bool `json:"explicit_ok,omitempty"`
	ExitCode    int32    `json:"exit_code"`
	StopOnError bool     `json:"stop_on_error"`
	Uploads     []upload `json:"uploads"`
	Preexisting []string `json:"preexisting"` // contents already in the CAS
	BatchSize   int      `json:"batch_size"`
	Concurrency int64    `json:"concurrency"`
	// DelayOrder: contents in the order in which concurrent transfers
	// of them finish (only relevant if Concurrency > 1).
	DelayOrder []string `json:"delay_order"`
}

func (sc *scenario) cacheAllowed() bool {
	return sc.Request == "ok" && !sc.DoNotCache && sc.Code == 0 && sc.ExitCode == 0
}

func (sc *scenario) distinctContents() []string {
	seen := map[string]bool{}
	var out []string
	for _, u := range sc.Uploads {
		if !seen[u.Data] {
			seen[u.Data] = true
			out = append(out, u.Data)
		}
	}
	sort.Strings(out)
	return out
}

func genScenario(rt *rapid.T) scenario {
	return genScenarioWith(rt, 9, nil)
}

// genScenarioWith generates an action with at most maxUploads outputs. If
// reuse is not empty, about half of the outputs take their contents from it
// (the outputs of an earlier action on the same pipeline).
func genScenarioWith(rt *rapid.T, maxUploads int, reuse []string) scenario {
	sc := scenario{
		DoNotCache:  rapid.IntRange(0, 4).Draw(rt, "do_not_cache") == 0,
		Request:     rapid.SampledFrom([]string{"ok", "ok", "ok", "ok", "ok", "ok", "ok", "ok", "ok", "ok", "nil_action", "bad_digest"}).Draw(rt, "request"),
		ErrorFirst:  rapid.Bool().Draw(rt, "error_first"),
		StopOnError: rapid.Bool().Draw(rt, "stop_on_error"),
		BatchSize:   rapid.IntRange(1, 5).Draw(rt, "batch_size"),
		Concurrency: int64(rapid.SampledFrom([]int{1, 1, 2, 3}).Draw(rt, "concurrency")),
	}
	// Most actions succeed; the interesting failures are rare in
	// practice but common here.
	sc.Code = int32(rapid.SampledFrom([]codes.Code{codes.OK, codes.OK, codes.OK, codes.OK, codes.DeadlineExceeded, codes.Internal, codes.InvalidArgument}).Draw(rt, "code"))
	sc.ExitCode = rapid.SampledFrom([]int32{0, 0, 0, 0, 1, 2, -1, 255}).Draw(rt, "exit_code")
	sc.ExplicitOK = rapid.IntRange(0, 3).Draw(rt, "explicit_ok") == 0

	n := rapid.IntRange(0, maxUploads).Draw(rt, "n_uploads")
	haveStdout, haveStderr := false, false
	for i := 0; i < n; i++ {
		role := rapid.SampledFrom([]string{"file", "file", "file", "tree", "tree", "rootdir", "stdout", "stderr", "log"}).Draw(rt, "role")
		if role == "stdout" {
			if haveStdout {
				role = "file"
			}
			haveStdout = true
		}
		if role == "stderr" {
			if haveStderr {
				role = "file"
			}
			haveStderr = true
		}
		from := contentPool
		if len(reuse) > 0 && rapid.Bool().Draw(rt, "reuse_earlier_content") {
			from = reuse
		}
		sc.Uploads = append(sc.Uploads, upload{
			Role:  role,
			Data:  rapid.SampledFrom(from).Draw(rt, "data"),
			Style: rapid.IntRange(0, 1).Draw(rt, "style"),
		})
	}
	distinct := sc.distinctContents()
	for _, c := range distinct {
		if rapid.IntRange(0, 4).Draw(rt, "preexisting") == 0 {
			sc.Preexisting = append(sc.Preexisting, c)
		}
	}
	if sc.Concurrency > 1 && len(distinct) > 0 {
		sc.DelayOrder = rapid.Permutation(distinct).Draw(rt, "delay_order")
	}
	return sc
}

// scriptedExecutor is the base BuildExecutor: it uploads the scenario's
// blobs through the CAS writer it was given (as LocalBuildExecutor does)
// and references every blob whose Put was acknowledged.
type scriptedExecutor struct {
	sc     *scenario
	w      *world
	writer blobstore.BlobAccess

	// Observations.
	acked      []string          // contents whose Put returned nil
	putErrors  int               // Puts that returned an error
	baseStatus *status_pb.Status // status when Execute returned
	readers    []*trackedReader
}

func attachError(response *remoteexecution.ExecuteResponse, err error) {
	// Same rule as builder.attachErrorToExecuteResponse: first error wins.
	if status.ErrorProto(response.Status) == nil {
		response.Status = status.Convert(err).Proto()
	}
}

func (be *scriptedExecutor) CheckReadiness(ctx context.Context) error { return nil }

func (be *scriptedExecutor) Execute(ctx context.Context, filePool pool.FilePool, monitor access.UnreadDirectoryMonitor, digestFunction digest.Function, request *remoteworker.DesiredState_Executing, executionStateUpdates chan<- *remoteworker.CurrentState_Executing) *remoteexecution.ExecuteResponse {
	sc := be.sc
	response := builder.NewDefaultExecuteResponse(request)
	response.Result.ExitCode = sc.ExitCode
	scripted := status.Error(codes.Code(sc.Code), "scripted failure of the action")
	if sc.Code != 0 && sc.ErrorFirst {
		attachError(response, scripted)
	}
	for i, u := range sc.Uploads {
		data := []byte(u.Data)
		d := digestOf(data)
		b, r := be.w.newTrackedBuffer(data, u.Style)
		be.readers = append(be.readers, r)
		if err := be.writer.Put(ctx, d, b); err != nil {
			be.putErrors++
			attachError(response, status.Errorf(status.Code(err), "Failed to store output #%d: %s", i, err))
			if sc.StopOnError {
				break
			}
			continue
		}
		be.acked = append(be.acked, u.Data)
		name := fmt.Sprintf("o%d", i)
		switch u.Role {
		case "file":
			response.Result.OutputFiles = append(response.Result.OutputFiles, &remoteexecution.OutputFile{Path: name, Digest: d.GetProto()})
		case "tree":
			response.Result.OutputDirectories = append(response.Result.OutputDirectories, &remoteexecution.OutputDirectory{Path: name, TreeDigest: d.GetProto()})
		case "rootdir":
			// A directory advertised with both a Tree and its
			// root Directory message; here both are this blob.
			response.Result.OutputDirectories = append(response.Result.OutputDirectories, &remoteexecution.OutputDirectory{Path: name, TreeDigest: d.GetProto(), RootDirectoryDigest: d.GetProto()})
		case "stdout":
			response.Result.StdoutDigest = d.GetProto()
		case "stderr":
			response.Result.StderrDigest = d.GetProto()
		case "log":
			response.ServerLogs[name] = &remoteexecution.LogFile{Digest: d.GetProto()}
		}
	}
	if sc.Code != 0 && !sc.ErrorFirst {
		attachError(response, scripted)
	}
	be.baseStatus = proto.Clone(response.Status).(*status_pb.Status)
	if response.Status == nil {
		be.baseStatus = nil
		if sc.ExplicitOK {
			response.Status = &status_pb.Status{Code: int32(codes.OK)}
		}
	}
	return response
}

// observation is everything one run of the pipeline exposes.
type observation struct {
	Response    *remoteexecution.ExecuteResponse
	BaseStatus  *status_pb.Status
	Acked       []string
	PutErrors   int
	ACEntries   []acEntry
	CASKeys     map[string]bool
	ExtraBlobs  [][]byte // CAS blobs that are not scenario contents
	Calls       []callRec
	Reached     []reachedFault
	Problems    []string
	BufProblems []string
	ActionKey   string
	Flushes     []error // what the flush callback returned, per call
}

var browserURL = &url.URL{Scheme: "http", Host: "browser.example"}

// plannedFault is one entry of a fault plan: the call (by its
// schedule-independent key) and what happens to it.
type plannedFault struct {
	Key      string     `json:"key"`
	Class    string     `json:"class"`
	Kind     string     `json:"kind"`
	Code     codes.Code `json:"-"`
	CodeName string     `json:"code,omitempty"`
}

// classOfKey classifies a fallible call by its key alone: fm, put (output
// blob through the batched writer), her (historical execute response), ac.
func classOfKey(key string) string {
	switch {
	case strings.HasPrefix(key, "ACPUT#"):
		return "ac"
	case strings.HasPrefix(key, "FM#"):
		return "fm"
	case strings.HasPrefix(key, "PUT:other#"):
		return "her"
	}
	return "put"
}

// pipeline is the worker's executor stack, assembled once in the order of
// cmd/bb_worker/main.go (base executor writing through the batched CAS
// writer -> storage flushing -> caching over the global CAS and the AC).
// As in the worker, ONE batched writer/flusher pair and ONE executor stack
// serve all consecutive actions.
type pipeline struct {
	w        *world
	cas      *fakeCAS
	ac       *fakeAC
	base     *scriptedExecutor
	executor builder.BuildExecutor
	flushes  []error // what the flush callback returned, per call
}

func newPipeline(batchSize int, concurrency int64, preexisting, delayOrder []string, plan []plannedFault) *pipeline {
	w := newWorld()
	for _, f := range plan {
		w.plan[f.Key] = f.Kind
		w.planCode[f.Key] = f.Code
	}
	p := &pipeline{w: w, cas: newFakeCAS(w)}
	for _, c := range preexisting {
		p.cas.blobs[keyOf(digestOf([]byte(c)))] = []byte(c)
	}
	for i, c := range delayOrder {
		w.delays[keyOf(digestOf([]byte(c)))] = time.Duration(i+1) * time.Millisecond
	}
	p.ac = &fakeAC{w: w, cas: p.cas}

	writer, flusher := re_blobstore.NewBatchedStoreBlobAccess(p.cas, digest.KeyWithoutInstance, batchSize, semaphore.NewWeighted(concurrency))
	p.base = &scriptedExecutor{w: w, writer: writer}
	// The flusher is wrapped only to observe what it reports.
	observedFlusher := func(ctx context.Context) error {
		err := flusher(ctx)
		p.flushes = append(p.flushes, err)
		return err
	}
	p.executor = builder.NewStorageFlushingBuildExecutor(p.base, observedFlusher)
	p.executor = builder.NewCachingBuildExecutor(p.executor, p.cas, p.ac, browserURL)
	return p
}

// runAction executes one action on the pipeline under its own context and
// reports what this action did. idx distinguishes the actions of a
// sequence (they get different action digests).
func (p *pipeline) runAction(sc *scenario, idx int) *observation {
	w := p.w
	command := "command"
	if idx > 0 {
		command = fmt.Sprintf("command-%d", idx)
	}
	action := &remoteexecution.Action{DoNotCache: sc.DoNotCache, CommandDigest: digestOf([]byte(command)).GetProto(), InputRootDigest: digestOf(nil).GetProto()}
	actionData, err := proto.Marshal(action)
	if err != nil {
		panic(err)
	}
	actionDigest := digestOf(actionData)
	request := &remoteworker.DesiredState_Executing{ActionDigest: actionDigest.GetProto(), Action: action}
	switch sc.Request {
	case "nil_action":
		request.Action = nil
	case "bad_digest":
		request.ActionDigest = &remoteexecution.Digest{Hash: "not-a-hash", SizeBytes: 3}
	}

	casBefore := map[string]bool{}
	for _, k := range p.cas.keys() {
		casBefore[k] = true
	}
	// Every action runs under a context of its own; back ends that
	// stopped looking at the previous action's context look again.
	ctx, cancel := context.WithCancel(context.Background())
	defer cancel()
	w.mu.Lock()
	callsBefore, reachedBefore, problemsBefore := len(w.calls), len(w.reached), len(w.problems)
	entriesBefore, flushesBefore := len(p.ac.entries), len(p.flushes)
	w.ignoreCtx = false
	w.cancel = cancel
	w.mu.Unlock()
	p.base.sc, p.base.acked, p.base.putErrors, p.base.baseStatus, p.base.readers = sc, nil, 0, nil, nil

	updates := make(chan *remoteworker.CurrentState_Executing, 16)
	response := p.executor.Execute(ctx, nil, nil, digestFunction, request, updates)

	w.mu.Lock()
	obs := &observation{
		Response:   response,
		BaseStatus: p.base.baseStatus,
		Acked:      p.base.acked,
		PutErrors:  p.base.putErrors,
		ACEntries:  append([]acEntry(nil), p.ac.entries[entriesBefore:]...),
		CASKeys:    map[string]bool{},
		Calls:      append([]callRec(nil), w.calls[callsBefore:]...),
		Reached:    append([]reachedFault(nil), w.reached[reachedBefore:]...),
		Problems:   append([]string(nil), w.problems[problemsBefore:]...),
		ActionKey:  keyOf(actionDigest),
		Flushes:    append([]error(nil), p.flushes[flushesBefore:]...),
	}
	w.mu.Unlock()
	obs.BufProblems = w.bufferProblems(true)
	for _, k := range p.cas.keys() {
		obs.CASKeys[k] = true
		if !poolKeys[k] && !casBefore[k] {
			obs.ExtraBlobs = append(obs.ExtraBlobs, p.cas.blobs[k])
		}
	}
	return obs
}

// runPipeline builds a fresh pipeline and executes the scenario once under
// the given fault plan (call key -> fault kind; code: status code of the
// "error" / "ack_lost" faults).
func runPipeline(sc *scenario, plan map[string]string, code codes.Code) *observation {
	var faults []plannedFault
	for k, v := range plan {
		faults = append(faults, plannedFault{Key: k, Class: classOfKey(k), Kind: v, Code: code})
	}
	return runPipelinePlan(sc, faults)
}

func runPipelinePlan(sc *scenario, faults []plannedFault) *observation {
	return newPipeline(sc.BatchSize, sc.Concurrency, sc.Preexisting, sc.DelayOrder, faults).runAction(sc, 0)
}

// fallible is one call of the fault-free run at which a fault can be
// injected.
type fallible struct {
	Key   string `json:"key"`
	Class string `json:"class"` // fm, put (output blob through the batched writer), her (historical execute response), ac
	Phase int    `json:"-"`
}

func classifyCall(c callRec) string {
	switch {
	case c.Store == "ac":
		return "ac"
	case c.Op == "FindMissing":
		return "fm"
	}
	if strings.HasPrefix(c.Key, "PUT:other#") {
		return "her"
	}
	return "put"
}

// canonicalCalls orders the fallible calls of the fault-free run in a way
// that does not depend on how concurrent uploads were scheduled.
func canonicalCalls(calls []callRec) []fallible {
	out := make([]fallible, 0, len(calls))
	for _, c := range calls {
		out = append(out, fallible{Key: c.Key, Class: classifyCall(c), Phase: c.Phase})
	}
	rank := map[string]int{"fm": 0, "put": 1, "her": 2, "ac": 3}
	sort.SliceStable(out, func(i, j int) bool {
		a, b := out[i], out[j]
		ra, rb := rank[a.Class], rank[b.Class]
		// FindMissing #n has phase n and precedes the writes of phase n+1.
		pa, pb := 2*a.Phase, 2*b.Phase
		if a.Class != "fm" {
			pa--
		}
		if b.Class != "fm" {
			pb--
		}
		if a.Class == "her" || a.Class == "ac" {
			pa = 1 << 30
		}
		if b.Class == "her" || b.Class == "ac" {
			pb = 1 << 30
		}
		if pa != pb {
			return pa < pb
		}
		if ra != rb {
			return ra < rb
		}
		return a.Key < b.Key
	})
	return out
}

type runScript struct {
	Scenario scenario `json:"scenario"`
	Fault    int      `json:"fault"` // index into the canonical fallible calls; -1 = fault-free
	Call     string   `json:"call,omitempty"`
	Kind     string   `json:"kind,omitempty"`
	Code     string   `json:"code,omitempty"` // status code of the injected error (kind "error" / "ack_lost")
	// Second fault of the same run (pairs), -1 / empty if there is none.
	Fault2 int    `json:"fault2"`
	Call2  string `json:"call2,omitempty"`
	Kind2  string `json:"kind2,omitempty"`
	Code2  string `json:"code2,omitempty"`
}

// faultKindsFor lists the fault kinds that make sense at a call of the
// given class: only writes can be carried out and then reported as failed;
// after the flush a cancellation nobody notices changes nothing.
func faultKindsFor(class string) []string {
	switch class {
	case "fm":
		return []string{faultError, faultCancel, faultCancelIgnored}
	case "put":
		return []string{faultError, faultCancel, faultCancelIgnored, faultAckLost}
	}
	return []string{faultError, faultCancel, faultAckLost}
}

// drawFault turns a fallible call and a kind into a plan entry. The status
// code of a failing call is drawn per fault: the code under test must not
// read a particular code as success or as retryable.
func drawFault(rt *rapid.T, f fallible, kind string) plannedFault {
	pf := plannedFault{Key: f.Key, Class: f.Class, Kind: kind}
	if kind == faultError || kind == faultAckLost {
		pf.Code = rapid.SampledFrom(errorCodes).Draw(rt, "error_code")
		pf.CodeName = pf.Code.String()
	}
	return pf
}

func thoroughTier() bool { return os.Getenv("VERIF_TIER") == "thorough" }

func statusOK(s *status_pb.Status) bool { return status.ErrorProto(s) == nil }

// hardFault: a fault kind at which the back-end call returned an error.
func hardFault(kind string) bool { return kind != faultCancelIgnored }

// checkAction is the oracle for one action executed on a pipeline. What is
// demanded follows from the faults that were REACHED during this action
// (obs.Reached), whatever was planned:
//   - nothing reached: the action behaves like a fault-free one, whatever
//     happened to earlier actions on the same pipeline;
//   - only ignored cancellations reached: the general oracles;
//   - a failed back-end call (error, cancel, ack_lost): non-OK status, not
//     cached, and (FindMissing / output Put) nothing advertised.
//
// expectNone: the plan was empty (a reached fault is a harness error).
// mustReachOne: keys of the planned faults, at least one of which must have
// been reached in this action (nil: no such demand).
func checkAction(sc *scenario, obs *observation, expectNone bool, mustReachOne []string) error {
	r := obs.Response
	if r == nil || r.Result == nil {
		return fmt.Errorf("pipeline returned a response without a result: %v", r)
	}
	if len(obs.Problems) > 0 {
		return fmt.Errorf("back ends observed: %v", obs.Problems)
	}
	// Every buffer handed to the batched writer is consumed or discarded exactly once.
	if len(obs.BufProblems) > 0 {
		return fmt.Errorf("buffer accounting: %v", obs.BufProblems)
	}
	// Execute is synchronous: no back-end call it started is still running.
	for _, c := range obs.Calls {
		if c.Result == "running" {
			return fmt.Errorf("back-end call %s still running after Execute returned", c.Key)
		}
	}
	finalOK := statusOK(r.Status)

	// Only complete, successful results reach the Action Cache.
	if len(obs.ACEntries) > 1 {
		return fmt.Errorf("Action Cache written %d times", len(obs.ACEntries))
	}
	cached := 0 // entries the pipeline was told were stored
	for _, e := range obs.ACEntries {
		switch {
		case sc.Request != "ok":
			return fmt.Errorf("result cached for a malformed request (%s)", sc.Request)
		case sc.DoNotCache:
			return fmt.Errorf("result cached although the action has do_not_cache set")
		case sc.Code != 0:
			return fmt.Errorf("result cached although the action failed with status code %v", codes.Code(sc.Code))
		case sc.ExitCode != 0 || e.Result.ExitCode != 0:
			return fmt.Errorf("result with exit code %d (scripted %d) cached", e.Result.ExitCode, sc.ExitCode)
		case e.Key != obs.ActionKey:
			return fmt.Errorf("result cached under %s instead of the action digest %s", e.Key, obs.ActionKey)
		case len(e.MissingAtPut) > 0:
			return fmt.Errorf("result cached while the CAS lacked blobs it references: %v", e.MissingAtPut)
		case e.AckLost:
			// The write was issued legitimately (all of the above
			// holds), the back end stored it and reported failure:
			// the response must not claim success (checked below).
		case !finalOK:
			return fmt.Errorf("result cached but the response carries error %v", r.Status)
		case !proto.Equal(e.Result, r.Result):
			return fmt.Errorf("cached result %v differs from the result returned %v", e.Result, r.Result)
		}
		if !e.AckLost {
			cached++
		}
	}

	advertised := referencedDigests(r.Result, r.ServerLogs)
	// A response without error only advertises blobs that are stored.
	if finalOK {
		for _, ref := range advertised {
			d, err := digestFunction.NewDigestFromProto(ref.Digest)
			if err != nil {
				return fmt.Errorf("malformed digest advertised at %s", ref.Where)
			}
			if !obs.CASKeys[keyOf(d)] {
				return fmt.Errorf("response has OK status but advertises %s = %s which is not in the CAS", ref.Where, keyOf(d))
			}
		}
	}
	// The flush runs after every action. If (its last invocation) reports success, every
	// write the batching layer acknowledged is stored; if it reports an
	// error, the response carries an error, is not cached and advertises
	// no digests.
	if len(obs.Flushes) == 0 {
		return fmt.Errorf("flush callback was not invoked")
	}
	if flushErr := obs.Flushes[len(obs.Flushes)-1]; flushErr == nil {
		for _, c := range obs.Acked {
			if k := keyOf(digestOf([]byte(c))); !obs.CASKeys[k] {
				return fmt.Errorf("flush reported success but acknowledged blob %q (%s) is not in the CAS", c, k)
			}
		}
	} else {
		if finalOK {
			return fmt.Errorf("flush failed (%v) but the response has OK status", flushErr)
		}
		if len(obs.ACEntries) != 0 {
			return fmt.Errorf("flush failed (%v) but the result was cached", flushErr)
		}
		if len(advertised) != 0 {
			return fmt.Errorf("flush failed (%v) but the response still advertises %d digests", flushErr, len(advertised))
		}
	}
	// First error wins: an error reported by the base executor is never replaced.
	if !statusOK(obs.BaseStatus) && !proto.Equal(obs.BaseStatus, r.Status) {
		return fmt.Errorf("base executor reported %v but the pipeline returned status %v", obs.BaseStatus, r.Status)
	}

	if expectNone && len(obs.Reached) != 0 {
		return fmt.Errorf("harness: fault reached in fault-free run: %v", obs.Reached)
	}
	if len(mustReachOne) > 0 {
		reached := false
		for _, f := range obs.Reached {
			for _, k := range mustReachOne {
				if f.Key == k {
					reached = true
				}
			}
		}
		if !reached {
			// The run is identical to the fault-free one up to the first fault.
			return fmt.Errorf("harness: none of the planned faults %v was reached; calls=%+v", mustReachOne, obs.Calls)
		}
	}

	if len(obs.Reached) == 0 {
		// No fault during this action: it behaves like a fault-free
		// one. In particular nothing an earlier action on the same
		// pipeline left behind (a sticky flush error, pending or
		// "already written" digests) shows.
		if obs.PutErrors != 0 {
			return fmt.Errorf("fault-free action: %d uploads were refused", obs.PutErrors)
		}
		for i, flushErr := range obs.Flushes {
			if flushErr != nil {
				return fmt.Errorf("fault-free action: flush #%d reported %v although no back-end call failed", i, flushErr)
			}
		}
		wantOK := sc.Code == 0 && sc.Request == "ok"
		if finalOK != wantOK {
			return fmt.Errorf("fault-free action: response status %v, expected ok=%v", r.Status, wantOK)
		}
		if got, want := cached == 1, sc.cacheAllowed(); got != want {
			return fmt.Errorf("fault-free action: cached=%v, but caching allowed=%v", got, want)
		}
		// Everything acknowledged by the batching layer is stored once the flush succeeded.
		for _, c := range obs.Acked {
			if k := keyOf(digestOf([]byte(c))); !obs.CASKeys[k] {
				return fmt.Errorf("fault-free action: acknowledged blob %q (%s) not in the CAS after a successful flush", c, k)
			}
		}
		if len(advertised) != len(referencedDigestsOfScenario(sc)) {
			return fmt.Errorf("fault-free action: response advertises %d digests, the action produced %d", len(advertised), len(referencedDigestsOfScenario(sc)))
		}
		// Uncached results are stored in the CAS instead (documented extension).
		if sc.Request == "ok" && !sc.cacheAllowed() {
			if len(obs.ExtraBlobs) != 1 {
				return fmt.Errorf("fault-free action: uncached result, but %d historical execute responses in the CAS", len(obs.ExtraBlobs))
			}
			var her cas_proto.HistoricalExecuteResponse
			if err := proto.Unmarshal(obs.ExtraBlobs[0], &her); err != nil || her.ExecuteResponse == nil {
				return fmt.Errorf("fault-free action: extra CAS blob is not a HistoricalExecuteResponse: %v", err)
			}
		}
		return nil
	}

	var hard []reachedFault
	flushPhase := false // a FindMissing / output Put failed
	for _, f := range obs.Reached {
		if hardFault(f.Kind) {
			hard = append(hard, f)
			if c := classOfKey(f.Key); c == "fm" || c == "put" {
				flushPhase = true
			}
		}
	}
	if len(hard) == 0 {
		// Nothing failed at the back end: whether the operation fails is
		// up to the code, and the oracles above (flush success => all
		// acknowledged blobs stored, OK response / AC entry => all
		// referenced blobs stored) decide. If nothing was left unwritten
		// the result may legitimately be cached.
		return nil
	}
	// A back-end call failed (possibly after having stored what it was
	// given): the response does not claim success.
	if finalOK {
		return fmt.Errorf("faults %v were reached but the response has OK status", hard)
	}
	if cached != 0 {
		return fmt.Errorf("faults %v were reached but the result was cached", hard)
	}
	if flushPhase {
		// A failed output write / flush: the response no longer advertises output digests.
		if len(advertised) != 0 {
			var where []string
			for _, ref := range advertised {
				where = append(where, ref.Where)
			}
			return fmt.Errorf("faults %v: response still advertises %v", hard, where)
		}
	} else {
		// All outputs were flushed before; what is advertised must exist.
		for _, ref := range advertised {
			d, err := digestFunction.NewDigestFromProto(ref.Digest)
			if err != nil || !obs.CASKeys[keyOf(d)] {
				return fmt.Errorf("faults %v: response advertises %s which is not in the CAS", hard, ref.Where)
			}
		}
	}
	return nil
}

func referencedDigestsOfScenario(sc *scenario) []string {
	var out []string
	for _, u := range sc.Uploads {
		out = append(out, u.Role)
		if u.Role == "rootdir" {
			out = append(out, u.Role)
		}
	}
	return out
}

func TestC09PipelineFaults(t *testing.T) {
	rec := simkit.NewRecorder(t, "C09", "pipeline_faults",
		"scenario = generated action (do_not_cache, request well-formed or not), scripted outcome (status code, exit code), 0-9 output blobs (files, trees, root dirs, stdout, stderr, server logs) drawn from 8 contents so duplicates and the empty blob are common, some already in the CAS, batch size 1-5, upload concurrency 1-3 with generated transfer order; real BatchedStoreBlobAccess -> StorageFlushingBuildExecutor -> CachingBuildExecutor over fake CAS/AC. One fault-free run enumerates the fallible calls (FindMissing, CAS Put, AC Put, historical-response Put), then one run per (call x {error with a status code drawn per fault from 12 codes, ctx cancelled, ctx cancelled but ignored by the back ends (FindMissing/output Put only), written-but-acknowledgement-lost: the write is stored and then answered with an error (Puts only)}), then runs with TWO faults: pairs over the first 4 fallible calls and the last one (quick tier: 2 drawn pairs per scenario, thorough tier: all <=10 pairs), kinds drawn per pair. Oracle (decided by the faults REACHED in the run): AC entry => !do_not_cache & status OK & exit 0 & every referenced digest in the CAS at the moment of the AC Put (an entry stored by an ack_lost AC write is legitimate but the response must be non-OK); a reached error/cancel/ack_lost fault => status non-OK & not cached & (output write/flush fault) no digests advertised; flush()==nil => every acknowledged blob stored, flush()!=nil => status non-OK & not cached & nothing advertised; OK response advertises only stored blobs; first error wins; fault-free => cached iff allowed, flush()==nil; every buffer released exactly once; no back-end call outlives Execute. NON-TRIVIAL = fault reached and scenario has >=2 distinct blobs; distinct by (scenario, fault indices, kinds); evaluations = (scenario, fault plan) runs")
	rapid.Check(t, func(rt *rapid.T) {
		sc := genScenario(rt)
		type run struct {
			script runScript
			plan   []plannedFault
			obs    *observation
		}
		var runs []run
		inBubble(t, func() {
			free := runPipeline(&sc, nil, codes.OK)
			runs = append(runs, run{script: runScript{Scenario: sc, Fault: -1, Fault2: -1}, obs: free})
			calls := canonicalCalls(free.Calls)
			for i := range calls {
				for _, kind := range faultKindsFor(calls[i].Class) {
					pf := drawFault(rt, calls[i], kind)
					obs := runPipelinePlan(&sc, []plannedFault{pf})
					runs = append(runs, run{script: runScript{Scenario: sc, Fault: i, Call: pf.Class, Kind: kind, Code: pf.CodeName, Fault2: -1}, plan: []plannedFault{pf}, obs: obs})
				}
			}
			// Two faults in one run: pairs over the first few fallible
			// calls and the last one (the AC / historical-response write).
			var idx []int
			for i := 0; i < len(calls) && i < 4; i++ {
				idx = append(idx, i)
			}
			if len(calls) > 4 {
				idx = append(idx, len(calls)-1)
			}
			var pairs [][2]int
			for a := 0; a < len(idx); a++ {
				for b := a + 1; b < len(idx); b++ {
					pairs = append(pairs, [2]int{idx[a], idx[b]})
				}
			}
			if !thoroughTier() && len(pairs) > 2 {
				perm := rapid.Permutation(pairs).Draw(rt, "pairs")
				pairs = perm[:2]
			}
			for _, pr := range pairs {
				f1 := drawFault(rt, calls[pr[0]], rapid.SampledFrom(faultKindsFor(calls[pr[0]].Class)).Draw(rt, "kind1"))
				f2 := drawFault(rt, calls[pr[1]], rapid.SampledFrom(faultKindsFor(calls[pr[1]].Class)).Draw(rt, "kind2"))
				plan := []plannedFault{f1, f2}
				obs := runPipelinePlan(&sc, plan)
				runs = append(runs, run{script: runScript{Scenario: sc, Fault: pr[0], Call: f1.Class, Kind: f1.Kind, Code: f1.CodeName, Fault2: pr[1], Call2: f2.Class, Kind2: f2.Kind, Code2: f2.CodeName}, plan: plan, obs: obs})
			}
		})

		distinct := len(sc.distinctContents())
		dups := len(sc.Uploads) > distinct
		hasEmpty := false
		for _, u := range sc.Uploads {
			if u.Data == "" {
				hasEmpty = true
			}
		}
		for _, r := range runs {
			var keys []string
			for _, pf := range r.plan {
				keys = append(keys, pf.Key)
			}
			if err := checkAction(&sc, r.obs, len(r.plan) == 0, keys); err != nil {
				rt.Fatalf("%v; script=%+v plan=%+v calls=%+v response=%v", err, r.script, r.plan, r.obs.Calls, r.obs.Response)
			}
			labels := []string{fmt.Sprintf("batch=%d", sc.BatchSize), fmt.Sprintf("concurrency=%d", sc.Concurrency)}
			if dups {
				labels = append(labels, "duplicates")
			}
			if hasEmpty {
				labels = append(labels, "empty_blob")
			}
			if len(sc.Preexisting) > 0 {
				labels = append(labels, "some_preexisting")
			}
			switch {
			case sc.Request != "ok":
				labels = append(labels, "outcome:bad_request")
			case sc.cacheAllowed():
				labels = append(labels, "outcome:cacheable")
			case sc.DoNotCache && sc.Code == 0 && sc.ExitCode == 0:
				labels = append(labels, "outcome:do_not_cache_only")
			case sc.Code == 0:
				labels = append(labels, "outcome:exit_nonzero")
			default:
				labels = append(labels, "outcome:status_nonok")
			}
			nFM := 0
			for _, c := range r.obs.Calls {
				if c.Op == "FindMissing" {
					nFM++
				}
			}
			if nFM >= 2 {
				labels = append(labels, "multi_batch")
			}
			switch len(r.plan) {
			case 0:
				labels = append(labels, "fault_free")
				if len(r.obs.ACEntries) == 1 {
					labels = append(labels, "fault_free:cached")
				}
			case 1:
				pf := r.plan[0]
				labels = append(labels, "fault:"+pf.Class, "kind:"+pf.Kind)
				if pf.CodeName != "" {
					labels = append(labels, "error_code:"+pf.Class+":"+pf.CodeName)
				}
				if pf.Kind == faultAckLost {
					labels = append(labels, "ack_lost:"+pf.Class)
					for _, e := range r.obs.ACEntries {
						if e.AckLost {
							labels = append(labels, "ack_lost:ac_entry_stored_response_not_ok")
						}
					}
				}
				if pf.Class == "fm" || pf.Class == "put" {
					if r.obs.PutErrors > 0 {
						// The sticky error of an intermediate flush surfaced in a later upload.
						labels = append(labels, "fault_in_intermediate_flush")
					} else {
						labels = append(labels, "fault_in_final_flush")
					}
					if sc.cacheAllowed() && len(r.obs.ACEntries) == 0 {
						labels = append(labels, "fault_blocks_caching")
					}
					if pf.Kind == faultCancelIgnored {
						// Did the cancellation leave blobs unwritten (flush must fail) or not?
						if r.obs.Flushes[len(r.obs.Flushes)-1] != nil {
							labels = append(labels, "cancel_ignored:flush_failed")
						} else {
							labels = append(labels, "cancel_ignored:flush_ok")
						}
						if len(r.obs.ACEntries) == 1 {
							labels = append(labels, "cancel_ignored:cached")
						}
					}
				} else if len(referencedDigests(r.obs.Response.Result, r.obs.Response.ServerLogs)) > 0 {
					// Visible on purpose: after a failed AC / historical-response
					// write the (fully stored) outputs stay advertised.
					labels = append(labels, "late_fault_outputs_still_advertised")
				}
			default:
				labels = append(labels, "two_faults", "pair:"+r.plan[0].Class+"+"+r.plan[1].Class, "pair_kinds:"+r.plan[0].Kind+"+"+r.plan[1].Kind)
				switch len(r.obs.Reached) {
				case 1:
					labels = append(labels, "two_faults:one_reached")
				default:
					labels = append(labels, "two_faults:both_reached")
					nHard := 0
					for _, f := range r.obs.Reached {
						if hardFault(f.Kind) {
							nHard++
						}
					}
					labels = append(labels, fmt.Sprintf("two_faults:both_reached:%d_failed_calls", nHard))
				}
				if len(r.obs.ACEntries) == 1 && !r.obs.ACEntries[0].AckLost {
					labels = append(labels, "two_faults:cached")
				}
			}
			rec.Case(r.script, len(r.obs.Reached) > 0 && distinct >= 2, labels...)
		}
	})
}

// seqFault is one planned fault of a run of consecutive actions: the call
// is named by the action in which the fault-free run makes it and its
// index among that action's canonical fallible calls.
type seqFault struct {
	Action int    `json:"action"`
	Index  int    `json:"index"`
	Call   string `json:"call"`
	Kind   string `json:"kind"`
	Code   string `json:"code,omitempty"`
}

// seqScript is one run of 2-3 consecutive actions through ONE pipeline.
type seqScript struct {
	BatchSize   int        `json:"batch_size"`
	Concurrency int64      `json:"concurrency"`
	Preexisting []string   `json:"preexisting"`
	DelayOrder  []string   `json:"delay_order"`
	Actions     []scenario `json:"actions"`
	Faults      []seqFault `json:"faults"` // empty = fault-free
}

func runSequence(sq *seqScript, plan []plannedFault) []*observation {
	p := newPipeline(sq.BatchSize, sq.Concurrency, sq.Preexisting, sq.DelayOrder, plan)
	var out []*observation
	for j := range sq.Actions {
		out = append(out, p.runAction(&sq.Actions[j], j))
	}
	return out
}

// TestC09ConsecutiveActions: carry-over between consecutive actions through
// one BatchedStoreBlobAccess writer/flusher pair and one executor stack, as
// cmd/bb_worker/main.go builds them once per worker thread.
func TestC09ConsecutiveActions(t *testing.T) {
	rec := simkit.NewRecorder(t, "C09", "consecutive_actions",
		"2-3 generated actions (each as in pipeline_faults but 0-5 outputs; about half of a later action's outputs reuse contents of its predecessor; distinct action digests) run one after the other, each under a context of its own, through ONE pipeline: one real BatchedStoreBlobAccess writer/flusher pair -> StorageFlushingBuildExecutor -> CachingBuildExecutor over one fake CAS/AC (batch size 1-5, upload concurrency 1-3, some contents already stored). One fault-free run of the sequence enumerates the fallible calls per action; then one run of the whole sequence per (call of an action that has a successor x fault kind {error, ctx cancelled, cancelled-but-ignored, written-but-acknowledgement-lost}), plus drawn pairs (one fault in action k, one planned at a call of action k+1; quick 2, thorough 6 per sequence). Oracle per action, decided by the faults reached DURING that action: none reached => the action behaves like a fault-free one whatever happened before (no refused upload, every flush()==nil, status depends only on the scripted outcome, cached iff allowed, advertises everything it produced, every acknowledged blob in the CAS); AC entry => every referenced digest was in the CAS at the moment of the AC Put (so a blob acknowledged to action k whose flush failed cannot be referenced by the cached result of action k+1 unless k+1 really stored it); reached failing call => non-OK, not cached, flush-phase fault => nothing advertised; plus all general pipeline_faults oracles; no back-end call outlives the Execute that started it. NON-TRIVIAL = a failing back-end call reached in an action whose successor writes at least one content the faulted action also wrote; distinct by (sequence, fault plan); evaluations = (sequence, fault plan) runs")
	rapid.Check(t, func(rt *rapid.T) {
		sq := seqScript{
			BatchSize:   rapid.IntRange(1, 5).Draw(rt, "batch_size"),
			Concurrency: int64(rapid.SampledFrom([]int{1, 1, 2, 3}).Draw(rt, "concurrency")),
		}
		for _, c := range contentPool {
			if rapid.IntRange(0, 5).Draw(rt, "preexisting") == 0 {
				sq.Preexisting = append(sq.Preexisting, c)
			}
		}
		if sq.Concurrency > 1 {
			sq.DelayOrder = rapid.Permutation(contentPool).Draw(rt, "delay_order")
		}
		nActions := rapid.SampledFrom([]int{2, 2, 3}).Draw(rt, "n_actions")
		var reuse []string
		for j := 0; j < nActions; j++ {
			sc := genScenarioWith(rt, 5, reuse)
			// Pipeline-wide settings live in the sequence.
			sc.BatchSize, sc.Concurrency, sc.Preexisting, sc.DelayOrder = sq.BatchSize, sq.Concurrency, nil, nil
			sq.Actions = append(sq.Actions, sc)
			reuse = sc.distinctContents()
		}

		type run struct {
			script seqScript
			plan   []plannedFault
			first  int // action of the first planned fault (-1: none)
			obs    []*observation
		}
		var runs []run
		withFaults := func(fs ...seqFault) seqScript {
			c := sq
			c.Faults = fs
			return c
		}
		inBubble(t, func() {
			free := runSequence(&sq, nil)
			runs = append(runs, run{script: sq, first: -1, obs: free})
			calls := make([][]fallible, nActions)
			for j := range free {
				calls[j] = canonicalCalls(free[j].Calls)
			}
			describe := func(j, i int, pf plannedFault) seqFault {
				return seqFault{Action: j, Index: i, Call: pf.Class, Kind: pf.Kind, Code: pf.CodeName}
			}
			// One fault in an action that has a successor.
			for k := 0; k+1 < nActions; k++ {
				for i := range calls[k] {
					for _, kind := range faultKindsFor(calls[k][i].Class) {
						pf := drawFault(rt, calls[k][i], kind)
						plan := []plannedFault{pf}
						runs = append(runs, run{script: withFaults(describe(k, i, pf)), plan: plan, first: k, obs: runSequence(&sq, plan)})
					}
				}
			}
			// A fault in action k and one planned at a call of action k+1.
			nPairs := 2
			if thoroughTier() {
				nPairs = 6
			}
			for n := 0; n < nPairs; n++ {
				k := rapid.IntRange(0, nActions-2).Draw(rt, "pair_action")
				if len(calls[k]) == 0 || len(calls[k+1]) == 0 {
					continue
				}
				i1 := rapid.IntRange(0, len(calls[k])-1).Draw(rt, "pair_call1")
				i2 := rapid.IntRange(0, len(calls[k+1])-1).Draw(rt, "pair_call2")
				f1 := drawFault(rt, calls[k][i1], rapid.SampledFrom(faultKindsFor(calls[k][i1].Class)).Draw(rt, "kind1"))
				f2 := drawFault(rt, calls[k+1][i2], rapid.SampledFrom(faultKindsFor(calls[k+1][i2].Class)).Draw(rt, "kind2"))
				plan := []plannedFault{f1, f2}
				runs = append(runs, run{script: withFaults(describe(k, i1, f1), describe(k+1, i2, f2)), plan: plan, first: k, obs: runSequence(&sq, plan)})
			}
		})

		for _, r := range runs {
			for j, obs := range r.obs {
				var mustReach []string
				if j == r.first {
					// The run equals the fault-free one up to its first fault.
					mustReach = []string{r.plan[0].Key}
				}
				if err := checkAction(&sq.Actions[j], obs, len(r.plan) == 0, mustReach); err != nil {
					rt.Fatalf("action %d of %d: %v; script=%+v plan=%+v calls=%+v response=%v", j, len(r.obs), err, r.script, r.plan, obs.Calls, obs.Response)
				}
			}
			// Every reached fault belongs to the plan.
			nReached := 0
			for _, obs := range r.obs {
				for _, f := range obs.Reached {
					nReached++
					planned := false
					for _, pf := range r.plan {
						if pf.Key == f.Key && pf.Kind == f.Kind {
							planned = true
						}
					}
					if !planned {
						rt.Fatalf("harness: unplanned fault %+v reached; script=%+v", f, r.script)
					}
				}
			}

			labels := []string{fmt.Sprintf("actions=%d", nActions), fmt.Sprintf("batch=%d", sq.BatchSize), fmt.Sprintf("concurrency=%d", sq.Concurrency)}
			nontrivial := false
			if len(r.plan) == 0 {
				labels = append(labels, "fault_free_sequence")
				nCached := 0
				for _, obs := range r.obs {
					nCached += len(obs.ACEntries)
				}
				labels = append(labels, fmt.Sprintf("fault_free_sequence:cached=%d", nCached))
			} else {
				k := r.first
				pf := r.plan[0]
				if len(r.plan) == 1 {
					labels = append(labels, "one_fault", "fault:"+pf.Class, "kind:"+pf.Kind, fmt.Sprintf("fault_in_action=%d", k))
				} else {
					labels = append(labels, "two_faults", "pair:"+pf.Class+"+"+r.plan[1].Class)
					if len(r.obs[k+1].Reached) > 0 {
						labels = append(labels, "two_faults:successor_own_fault_reached")
					} else {
						labels = append(labels, "two_faults:successor_fault_not_reached")
					}
				}
				faulted, succ := r.obs[k], r.obs[k+1]
				failing := false
				for _, f := range faulted.Reached {
					if hardFault(f.Kind) {
						failing = true
					}
				}
				if fl := faulted.Flushes; len(fl) > 0 && fl[len(fl)-1] != nil {
					labels = append(labels, "flush_failed_in_faulted_action")
				}
				if faulted.PutErrors > 0 {
					labels = append(labels, "sticky_error_refused_upload_in_faulted_action")
				}
				// Contents the batching layer acknowledged to action k
				// that are not stored after it.
				lost := map[string]bool{}
				for _, c := range faulted.Acked {
					if !faulted.CASKeys[keyOf(digestOf([]byte(c)))] {
						lost[c] = true
					}
				}
				if len(lost) > 0 {
					labels = append(labels, "acknowledged_blob_lost_in_faulted_action")
				}
				wroteBefore := map[string]bool{}
				for _, u := range sq.Actions[k].Uploads {
					wroteBefore[u.Data] = true
				}
				shares, rewritesLost := false, false
				for _, c := range succ.Acked {
					if wroteBefore[c] {
						shares = true
					}
					if lost[c] {
						rewritesLost = true
					}
				}
				if shares {
					labels = append(labels, "successor_writes_same_content")
				}
				if rewritesLost {
					labels = append(labels, "successor_rewrites_lost_blob")
				}
				succCached := false
				for _, e := range succ.ACEntries {
					if !e.AckLost {
						succCached = true
					}
				}
				if succCached {
					labels = append(labels, "successor_cached")
					if rewritesLost {
						// The class the carry-over oracle is about: the cached
						// result of action k+1 references a blob that was
						// acknowledged to action k and then lost.
						labels = append(labels, "successor_cached_referencing_lost_blob")
					}
				}
				if len(succ.Reached) == 0 {
					labels = append(labels, "successor_fault_free")
				}
				nontrivial = failing && shares
			}
			rec.Case(r.script, nontrivial, labels...)
		}
	})
}

package accache

import (
	"context"
	"fmt"
	"sort"
	"testing"
	"time"

	re_blobstore "github.com/buildbarn/bb-remote-execution/pkg/blobstore"
	"github.com/buildbarn/bb-storage/pkg/digest"
	"golang.org/x/sync/semaphore"
	"pgregory.net/rapid"

	"verif/harness/internal/simkit"
)

// bstep is one executed step of the batched-store state machine.
type bstep struct {
	Op      string   `json:"op"` // put, flush, find_missing
	Data    string   `json:"data,omitempty"`
	Query   []string `json:"query,omitempty"`
	FMFault string   `json:"fm_fault,omitempty"`  // fault on the first back-end FindMissing of this step
	PutOf   string   `json:"put_of,omitempty"`    // content whose back-end Put is faulted in this step
	PutKind string   `json:"put_fault,omitempty"` // its fault kind
	FMCode  string   `json:"fm_code,omitempty"`   // status code of an "error" fault
	PutCode string   `json:"put_code,omitempty"`
	Res     string   `json:"res"`
	Reached []string `json:"reached,omitempty"`
	Calls   int      `json:"calls"`
}

type bscript struct {
	BatchSize   int      `json:"batch_size"`
	Concurrency int64    `json:"concurrency"`
	Preexisting []string `json:"preexisting"`
	DelayOrder  []string `json:"delay_order"`
	Steps       []bstep  `json:"steps"`
}

func TestC09BatchedStoreFlush(t *testing.T) {
	rec := simkit.NewRecorder(t, "C09", "batched_store_flush",
		"rapid state machine over the real BatchedStoreBlobAccess alone: Put(blob from 8 contents, so duplicates within a batch are common) / flush() / FindMissing, batch size 1-5, upload concurrency 1-3 with generated transfer order, each step optionally arming an error (status code drawn from 12 codes), ctx-cancel or ctx-cancelled-but-ignored-by-the-back-end fault on the back end's next FindMissing and/or the Put of one chosen blob (for the Put also written-but-acknowledgement-lost: the blob is stored and the call then answers with an error, which counts as a failed back-end call). Oracle: flush()==nil => every blob whose Put was acknowledged since the previous flush() is in the back end and no back-end fault happened since; a back-end fault since the previous flush() => flush() returns an error; a failed back-end call since the previous flush() => flush() returns an error; Put/flush fail only after a back-end fault or a cancellation (no spurious or stale errors); FindMissing issued by the adapter never exceeds the batch size; every buffer released exactly once (checked after every flush and refused Put, and at the end). NON-TRIVIAL = at least one fault reached and >=2 distinct blobs written; distinct by script hash")
	pool := contentPool
	rapid.Check(t, func(rt *rapid.T) {
		sc := bscript{
			BatchSize:   rapid.IntRange(1, 5).Draw(rt, "batch_size"),
			Concurrency: int64(rapid.SampledFrom([]int{1, 1, 2, 3}).Draw(rt, "concurrency")),
		}
		for _, c := range pool {
			if rapid.IntRange(0, 5).Draw(rt, "preexisting") == 0 {
				sc.Preexisting = append(sc.Preexisting, c)
			}
		}
		if sc.Concurrency > 1 {
			sc.DelayOrder = rapid.Permutation(pool).Draw(rt, "delay_order")
		}
		labels := map[string]bool{}
		distinctPut := map[string]bool{}
		faultsReached := 0

		inBubble(t, func() {
			w := newWorld()
			backend := newFakeCAS(w)
			for _, c := range sc.Preexisting {
				backend.blobs[keyOf(digestOf([]byte(c)))] = []byte(c)
			}
			for i, c := range sc.DelayOrder {
				w.delays[keyOf(digestOf([]byte(c)))] = time.Duration(i+1) * time.Millisecond
			}
			store, flush := re_blobstore.NewBatchedStoreBlobAccess(backend, digest.KeyWithoutInstance, sc.BatchSize, semaphore.NewWeighted(sc.Concurrency))

			// Model.
			acked := map[string]bool{} // contents acknowledged since the last flush()
			var pendingFaults []string // failed back-end calls (inside the adapter) since the last flush()
			// Cancellations the back end ignored since the last flush():
			// nothing failed, but the adapter may rightly give up.
			var pendingCancels []string
			ackedSinceFlush := 0

			// arm draws the fault plan of one step and returns a function
			// that collects what the step did to the back end.
			type stepInfo struct {
				reached       []string // everything reached
				failed        []string // back-end calls that failed
				adapterFaults []string // failed calls made by the adapter
				adapterSoft   []string // ignored cancellations during adapter calls
				calls         []callRec
			}
			begin := func(st *bstep, allowPutFault bool) (context.Context, func(direct bool) stepInfo) {
				w.mu.Lock()
				w.plan = map[string]string{}
				w.ignoreCtx = false
				st.FMFault = rapid.SampledFrom([]string{faultNone, faultNone, faultNone, faultNone, faultNone, faultNone, faultError, faultCancel, faultCancelIgnored}).Draw(rt, "fm_fault")
				if st.FMFault != faultNone {
					k := fmt.Sprintf("FM#%d", w.fmCount)
					w.plan[k] = st.FMFault
					if st.FMFault == faultError {
						c := rapid.SampledFrom(errorCodes).Draw(rt, "fm_code")
						w.planCode[k], st.FMCode = c, c.String()
						labels["armed_fm_error:"+st.FMCode] = true
					}
				}
				if allowPutFault {
					st.PutKind = rapid.SampledFrom([]string{faultNone, faultNone, faultNone, faultNone, faultNone, faultError, faultCancel, faultCancelIgnored, faultAckLost}).Draw(rt, "put_fault")
					if st.PutKind != faultNone {
						st.PutOf = rapid.SampledFrom(pool).Draw(rt, "put_fault_of")
						dk := keyOf(digestOf([]byte(st.PutOf)))
						k := fmt.Sprintf("PUT:%s#%d", dk, w.putOcc[dk])
						w.plan[k] = st.PutKind
						if st.PutKind == faultError || st.PutKind == faultAckLost {
							c := rapid.SampledFrom(errorCodes).Draw(rt, "put_code")
							w.planCode[k], st.PutCode = c, c.String()
							if st.PutKind == faultError {
								labels["armed_put_error:"+st.PutCode] = true
							} else {
								labels["armed_put_ack_lost"] = true
							}
						}
					}
				}
				callsBefore := len(w.calls)
				reachedBefore := len(w.reached)
				ctx, cancel := context.WithCancel(context.Background())
				w.cancel = cancel
				w.mu.Unlock()
				return ctx, func(direct bool) stepInfo {
					cancel()
					w.mu.Lock()
					defer w.mu.Unlock()
					var info stepInfo
					info.calls = append(info.calls, w.calls[callsBefore:]...)
					for _, f := range w.reached[reachedBefore:] {
						info.reached = append(info.reached, f.Kind+"@"+f.Key)
						if f.Kind == faultAckLost {
							labels["reached_put_ack_lost"] = true
						}
						switch {
						case f.Kind == faultCancelIgnored:
							if !direct {
								info.adapterSoft = append(info.adapterSoft, f.Kind+"@"+f.Key)
							}
						default:
							info.failed = append(info.failed, f.Kind+"@"+f.Key)
							if !direct {
								info.adapterFaults = append(info.adapterFaults, f.Kind+"@"+f.Key)
							}
						}
					}
					for _, c := range info.calls {
						if c.Result == "running" {
							panic(fmt.Sprintf("back-end call %+v still running after the adapter returned", c))
						}
						if !direct && c.Op == "FindMissing" && c.N > sc.BatchSize {
							rt.Fatalf("adapter asked FindMissing for %d digests with batch size %d; script=%+v", c.N, sc.BatchSize, sc)
						}
					}
					st.Calls = len(info.calls)
					st.Reached = info.reached
					return info
				}
			}
			common := func() {
				if len(w.problems) > 0 {
					rt.Fatalf("back end observed: %v; script=%+v", w.problems, sc)
				}
				if p := w.bufferProblems(false); len(p) > 0 {
					rt.Fatalf("buffer accounting: %v; script=%+v", p, sc)
				}
			}
			doFlush := func(armed bool) {
				st := bstep{Op: "flush"}
				var ctx context.Context
				var end func(bool) stepInfo
				if armed {
					ctx, end = begin(&st, true)
				} else {
					w.mu.Lock()
					w.plan = map[string]string{}
					w.ignoreCtx = false
					w.mu.Unlock()
					ctx, end = context.Background(), nil
				}
				callsBefore := len(w.calls)
				err := flush(ctx)
				if end != nil {
					info := end(false)
					pendingFaults = append(pendingFaults, info.adapterFaults...)
					pendingCancels = append(pendingCancels, info.adapterSoft...)
					faultsReached += len(info.reached)
				} else {
					st.Calls = len(w.calls) - callsBefore
				}
				if err != nil {
					st.Res = "error: " + err.Error()
				} else {
					st.Res = "ok"
				}
				sc.Steps = append(sc.Steps, st)
				if err == nil {
					if len(pendingFaults) > 0 {
						rt.Fatalf("flush() reported success although the back end failed since the previous flush (%v); script=%+v", pendingFaults, sc)
					}
					var lost []string
					for c := range acked {
						if !backend.hasKey(keyOf(digestOf([]byte(c)))) {
							lost = append(lost, c)
						}
					}
					sort.Strings(lost)
					if len(lost) > 0 {
						rt.Fatalf("flush() reported success but acknowledged blobs %q are not stored; script=%+v", lost, sc)
					}
					if len(acked) >= 2 {
						labels["flush_ok_2plus_blobs"] = true
					}
					labels["flush_ok"] = true
					if len(pendingCancels) > 0 {
						labels["flush_ok_after_ignored_cancel"] = true
					}
				} else {
					if len(pendingFaults) == 0 && len(pendingCancels) == 0 {
						rt.Fatalf("flush() failed (%v) although no back-end call failed and nothing was cancelled since the previous flush; script=%+v", err, sc)
					}
					labels["flush_error"] = true
					if len(pendingFaults) == 0 {
						labels["flush_error_only_ignored_cancel"] = true
					}
					if ackedSinceFlush > 0 {
						labels["flush_error_with_acked_blobs"] = true
					}
				}
				// The flush released everything that was pending.
				if p := w.bufferProblems(true); len(p) > 0 {
					rt.Fatalf("after flush(): %v; script=%+v", p, sc)
				}
				common()
				acked = map[string]bool{}
				pendingFaults = nil
				pendingCancels = nil
				ackedSinceFlush = 0
			}

			rt.Repeat(map[string]func(*rapid.T){
				"put": func(rt *rapid.T) {
					st := bstep{Op: "put", Data: rapid.SampledFrom(pool).Draw(rt, "data")}
					data := []byte(st.Data)
					d := digestOf(data)
					ctx, end := begin(&st, true)
					b, r := w.newTrackedBuffer(data, rapid.IntRange(0, 1).Draw(rt, "style"))
					err := store.Put(ctx, d, b)
					info := end(false)
					pendingFaults = append(pendingFaults, info.adapterFaults...)
					pendingCancels = append(pendingCancels, info.adapterSoft...)
					faultsReached += len(info.reached)
					if err != nil {
						st.Res = "error: " + err.Error()
					} else {
						st.Res = "ok"
					}
					sc.Steps = append(sc.Steps, st)
					distinctPut[st.Data] = true
					if len(info.calls) > 0 {
						labels["put_triggers_flush"] = true
					}
					if err != nil {
						if len(pendingFaults) == 0 && len(pendingCancels) == 0 {
							rt.Fatalf("Put failed (%v) although no back-end call failed and nothing was cancelled since the previous flush; script=%+v", err, sc)
						}
						if r.closed.Load() != 1 {
							rt.Fatalf("Put was refused but its buffer was released %d times; script=%+v", r.closed.Load(), sc)
						}
						if len(info.calls) == 0 {
							labels["put_refused_by_sticky_error"] = true
						} else {
							labels["put_refused_by_own_flush"] = true
						}
					} else {
						if acked[st.Data] {
							labels["duplicate_put"] = true
						}
						acked[st.Data] = true
						ackedSinceFlush++
					}
					common()
				},
				"flush": func(rt *rapid.T) {
					doFlush(true)
				},
				"find_missing": func(rt *rapid.T) {
					st := bstep{Op: "find_missing"}
					sb := digest.NewSetBuilder(0)
					for _, c := range pool {
						if rapid.Bool().Draw(rt, "in_query") {
							st.Query = append(st.Query, c)
							sb.Add(digestOf([]byte(c)))
						}
					}
					ctx, end := begin(&st, false)
					missing, err := store.FindMissing(ctx, sb.Build())
					info := end(true)
					faultsReached += len(info.reached)
					if err != nil {
						st.Res = "error: " + err.Error()
						sc.Steps = append(sc.Steps, st)
						if len(info.failed) == 0 {
							rt.Fatalf("FindMissing failed (%v) without a back-end fault; script=%+v", err, sc)
						}
					} else {
						var got, want []string
						for _, m := range missing.Items() {
							got = append(got, keyOf(m))
						}
						for _, c := range st.Query {
							if k := keyOf(digestOf([]byte(c))); !backend.hasKey(k) {
								want = append(want, k)
							}
						}
						sort.Strings(got)
						sort.Strings(want)
						st.Res = fmt.Sprintf("missing %d", len(got))
						sc.Steps = append(sc.Steps, st)
						if len(info.failed) > 0 {
							rt.Fatalf("FindMissing succeeded although the back end failed; script=%+v", sc)
						}
						if fmt.Sprint(got) != fmt.Sprint(want) {
							rt.Fatalf("FindMissing = %v, back end lacks %v; script=%+v", got, want, sc)
						}
					}
					common()
				},
			})

			// Drain: a fault-free flush reports what is still owed, the
			// one after it must succeed with nothing left behind.
			doFlush(false)
			doFlush(false)
			if last := sc.Steps[len(sc.Steps)-1]; last.Res != "ok" {
				rt.Fatalf("second fault-free flush() in a row failed: %s; script=%+v", last.Res, sc)
			}
		})

		var ls []string
		for l := range labels {
			ls = append(ls, l)
		}
		sort.Strings(ls)
		ls = append(ls, fmt.Sprintf("batch=%d", sc.BatchSize), fmt.Sprintf("concurrency=%d", sc.Concurrency))
		if faultsReached > 0 {
			ls = append(ls, "fault_reached")
		}
		rec.Case(sc, faultsReached > 0 && len(distinctPut) >= 2, ls...)
	})
}

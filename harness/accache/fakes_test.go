// Package accache decides C09: only complete, successful results reach the
// Action Cache. It drives the real batched-store / storage-flushing / caching
// pipeline of the worker over hand-written fake CAS and AC back ends with
// per-call fault plans.
package accache

import (
	"context"
	"fmt"
	"io"
	"sort"
	"sync"
	"sync/atomic"
	"testing"
	"testing/synctest"
	"time"

	remoteexecution "github.com/bazelbuild/remote-apis/build/bazel/remote/execution/v2"
	"github.com/buildbarn/bb-storage/pkg/blobstore"
	"github.com/buildbarn/bb-storage/pkg/blobstore/buffer"
	"github.com/buildbarn/bb-storage/pkg/blobstore/slicing"
	"github.com/buildbarn/bb-storage/pkg/digest"
	"github.com/buildbarn/bb-storage/pkg/util"
	"google.golang.org/grpc/codes"
	"google.golang.org/grpc/status"
	"google.golang.org/protobuf/proto"
)

var digestFunction = digest.MustNewFunction("main", remoteexecution.DigestFunction_SHA256)

func digestOf(data []byte) digest.Digest {
	g := digestFunction.NewGenerator(int64(len(data)))
	if _, err := g.Write(data); err != nil {
		panic(err)
	}
	return g.Sum()
}

// contentPool is the universe of blob contents the generators draw from:
// small enough that duplicates and the empty blob are frequent.
var contentPool = []string{"", "a", "b", "cc", "ddd", "tree-1", "tree-22", "log-x"}

var poolKeys = func() map[string]bool {
	m := map[string]bool{}
	for _, c := range contentPool {
		m[keyOf(digestOf([]byte(c)))] = true
	}
	return m
}()

func keyOf(d digest.Digest) string {
	return d.GetKey(digest.KeyWithoutInstance)
}

// Fault kinds.
const (
	faultNone   = ""
	faultError  = "error"
	faultCancel = "cancel"
	// faultCancelIgnored: the caller's context is cancelled while the call
	// is in flight, but the back end does not look at contexts: the call
	// itself, everything already in flight and everything started later in
	// that operation completes normally (a store may finish a write it has
	// started; FindMissing may already have answered). Nothing fails at the
	// back end, so only the code under test can notice the cancellation.
	faultCancelIgnored = "cancel_ignored"
	// faultAckLost: "written but acknowledgement lost". The back end
	// carries out the write completely (the blob / Action Cache entry is
	// stored) and then answers with an error, as a store does whose reply
	// is lost on the way back. Only writes can fail this way.
	faultAckLost = "ack_lost"
)

// callRec is one call received by a fake back end.
type callRec struct {
	Store string `json:"store"` // "cas" or "ac"
	Op    string `json:"op"`    // "FindMissing" or "Put"
	// Key identifies a fallible call independently of goroutine
	// scheduling: "FM#<n>" for the n-th FindMissing, "PUT:<digest>#<occurrence>"
	// for CAS writes, "ACPUT#<n>" for AC writes.
	Key    string `json:"key"`
	Phase  int    `json:"phase"` // number of FindMissing calls seen before this call
	N      int    `json:"n,omitempty"`
	Result string `json:"result"`
}

// world is the state shared by the fakes of one run.
type world struct {
	mu sync.Mutex

	calls   []callRec
	fmCount int
	putOcc  map[string]int
	acPuts  int
	plan    map[string]string // call key -> fault kind
	// planCode: status code returned by a call faulted with kind "error".
	planCode map[string]codes.Code
	reached  []reachedFault
	cancel   context.CancelFunc // cancels the context of the operation in progress
	// ignoreCtx: the back ends stopped looking at contexts (set by a
	// cancel_ignored fault, for the rest of the operation).
	ignoreCtx bool
	delays    map[string]time.Duration
	problems  []string

	readers []*trackedReader
}

type reachedFault struct {
	Key  string
	Kind string
}

func newWorld() *world {
	return &world{
		putOcc:   map[string]int{},
		plan:     map[string]string{},
		planCode: map[string]codes.Code{},
		delays:   map[string]time.Duration{},
	}
}

func (w *world) problemf(format string, args ...any) {
	w.mu.Lock()
	w.problems = append(w.problems, fmt.Sprintf(format, args...))
	w.mu.Unlock()
}

func (w *world) setResult(idx int, res string) {
	w.mu.Lock()
	w.calls[idx].Result = res
	w.mu.Unlock()
}

// errorCodes are the status codes a failing back-end call may carry
// (fault kind "error"). Canceled here is a back end answering Canceled
// without the operation's context being cancelled. The code under test
// must treat every one of them as a failure.
var errorCodes = []codes.Code{
	codes.Unavailable, codes.Internal, codes.DeadlineExceeded, codes.AlreadyExists, codes.Aborted,
	codes.ResourceExhausted, codes.NotFound, codes.PermissionDenied, codes.Canceled, codes.Unknown,
	codes.FailedPrecondition, codes.DataLoss,
}

// fail applies a planned fault. For "cancel" the context of the running
// operation is cancelled first, as if the caller went away while the call
// was in flight.
func (w *world) fail(ctx context.Context, key, kind string) error {
	w.mu.Lock()
	w.reached = append(w.reached, reachedFault{Key: key, Kind: kind})
	cancel := w.cancel
	w.mu.Unlock()
	if kind == faultCancel {
		if cancel != nil {
			cancel()
		}
		if err := util.StatusFromContext(ctx); err != nil {
			return err
		}
		return status.Error(codes.Canceled, "context canceled")
	}
	w.mu.Lock()
	code, ok := w.planCode[key]
	w.mu.Unlock()
	if !ok {
		code = codes.Unavailable
	}
	return status.Error(code, "injected storage failure")
}

// ctxErr is how the back ends look at a context.
func (w *world) ctxErr(ctx context.Context) error {
	w.mu.Lock()
	ignore := w.ignoreCtx
	w.mu.Unlock()
	if ignore {
		return nil
	}
	return util.StatusFromContext(ctx)
}

// cancelIgnored applies a cancel_ignored fault: the operation's context is
// cancelled, the back ends carry on regardless.
func (w *world) cancelIgnored(key string) {
	w.mu.Lock()
	w.reached = append(w.reached, reachedFault{Key: key, Kind: faultCancelIgnored})
	w.ignoreCtx = true
	cancel := w.cancel
	w.mu.Unlock()
	if cancel != nil {
		cancel()
	}
}

// trackedReader backs every buffer the harness hands to the code under
// test; it counts Close calls and flags reads after Close.
type trackedReader struct {
	w      *world
	id     int
	data   []byte
	pos    int
	closed atomic.Int32
}

func (r *trackedReader) ReadAt(p []byte, off int64) (int, error) {
	if r.closed.Load() != 0 {
		r.w.problemf("buffer #%d read after it was released", r.id)
		return 0, io.ErrClosedPipe
	}
	if off >= int64(len(r.data)) {
		return 0, io.EOF
	}
	n := copy(p, r.data[off:])
	if n < len(p) {
		return n, io.EOF
	}
	return n, nil
}

func (r *trackedReader) Read(p []byte) (int, error) {
	if r.closed.Load() != 0 {
		r.w.problemf("buffer #%d read after it was released", r.id)
		return 0, io.ErrClosedPipe
	}
	if r.pos >= len(r.data) {
		return 0, io.EOF
	}
	n := copy(p, r.data[r.pos:])
	r.pos += n
	return n, nil
}

func (r *trackedReader) Close() error {
	r.closed.Add(1)
	return nil
}

// newTrackedBuffer creates a buffer whose release is observable. style
// selects the buffer implementation (the worker uses several).
func (w *world) newTrackedBuffer(data []byte, style int) (buffer.Buffer, *trackedReader) {
	w.mu.Lock()
	r := &trackedReader{w: w, id: len(w.readers), data: data}
	w.readers = append(w.readers, r)
	w.mu.Unlock()
	switch style % 2 {
	case 0:
		return buffer.NewValidatedBufferFromReaderAt(r, int64(len(data))), r
	default:
		return buffer.NewCASBufferFromReader(digestOf(data), r, buffer.UserProvided), r
	}
}

// bufferProblems reports every tracked buffer that was not released exactly
// once. mustBeReleased says whether an unreleased buffer is an error.
func (w *world) bufferProblems(mustBeReleased bool) []string {
	w.mu.Lock()
	defer w.mu.Unlock()
	var out []string
	for _, r := range w.readers {
		c := r.closed.Load()
		if c > 1 || (mustBeReleased && c != 1) {
			out = append(out, fmt.Sprintf("buffer #%d (%q) released %d times", r.id, r.data, c))
		}
	}
	return out
}

const maxBlobSize = 1 << 20

// fakeCAS is an in-memory Content Addressable Storage.
type fakeCAS struct {
	w     *world
	blobs map[string][]byte
}

var _ blobstore.BlobAccess = (*fakeCAS)(nil)

func newFakeCAS(w *world) *fakeCAS {
	return &fakeCAS{w: w, blobs: map[string][]byte{}}
}

func (s *fakeCAS) has(d digest.Digest) bool {
	s.w.mu.Lock()
	defer s.w.mu.Unlock()
	_, ok := s.blobs[keyOf(d)]
	return ok
}

func (s *fakeCAS) hasKey(k string) bool {
	s.w.mu.Lock()
	defer s.w.mu.Unlock()
	_, ok := s.blobs[k]
	return ok
}

func (s *fakeCAS) keys() []string {
	s.w.mu.Lock()
	defer s.w.mu.Unlock()
	ks := make([]string, 0, len(s.blobs))
	for k := range s.blobs {
		ks = append(ks, k)
	}
	sort.Strings(ks)
	return ks
}

func (s *fakeCAS) GetCapabilities(ctx context.Context, instanceName digest.InstanceName) (*remoteexecution.ServerCapabilities, error) {
	return &remoteexecution.ServerCapabilities{CacheCapabilities: &remoteexecution.CacheCapabilities{}}, nil
}

func (s *fakeCAS) Get(ctx context.Context, d digest.Digest) buffer.Buffer {
	s.w.mu.Lock()
	data, ok := s.blobs[keyOf(d)]
	s.w.mu.Unlock()
	if !ok {
		return buffer.NewBufferFromError(status.Error(codes.NotFound, "blob not found"))
	}
	return buffer.NewCASBufferFromByteSlice(d, data, buffer.BackendProvided(buffer.Irreparable(d)))
}

func (s *fakeCAS) GetFromComposite(ctx context.Context, parentDigest, childDigest digest.Digest, slicer slicing.BlobSlicer) buffer.Buffer {
	return buffer.NewBufferFromError(status.Error(codes.Unimplemented, "not supported by the fake"))
}

func (s *fakeCAS) FindMissing(ctx context.Context, digests digest.Set) (digest.Set, error) {
	w := s.w
	w.mu.Lock()
	key := fmt.Sprintf("FM#%d", w.fmCount)
	idx := len(w.calls)
	w.calls = append(w.calls, callRec{Store: "cas", Op: "FindMissing", Key: key, Phase: w.fmCount, N: digests.Length(), Result: "running"})
	w.fmCount++
	kind := w.plan[key]
	w.mu.Unlock()

	if err := w.ctxErr(ctx); err != nil {
		w.setResult(idx, "ctx-already-done")
		return digest.EmptySet, err
	}
	if kind == faultCancelIgnored {
		w.cancelIgnored(key)
	} else if kind != faultNone {
		w.setResult(idx, "fault:"+kind)
		return digest.EmptySet, w.fail(ctx, key, kind)
	}
	missing := digest.NewSetBuilder(digests.Length())
	w.mu.Lock()
	for _, d := range digests.Items() {
		if _, ok := s.blobs[keyOf(d)]; !ok {
			missing.Add(d)
		}
	}
	w.calls[idx].Result = "ok"
	w.mu.Unlock()
	return missing.Build(), nil
}

func (s *fakeCAS) Put(ctx context.Context, d digest.Digest, b buffer.Buffer) error {
	w := s.w
	dk := keyOf(d)
	w.mu.Lock()
	// Blobs that are not generated contents (the historical execute
	// response, whose encoding is not deterministic) share one name.
	name := dk
	if !poolKeys[dk] {
		name = "other"
	}
	key := fmt.Sprintf("PUT:%s#%d", name, w.putOcc[name])
	w.putOcc[name]++
	idx := len(w.calls)
	w.calls = append(w.calls, callRec{Store: "cas", Op: "Put", Key: key, Phase: w.fmCount, Result: "running"})
	kind := w.plan[key]
	delay := w.delays[dk]
	w.mu.Unlock()

	if err := w.ctxErr(ctx); err != nil {
		b.Discard()
		w.setResult(idx, "ctx-already-done")
		return err
	}
	// The transfer takes (fake) time; a sibling's failure may cancel it.
	if delay > 0 {
		t := time.NewTimer(delay)
		select {
		case <-ctx.Done():
			if w.ctxErr(ctx) == nil {
				// The back end ignores the cancellation and
				// completes the transfer.
				<-t.C
				break
			}
			t.Stop()
			b.Discard()
			w.setResult(idx, "ctx-done-in-flight")
			return util.StatusFromContext(ctx)
		case <-t.C:
		}
	}
	if kind == faultCancelIgnored {
		w.cancelIgnored(key)
	} else if kind != faultNone && kind != faultAckLost {
		b.Discard()
		w.setResult(idx, "fault:"+kind)
		return w.fail(ctx, key, kind)
	}
	data, err := b.ToByteSlice(maxBlobSize)
	if err != nil {
		w.problemf("CAS Put %s: buffer could not be read: %v", dk, err)
		w.setResult(idx, "read-error")
		return err
	}
	if got := keyOf(digestOf(data)); got != dk {
		w.problemf("CAS Put: contents %q (digest %s) stored under digest %s", data, got, dk)
		w.setResult(idx, "digest-mismatch")
		return status.Errorf(codes.InvalidArgument, "digest mismatch: %s vs %s", got, dk)
	}
	w.mu.Lock()
	s.blobs[dk] = data
	w.calls[idx].Result = "ok"
	w.mu.Unlock()
	if kind == faultAckLost {
		// Stored, but the caller is told that the write failed.
		w.setResult(idx, "fault:"+kind+" (stored)")
		return w.fail(ctx, key, kind)
	}
	return nil
}

// acEntry is an ActionResult as it was stored, with what the CAS lacked at
// that very moment.
type acEntry struct {
	Key          string
	Result       *remoteexecution.ActionResult
	MissingAtPut []string
	// AckLost: the entry was stored by a call that then reported failure
	// (fault kind ack_lost).
	AckLost bool
}

// fakeAC is an in-memory Action Cache. On every successful Put it checks,
// at that moment, that the CAS holds everything the result references.
type fakeAC struct {
	w       *world
	cas     *fakeCAS
	entries []acEntry
}

var _ blobstore.BlobAccess = (*fakeAC)(nil)

func (s *fakeAC) GetCapabilities(ctx context.Context, instanceName digest.InstanceName) (*remoteexecution.ServerCapabilities, error) {
	return &remoteexecution.ServerCapabilities{CacheCapabilities: &remoteexecution.CacheCapabilities{}}, nil
}

func (s *fakeAC) Get(ctx context.Context, d digest.Digest) buffer.Buffer {
	return buffer.NewBufferFromError(status.Error(codes.NotFound, "not found"))
}

func (s *fakeAC) GetFromComposite(ctx context.Context, parentDigest, childDigest digest.Digest, slicer slicing.BlobSlicer) buffer.Buffer {
	return buffer.NewBufferFromError(status.Error(codes.Unimplemented, "not supported by the fake"))
}

func (s *fakeAC) FindMissing(ctx context.Context, digests digest.Set) (digest.Set, error) {
	s.w.problemf("unexpected FindMissing on the Action Cache")
	return digests, nil
}

func (s *fakeAC) Put(ctx context.Context, d digest.Digest, b buffer.Buffer) error {
	w := s.w
	w.mu.Lock()
	key := fmt.Sprintf("ACPUT#%d", w.acPuts)
	w.acPuts++
	idx := len(w.calls)
	w.calls = append(w.calls, callRec{Store: "ac", Op: "Put", Key: key, Phase: w.fmCount, Result: "running"})
	kind := w.plan[key]
	w.mu.Unlock()

	if err := w.ctxErr(ctx); err != nil {
		b.Discard()
		w.setResult(idx, "ctx-already-done")
		return err
	}
	if kind == faultCancelIgnored {
		w.cancelIgnored(key)
	} else if kind != faultNone && kind != faultAckLost {
		b.Discard()
		w.setResult(idx, "fault:"+kind)
		return w.fail(ctx, key, kind)
	}
	m, err := b.ToProto(&remoteexecution.ActionResult{}, maxBlobSize)
	if err != nil {
		w.problemf("AC Put: buffer is not an ActionResult: %v", err)
		w.setResult(idx, "read-error")
		return err
	}
	result := proto.Clone(m).(*remoteexecution.ActionResult)
	e := acEntry{Key: keyOf(d), Result: result, AckLost: kind == faultAckLost}
	for _, ref := range referencedDigests(result, nil) {
		rd, err := digestFunction.NewDigestFromProto(ref.Digest)
		if err != nil {
			e.MissingAtPut = append(e.MissingAtPut, fmt.Sprintf("%s: malformed digest %v", ref.Where, ref.Digest))
			continue
		}
		if !s.cas.has(rd) {
			e.MissingAtPut = append(e.MissingAtPut, fmt.Sprintf("%s: %s", ref.Where, keyOf(rd)))
		}
	}
	w.mu.Lock()
	s.entries = append(s.entries, e)
	w.calls[idx].Result = "ok"
	w.mu.Unlock()
	if kind == faultAckLost {
		// Stored, but the caller is told that the write failed.
		w.setResult(idx, "fault:"+kind+" (stored)")
		return w.fail(ctx, key, kind)
	}
	return nil
}

type digestRef struct {
	Where  string
	Digest *remoteexecution.Digest
}

// referencedDigests lists every blob an ActionResult (and, if given, the
// server logs of its ExecuteResponse) points at.
func referencedDigests(result *remoteexecution.ActionResult, serverLogs map[string]*remoteexecution.LogFile) []digestRef {
	var refs []digestRef
	if result != nil {
		for _, f := range result.OutputFiles {
			if f.Digest != nil {
				refs = append(refs, digestRef{"output_files[" + f.Path + "]", f.Digest})
			}
		}
		for _, d := range result.OutputDirectories {
			if d.TreeDigest != nil {
				refs = append(refs, digestRef{"output_directories[" + d.Path + "].tree_digest", d.TreeDigest})
			}
			if d.RootDirectoryDigest != nil {
				refs = append(refs, digestRef{"output_directories[" + d.Path + "].root_directory_digest", d.RootDirectoryDigest})
			}
		}
		if result.StdoutDigest != nil {
			refs = append(refs, digestRef{"stdout_digest", result.StdoutDigest})
		}
		if result.StderrDigest != nil {
			refs = append(refs, digestRef{"stderr_digest", result.StderrDigest})
		}
	}
	names := make([]string, 0, len(serverLogs))
	for n := range serverLogs {
		names = append(names, n)
	}
	sort.Strings(names)
	for _, n := range names {
		if l := serverLogs[n]; l != nil && l.Digest != nil {
			refs = append(refs, digestRef{"server_logs[" + n + "]", l.Digest})
		}
	}
	return refs
}

// inBubble runs f inside a synctest bubble so that the (fake) transfer
// times of concurrent uploads, chosen by the generator, decide the order
// in which they finish. A panic raised by f (including rapid's own
// failure signal) is carried out of the bubble and raised again.
func inBubble(t *testing.T, f func()) {
	var carried any
	synctest.Test(t, func(*testing.T) {
		defer func() { carried = recover() }()
		f()
	})
	if carried != nil {
		panic(carried)
	}
}

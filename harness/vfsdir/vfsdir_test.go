package vfsdir

import (
	"fmt"
	"testing"
	"time"

	"github.com/buildbarn/bb-remote-execution/pkg/filesystem/virtual"
	"pgregory.net/rapid"

	"verif/harness/internal/simkit"
)

type vdWeighted struct {
	name   string
	weight int
	run    func(c *vdCase)
}

// vdWideAlphabet is the alphabet of the "wide" profile: 16 names (15 under the
// case-insensitive normaliser), so that one directory can hold 12-16 entries.
var vdWideAlphabet = []string{"a", "b", "A", "c", ".hidden", "d", "e", "f", "g", "h", "i", "j", "k", "l", "m", "n"}

func vdOps(mode, profile string) []vdWeighted {
	fault := 1
	bulk := 1
	leaf := 5
	openattr := 5
	if mode == "C14" {
		fault = 6
		bulk = 2
		leaf = 10
		openattr = 8
	}
	if profile == "wide" {
		// One directory is filled to 12-16 names and listed through several
		// cursors with page sizes 1-8 / "all" while entries come and go.
		return []vdWeighted{
			{"wide_fill", 6, (*vdCase).opWideFill},
			{"mkdir", 3, (*vdCase).opMkdir},
			{"open", 5, (*vdCase).opOpen},
			{"mknod", 4, (*vdCase).opMknod},
			{"link", 4, (*vdCase).opLink},
			{"rename", 10, (*vdCase).opRename},
			{"vremove", 12, (*vdCase).opVirtualRemove},
			{"cursor_open", 8, (*vdCase).opCursorOpen},
			{"cursor_next", 30, (*vdCase).opCursorNext},
			{"create_children", 4, (*vdCase).opCreateChildren},
			{"create_and_enter", 1, (*vdCase).opCreateAndEnter},
			{"remove", 5, (*vdCase).opRemove},
			{"remove_all_children", 1, (*vdCase).opRemoveAllChildren},
			{"filter_children", 1, (*vdCase).opFilterChildren},
			{"invoke_remover", 1, (*vdCase).opInvokeRemover},
			{"fault", 1, (*vdCase).opToggleFault},
			{"clock", 1, func(c *vdCase) { c.w.clock.now = c.w.clock.now.Add(time.Second) }},
		}
	}
	return []vdWeighted{
		{"install_hooks", 2, (*vdCase).opInstallHooks},
		{"dir_apply", 3, (*vdCase).opDirApply},
		{"dir_setattr", 3, (*vdCase).opDirSetAttributes},
		{"leaf_session", leaf, (*vdCase).opLeafSession},
		{"leaf_setattr", 3, (*vdCase).opLeafSetAttributes},
		{"open_named_attributes", openattr, (*vdCase).opOpenNamedAttributes},
		{"mkdir", 7, (*vdCase).opMkdir},
		{"open", 12, (*vdCase).opOpen},
		{"mknod", 6, (*vdCase).opMknod},
		{"link", 6, (*vdCase).opLink},
		{"rename", 16, (*vdCase).opRename},
		{"vremove", 8, (*vdCase).opVirtualRemove},
		{"vlookup", 3, (*vdCase).opVirtualLookup},
		{"cursor_open", 5, (*vdCase).opCursorOpen},
		{"cursor_next", 16, (*vdCase).opCursorNext},
		{"create_children", 7 * bulk, (*vdCase).opCreateChildren},
		{"create_and_enter", 4 * bulk, (*vdCase).opCreateAndEnter},
		{"lookups", 3 * bulk, (*vdCase).opLookups},
		{"remove", 6 * bulk, (*vdCase).opRemove},
		{"remove_all_children", 2 * bulk, (*vdCase).opRemoveAllChildren},
		{"filter_children", 3 * bulk, (*vdCase).opFilterChildren},
		{"invoke_remover", 2, (*vdCase).opInvokeRemover},
		{"fault", fault, (*vdCase).opToggleFault},
		{"clock", 1, func(c *vdCase) { c.w.clock.now = c.w.clock.now.Add(time.Second) }},
	}
}

// runCase executes one generated case in the given mode and records it.
// profile is "std", "wide", or "mixed" (one case in six is wide).
func vdRunCase(rt *rapid.T, rec *simkit.Recorder, mode, profile string) {
	wideTest := profile == "wide"
	if profile == "mixed" {
		profile = "std"
		if rapid.IntRange(0, 5).Draw(rt, "wide_profile") == 0 {
			profile = "wide"
		}
	}
	handles := rapid.SampledFrom([]string{"nfs", "fuse"}).Draw(rt, "handle_allocator")
	caseFold := rapid.Bool().Draw(rt, "case_insensitive")
	hidden := rapid.Bool().Draw(rt, "hidden_files")
	w := newVdWorld(handles, caseFold, hidden)
	c := &vdCase{
		rt: rt, rec: rec, mode: mode, profile: profile, w: w, m: newModel(caseFold, hidden, handles == "nfs"),
		alphabet:   vdAlphabet,
		cfg:        fmt.Sprintf("{handles:%s caseInsensitive:%v hiddenFiles:%v profile:%s}", handles, caseFold, hidden, profile),
		lastChange: map[*mNode]uint64{}, mutations: map[*mNode]int{}, errPairs: map[string]int{}, labels: map[string]bool{},
	}
	if profile == "wide" {
		c.alphabet = vdWideAlphabet
	}
	c.register(c.m.root, w.root)
	vdWatchCase.Store(c)
	defer vdWatchCase.Store(nil)
	// The FUSE removal notifier stands for the kernel being told to drop
	// a directory entry; the code documents that this must not happen
	// while directory locks are held.
	w.onNotify = func(parent uint64, name string) {
		for _, d := range c.reg {
			if free, known := virtual.VerifLockIsFree(d.realDir); known && !free {
				w.lockProblems = append(w.lockProblems, fmt.Sprintf("NotifyRemoval(%q) was called while the lock of directory %s was held", name, c.dname(d)))
			}
		}
	}
	ops := vdOps(mode, profile)
	if handles != "nfs" {
		// OPENATTR is only generated under the NFS handle allocator (see
		// engine_naops_test.go): the FUSE front end has no such call.
		kept := ops[:0:0]
		for _, o := range ops {
			if o.name != "open_named_attributes" {
				kept = append(kept, o)
			}
		}
		ops = kept
	}
	// rapid biases integer draws towards small values, so the weighted
	// table is interleaved: every prefix has roughly the intended mix.
	var table []int
	for round := 0; ; round++ {
		added := false
		for i, o := range ops {
			if round < o.weight {
				table = append(table, i)
				added = true
			}
		}
		if !added {
			break
		}
	}
	step := func(rt *rapid.T) {
		if c.aborted {
			return
		}
		c.rt = rt
		defer func() {
			if r := recover(); r != nil {
				if a, ok := r.(vdAbort); ok {
					c.aborted = true
					c.abortWhy = a.why
					return
				}
				panic(r)
			}
		}()
		o := ops[table[rapid.IntRange(0, len(table)-1).Draw(rt, "op")]]
		o.run(c)
	}
	rt.Repeat(map[string]func(*rapid.T){"step": step})
	c.rt = rt

	if c.aborted {
		rec.Exclude(c.abortWhy)
		rec.Case(c.script, false, "case_abandoned")
		return
	}
	labels := []string{"handles_" + handles, "profile_" + profile}
	if caseFold {
		labels = append(labels, "case_insensitive")
	}
	if hidden {
		labels = append(labels, "hidden_files")
	}
	flag := func(b bool, l string) {
		if b {
			labels = append(labels, l)
		}
	}
	flag(c.sawRenameOver, "rename_over_existing")
	flag(c.sawRemoveHard, "remove_nonempty_or_removed_dir")
	flag(c.sawInterleaved, "listing_interleaved_with_mutation")
	flag(c.sawError, "error_returned")
	flag(c.sawDeletedBulk, "bulk_call_on_removed_or_uninit_dir")
	flag(c.sawLazyFail, "injected_failure_hit")
	flag(c.sawHardLink, "hard_link")
	flag(c.cursorsCompleted > 0, "listing_completed")
	flag(c.sawWideCompleted, "wide_listing_completed_across_mutation")
	flag(c.sawDupTarget, "symlinks_with_equal_targets")
	for l, on := range c.labels {
		if on {
			rec.Label(l)
		}
	}
	removed := 0
	for _, d := range c.reg {
		if d.deleted {
			removed++
		}
	}
	flag(removed > 0, "has_removed_directory")
	flag(len(c.reg) >= 4, "four_or_more_directories")
	for _, k := range vdSortedKeys(c.errPairs) {
		rec.LabelN("ret:"+k, c.errPairs[k])
	}
	nontrivial := false
	switch {
	case mode == "C13" && wideTest:
		nontrivial = c.sawWideCompleted
	case mode == "C13":
		nontrivial = (c.sawRenameOver || c.sawRemoveHard) && c.sawInterleaved
	case mode == "C14":
		nontrivial = c.sawError
	}
	rec.Case(c.script, nontrivial, labels...)
}

func TestC13DirectoryModel(t *testing.T) {
	vdStartWatchdog(t.Name())
	rec := simkit.NewRecorder(t, "C13", "directory_model",
		"rapid state machine over the real InMemoryPrepopulatedDirectory (pool-backed file allocator over an in-memory pool, NFS or FUSE handle allocator, case-sensitive or -insensitive normaliser, optional hidden-files matcher, fake clock): every kernel-facing Virtual* call and every worker-facing bulk call (incl. lazily populated subdirectories and saved FilterChildren removers; also InstallHooks, VirtualApply, VirtualSetAttributes on directories, and open/read/write/seek/allocate/setattr/close sessions on regular files with one-shot failures of the pool file; under the NFS handle allocator also VirtualOpenNamedAttributes (createDirectory true/false) on files, directories, symlinks/FIFOs/sockets and nodes of attribute directories, after which the attribute directory is one more directory of the case for all kernel-facing calls and goes away with its owner), names from {a,b,A,c,.hidden}, up to 6 live directories plus removed ones that are still referenced, symlink targets that repeat, colliding spellings of one name; one case in six uses the wide profile (see wide_listings). Oracle: naive POSIX-style reference tree; after every call the status/errno, ChangeInfo, the complete observable state of every known directory (LookupAllChildren, ReadDir, VirtualReadDir, VirtualLookup/LookupChild of every name, object identity, link counts, inode numbers, file bytes through every hard link) and the change IDs are compared; paginated listings are kept open across mutations and checked for exactly-once reporting when they end. Non-trivial: (a rename onto an existing entry OR removal of a non-empty directory / a mutation attempted on a removed directory) AND a paginated listing that saw a mutation of its directory between two of its pages; distinct by script hash")
	rapid.Check(t, func(rt *rapid.T) { vdRunCase(rt, rec, "C13", "mixed") })
}

func TestC13WideListings(t *testing.T) {
	vdStartWatchdog(t.Name())
	rec := simkit.NewRecorder(t, "C13", "wide_listings",
		"the directory_model state machine in its 'wide' profile: 16 names {a,b,A,c,.hidden,d..n}; a wide_fill call (CreateChildren of 4-12 absent names, files/symlinks/lazy directories) brings one directory to 12-16 entries; up to 4 paginated listings with page sizes 1-8 or 'all' are kept open while entries are removed, renamed and added; three in ten cursor steps rewind the listing to an arbitrary earlier cookie that was handed out (also one whose entry has been removed since). Oracle: as directory_model (naive POSIX tree after every call) and per listing: cookies strictly increase, no incarnation of an entry is reported twice, nothing is reported that is not in the directory, and when the listing ends every entry that existed from its first page on was reported exactly once. Non-trivial: a listing that had at least 9 visible entries in its directory at one of its pages, saw a mutation of the directory between two pages and ran to the end; distinct by script hash")
	rapid.Check(t, func(rt *rapid.T) { vdRunCase(rt, rec, "C13", "wide") })
}

func TestC14DirectoryLockLeak(t *testing.T) {
	vdStartWatchdog(t.Name())
	rec := simkit.NewRecorder(t, "C14", "directory_lock_leak",
		"same call grammar as C13 with injected failures at higher rates (failing InitialContentsFetcher, file allocator, file pool, symlink factory; calls on removed and on uninitialised directories; every bulk call; InstallHooks, VirtualApply, VirtualSetAttributes on directories; on pool-backed files VirtualOpenSelf incl. O_TRUNC / unlinked files / share masks 0,4,7, VirtualRead, VirtualWrite, VirtualSeek, VirtualAllocate, VirtualSetAttributes, VirtualClose, each with a generated one-shot failure of the pool file's ReadAt, WriteAt (also short), Truncate or GetNextRegionOffset; under the NFS handle allocator VirtualOpenNamedAttributes on files/directories/other nodes, every kernel-facing call on the named attribute directories and inside them, and removal of owners that have a (non-)empty attribute directory by every removing call). Oracle: after EVERY call, inside every FilterChildren callback and after the read-only verification calls, VerifLockIsFree/VerifDirectoryLockIsFree for every directory object known so far, VerifLeafLockIsFree for every pool-backed file and the NFS handle pool lock must all report free (no call is in progress, so a held lock was leaked by the call just made, which is named); FUSE NotifyRemoval must run with no directory lock held. The next call is only issued after all probes passed, so a leak is reported instead of hanging; a call that never returns because it waits for a mutex only its own goroutine could release (self-deadlock) is reported by a real-time watchdog (40 s without a call returning, the calling goroutine parked in sync.Mutex/RWMutex in two dumps, no other goroutine in harness or /repo code). Non-trivial: the case contained a call that returned an error / non-OK status; labels ret:<function>:<code> show which error returns were reached; distinct by script hash")
	rapid.Check(t, func(rt *rapid.T) { vdRunCase(rt, rec, "C14", "std") })
}

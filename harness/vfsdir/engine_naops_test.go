package vfsdir

import (
	"fmt"

	"github.com/buildbarn/bb-remote-execution/pkg/filesystem/virtual"
	"github.com/buildbarn/bb-storage/pkg/filesystem"
	"pgregory.net/rapid"
)

// Named attributes (NFSv4 OPENATTR). The hierarchy is wired the way
// pkg/builder/virtual_build_directory.go InstallHooks() wires a build
// directory: regular files and directories carry in-memory named attributes
// (NewInMemoryNamedAttributesFactory), whose attribute directory is an
// ordinary in-memory directory of a separate, case sensitive file system in
// which attribute values are pool-backed files that cannot have named
// attributes themselves. A named attribute directory that
// VirtualOpenNamedAttributes handed out is registered like any other
// directory, so all kernel-facing calls (open/create, mkdir, mknod, link,
// rename, remove, lookup, paginated listings, setattr) are generated on it and
// on what is created inside it, it is compared with the reference tree and its
// lock is probed after every call. The owner going away (last link of a closed
// file removed by VirtualRemove / rename-over / Remove / RemoveAll /
// RemoveAllChildren / CreateChildren(overwrite) / a saved remover; a directory
// removed or tombstoned) releases the attribute directory recursively, from
// inside the owner's Unlink()/markDeleted() with the parent directory's lock,
// the owner's lock and (NFS) handle bookkeeping in play: C14's subject.
//
// Only generated under the NFS handle allocator: the FUSE front end never
// calls VirtualOpenNamedAttributes (pkg/filesystem/virtual/fuse has no
// extended attribute support), and the removal of attribute values would
// call the FUSE removal notifier from under the locks of the owner's parent,
// which cannot happen in a FUSE mount for that reason. Under FUSE the
// factories are still wired (as InstallHooks() does), so every Release() runs.

// pickAttrOwner chooses the node OPENATTR is sent to. Only nodes that still
// exist are chosen: the NFS server resolves a file handle first and answers
// ESTALE for a file without links and for a removed directory.
func (c *vdCase) pickAttrOwner() *mNode {
	var files, attrFiles, others, dirs []*mNode
	for _, l := range c.m.leaves {
		if l.realLeaf == nil || l.nlink == 0 || l.na == "" {
			continue
		}
		switch {
		case l.kind == "file" && l.na == "attr":
			attrFiles = append(attrFiles, l)
		case l.kind == "file":
			files = append(files, l)
		default:
			others = append(others, l)
		}
	}
	for _, d := range c.reg {
		if !d.deleted {
			dirs = append(dirs, d)
		}
	}
	from := func(label string, set []*mNode) *mNode {
		if len(set) == 0 {
			return nil
		}
		return set[rapid.IntRange(0, len(set)-1).Draw(c.rt, label)]
	}
	switch rapid.SampledFrom([]string{"file", "file", "file", "file", "file", "dir", "dir", "dir", "attr_file", "other_leaf"}).Draw(c.rt, "owner_kind") {
	case "file":
		// Files that have no attribute directory yet are preferred one time
		// in two, so that several owners come to have one.
		if rapid.Bool().Draw(c.rt, "owner_without_attrs") {
			var fresh []*mNode
			for _, l := range files {
				if l.attrDir == nil {
					fresh = append(fresh, l)
				}
			}
			if n := from("owner", fresh); n != nil {
				return n
			}
		}
		return from("owner", files)
	case "dir":
		return from("owner", dirs)
	case "attr_file":
		return from("owner", attrFiles)
	}
	return from("owner", others)
}

func (c *vdCase) ownerDesc(n *mNode) string {
	if n.dir {
		return c.dname(n)
	}
	return fmt.Sprintf("leaf#%d %s nlink=%d", n.leafIdx, n.kind, n.nlink)
}

func (c *vdCase) opOpenNamedAttributes() {
	owner := c.pickAttrOwner()
	if owner == nil {
		// Nothing of the chosen kind yet: make a file rather than waste
		// the step.
		c.opOpen()
		return
	}
	create := rapid.IntRange(0, 3).Draw(c.rt, "create_directory") != 0
	if create && owner.na == "mem" && owner.attrDir == nil && c.m.liveAttrDirCount() >= 5 {
		c.rec.Exclude("OPENATTR(createdir) skipped: the case already has 5 live directories in named attribute directories (size bound)")
		return
	}
	c.begin(vdStep{Op: "VirtualOpenNamedAttributes", Arg: fmt.Sprintf("%s createDirectory=%v", c.ownerDesc(owner), create)})
	had := owner.attrDir != nil
	want, node := c.m.opOpenNamedAttributes(owner, create)
	const mask = virtual.AttributesMaskFileType | virtual.AttributesMaskInodeNumber | virtual.AttributesMaskChangeID | virtual.AttributesMaskIsInNamedAttributeDirectory | virtual.AttributesMaskHasNamedAttributes
	var out virtual.Attributes
	var rd virtual.Directory
	var st virtual.Status
	c.real(func() {
		if owner.dir {
			rd, st = owner.realDir.VirtualOpenNamedAttributes(c.w.ctx, create, mask, &out)
		} else {
			rd, st = owner.realLeaf.VirtualOpenNamedAttributes(c.w.ctx, create, mask, &out)
		}
	})
	if c.checkResult("VirtualOpenNamedAttributes", want, vdStatusName(st), true) {
		pd, ok := rd.(virtual.PrepopulatedDirectory)
		if !ok {
			c.failModel("VirtualOpenNamedAttributes returned a %T, not an in-memory directory", rd)
		}
		// An attribute directory that exists is handed out again (same
		// object) whatever createDirectory says.
		c.register(node, pd)
		if out.GetFileType() != filesystem.FileTypeDirectory {
			c.failModel("VirtualOpenNamedAttributes reported file type %v for the attribute directory", out.GetFileType())
		}
		if !out.GetIsInNamedAttributeDirectory() || out.GetHasNamedAttributes() {
			c.failModel("VirtualOpenNamedAttributes: the attribute directory reports isInNamedAttributeDirectory=%v hasNamedAttributes=%v, expected true/false", out.GetIsInNamedAttributeDirectory(), out.GetHasNamedAttributes())
		}
		if had {
			c.labels["named_attribute_directory_reopened"] = true
		} else {
			c.labels["named_attribute_directory_created"] = true
			if owner.dir {
				c.labels["named_attribute_directory_of_a_directory"] = true
			}
		}
	}
	c.finish()
}

// compareNamedAttributes checks what the code documents about the two
// attributes that concern named attributes, for every file and directory
// that still exists: isInNamedAttributeDirectory is true exactly for nodes of
// the named attribute file system, and hasNamedAttributes is true exactly if
// the node has a named attribute directory that is not empty
// (inMemoryNamedAttributes.VirtualGetAttributes: "Check whether the named
// attribute directory is non-empty"). The latter is not compared while the
// attribute directory is still uninitialised (nothing but OPENATTR touched it
// so far): see FINDINGS.md, note N1.
func (c *vdCase) compareNamedAttributes() {
	const mask = virtual.AttributesMaskHasNamedAttributes | virtual.AttributesMaskIsInNamedAttributeDirectory
	check := func(n *mNode, what string, attr *virtual.Attributes) {
		if got := attr.GetIsInNamedAttributeDirectory(); got != n.fsAttr {
			c.failModel("%s reports isInNamedAttributeDirectory=%v, the reference tree says %v", what, got, n.fsAttr)
		}
		a := n.attrDir
		if a != nil && a.uninit {
			return
		}
		want := a != nil && len(a.ents) > 0
		if got := attr.GetHasNamedAttributes(); got != want {
			c.failModel("%s reports hasNamedAttributes=%v, the reference tree says %v", what, got, want)
		}
	}
	for _, d := range c.reg {
		if d.deleted {
			continue
		}
		var attr virtual.Attributes
		c.real(func() { d.realDir.VirtualGetAttributes(c.w.ctx, mask, &attr) })
		check(d, "directory "+c.dname(d), &attr)
	}
	for _, l := range c.m.leaves {
		if l.kind != "file" || l.realLeaf == nil || l.nlink == 0 || l.na == "" {
			continue
		}
		var attr virtual.Attributes
		c.real(func() { l.realLeaf.VirtualGetAttributes(c.w.ctx, mask, &attr) })
		check(l, fmt.Sprintf("file leaf#%d", l.leafIdx), &attr)
	}
	if c.m.naReleased > 0 {
		c.labels["owner_removed_with_named_attribute_directory"] = true
	}
	if c.m.naReleasedOfFile > 0 {
		c.labels["file_lost_last_link_with_named_attribute_directory"] = true
	}
	if c.m.naReleasedNonEmpty > 0 {
		c.labels["owner_removed_with_nonempty_named_attribute_directory"] = true
	}
}

package vfsdir

import (
	"errors"
	"fmt"
	"runtime/debug"
	"sort"
	"syscall"

	"github.com/buildbarn/bb-remote-execution/pkg/filesystem/virtual"
	"github.com/buildbarn/bb-storage/pkg/filesystem"
	"github.com/buildbarn/bb-storage/pkg/filesystem/path"
	"google.golang.org/grpc/codes"
	"google.golang.org/grpc/status"
	"pgregory.net/rapid"

	"verif/harness/internal/simkit"
)

// vdStep is one executed call of a case, as it appears in replay scripts.
type vdStep struct {
	Op    string `json:"op"`
	Dir   string `json:"dir,omitempty"`
	Name  string `json:"name,omitempty"`
	Dir2  string `json:"dir2,omitempty"`
	Name2 string `json:"name2,omitempty"`
	Arg   string `json:"arg,omitempty"`
	Res   string `json:"res,omitempty"`
}

type vdAbort struct{ why string }

var vdAlphabet = []string{"a", "b", "A", "c", ".hidden"}

// vdCase is the state of one generated case.
type vdCase struct {
	rt   *rapid.T
	rec  *simkit.Recorder
	mode string // "C13": the model is the verdict; "C14": lock probes are the verdict
	// profile: "std" (names {a,b,A,c,.hidden}) or "wide" (16 names, one
	// directory filled to 12-16 entries, page sizes 1-8 and "all").
	profile  string
	alphabet []string
	w        *vdWorld
	m        *mModel
	cfg      string

	reg        []*mNode // directories whose real object is known
	lastChange map[*mNode]uint64
	mutations  map[*mNode]int
	fileLeaves []virtual.Leaf // every pool-backed leaf created so far
	script     []vdStep
	aborted    bool
	abortWhy   string
	curCall    string
	symCounter int
	tagCounter int
	targets    []string // symlink targets used so far (they may repeat)

	cursors  []*vdCursor
	nextCur  int
	removers []*vdSavedRemover

	// coverage
	sawRenameOver    bool
	sawRemoveHard    bool // removal of a non-empty directory, or a mutation attempted on a removed one
	sawInterleaved   bool
	sawError         bool
	sawDeletedBulk   bool
	sawLazyFail      bool
	sawHardLink      bool
	cursorsCompleted int
	sawWideCompleted bool // a listing over >= 9 entries completed across a mutation
	sawDupTarget     bool // two symlink creations used one target
	errPairs         map[string]int
	labels           map[string]bool
}

func (c *vdCase) scriptText() string {
	return fmt.Sprintf("config=%s script=%+v", c.cfg, c.script)
}

// failModel reports a disagreement with the reference model (C13's verdict).
func (c *vdCase) failModel(format string, args ...any) {
	msg := fmt.Sprintf(format, args...)
	if c.mode == "C13" {
		c.rt.Fatalf("C13 model violation after %s: %s; %s", c.curCall, msg, c.scriptText())
	}
	panic(vdAbort{why: "model divergence (C13's verdict, not C14's): case abandoned"})
}

// failLock reports a lock that is not free at quiescence (C14's verdict).
func (c *vdCase) failLock(format string, args ...any) {
	msg := fmt.Sprintf(format, args...)
	if c.mode == "C14" {
		c.rt.Fatalf("C14 lock violation: %s; leaked by call: %s; %s", msg, c.curCall, c.scriptText())
	}
	panic(vdAbort{why: "a call left a lock behind (C14's verdict, not C13's): case abandoned"})
}

// harnessBug is for conditions that can only mean the harness is wrong.
func (c *vdCase) harnessBug(format string, args ...any) {
	c.rt.Fatalf("HARNESS BUG: %s; %s", fmt.Sprintf(format, args...), c.scriptText())
}

// real runs a piece of code that calls into /repo, converting Go panics
// raised by /repo into a model violation (a panic inside the documented
// contract means the tree broke an internal invariant).
func (c *vdCase) real(f func()) {
	// Progress marks for the self-deadlock watchdog (watchdog_test.go).
	vdWatchProgress.Add(1)
	defer vdWatchProgress.Add(1)
	defer func() {
		if r := recover(); r != nil {
			switch r.(type) {
			case string, error:
				c.failModel("the call panicked: %v\n%s", r, debug.Stack())
			default:
				panic(r)
			}
		}
	}()
	f()
}

func vdStatusName(s virtual.Status) string {
	switch s {
	case virtual.StatusOK:
		return rOK
	case virtual.StatusErrExist:
		return rExist
	case virtual.StatusErrIO:
		return rIO
	case virtual.StatusErrIsDir:
		return rIsDir
	case virtual.StatusErrNoEnt:
		return rNoEnt
	case virtual.StatusErrNotDir:
		return rNotDir
	case virtual.StatusErrNotEmpty:
		return rNotEmpty
	case virtual.StatusErrPerm:
		return rPerm
	case virtual.StatusErrStale:
		return rStale
	case virtual.StatusErrSymlink:
		return rSymlink
	case virtual.StatusErrXDev:
		return rXDev
	case virtual.StatusErrInval:
		return rInval
	case virtual.StatusErrNXIO:
		return rNXIO
	case virtual.StatusErrAccess:
		return rAccess
	case virtual.StatusErrWrongType:
		return rWrongType
	}
	return fmt.Sprintf("STATUS(%d)", int(s))
}

func vdErrName(err error) string {
	switch {
	case err == nil:
		return rOK
	case errors.Is(err, errVdFetch):
		return rFetchErr
	case err == syscall.ENOENT:
		return rNoEnt
	case err == syscall.EEXIST:
		return rExist
	case err == syscall.ENOTEMPTY:
		return rNotEmpty
	case status.Code(err) == codes.InvalidArgument:
		return rInvalidArg
	}
	return "ERR(" + err.Error() + ")"
}

func vdTranslate(codes []string, virtualAPI bool) []string {
	out := make([]string, len(codes))
	for i, x := range codes {
		switch x {
		case rLazyFail:
			if virtualAPI {
				x = rIO
			} else {
				x = rFetchErr
			}
		case rLazyCollide:
			if virtualAPI {
				x = rIO
			} else {
				x = rInvalidArg
			}
		}
		out[i] = x
	}
	return out
}

func vdContains(set []string, x string) bool {
	for _, s := range set {
		if s == x {
			return true
		}
	}
	return false
}

// checkResult compares the real result code with the acceptable set and
// does the coverage bookkeeping. It returns true if the call succeeded.
func (c *vdCase) checkResult(fn string, want []string, got string, virtualAPI bool) bool {
	want = vdTranslate(want, virtualAPI)
	c.script[len(c.script)-1].Res = got
	if got != rOK {
		c.sawError = true
		c.errPairs[fn+":"+got]++
		if got == rIO || got == rFetchErr || got == rInvalidArg {
			c.sawLazyFail = true
		}
	}
	if !vdContains(want, got) {
		c.failModel("%s returned %s, the reference tree says %v", fn, got, want)
	}
	if len(want) == 1 && want[0] == rOK {
		return true
	}
	if got == rOK {
		c.failModel("%s returned OK, the reference tree says %v", fn, want)
	}
	return false
}

func (c *vdCase) dname(d *mNode) string {
	s := fmt.Sprintf("d%d", d.reg)
	if o := d.attrOwner; o != nil {
		// The named attribute directory of a file or of another directory.
		if o.dir {
			s += fmt.Sprintf("[attrs of d%d]", o.reg)
		} else {
			s += fmt.Sprintf("[attrs of leaf#%d]", o.leafIdx)
		}
	}
	if d.deleted {
		s += "(removed)"
	} else if d.uninit {
		s += "(uninit)"
	}
	return s
}

func comp(name string) path.Component { return path.MustNewComponent(name) }

func (c *vdCase) register(d *mNode, realDir virtual.PrepopulatedDirectory) {
	if d.realDir != nil {
		if d.realDir != realDir {
			c.failModel("directory node %d resolved to a different object than before", d.id)
		}
		return
	}
	d.realDir = realDir
	d.reg = len(c.reg)
	c.reg = append(c.reg, d)
}

func (c *vdCase) changeID(d *mNode) uint64 {
	var attr virtual.Attributes
	c.real(func() { d.realDir.VirtualGetAttributes(c.w.ctx, virtual.AttributesMaskChangeID, &attr) })
	return attr.GetChangeID()
}

// begin starts a modelled call.
func (c *vdCase) begin(st vdStep) {
	c.m.beginCall()
	c.script = append(c.script, st)
	c.curCall = fmt.Sprintf("#%d %+v", len(c.script)-1, st)
}

// finish runs after every call: problems noticed by fakes, lock probes,
// resolution of new objects, comparison with the model, lock probes again
// (the comparison itself issues many read-only calls).
func (c *vdCase) finish() {
	if len(c.w.problems) > 0 {
		p := c.w.problems[0]
		c.w.problems = nil
		c.failModel("%s", p)
	}
	if len(c.w.lockProblems) > 0 {
		p := c.w.lockProblems[0]
		c.w.lockProblems = nil
		c.failLock("%s", p)
	}
	c.probeLocks("")
	c.syncObjects()
	c.compareAll()
	call := c.curCall
	c.curCall = "read-only verification calls (lookups, listings, reads) issued after " + call
	c.probeLocks("")
	c.curCall = call
	for d := range c.m.changed {
		c.mutations[d]++
	}
}

// probeLocks checks that every directory and file lock is free. There is
// no call in progress, so a lock that cannot be taken was leaked.
func (c *vdCase) probeLocks(where string) {
	for _, d := range c.reg {
		free, known := virtual.VerifLockIsFree(d.realDir)
		if !known {
			c.harnessBug("VerifLockIsFree does not know directory %s", c.dname(d))
		}
		if !free {
			c.failLock("%sthe lock of directory %s is still held", where, c.dname(d))
		}
		if free2, known2 := virtual.VerifDirectoryLockIsFree(d.realDir); !known2 || !free2 {
			c.failLock("%sthe lock of directory %s is still held (Directory probe)", where, c.dname(d))
		}
	}
	for i, l := range c.fileLeaves {
		free, known := virtual.VerifLeafLockIsFree(l)
		if !known {
			c.harnessBug("VerifLeafLockIsFree does not know file leaf %d (%T)", i, l)
		}
		if !free {
			c.failLock("%sthe lock of pool-backed file #%d is still held", where, i)
		}
	}
	if c.w.nfs != nil && !c.w.nfs.VerifNFSHandlePoolLockIsFree() {
		c.failLock("%sthe lock of the NFS handle pool is still held", where)
	}
}

// syncObjects resolves the real objects of model nodes that were created
// inside the last call (children of CreateChildren and of lazily
// initialised directories).
func (c *vdCase) syncObjects() {
	for i := 0; i < len(c.reg); i++ {
		d := c.reg[i]
		if d.uninit {
			continue
		}
		for _, e := range d.ents {
			if e.child.dir && e.child.realDir != nil || !e.child.dir && e.child.realLeaf != nil {
				continue
			}
			var child virtual.PrepopulatedDirectoryChild
			var err error
			c.real(func() { child, err = d.realDir.LookupChild(comp(e.name)) })
			if err != nil {
				c.failModel("LookupChild(%s, %q) failed with %v although the reference tree has that entry", c.dname(d), e.name, err)
			}
			rd, rl := child.GetPair()
			if e.child.dir {
				if rd == nil {
					c.failModel("LookupChild(%s, %q) returned a leaf, the reference tree has a directory", c.dname(d), e.name)
				}
				c.register(e.child, rd)
			} else {
				if rl == nil {
					c.failModel("LookupChild(%s, %q) returned a directory, the reference tree has a leaf", c.dname(d), e.name)
				}
				e.child.realLeaf = rl
				if e.child.kind == "file" {
					c.fileLeaves = append(c.fileLeaves, rl)
				}
			}
		}
	}
}

func vdKindOfType(t filesystem.FileType) string {
	switch t {
	case filesystem.FileTypeRegularFile:
		return "file"
	case filesystem.FileTypeDirectory:
		return "dir"
	case filesystem.FileTypeSymlink:
		return "symlink"
	case filesystem.FileTypeFIFO:
		return "fifo"
	case filesystem.FileTypeSocket:
		return "socket"
	}
	return fmt.Sprintf("type(%d)", int(t))
}

func (n *mNode) kindName() string {
	if n.dir {
		return "dir"
	}
	return n.kind
}

type vdListed struct {
	cookie uint64
	name   string
	child  virtual.DirectoryChild
	attrs  virtual.Attributes
}

type vdCollector struct {
	entries []vdListed
}

func (r *vdCollector) ReportEntry(nextCookie uint64, name path.Component, child virtual.DirectoryChild, attributes *virtual.Attributes) bool {
	r.entries = append(r.entries, vdListed{cookie: nextCookie, name: name.String(), child: child, attrs: *attributes})
	return true
}

// compareAll compares everything observable with the model.
func (c *vdCase) compareAll() {
	inodes := map[uint64]*mNode{}
	for _, d := range c.reg {
		cid := c.changeID(d)
		if last, seen := c.lastChange[d]; seen {
			lenient := c.m.inited[d] && d.fetcher != nil
			switch {
			case cid < last:
				c.failModel("change ID of %s went backwards: %d -> %d", c.dname(d), last, cid)
			case c.m.changed[d] && !lenient && cid <= last:
				c.failModel("entry set of %s changed but its change ID did not increase (%d -> %d)", c.dname(d), last, cid)
			case !c.m.changed[d] && !c.m.inited[d] && cid != last:
				c.failModel("entry set of %s did not change but its change ID moved %d -> %d", c.dname(d), last, cid)
			}
		}
		c.lastChange[d] = cid
		if d.uninit {
			continue
		}
		c.compareDir(d, inodes)
	}
	c.compareNamedAttributes()
}

func (c *vdCase) checkLeafIdentity(where string, n *mNode, got virtual.Leaf) {
	if n.realLeaf == nil {
		// First sighting of a leaf that a lazily initialised directory
		// created during this very call; every later sighting must be
		// the same object.
		n.realLeaf = got
		if n.kind == "file" {
			c.fileLeaves = append(c.fileLeaves, got)
		}
		return
	}
	if got != n.realLeaf {
		c.failModel("%s resolves to a different file object than the reference tree's node %d (%s)", where, n.id, n.kind)
	}
}

func (c *vdCase) compareDir(d *mNode, inodes map[uint64]*mNode) {
	dn := c.dname(d)
	vis := c.m.visibleEnts(d)
	sorted := append([]*mEnt(nil), vis...)
	sort.Slice(sorted, func(i, j int) bool { return sorted[i].name < sorted[j].name })

	// LookupAllChildren.
	var dirs []virtual.DirectoryPrepopulatedDirEntry
	var leaves []virtual.LeafPrepopulatedDirEntry
	var err error
	c.real(func() { dirs, leaves, err = d.realDir.LookupAllChildren() })
	if err != nil {
		c.failModel("LookupAllChildren(%s) failed: %v", dn, err)
	}
	var wantDirs, wantLeaves []*mEnt
	for _, e := range sorted {
		if e.child.dir {
			wantDirs = append(wantDirs, e)
		} else {
			wantLeaves = append(wantLeaves, e)
		}
	}
	if len(dirs) != len(wantDirs) || len(leaves) != len(wantLeaves) {
		c.failModel("LookupAllChildren(%s) returned %d directories and %d leaves, the reference tree has %s", dn, len(dirs), len(leaves), vdEntNames(sorted))
	}
	for i, e := range wantDirs {
		if dirs[i].Name.String() != e.name {
			c.failModel("LookupAllChildren(%s): directory #%d is %q, the reference tree has %q", dn, i, dirs[i].Name.String(), e.name)
		}
		if dirs[i].Child != e.child.realDir {
			c.failModel("LookupAllChildren(%s): directory %q is a different object than the one put there", dn, e.name)
		}
	}
	for i, e := range wantLeaves {
		if leaves[i].Name.String() != e.name {
			c.failModel("LookupAllChildren(%s): leaf #%d is %q, the reference tree has %q", dn, i, leaves[i].Name.String(), e.name)
		}
		c.checkLeafIdentity(fmt.Sprintf("LookupAllChildren(%s) %q", dn, e.name), e.child, leaves[i].Child)
	}

	// ReadDir.
	var infos []filesystem.FileInfo
	c.real(func() { infos, err = d.realDir.ReadDir() })
	if err != nil {
		c.failModel("ReadDir(%s) failed: %v", dn, err)
	}
	if len(infos) != len(sorted) {
		c.failModel("ReadDir(%s) returned %d entries, the reference tree has %s", dn, len(infos), vdEntNames(sorted))
	}
	for i, e := range sorted {
		if infos[i].Name().String() != e.name || vdKindOfType(infos[i].Type()) != e.child.kindName() {
			c.failModel("ReadDir(%s) entry #%d is %q/%s, the reference tree has %q/%s", dn, i, infos[i].Name().String(), vdKindOfType(infos[i].Type()), e.name, e.child.kindName())
		}
		if e.child.kind == "file" && infos[i].IsExecutable() != e.child.exec {
			c.failModel("ReadDir(%s) entry %q executable=%v, the reference tree says %v", dn, e.name, infos[i].IsExecutable(), e.child.exec)
		}
	}

	// VirtualReadDir from the start; every other tick with attributes that
	// need the child directory's lock.
	mask := virtual.AttributesMaskFileType | virtual.AttributesMaskInodeNumber | virtual.AttributesMaskLinkCount
	if c.m.tick%2 == 1 {
		mask |= virtual.AttributesMaskChangeID
	}
	var col vdCollector
	var st virtual.Status
	c.real(func() { st = d.realDir.VirtualReadDir(c.w.ctx, 0, mask, &col) })
	if st != virtual.StatusOK {
		c.failModel("VirtualReadDir(%s) returned %s", dn, vdStatusName(st))
	}
	if len(col.entries) != len(vis) {
		c.failModel("VirtualReadDir(%s) reported %d entries, the reference tree has %s", dn, len(col.entries), vdEntNames(sorted))
	}
	seen := map[string]bool{}
	prev := uint64(0)
	for _, le := range col.entries {
		if le.cookie <= prev {
			c.failModel("VirtualReadDir(%s): cookie of %q (%d) does not exceed the previous cookie %d", dn, le.name, le.cookie, prev)
		}
		prev = le.cookie
		if seen[le.name] {
			c.failModel("VirtualReadDir(%s) reported %q twice", dn, le.name)
		}
		seen[le.name] = true
		c.checkListedEntry(d, le, inodes)
	}

	// Name resolution for every name of the alphabet.
	for _, name := range c.alphabet {
		e := c.m.lookup(d, name)
		var attr virtual.Attributes
		var child virtual.DirectoryChild
		c.real(func() { child, st = d.realDir.VirtualLookup(c.w.ctx, comp(name), mask, &attr) })
		var pchild virtual.PrepopulatedDirectoryChild
		c.real(func() { pchild, err = d.realDir.LookupChild(comp(name)) })
		if e == nil {
			if st != virtual.StatusErrNoEnt {
				c.failModel("VirtualLookup(%s, %q) returned %s, the reference tree has no such entry", dn, name, vdStatusName(st))
			}
			if err != syscall.ENOENT {
				c.failModel("LookupChild(%s, %q) returned %v, the reference tree has no such entry", dn, name, err)
			}
			continue
		}
		if st != virtual.StatusOK || err != nil {
			c.failModel("VirtualLookup/LookupChild(%s, %q) returned %s/%v, the reference tree has entry %q", dn, name, vdStatusName(st), err, e.name)
		}
		c.checkListedEntry(d, vdListed{name: e.name, child: child, attrs: attr}, inodes)
		pd, pl := pchild.GetPair()
		if e.child.dir {
			if pd != e.child.realDir {
				c.failModel("LookupChild(%s, %q) is not the directory object put there", dn, name)
			}
		} else {
			if pl == nil {
				c.failModel("LookupChild(%s, %q) returned a directory, the reference tree has a %s", dn, name, e.child.kind)
			}
			c.checkLeafIdentity(fmt.Sprintf("LookupChild(%s, %q)", dn, name), e.child, pl)
		}
	}

	// Contents through every name: hard links share one file.
	for _, e := range d.ents {
		if e.child.dir || e.child.kind != "file" {
			continue
		}
		c.checkContent(d, e)
	}
}

func vdEntNames(ents []*mEnt) string {
	s := "["
	for i, e := range ents {
		if i > 0 {
			s += " "
		}
		s += e.name + ":" + e.child.kindName()
	}
	return s + "]"
}

// checkListedEntry validates one entry reported by VirtualReadDir or
// VirtualLookup of directory d against the model.
func (c *vdCase) checkListedEntry(d *mNode, le vdListed, inodes map[uint64]*mNode) {
	dn := c.dname(d)
	var e *mEnt
	for _, x := range d.ents {
		if x.name == le.name {
			e = x
		}
	}
	if e == nil {
		c.failModel("listing of %s reports %q, the reference tree has no entry of that name", dn, le.name)
	}
	rd, rl := le.child.GetPair()
	if e.child.dir {
		if rd != nil && e.child.realDir == nil {
			// First sighting of a directory that a lazily initialised
			// parent created during this very call.
			if pd, ok := rd.(virtual.PrepopulatedDirectory); ok {
				c.register(e.child, pd)
			}
		}
		if rd == nil || rd != virtual.Directory(e.child.realDir) {
			c.failModel("entry %q of %s is not the directory object put there", le.name, dn)
		}
	} else {
		if rl == nil {
			c.failModel("entry %q of %s is reported as a directory, the reference tree has a %s", le.name, dn, e.child.kind)
		}
		c.checkLeafIdentity(fmt.Sprintf("entry %q of %s", le.name, dn), e.child, rl)
	}
	if got := vdKindOfType(le.attrs.GetFileType()); got != e.child.kindName() {
		c.failModel("entry %q of %s has file type %s, the reference tree says %s", le.name, dn, got, e.child.kindName())
	}
	if e.child.stateful() {
		if got := le.attrs.GetLinkCount(); int(got) != e.child.nlink {
			c.failModel("entry %q of %s has link count %d, the reference tree says %d", le.name, dn, got, e.child.nlink)
		}
	}
	ino := le.attrs.GetInodeNumber()
	if other, ok := inodes[ino]; ok && other != e.child && !(other.kind == "symlink" && e.child.kind == "symlink" && other.tag == e.child.tag) {
		// Symlinks are stateless: their inode number is a function of the
		// target, so two symlink nodes with one target share it.
		c.failModel("entry %q of %s shares inode number %d with a different node", le.name, dn, ino)
	}
	inodes[ino] = e.child
}

// checkContent reads a regular file through one of its names.
func (c *vdCase) checkContent(d *mNode, e *mEnt) {
	var attr virtual.Attributes
	var leaf virtual.Leaf
	var st virtual.Status
	c.real(func() {
		leaf, _, _, st = d.realDir.VirtualOpenChild(c.w.ctx, comp(e.name), virtual.ShareMaskRead, nil, &virtual.OpenExistingOptions{}, virtual.AttributesMaskSizeBytes, &attr)
	})
	if st != virtual.StatusOK {
		c.failModel("opening %s/%q for reading returned %s", c.dname(d), e.name, vdStatusName(st))
	}
	buf := make([]byte, 64)
	var n int
	var eof bool
	c.real(func() {
		n, eof, st = leaf.VirtualRead(c.w.ctx, buf, 0)
		leaf.VirtualClose(virtual.ShareMaskRead)
	})
	if st != virtual.StatusOK || !eof || string(buf[:n]) != string(e.child.content) {
		c.failModel("%s/%q reads %q (status %s, eof %v), the reference tree says %q", c.dname(d), e.name, buf[:n], vdStatusName(st), eof, e.child.content)
	}
	if size, ok := attr.GetSizeBytes(); !ok || size != uint64(len(e.child.content)) {
		c.failModel("%s/%q has size %d, the reference tree says %d", c.dname(d), e.name, size, len(e.child.content))
	}
}

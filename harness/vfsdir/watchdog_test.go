package vfsdir

import (
	"fmt"
	"os"
	"strings"
	"sync"
	"sync/atomic"
	"time"
)

// A call that deadlocks against itself (takes a non-reentrant lock it already
// holds, directly or by re-entering through a callback such as
// NamedAttributes.Release()) never returns, so the lock probes that follow
// every call never run and the case would only end with the test binary's
// deadline: an inconclusive run. This watchdog runs on the real clock next to
// the SEQUENTIAL tests of this package (TestC13DirectoryModel,
// TestC13WideListings, TestC14DirectoryLockLeak), in which one goroutine issues
// all calls:
//
//   - the test goroutine bumps a progress counter before and after every call
//     into /repo (vdCase.real);
//   - if the counter has not moved for vdWatchStall and two goroutine dumps
//     taken vdWatchConfirm apart both show the test goroutine parked in
//     sync.(*Mutex).Lock / sync.(*RWMutex).Lock / RLock (not running, not
//     runnable) while no other goroutine is executing harness or /repo code,
//     the mutex can never be released: nobody but the parked goroutine itself
//     could do it. That is reported as a C14 violation and the process exits
//     (the parked goroutine cannot be cancelled, so the case cannot be shrunk).
//
// Anything else (the goroutine is running or runnable, i.e. slow or looping;
// another goroutine of the harness or of /repo exists) is left to the test
// binary's deadline, as before.
var (
	vdWatchCase     atomic.Pointer[vdCase]
	vdWatchTest     atomic.Pointer[string]
	vdWatchProgress atomic.Uint64
	vdWatchOnce     sync.Once
)

const (
	vdWatchStall   = 40 * time.Second
	vdWatchPoll    = 2 * time.Second
	vdWatchConfirm = 2 * time.Second
)

func vdStartWatchdog(test string) {
	vdWatchTest.Store(&test)
	vdWatchOnce.Do(func() { go vdWatchdogLoop() })
}

// vdDumpVerdict classifies a goroutine dump: parked is true if the goroutine
// that runs the sequential case (vdRunCase on its stack) is waiting for a
// mutex; others counts goroutines other than that one and the watchdog that
// have harness or /repo code on their stack.
func vdDumpVerdict(dump string) (parked bool, others int, where string) {
	for _, block := range strings.Split(dump, "\n\n") {
		header, body, _ := strings.Cut(block, "\n")
		if !strings.HasPrefix(header, "goroutine ") || strings.Contains(body, "vfsdir.vdWatchdogLoop") {
			continue
		}
		if !strings.Contains(body, "vfsdir.vdRunCase") {
			if strings.Contains(body, "github.com/buildbarn/") || strings.Contains(body, "verif/harness/") {
				others++
			}
			continue
		}
		state := header
		if i := strings.Index(header, "["); i >= 0 {
			state = header[i+1:]
		}
		onLock := strings.Contains(body, "sync.(*Mutex).Lock") || strings.Contains(body, "sync.(*RWMutex).Lock") || strings.Contains(body, "sync.(*RWMutex).RLock")
		if onLock && !strings.HasPrefix(state, "running") && !strings.HasPrefix(state, "runnable") && !strings.HasPrefix(state, "syscall") {
			parked = true
		}
		var frames []string
		for _, l := range strings.Split(body, "\n") {
			if l == "" || strings.HasPrefix(l, "\t") {
				continue
			}
			if strings.HasPrefix(l, "verif/harness/vfsdir.(*vdCase).real") {
				break
			}
			frames = append(frames, l)
		}
		where = header + " " + strings.Join(frames, " <- ")
	}
	return
}

func vdWatchdogLoop() {
	last := vdWatchProgress.Load()
	since := time.Now()
	for {
		time.Sleep(vdWatchPoll)
		if p := vdWatchProgress.Load(); p != last {
			last, since = p, time.Now()
			continue
		}
		c := vdWatchCase.Load()
		if c == nil {
			// Between cases (or after the test): nothing to watch.
			since = time.Now()
			continue
		}
		if time.Since(since) < vdWatchStall {
			continue
		}
		parked1, others1, _ := vdDumpVerdict(allGoroutineStacks())
		time.Sleep(vdWatchConfirm)
		dump := allGoroutineStacks()
		parked2, others2, where := vdDumpVerdict(dump)
		if vdWatchProgress.Load() != last || vdWatchCase.Load() != c {
			last, since = vdWatchProgress.Load(), time.Now()
			continue
		}
		if parked1 && parked2 && others1 == 0 && others2 == 0 {
			test := ""
			if t := vdWatchTest.Load(); t != nil {
				test = *t
			}
			// The test goroutine is parked and published its state with the
			// atomic counter, so reading the case here is race free.
			fmt.Printf("VERIF-VIOLATION property=C14 test=%s: call %s did not return: for %s of real time the only goroutine that issues calls has been blocked on a mutex that no other goroutine can release (self-deadlock: the call waits for a lock it holds itself, or that an earlier call of this goroutine left behind); blocked at: %s; %s\n\ngoroutine dump:\n%s\n",
				test, c.curCall, time.Since(since).Round(time.Second), where, c.scriptText(), dump)
			os.Exit(1)
		}
		// Not a confirmed self-deadlock: keep watching; the test binary's
		// deadline ends the run as inconclusive if it never finishes.
	}
}

package vfsdir

// C14(c): concurrent stress of the in-memory directory tree with real
// goroutines. The harness does not own these interleavings (the
// per-directory mutexes interleave inside calls); it generates per-thread
// operation lists on a small shared tree, runs them truly concurrently and
// requires that every batch terminates, that afterwards every lock is free
// and that the tree is still listable and self-consistent.

import (
	"bytes"
	"context"
	"fmt"
	"os"
	"runtime"
	"sort"
	"strings"
	"sync"
	"syscall"
	"testing"
	"time"

	"github.com/buildbarn/bb-remote-execution/pkg/filesystem/pool"
	"github.com/buildbarn/bb-remote-execution/pkg/filesystem/virtual"
	"github.com/buildbarn/bb-storage/pkg/filesystem"
	"github.com/buildbarn/bb-storage/pkg/filesystem/path"
	"pgregory.net/rapid"

	"verif/harness/internal/simkit"
)

type stSafePool struct {
	mu sync.Mutex
}

func (p *stSafePool) NewFile(holeSource pool.HoleSource, size uint64) (filesystem.FileReadWriter, error) {
	return &stMemFile{data: make([]byte, size)}, nil
}

// stMemFile is protected by the lock of the fileBackedFile that owns it.
type stMemFile struct{ data []byte }

func (f *stMemFile) Close() error { return nil }
func (f *stMemFile) ReadAt(p []byte, off int64) (int, error) {
	if off >= int64(len(f.data)) {
		return 0, nil
	}
	return copy(p, f.data[off:]), nil
}

func (f *stMemFile) WriteAt(p []byte, off int64) (int, error) {
	if need := int(off) + len(p); need > len(f.data) {
		f.data = append(f.data, make([]byte, need-len(f.data))...)
	}
	return copy(f.data[off:], p), nil
}

func (f *stMemFile) Truncate(size int64) error {
	if int(size) <= len(f.data) {
		f.data = f.data[:size]
	} else {
		f.data = append(f.data, make([]byte, int(size)-len(f.data))...)
	}
	return nil
}
func (f *stMemFile) Sync() error         { return nil }
func (f *stMemFile) Len() (int64, error) { return int64(len(f.data)), nil }
func (f *stMemFile) GetNextRegionOffset(offset int64, regionType filesystem.RegionType) (int64, error) {
	return offset, nil
}

type stLogger struct{ mu sync.Mutex }

func (l *stLogger) Log(err error) {}

type stRNG struct {
	mu sync.Mutex
	n  uint64
}

func (r *stRNG) Uint64() uint64 {
	r.mu.Lock()
	defer r.mu.Unlock()
	r.n++
	return vdMix(r.n)
}
func (r *stRNG) Uint32() uint32       { return uint32(r.Uint64() >> 32) }
func (r *stRNG) Float64() float64     { return float64(r.Uint64()>>11) / (1 << 53) }
func (r *stRNG) Int64N(n int64) int64 { return int64(r.Uint64() % uint64(n)) }
func (r *stRNG) IntN(n int) int       { return int(r.Uint64() % uint64(n)) }
func (r *stRNG) IsThreadSafe()        {}
func (r *stRNG) Read(p []byte) (int, error) {
	for i := range p {
		p[i] = byte(r.Uint64())
	}
	return len(p), nil
}

func (r *stRNG) Shuffle(n int, swap func(i, j int)) {
	for i := n - 1; i > 0; i-- {
		swap(i, r.IntN(i+1))
	}
}

type stOp struct {
	Kind string `json:"k"`
	Dir  int    `json:"d"`
	Dir2 int    `json:"d2,omitempty"`
	Name string `json:"n,omitempty"`
	Nam2 string `json:"n2,omitempty"`
}

var stNames = []string{"x", "y", "sub"}

func drawStOps(rt *rapid.T, n, nDirs int) []stOp {
	kinds := []string{"rename", "rename", "rename", "mkdir", "remove", "lookup", "readdir", "readdirAttrs", "readdirAttrs", "subFile", "enter", "removeAllChildren", "bulkRemove", "removeAll", "createChildren", "lookupAll", "filter", "openCreate"}
	ops := make([]stOp, 0, n)
	for i := 0; i < n; i++ {
		ops = append(ops, stOp{
			Kind: rapid.SampledFrom(kinds).Draw(rt, "kind"),
			Dir:  rapid.IntRange(0, nDirs-1).Draw(rt, "dir"),
			Dir2: rapid.IntRange(0, nDirs-1).Draw(rt, "dir2"),
			Name: rapid.SampledFrom(stNames).Draw(rt, "name"),
			Nam2: rapid.SampledFrom(stNames).Draw(rt, "name2"),
		})
	}
	return ops
}

type stTree struct {
	root  virtual.PrepopulatedDirectory
	dirs  []virtual.PrepopulatedDirectory
	files virtual.FileAllocator
	nfs   *virtual.NFSStatefulHandleAllocator
}

func newStTree(handles string) *stTree {
	rng := &stRNG{}
	var allocator virtual.StatefulHandleAllocator
	t := &stTree{}
	if handles == "nfs" {
		t.nfs = virtual.NewNFSHandleAllocator(rng)
		allocator = t.nfs
	} else {
		f := virtual.NewFUSEHandleAllocator(rng)
		f.RegisterRemovalNotifier(func(parent uint64, name path.Component) {})
		allocator = f
	}
	setter := func(requested virtual.AttributesMask, attributes *virtual.Attributes) {}
	logger := &stLogger{}
	t.files = virtual.NewHandleAllocatingFileAllocator(
		virtual.NewPoolBackedFileAllocator(&stSafePool{}, logger, setter, virtual.NoNamedAttributesFactory), allocator)
	links := virtual.NewHandleAllocatingSymlinkFactory(virtual.NewBaseSymlinkFactory(setter), allocator.New(), path.UNIXFormat)
	t.root = virtual.NewInMemoryPrepopulatedDirectory(t.files, links, logger, allocator, sort.Sort,
		func(string) bool { return false }, &vdClock{now: time.Unix(1000, 0)}, virtual.CaseSensitiveComponentNormalizer, setter, virtual.NoNamedAttributesFactory)
	// root, root/a, root/b, root/a/c
	a, _ := t.root.CreateAndEnterPrepopulatedDirectory(path.MustNewComponent("a"))
	b, _ := t.root.CreateAndEnterPrepopulatedDirectory(path.MustNewComponent("b"))
	c, _ := a.CreateAndEnterPrepopulatedDirectory(path.MustNewComponent("c"))
	t.dirs = []virtual.PrepopulatedDirectory{t.root, a, b, c}
	return t
}

func (t *stTree) apply(ctx context.Context, o stOp) {
	d := t.dirs[o.Dir]
	d2 := t.dirs[o.Dir2]
	name := path.MustNewComponent(o.Name)
	name2 := path.MustNewComponent(o.Nam2)
	var attr virtual.Attributes
	switch o.Kind {
	case "rename":
		// Never move a directory into its own subtree: only rename names
		// that the generator uses for leaves, or directories sideways
		// between the fixed siblings (a <-> b), as a kernel would allow.
		d.VirtualRename(ctx, name, d2, name2)
	case "mkdir":
		d.VirtualMkdir(ctx, name, (&virtual.Attributes{}).SetPermissions(virtual.PermissionsRead), 0, &attr)
	case "remove":
		d.VirtualRemove(ctx, name, true, true)
	case "lookup":
		d.VirtualLookup(ctx, name, virtual.AttributesMaskInodeNumber, &attr)
	case "readdir":
		d.VirtualReadDir(ctx, 0, virtual.AttributesMaskInodeNumber, stReporter{})
	case "readdirAttrs":
		// A listing that needs every child directory's lock (change ID);
		// within one call no name may be reported twice and cookies must
		// strictly increase (C13), whatever other threads do meanwhile.
		r := &stCollectingReporter{}
		d.VirtualReadDir(ctx, 0, virtual.AttributesMaskInodeNumber|virtual.AttributesMaskChangeID|virtual.AttributesMaskLastDataModificationTime, r)
		if r.problem != "" {
			panic("C13: " + r.problem)
		}
	case "subFile":
		// Keeps a child directory's lock busy for a moment: create a file
		// inside the named subdirectory.
		if child, err := d.LookupChild(name); err == nil {
			if sub, _ := child.GetPair(); sub != nil {
				if leaf, err := t.files.NewFile(pool.ZeroHoleSource, false, 0, 0); err == nil {
					if sub.CreateChildren(map[path.Component]virtual.InitialChild{name2: virtual.InitialChild{}.FromLeaf(leaf)}, true) != nil {
						leaf.Unlink()
					}
				}
			}
		}
	case "enter":
		d.CreateAndEnterPrepopulatedDirectory(name)
	case "removeAllChildren":
		d.RemoveAllChildren(false)
	case "bulkRemove":
		d.Remove(name)
	case "removeAll":
		d.RemoveAll(name)
	case "createChildren":
		leaf, err := t.files.NewFile(pool.ZeroHoleSource, false, 0, 0)
		if err == nil {
			if d.CreateChildren(map[path.Component]virtual.InitialChild{name: virtual.InitialChild{}.FromLeaf(leaf)}, true) != nil {
				leaf.Unlink()
			}
		}
	case "lookupAll":
		d.LookupAllChildren()
	case "filter":
		d.FilterChildren(func(node virtual.InitialChild, remove virtual.ChildRemover) bool {
			if o.Name == "x" {
				remove()
			}
			return true
		})
	case "openCreate":
		leaf, _, _, s := d.VirtualOpenChild(ctx, name, virtual.ShareMaskWrite, (&virtual.Attributes{}).SetPermissions(virtual.PermissionsRead|virtual.PermissionsWrite), &virtual.OpenExistingOptions{}, 0, &attr)
		if s == virtual.StatusOK {
			leaf.VirtualWrite(ctx, []byte("hi"), 0)
			leaf.VirtualClose(virtual.ShareMaskWrite)
		}
	}
}

type stCollectingReporter struct {
	names      map[string]bool
	lastCookie uint64
	problem    string
}

func (r *stCollectingReporter) ReportEntry(nextCookie uint64, name path.Component, child virtual.DirectoryChild, attributes *virtual.Attributes) bool {
	if r.names == nil {
		r.names = map[string]bool{}
	}
	if r.names[name.String()] {
		r.problem = fmt.Sprintf("one VirtualReadDir call reported entry %q twice", name.String())
	}
	if nextCookie <= r.lastCookie {
		r.problem = fmt.Sprintf("one VirtualReadDir call reported cookie %d after %d", nextCookie, r.lastCookie)
	}
	r.names[name.String()] = true
	r.lastCookie = nextCookie
	return true
}

type stReporter struct{}

func (stReporter) ReportEntry(nextCookie uint64, name path.Component, child virtual.DirectoryChild, attributes *virtual.Attributes) bool {
	return true
}

// stSubtreeSafe rejects renames that could move a directory into its own
// subtree (the kernel/NFS client rejects those before calling the server):
// names "sub" are only ever directories created by mkdir/enter, and may be
// renamed only within the same directory.
func stSanitise(ops []stOp) (out []stOp, excluded int) {
	for _, o := range ops {
		if o.Kind == "rename" && (o.Name == "sub" || o.Nam2 == "sub") && o.Dir != o.Dir2 {
			excluded++
			continue
		}
		out = append(out, o)
	}
	return
}

func allGoroutineStacks() string {
	buf := make([]byte, 1<<20)
	for {
		n := runtime.Stack(buf, true)
		if n < len(buf) {
			return string(buf[:n])
		}
		buf = make([]byte, 2*len(buf))
	}
}

func TestC14DirectoryConcurrentStress(t *testing.T) {
	if runtime.GOMAXPROCS(0) < 4 {
		runtime.GOMAXPROCS(4)
	}
	rec := simkit.NewRecorder(t, "C14", "directory-concurrent-stress", "2-4 real goroutines each run a generated list of 10-40 operations (renames in both directions between sibling directories, mkdir, remove, lookup, readdir, CreateAndEnterPrepopulatedDirectory, RemoveAllChildren, Remove, RemoveAll, CreateChildren(overwrite), LookupAllChildren, FilterChildren with removal, create-and-write) on one shared tree root/{a,b,a/c} of the real in-memory directory (NFS or FUSE handle allocator); interleavings are the Go scheduler's, not generated. Oracle: every batch terminates (a batch stuck for 60 s whose goroutine dump taken twice 2 s apart shows the same goroutines parked in sync.(*Mutex).Lock inside the repository's code is a confirmed deadlock = violation; any other time-out is inconclusive), afterwards every directory lock and the NFS handle pool lock are free and LookupAllChildren / ReadDir agree on the root tree. Renames that could move a directory into its own subtree are excluded (counted). Non-trivial: >=2 threads issued renames in opposite directions between the same two directories, or a removal of a directory another thread used; distinct by script hash")
	ctx := context.Background()
	rapid.Check(t, func(rt *rapid.T) {
		handles := rapid.SampledFrom([]string{"nfs", "fuse"}).Draw(rt, "handles")
		nThreads := rapid.IntRange(2, 4).Draw(rt, "threads")
		var scripts [][]stOp
		excluded := 0
		for i := 0; i < nThreads; i++ {
			ops, ex := stSanitise(drawStOps(rt, rapid.IntRange(10, 40).Draw(rt, "n"), 4))
			scripts = append(scripts, ops)
			excluded += ex
		}
		for i := 0; i < excluded; i++ {
			rec.Exclude("rename that could move a directory into its own subtree")
		}
		tree := newStTree(handles)
		var wg sync.WaitGroup
		done := make(chan struct{})
		panics := make(chan string, nThreads)
		start := make(chan struct{})
		for _, ops := range scripts {
			ops := ops
			wg.Add(1)
			go func() {
				defer wg.Done()
				defer func() {
					if r := recover(); r != nil {
						panics <- fmt.Sprint(r)
					}
				}()
				<-start
				for _, o := range ops {
					tree.apply(ctx, o)
				}
			}()
		}
		close(start)
		go func() { wg.Wait(); close(done) }()
		select {
		case <-done:
		case <-time.After(60 * time.Second):
			d1 := allGoroutineStacks()
			time.Sleep(2 * time.Second)
			d2 := allGoroutineStacks()
			stuck := strings.Count(d1, "sync.(*Mutex).Lock") > 0 && strings.Count(d1, "in_memory_prepopulated_directory.go") > 0 &&
				strings.Count(d1, "sync.(*Mutex).Lock") == strings.Count(d2, "sync.(*Mutex).Lock")
			if stuck {
				fmt.Fprintf(os.Stderr, "C14 confirmed deadlock; goroutine dump:\n%s\n", d2)
				rt.Fatalf("C14: concurrent calls deadlocked (goroutines parked in sync.(*Mutex).Lock in two dumps 2 s apart); scripts=%+v", scripts)
			}
			fmt.Println("VERIF-INCONCLUSIVE: stress batch did not finish in 60 s without a confirmed mutex cycle")
			os.Exit(3)
		}
		select {
		case p := <-panics:
			rt.Fatalf("C14: panic during concurrent calls: %s; scripts=%+v", p, scripts)
		default:
		}
		for i, d := range tree.dirs {
			if free, known := virtual.VerifLockIsFree(d); known && !free {
				rt.Fatalf("C14: lock of directory #%d is still held after all concurrent calls returned; scripts=%+v", i, scripts)
			}
		}
		if tree.nfs != nil && !tree.nfs.VerifNFSHandlePoolLockIsFree() {
			rt.Fatalf("C14: the NFS handle pool lock is still held after all concurrent calls returned; scripts=%+v", scripts)
		}
		// The tree must still be listable and the two listing APIs agree.
		var walk func(d virtual.PrepopulatedDirectory, depth int)
		walk = func(d virtual.PrepopulatedDirectory, depth int) {
			dirs, leaves, err := d.LookupAllChildren()
			if err != nil {
				if err == syscall.ENOENT {
					return
				}
				rt.Fatalf("C14: LookupAllChildren fails after the batch: %v; scripts=%+v", err, scripts)
			}
			infos, err := d.ReadDir()
			if err != nil {
				rt.Fatalf("C14: ReadDir fails after the batch: %v; scripts=%+v", err, scripts)
			}
			var a, b []string
			for _, e := range dirs {
				a = append(a, e.Name.String()+"/")
			}
			for _, e := range leaves {
				a = append(a, e.Name.String())
			}
			for _, i := range infos {
				n := i.Name().String()
				if i.Type() == filesystem.FileTypeDirectory {
					n += "/"
				}
				b = append(b, n)
			}
			sort.Strings(a)
			sort.Strings(b)
			if !bytes.Equal([]byte(strings.Join(a, ",")), []byte(strings.Join(b, ","))) {
				rt.Fatalf("C14: after the batch LookupAllChildren lists %v but ReadDir lists %v; scripts=%+v", a, b, scripts)
			}
			if depth < 6 {
				for _, e := range dirs {
					walk(e.Child, depth+1)
				}
			}
		}
		walk(tree.root, 0)
		// Classification.
		opposite := false
		type pair struct{ a, b int }
		seen := map[pair]int{}
		removal := false
		for ti, ops := range scripts {
			for _, o := range ops {
				if o.Kind == "rename" && o.Dir != o.Dir2 {
					if other, ok := seen[pair{o.Dir2, o.Dir}]; ok && other != ti+1 {
						opposite = true
					}
					seen[pair{o.Dir, o.Dir2}] = ti + 1
				}
				if o.Kind == "removeAllChildren" || o.Kind == "removeAll" || (o.Kind == "remove" && o.Name == "sub") {
					removal = true
				}
			}
		}
		labels := []string{"handles_" + handles}
		if opposite {
			labels = append(labels, "opposite_renames")
		}
		if removal {
			labels = append(labels, "bulk_or_directory_removal")
		}
		rec.Case(scripts, opposite || removal, labels...)
	})
}

package vfsdir

// C14(c): concurrent stress of the in-memory directory tree with real
// goroutines. The harness does not own these interleavings (the
// per-directory mutexes interleave inside calls); it generates per-thread
// operation lists on a small shared tree, runs them truly concurrently and
// requires that every batch terminates, that afterwards every lock is free
// and that the tree is still listable and self-consistent.

import (
	"bytes"
	"context"
	"fmt"
	"os"
	"runtime"
	"sort"
	"strings"
	"sync"
	"sync/atomic"
	"syscall"
	"testing"
	"time"

	"github.com/buildbarn/bb-remote-execution/pkg/filesystem/pool"
	"github.com/buildbarn/bb-remote-execution/pkg/filesystem/virtual"
	"github.com/buildbarn/bb-storage/pkg/filesystem"
	"github.com/buildbarn/bb-storage/pkg/filesystem/path"
	"pgregory.net/rapid"

	"verif/harness/internal/simkit"
)

type stSafePool struct {
	mu sync.Mutex
}

func (p *stSafePool) NewFile(holeSource pool.HoleSource, size uint64) (filesystem.FileReadWriter, error) {
	return &stMemFile{data: make([]byte, size)}, nil
}

// stMemFile is protected by the lock of the fileBackedFile that owns it.
type stMemFile struct{ data []byte }

func (f *stMemFile) Close() error { return nil }
func (f *stMemFile) ReadAt(p []byte, off int64) (int, error) {
	if off >= int64(len(f.data)) {
		return 0, nil
	}
	return copy(p, f.data[off:]), nil
}

func (f *stMemFile) WriteAt(p []byte, off int64) (int, error) {
	if need := int(off) + len(p); need > len(f.data) {
		f.data = append(f.data, make([]byte, need-len(f.data))...)
	}
	return copy(f.data[off:], p), nil
}

func (f *stMemFile) Truncate(size int64) error {
	if int(size) <= len(f.data) {
		f.data = f.data[:size]
	} else {
		f.data = append(f.data, make([]byte, int(size)-len(f.data))...)
	}
	return nil
}
func (f *stMemFile) Sync() error         { return nil }
func (f *stMemFile) Len() (int64, error) { return int64(len(f.data)), nil }
func (f *stMemFile) GetNextRegionOffset(offset int64, regionType filesystem.RegionType) (int64, error) {
	return offset, nil
}

type stLogger struct{ mu sync.Mutex }

func (l *stLogger) Log(err error) {}

type stRNG struct {
	mu sync.Mutex
	n  uint64
}

func (r *stRNG) Uint64() uint64 {
	r.mu.Lock()
	defer r.mu.Unlock()
	r.n++
	return vdMix(r.n)
}
func (r *stRNG) Uint32() uint32       { return uint32(r.Uint64() >> 32) }
func (r *stRNG) Float64() float64     { return float64(r.Uint64()>>11) / (1 << 53) }
func (r *stRNG) Int64N(n int64) int64 { return int64(r.Uint64() % uint64(n)) }
func (r *stRNG) IntN(n int) int       { return int(r.Uint64() % uint64(n)) }
func (r *stRNG) IsThreadSafe()        {}
func (r *stRNG) Read(p []byte) (int, error) {
	for i := range p {
		p[i] = byte(r.Uint64())
	}
	return len(p), nil
}

func (r *stRNG) Shuffle(n int, swap func(i, j int)) {
	for i := n - 1; i > 0; i-- {
		swap(i, r.IntN(i+1))
	}
}

type stOp struct {
	Kind string `json:"k"`
	Dir  int    `json:"d"`
	Dir2 int    `json:"d2,omitempty"`
	Name string `json:"n,omitempty"`
	Nam2 string `json:"n2,omitempty"`
	// Fixed names one of the fixed directories a(1), b(2), c(3) for the
	// kinds that move them or rename something onto them.
	Fixed int `json:"f,omitempty"`
}

var stNames = []string{"x", "y", "sub"}

// stFixedNames[i] is the name under which fixed directory i was created and
// which it keeps wherever it is moved.
var stFixedNames = []string{"", "a", "b", "c"}

var stKinds = []string{
	"rename", "rename", "rename", "mkdir", "remove", "lookup", "readdir", "readdirAttrs", "readdirAttrs", "subFile", "enter", "removeAllChildren", "bulkRemove", "removeAll", "createChildren", "lookupAll", "filter", "openCreate",
	// added by the strengthening round:
	"moveFixed", "moveFixed", "moveFixed", "renameOntoFixed", "link", "link", "mknod", "leafIO", "leafIO", "openWriteUnlink", "seedLazy", "seedLazy", "subList", "subLookup", "removeLazy",
	// named attributes (NFS handle allocator only; see stTree.openAttrs):
	"xattrSet", "xattrSet", "xattrSet", "xattrList", "xattrRemove",
}

func drawStOps(rt *rapid.T, n, nDirs int) []stOp {
	ops := make([]stOp, 0, n)
	for i := 0; i < n; i++ {
		ops = append(ops, stOp{
			Kind:  rapid.SampledFrom(stKinds).Draw(rt, "kind"),
			Dir:   rapid.IntRange(0, nDirs-1).Draw(rt, "dir"),
			Dir2:  rapid.IntRange(0, nDirs-1).Draw(rt, "dir2"),
			Name:  rapid.SampledFrom(stNames).Draw(rt, "name"),
			Nam2:  rapid.SampledFrom(stNames).Draw(rt, "name2"),
			Fixed: rapid.IntRange(1, 3).Draw(rt, "fixed"),
		})
	}
	return ops
}

// stLazySpec describes a lazily populated directory seeded into the shared
// tree: its fetcher fails the first FailFirst times it is asked, then yields
// Files regular files, one symlink and Subdirs lazy subdirectories (which in
// turn fail SubFailFirst times and then yield one file).
type stLazySpec struct {
	FailFirst    int `json:"fail"`
	Files        int `json:"files"`
	Subdirs      int `json:"subdirs"`
	SubFailFirst int `json:"subfail"`
}

var errStFetch = fmt.Errorf("vfsdir stress: injected InitialContentsFetcher failure")

// stFetcher is a thread-safe InitialContentsFetcher. FetchContents is called
// with the directory's lock held; the only shared state is atomic.
type stFetcher struct {
	t         *stTree
	spec      stLazySpec
	failsLeft atomic.Int32
	successes atomic.Int32
}

func newStFetcher(t *stTree, spec stLazySpec) *stFetcher {
	f := &stFetcher{t: t, spec: spec}
	f.failsLeft.Store(int32(spec.FailFirst))
	return f
}

func (f *stFetcher) VirtualApply(data any) bool { return false }

func (f *stFetcher) FetchContents(fileReadMonitorFactory virtual.FileReadMonitorFactory) (map[path.Component]virtual.InitialChild, error) {
	if f.failsLeft.Add(-1) >= 0 {
		f.t.count("lazy_fetch_failed")
		return nil, errStFetch
	}
	if f.successes.Add(1) > 1 {
		panic("C13: InitialContentsFetcher.FetchContents was called again after it had succeeded")
	}
	f.t.count("lazy_fetch_succeeded")
	out := map[path.Component]virtual.InitialChild{}
	for i := 0; i < f.spec.Files; i++ {
		if leaf, err := f.t.files.NewFile(pool.ZeroHoleSource, false, 0, 0); err == nil {
			f.t.noteLeaf(leaf)
			out[path.MustNewComponent(stNames[i%len(stNames)])] = virtual.InitialChild{}.FromLeaf(leaf)
		}
	}
	if leaf, err := f.t.links.LookupSymlink(path.UNIXFormat.NewParser("lazy-target")); err == nil {
		out[path.MustNewComponent("ln")] = virtual.InitialChild{}.FromLeaf(leaf)
	}
	for i := 0; i < f.spec.Subdirs; i++ {
		out[path.MustNewComponent(fmt.Sprintf("lazy%d", i))] = virtual.InitialChild{}.FromDirectory(
			newStFetcher(f.t, stLazySpec{FailFirst: f.spec.SubFailFirst, Files: 1}))
	}
	return out, nil
}

type stTree struct {
	root  virtual.PrepopulatedDirectory
	dirs  []virtual.PrepopulatedDirectory
	files virtual.FileAllocator
	links virtual.SymlinkFactory
	nfs   *virtual.NFSStatefulHandleAllocator

	// renameMu plays Linux's s_vfs_rename_mutex: moves of the fixed
	// directories a, b, c to another parent are serialised, and checked
	// against the tree (a directory is never moved into its own subtree)
	// while it is held. parent[i] is the index of the fixed directory that
	// fixed directory i was last moved into; chains of parents only ever
	// over-approximate the real ancestors (removals cut the real chain), so
	// a move that passes the check cannot create a cycle. Directories other
	// than the fixed ones never contain a fixed one (nothing is ever moved
	// INTO them) and so can be renamed freely between fixed directories.
	renameMu sync.Mutex
	parent   [4]int

	mu       sync.Mutex
	leaves   []virtual.Leaf      // every pool-backed file the harness got hold of
	attrDirs []virtual.Directory // every named attribute directory OPENATTR handed out
	stats    map[string]int
	lazy     []stLazySpec // specs handed out to seedLazy ops, in generated order
	lazyAt   atomic.Int32
}

func (t *stTree) count(what string) {
	t.mu.Lock()
	if t.stats == nil {
		t.stats = map[string]int{}
	}
	t.stats[what]++
	t.mu.Unlock()
}

func (t *stTree) noteLeaf(l virtual.Leaf) {
	t.mu.Lock()
	t.leaves = append(t.leaves, l)
	t.mu.Unlock()
}

func newStTree(handles string) *stTree {
	rng := &stRNG{}
	var allocator virtual.StatefulHandleAllocator
	t := &stTree{}
	if handles == "nfs" {
		t.nfs = virtual.NewNFSHandleAllocator(rng)
		allocator = t.nfs
	} else {
		f := virtual.NewFUSEHandleAllocator(rng)
		f.RegisterRemovalNotifier(func(parent uint64, name path.Component) {})
		allocator = f
	}
	setter := func(requested virtual.AttributesMask, attributes *virtual.Attributes) {}
	logger := &stLogger{}
	clk := &vdClock{now: time.Unix(1000, 0)}
	filePool := &stSafePool{}
	t.links = virtual.NewHandleAllocatingSymlinkFactory(virtual.NewBaseSymlinkFactory(setter), allocator.New(), path.UNIXFormat)
	// Named attributes wired as pkg/builder/virtual_build_directory.go
	// InstallHooks() does, for both handle allocators.
	namedAttributes := virtual.NewInMemoryNamedAttributesFactory(
		virtual.NewHandleAllocatingFileAllocator(
			virtual.NewPoolBackedFileAllocator(filePool, logger, setter, virtual.InNamedAttributeDirectoryNamedAttributesFactory), allocator),
		t.links, logger, allocator, clk)
	t.files = virtual.NewHandleAllocatingFileAllocator(
		virtual.NewPoolBackedFileAllocator(filePool, logger, setter, namedAttributes), allocator)
	t.root = virtual.NewInMemoryPrepopulatedDirectory(t.files, t.links, logger, allocator, sort.Sort,
		func(string) bool { return false }, clk, virtual.CaseSensitiveComponentNormalizer, setter, namedAttributes)
	// root, root/a, root/b, root/a/c
	a, _ := t.root.CreateAndEnterPrepopulatedDirectory(path.MustNewComponent("a"))
	b, _ := t.root.CreateAndEnterPrepopulatedDirectory(path.MustNewComponent("b"))
	c, _ := a.CreateAndEnterPrepopulatedDirectory(path.MustNewComponent("c"))
	t.dirs = []virtual.PrepopulatedDirectory{t.root, a, b, c}
	t.parent = [4]int{-1, 0, 0, 1}
	return t
}

// seedLazy attaches a lazily populated directory under the given name,
// replacing whatever is there (CreateChildren with overwrite).
func (t *stTree) seedLazy(d virtual.PrepopulatedDirectory, name path.Component, spec stLazySpec) {
	if d.CreateChildren(map[path.Component]virtual.InitialChild{name: virtual.InitialChild{}.FromDirectory(newStFetcher(t, spec))}, true) == nil {
		t.count("lazy_directory_seeded")
	}
}

// mayMoveFixed reports whether fixed directory n may be moved into fixed
// directory target: not if n is target or (as far as the harness knows) one
// of its ancestors. Must be called with renameMu held.
func (t *stTree) mayMoveFixed(n, target int) bool {
	for x, steps := target, 0; x >= 0; x, steps = t.parent[x], steps+1 {
		if x == n || steps > 4 {
			return false
		}
	}
	return true
}

// childDir resolves a child directory of d by name without initialising the
// child.
func stChildDir(d virtual.PrepopulatedDirectory, name path.Component) virtual.PrepopulatedDirectory {
	if child, err := d.LookupChild(name); err == nil {
		sub, _ := child.GetPair()
		return sub
	}
	return nil
}

// openAttrs sends OPENATTR to the child of d called name (a file or a
// directory). Only under the NFS handle allocator: the FUSE front end has no
// such call.
func (t *stTree) openAttrs(ctx context.Context, d virtual.PrepopulatedDirectory, name path.Component, create bool) virtual.Directory {
	if t.nfs == nil {
		return nil
	}
	var attr virtual.Attributes
	child, s := d.VirtualLookup(ctx, name, virtual.AttributesMaskInodeNumber, &attr)
	if s != virtual.StatusOK {
		return nil
	}
	var node virtual.Node
	if sub, leaf := child.GetPair(); sub != nil {
		node = sub
	} else {
		node = leaf
	}
	var out virtual.Attributes
	attrs, s := node.VirtualOpenNamedAttributes(ctx, create, virtual.AttributesMaskInodeNumber|virtual.AttributesMaskChangeID, &out)
	if s != virtual.StatusOK {
		return nil
	}
	t.mu.Lock()
	t.attrDirs = append(t.attrDirs, attrs)
	t.mu.Unlock()
	return attrs
}

func (t *stTree) apply(ctx context.Context, o stOp) {
	d := t.dirs[o.Dir]
	d2 := t.dirs[o.Dir2]
	name := path.MustNewComponent(o.Name)
	name2 := path.MustNewComponent(o.Nam2)
	var attr virtual.Attributes
	switch o.Kind {
	case "rename":
		// Never move a directory into its own subtree: only rename names
		// that the generator uses for leaves, or directories sideways
		// between the fixed siblings (a <-> b), as a kernel would allow.
		d.VirtualRename(ctx, name, d2, name2)
	case "mkdir":
		d.VirtualMkdir(ctx, name, (&virtual.Attributes{}).SetPermissions(virtual.PermissionsRead), 0, &attr)
	case "remove":
		d.VirtualRemove(ctx, name, true, true)
	case "lookup":
		d.VirtualLookup(ctx, name, virtual.AttributesMaskInodeNumber, &attr)
	case "readdir":
		d.VirtualReadDir(ctx, 0, virtual.AttributesMaskInodeNumber, stReporter{})
	case "readdirAttrs":
		// A listing that needs every child directory's lock (change ID);
		// within one call cookies must strictly increase (C13: no entry is
		// reported twice), whatever other threads do meanwhile.
		r := &stCollectingReporter{}
		d.VirtualReadDir(ctx, 0, virtual.AttributesMaskInodeNumber|virtual.AttributesMaskChangeID|virtual.AttributesMaskLastDataModificationTime, r)
		if r.problem != "" {
			panic("C13: " + r.problem)
		}
		if r.renamed > 0 {
			t.count("listing_saw_a_name_replaced_meanwhile")
		}
	case "subFile":
		// Keeps a child directory's lock busy for a moment: create a file
		// inside the named subdirectory.
		if child, err := d.LookupChild(name); err == nil {
			if sub, _ := child.GetPair(); sub != nil {
				if leaf, err := t.files.NewFile(pool.ZeroHoleSource, false, 0, 0); err == nil {
					t.noteLeaf(leaf)
					if sub.CreateChildren(map[path.Component]virtual.InitialChild{name2: virtual.InitialChild{}.FromLeaf(leaf)}, true) != nil {
						leaf.Unlink()
					}
				}
			}
		}
	case "enter":
		d.CreateAndEnterPrepopulatedDirectory(name)
	case "removeAllChildren":
		d.RemoveAllChildren(false)
	case "bulkRemove":
		d.Remove(name)
	case "removeAll":
		d.RemoveAll(name)
	case "createChildren":
		leaf, err := t.files.NewFile(pool.ZeroHoleSource, false, 0, 0)
		if err == nil {
			t.noteLeaf(leaf)
			if d.CreateChildren(map[path.Component]virtual.InitialChild{name: virtual.InitialChild{}.FromLeaf(leaf)}, true) != nil {
				leaf.Unlink()
			}
		}
	case "lookupAll":
		d.LookupAllChildren()
	case "filter":
		d.FilterChildren(func(node virtual.InitialChild, remove virtual.ChildRemover) bool {
			if o.Name == "x" {
				remove()
			}
			return true
		})
	case "openCreate":
		leaf, _, _, s := d.VirtualOpenChild(ctx, name, virtual.ShareMaskWrite, (&virtual.Attributes{}).SetPermissions(virtual.PermissionsRead|virtual.PermissionsWrite), &virtual.OpenExistingOptions{}, 0, &attr)
		if s == virtual.StatusOK {
			leaf.VirtualWrite(ctx, []byte("hi"), 0)
			leaf.VirtualClose(virtual.ShareMaskWrite)
		}

	// ---- kinds added by the strengthening round.
	case "moveFixed":
		// Move fixed directory o.Fixed from where it was last put into
		// fixed directory o.Dir2, keeping its name; the way a kernel would
		// (rename mutex, ancestor check). Both directions between any two
		// directories occur: the classic lock-order inversion.
		fixed := path.MustNewComponent(stFixedNames[o.Fixed])
		t.renameMu.Lock()
		if !t.mayMoveFixed(o.Fixed, o.Dir2) {
			t.renameMu.Unlock()
			t.count("excluded:move of a fixed directory into its own subtree")
			return
		}
		src := t.parent[o.Fixed]
		if _, _, s := t.dirs[src].VirtualRename(ctx, fixed, d2, fixed); s == virtual.StatusOK {
			t.parent[o.Fixed] = o.Dir2
			if src != o.Dir2 {
				t.count("fixed_directory_moved")
			}
		}
		t.renameMu.Unlock()
	case "renameOntoFixed":
		// Rename an ordinary entry onto the NAME of a fixed directory in
		// d2: replaces that directory if it is there and empty (three
		// directory locks, one of them in use by other threads). What is
		// moved is never a fixed directory, so no cycle can arise.
		if _, _, s := d.VirtualRename(ctx, name, d2, path.MustNewComponent(stFixedNames[o.Fixed])); s == virtual.StatusOK {
			t.count("renamed_onto_fixed_name")
		}
	case "link":
		if child, s := d.VirtualLookup(ctx, name, virtual.AttributesMaskInodeNumber, &attr); s == virtual.StatusOK {
			if _, leaf := child.GetPair(); leaf != nil {
				var out virtual.Attributes
				if _, s := d2.VirtualLink(ctx, name2, leaf, virtual.AttributesMaskLinkCount, &out); s == virtual.StatusOK {
					t.count("linked")
				}
			}
		}
	case "mknod":
		attrs := &virtual.Attributes{}
		switch o.Nam2 {
		case "x":
			attrs.SetFileType(filesystem.FileTypeSymlink).SetSymlinkTarget(path.UNIXFormat.NewParser("t-" + o.Name))
		case "y":
			attrs.SetFileType(filesystem.FileTypeFIFO)
		default:
			attrs.SetFileType(filesystem.FileTypeSocket)
		}
		d.VirtualMknod(ctx, name, attrs, virtual.AttributesMaskInodeNumber, &attr)
	case "leafIO":
		// Open a file (creating it if need be) and use it while other
		// threads may unlink it, truncate it or write to it.
		share := virtual.ShareMaskRead | virtual.ShareMaskWrite
		leaf, _, _, s := d.VirtualOpenChild(ctx, name, share, (&virtual.Attributes{}).SetPermissions(virtual.PermissionsRead|virtual.PermissionsWrite), &virtual.OpenExistingOptions{Truncate: o.Nam2 == "x"}, virtual.AttributesMaskSizeBytes, &attr)
		if s == virtual.StatusOK {
			t.noteLeaf(leaf)
			t.count("file_opened")
			buf := make([]byte, 8)
			leaf.VirtualWrite(ctx, []byte("data-"+o.Name), uint64(len(o.Nam2)))
			leaf.VirtualRead(ctx, buf, 0)
			var out virtual.Attributes
			leaf.VirtualSetAttributes(ctx, (&virtual.Attributes{}).SetSizeBytes(uint64(o.Dir2)), virtual.AttributesMaskSizeBytes, &out)
			leaf.VirtualAllocate(ctx, 2, 6)
			leaf.VirtualSeek(ctx, 0, filesystem.Data)
			leaf.VirtualGetAttributes(ctx, virtual.AttributesMaskSizeBytes|virtual.AttributesMaskLinkCount|virtual.AttributesMaskChangeID, &out)
			leaf.VirtualClose(share)
		}
	case "openWriteUnlink":
		leaf, _, _, s := d.VirtualOpenChild(ctx, name, virtual.ShareMaskWrite, (&virtual.Attributes{}).SetPermissions(virtual.PermissionsRead|virtual.PermissionsWrite), &virtual.OpenExistingOptions{}, 0, &attr)
		if s == virtual.StatusOK {
			t.noteLeaf(leaf)
			leaf.VirtualWrite(ctx, []byte("bye"), 0)
			d.VirtualRemove(ctx, name, false, true)
			// Still open: the file outlives its last name.
			leaf.VirtualWrite(ctx, []byte("!"), 3)
			leaf.VirtualClose(virtual.ShareMaskWrite)
		}
	case "seedLazy":
		i := int(t.lazyAt.Add(1)) - 1
		if len(t.lazy) > 0 {
			t.seedLazy(d, name, t.lazy[i%len(t.lazy)])
		}
	case "subList":
		// List a child directory (initialises it if it is lazy; its fetcher
		// may fail) with attributes that need the grandchildren's locks.
		if sub := stChildDir(d, name); sub != nil {
			r := &stCollectingReporter{}
			sub.VirtualReadDir(ctx, 0, virtual.AttributesMaskInodeNumber|virtual.AttributesMaskChangeID, r)
			if r.problem != "" {
				panic("C13: " + r.problem)
			}
		}
	case "subLookup":
		if sub := stChildDir(d, name); sub != nil {
			sub.VirtualLookup(ctx, path.MustNewComponent("lazy0"), virtual.AttributesMaskChangeID, &attr)
			if leaf, _, _, s := sub.VirtualOpenChild(ctx, name2, virtual.ShareMaskRead, nil, &virtual.OpenExistingOptions{}, 0, &attr); s == virtual.StatusOK {
				leaf.VirtualClose(virtual.ShareMaskRead)
			}
		}
	case "removeLazy":
		// rmdir of a child: has to initialise a lazy child (fetcher may
		// fail) while holding the parent's lock.
		d.VirtualRemove(ctx, name, true, false)

	// ---- named attributes: what setxattr / listxattr / removexattr amount
	// to over NFSv4. The owner may lose its last link (or be removed) at any
	// moment through the kinds above, which releases the attribute
	// directory from inside the owner's Unlink() / markDeleted().
	case "xattrSet":
		if attrs := t.openAttrs(ctx, d, name, true); attrs != nil {
			leaf, _, _, s := attrs.VirtualOpenChild(ctx, name2, virtual.ShareMaskWrite, (&virtual.Attributes{}).SetPermissions(virtual.PermissionsRead|virtual.PermissionsWrite), &virtual.OpenExistingOptions{Truncate: true}, 0, &attr)
			if s == virtual.StatusOK {
				t.noteLeaf(leaf)
				leaf.VirtualWrite(ctx, []byte("value-"+o.Name), 0)
				leaf.VirtualClose(virtual.ShareMaskWrite)
				t.count("named_attribute_set")
			}
		}
	case "xattrList":
		if attrs := t.openAttrs(ctx, d, name, false); attrs != nil {
			r := &stCollectingReporter{}
			attrs.VirtualReadDir(ctx, 0, virtual.AttributesMaskInodeNumber|virtual.AttributesMaskChangeID, r)
			if r.problem != "" {
				panic("C13: " + r.problem)
			}
			if leaf, _, _, s := attrs.VirtualOpenChild(ctx, name2, virtual.ShareMaskRead, nil, &virtual.OpenExistingOptions{}, 0, &attr); s == virtual.StatusOK {
				buf := make([]byte, 8)
				leaf.VirtualRead(ctx, buf, 0)
				leaf.VirtualClose(virtual.ShareMaskRead)
			}
			var out virtual.Attributes
			d.VirtualLookup(ctx, name, virtual.AttributesMaskHasNamedAttributes, &out)
			t.count("named_attribute_directory_listed")
		}
	case "xattrRemove":
		if attrs := t.openAttrs(ctx, d, name, false); attrs != nil {
			if _, s := attrs.VirtualRemove(ctx, name2, false, true); s == virtual.StatusOK {
				t.count("named_attribute_removed")
			}
		}
	}
}

type stCollectingReporter struct {
	names      map[string]uint64 // name -> cookie it was reported with
	lastCookie uint64
	problem    string
	// renamed: names that were reported more than once, i.e. (cookies being
	// strictly increasing) two different entries that carried one name at
	// different moments of the call.
	renamed int
}

func (r *stCollectingReporter) ReportEntry(nextCookie uint64, name path.Component, child virtual.DirectoryChild, attributes *virtual.Attributes) bool {
	if r.names == nil {
		r.names = map[string]uint64{}
	}
	// A directory entry keeps its cookie for as long as it is attached, so
	// "the same entry twice" shows as a cookie that does not increase. A
	// NAME may legitimately come twice: the call drops the directory lock
	// while it waits for a child directory's lock, and another thread may
	// remove the entry that was already reported and attach a new one under
	// the same name (higher cookie). The property only speaks of entries
	// that existed throughout the listing.
	if nextCookie <= r.lastCookie {
		r.problem = fmt.Sprintf("one VirtualReadDir call reported cookie %d (entry %q) after cookie %d", nextCookie, name.String(), r.lastCookie)
	}
	if _, again := r.names[name.String()]; again {
		r.renamed++
	}
	r.names[name.String()] = nextCookie
	r.lastCookie = nextCookie
	return true
}

type stReporter struct{}

func (stReporter) ReportEntry(nextCookie uint64, name path.Component, child virtual.DirectoryChild, attributes *virtual.Attributes) bool {
	return true
}

// stSubtreeSafe rejects renames that could move a directory into its own
// subtree (the kernel/NFS client rejects those before calling the server):
// names "sub" are only ever directories created by mkdir/enter, and may be
// renamed only within the same directory.
func stSanitise(ops []stOp) (out []stOp, excluded int) {
	for _, o := range ops {
		if o.Kind == "rename" && (o.Name == "sub" || o.Nam2 == "sub") && o.Dir != o.Dir2 {
			excluded++
			continue
		}
		out = append(out, o)
	}
	return
}

func allGoroutineStacks() string {
	buf := make([]byte, 1<<20)
	for {
		n := runtime.Stack(buf, true)
		if n < len(buf) {
			return string(buf[:n])
		}
		buf = make([]byte, 2*len(buf))
	}
}

// stWorkerStates classifies the goroutines of a dump that are executing
// stTree.apply: parked waiting for a sync.Mutex / sync.RWMutex, or anything
// else (running, runnable, ...).
func stWorkerStates(dump string) (parked, other int) {
	for _, block := range strings.Split(dump, "\n\n") {
		if !strings.Contains(block, "vfsdir.(*stTree).apply") {
			continue
		}
		header, _, _ := strings.Cut(block, "\n")
		onLock := strings.Contains(block, "sync.(*Mutex).Lock") || strings.Contains(block, "sync.(*RWMutex).Lock") || strings.Contains(block, "sync.(*RWMutex).RLock")
		if onLock && !strings.Contains(header, "[running") && !strings.Contains(header, "[runnable") {
			parked++
		} else {
			other++
		}
	}
	return
}

type stCase struct {
	Handles string       `json:"handles"`
	Lazy    []stLazySpec `json:"lazy,omitempty"`
	Seeded  []stOp       `json:"seeded,omitempty"` // lazy directories attached before the threads start
	Scripts [][]stOp     `json:"scripts"`
}

func TestC14DirectoryConcurrentStress(t *testing.T) {
	if runtime.GOMAXPROCS(0) < 4 {
		runtime.GOMAXPROCS(4)
	}
	rec := simkit.NewRecorder(t, "C14", "directory-concurrent-stress", "2-4 real goroutines each run a generated list of 10-40 operations on one shared tree root/{a,b,a/c} of the real in-memory directory (NFS or FUSE handle allocator): renames in both directions between the fixed directories, moves of the fixed directories a/b/c themselves into one another (serialised and cycle-checked the way the Linux VFS does), renames onto the name of a fixed directory (three locks), mkdir, remove, lookup, readdir (also with attributes that need every child's lock), named attributes of files and directories (NFS handle allocator only: OPENATTR + create/write/list/read/remove attribute values, while other threads remove the owner, which releases the attribute directory from inside the removal), CreateAndEnterPrepopulatedDirectory, RemoveAllChildren, Remove, RemoveAll, CreateChildren(overwrite), LookupAllChildren, FilterChildren with removal, VirtualLink, VirtualMknod, create/open + write/read/truncate/allocate/seek + unlink of files that other threads use, and lazily populated directories (seeded before and during the batch) whose InitialContentsFetcher fails its first 0-2 calls; interleavings are the Go scheduler's, not generated. Oracle: every batch terminates (a batch stuck for 60 s in which no thread completed an operation between two goroutine dumps 2 s apart and every unfinished thread is parked in sync.(*Mutex).Lock / sync.(*RWMutex) is a confirmed deadlock or leaked lock = violation; any other time-out, in particular threads that are still runnable, is inconclusive because progress cannot be ruled out), no call panics, one VirtualReadDir call never reports a name twice, afterwards every directory lock, every file lock and the NFS handle pool lock are free and LookupAllChildren / ReadDir agree on the whole tree. Built with the race detector when the check entry says race=True: a data race between two calls is reported by the runtime and fails the test. Renames that could move a directory into its own subtree are excluded (counted). Non-trivial: >=2 threads issued renames in opposite directions between the same two directories, or a removal of a directory another thread used, or >=2 threads moved fixed directories; distinct by script hash")
	ctx := context.Background()
	rapid.Check(t, func(rt *rapid.T) {
		sc := stCase{Handles: rapid.SampledFrom([]string{"nfs", "fuse"}).Draw(rt, "handles")}
		nThreads := rapid.IntRange(2, 4).Draw(rt, "threads")
		for i, n := 0, rapid.IntRange(1, 3).Draw(rt, "lazy_specs"); i < n; i++ {
			sc.Lazy = append(sc.Lazy, stLazySpec{
				FailFirst:    rapid.IntRange(0, 2).Draw(rt, "fail_first"),
				Files:        rapid.IntRange(0, 3).Draw(rt, "lazy_files"),
				Subdirs:      rapid.IntRange(0, 2).Draw(rt, "lazy_subdirs"),
				SubFailFirst: rapid.IntRange(0, 1).Draw(rt, "sub_fail_first"),
			})
		}
		for i, n := 0, rapid.IntRange(0, 3).Draw(rt, "seeded"); i < n; i++ {
			sc.Seeded = append(sc.Seeded, stOp{Kind: "seedLazy", Dir: rapid.IntRange(0, 3).Draw(rt, "seed_dir"), Name: rapid.SampledFrom(stNames).Draw(rt, "seed_name"), Nam2: "x", Fixed: 1})
		}
		excluded := 0
		for i := 0; i < nThreads; i++ {
			ops, ex := stSanitise(drawStOps(rt, rapid.IntRange(10, 40).Draw(rt, "n"), 4))
			sc.Scripts = append(sc.Scripts, ops)
			excluded += ex
		}
		for i := 0; i < excluded; i++ {
			rec.Exclude("rename that could move a directory into its own subtree")
		}
		scripts := sc.Scripts
		tree := newStTree(sc.Handles)
		tree.lazy = sc.Lazy
		for _, o := range sc.Seeded {
			tree.apply(ctx, o)
		}
		var wg sync.WaitGroup
		done := make(chan struct{})
		panics := make(chan string, nThreads)
		start := make(chan struct{})
		progress := make([]atomic.Int64, nThreads)
		for ti, ops := range scripts {
			ti, ops := ti, ops
			wg.Add(1)
			go func() {
				defer wg.Done()
				defer func() {
					if r := recover(); r != nil {
						panics <- fmt.Sprint(r)
					}
				}()
				<-start
				for _, o := range ops {
					tree.apply(ctx, o)
					progress[ti].Add(1)
				}
			}()
		}
		snapshot := func() string {
			var b strings.Builder
			for i := range progress {
				fmt.Fprintf(&b, "%d/%d ", progress[i].Load(), len(scripts[i]))
			}
			return b.String()
		}
		close(start)
		go func() { wg.Wait(); close(done) }()
		select {
		case <-done:
		case <-time.After(60 * time.Second):
			p1, d1 := snapshot(), allGoroutineStacks()
			time.Sleep(2 * time.Second)
			p2, d2 := snapshot(), allGoroutineStacks()
			parked1, other1 := stWorkerStates(d1)
			parked2, other2 := stWorkerStates(d2)
			if p1 == p2 && parked1 > 0 && parked1 == parked2 && other1 == 0 && other2 == 0 {
				// The stuck goroutines cannot be cancelled and the schedule
				// cannot be replayed, so shrinking would only repeat the
				// 60 s wait: report and stop this shard at once.
				fmt.Printf("C14: concurrent calls deadlocked or wait for a lock that an earlier call left behind (no operation completed between two dumps 2 s apart and all %d unfinished threads are parked in sync.(*Mutex).Lock / sync.(*RWMutex)); operations completed per thread: %s; case=%+v\ngoroutine dump:\n%s\n", parked2, p2, sc, d2)
				fmt.Println("VERIF-VIOLATION: C14 confirmed deadlock (or leaked lock) in the concurrent stress")
				os.Exit(1)
			}
			// Threads that are runnable (spinning in LockPile's back-off,
			// say) may still get through: without owning the schedule the
			// harness cannot show that no progress is possible.
			fmt.Printf("VERIF-INCONCLUSIVE: stress batch did not finish in 60 s without a confirmed mutex cycle (possible livelock or overloaded machine): operations completed per thread %s then %s; threads parked on a lock %d then %d, otherwise busy %d then %d\n", p1, p2, parked1, parked2, other1, other2)
			os.Exit(3)
		}
		select {
		case p := <-panics:
			rt.Fatalf("C14: panic during concurrent calls: %s; case=%+v", p, sc)
		default:
		}
		for i, d := range tree.dirs {
			if free, known := virtual.VerifLockIsFree(d); known && !free {
				rt.Fatalf("C14: lock of directory #%d is still held after all concurrent calls returned; case=%+v", i, sc)
			}
		}
		if tree.nfs != nil && !tree.nfs.VerifNFSHandlePoolLockIsFree() {
			rt.Fatalf("C14: the NFS handle pool lock is still held after all concurrent calls returned; case=%+v", sc)
		}
		for i, d := range tree.attrDirs {
			if free, known := virtual.VerifDirectoryLockIsFree(d); known && !free {
				rt.Fatalf("C14: lock of named attribute directory #%d is still held after all concurrent calls returned; case=%+v", i, sc)
			}
		}
		for i, l := range tree.leaves {
			if free, known := virtual.VerifLeafLockIsFree(l); known && !free {
				rt.Fatalf("C14: lock of pool-backed file #%d is still held after all concurrent calls returned; case=%+v", i, sc)
			}
		}
		// The tree must still be listable and the two listing APIs agree;
		// every directory that can be reached has a free lock.
		var walk func(d virtual.PrepopulatedDirectory, depth int)
		walk = func(d virtual.PrepopulatedDirectory, depth int) {
			if free, known := virtual.VerifLockIsFree(d); known && !free {
				rt.Fatalf("C14: lock of a directory at depth %d is still held after all concurrent calls returned; case=%+v", depth, sc)
			}
			dirs, leaves, err := d.LookupAllChildren()
			if err != nil {
				if err == syscall.ENOENT || err == errStFetch {
					// errStFetch: a lazy directory whose fetcher still
					// has failures to deliver.
					return
				}
				rt.Fatalf("C14: LookupAllChildren fails after the batch: %v; case=%+v", err, sc)
			}
			infos, err := d.ReadDir()
			if err != nil {
				rt.Fatalf("C14: ReadDir fails after the batch: %v; case=%+v", err, sc)
			}
			var a, b []string
			for _, e := range dirs {
				a = append(a, e.Name.String()+"/")
			}
			for _, e := range leaves {
				a = append(a, e.Name.String())
				if free, known := virtual.VerifLeafLockIsFree(e.Child); known && !free {
					rt.Fatalf("C14: lock of file %q at depth %d is still held after all concurrent calls returned; case=%+v", e.Name.String(), depth, sc)
				}
			}
			for _, i := range infos {
				n := i.Name().String()
				if i.Type() == filesystem.FileTypeDirectory {
					n += "/"
				}
				b = append(b, n)
			}
			sort.Strings(a)
			sort.Strings(b)
			if !bytes.Equal([]byte(strings.Join(a, ",")), []byte(strings.Join(b, ","))) {
				rt.Fatalf("C14: after the batch LookupAllChildren lists %v but ReadDir lists %v; case=%+v", a, b, sc)
			}
			if depth < 8 {
				for _, e := range dirs {
					walk(e.Child, depth+1)
				}
			}
		}
		walk(tree.root, 0)
		// Classification (from the scripts, hence the same on every run).
		opposite := false
		type pair struct{ a, b int }
		seen := map[pair]int{}
		removal := false
		movers := map[int]bool{}
		lazyOps := false
		xattrOps := false
		for ti, ops := range scripts {
			for _, o := range ops {
				if o.Kind == "rename" && o.Dir != o.Dir2 {
					if other, ok := seen[pair{o.Dir2, o.Dir}]; ok && other != ti+1 {
						opposite = true
					}
					seen[pair{o.Dir, o.Dir2}] = ti + 1
				}
				if o.Kind == "removeAllChildren" || o.Kind == "removeAll" || (o.Kind == "remove" && o.Name == "sub") {
					removal = true
				}
				if o.Kind == "moveFixed" {
					movers[ti] = true
				}
				if o.Kind == "seedLazy" || o.Kind == "subList" || o.Kind == "removeLazy" {
					lazyOps = true
				}
				if strings.HasPrefix(o.Kind, "xattr") && sc.Handles == "nfs" {
					xattrOps = true
				}
			}
		}
		labels := []string{"handles_" + sc.Handles}
		if opposite {
			labels = append(labels, "opposite_renames")
		}
		if removal {
			labels = append(labels, "bulk_or_directory_removal")
		}
		if len(movers) >= 2 {
			labels = append(labels, "fixed_directories_moved_by_2plus_threads")
		}
		if lazyOps || len(sc.Seeded) > 0 {
			labels = append(labels, "lazy_directories_in_play")
		}
		if xattrOps {
			labels = append(labels, "named_attributes_in_play")
		}
		// What actually happened (schedule dependent, labels only).
		for _, k := range vdSortedKeys(tree.stats) {
			if strings.HasPrefix(k, "excluded:") {
				for i := 0; i < tree.stats[k]; i++ {
					rec.Exclude(strings.TrimPrefix(k, "excluded:"))
				}
				continue
			}
			rec.LabelN("happened:"+k, tree.stats[k])
		}
		rec.Case(sc, opposite || removal || len(movers) >= 2, labels...)
	})
}

package vfsdir

import (
	"fmt"

	"github.com/buildbarn/bb-remote-execution/pkg/filesystem/virtual"
	"github.com/buildbarn/bb-storage/pkg/filesystem"
	"github.com/buildbarn/bb-storage/pkg/filesystem/path"
	"pgregory.net/rapid"
)

// ---------------------------------------------------------------- pickers

// pickDir chooses a registered directory; removed ones are chosen on
// purpose with a fixed share so that calls on tombstoned directories are
// common.
func (c *vdCase) pickDir(label string) *mNode { return c.pickDirIn(label, true) }

// pickTreeDir chooses a directory of the ordinary tree. The worker-facing
// calls (CreateChildren, RemoveAllChildren, FilterChildren, InstallHooks, ...)
// are only made on those: a named attribute directory is handed out as a
// plain Directory by VirtualOpenNamedAttributes, so no caller of /repo ever
// holds one as a PrepopulatedDirectory.
func (c *vdCase) pickTreeDir(label string) *mNode { return c.pickDirIn(label, false) }

func (c *vdCase) pickDirIn(label string, attrToo bool) *mNode {
	var live, dead []*mNode
	for _, d := range c.reg {
		if d.fsAttr && !attrToo {
			continue
		}
		if d.deleted {
			dead = append(dead, d)
		} else {
			live = append(live, d)
		}
	}
	// Directories with an open paginated listing are preferred now and
	// then, so that listings see mutations between their pages.
	if len(c.cursors) > 0 && rapid.IntRange(0, 9).Draw(c.rt, label+"_listed") < 3 {
		if d := c.cursors[rapid.IntRange(0, len(c.cursors)-1).Draw(c.rt, label+"_cursor")].d; attrToo || !d.fsAttr {
			return d
		}
	}
	deadShare := 2
	if c.mode == "C14" {
		deadShare = 4
	}
	if len(dead) > 0 && (len(live) == 0 || rapid.IntRange(0, 9).Draw(c.rt, label+"_removed") < deadShare) {
		return dead[rapid.IntRange(0, len(dead)-1).Draw(c.rt, label)]
	}
	return live[rapid.IntRange(0, len(live)-1).Draw(c.rt, label)]
}

func (c *vdCase) pickName(d *mNode, label string) string {
	if len(d.ents) > 0 && rapid.IntRange(0, 9).Draw(c.rt, label+"_existing") < 6 {
		return d.ents[rapid.IntRange(0, len(d.ents)-1).Draw(c.rt, label+"_idx")].name
	}
	return rapid.SampledFrom(c.alphabet).Draw(c.rt, label)
}

func (c *vdCase) noteDirUse(d *mNode, mutating bool) {
	if d.deleted && mutating {
		c.sawRemoveHard = true
	}
}

func (c *vdCase) nextTag() string {
	c.tagCounter++
	return fmt.Sprintf("T%d", c.tagCounter)
}

func (c *vdCase) nextTarget() string {
	// Symlink targets repeat now and then. The stateless handle allocators
	// identify symlinks by target: the NFS one hands out one node object
	// for all linked symlinks with one target, the FUSE one a node per
	// creation with one inode number; the model follows the allocator in
	// use (mModel.internSymlinks).
	if len(c.targets) > 0 && rapid.IntRange(0, 2).Draw(c.rt, "repeat_target") == 0 {
		c.sawDupTarget = true
		return c.targets[rapid.IntRange(0, len(c.targets)-1).Draw(c.rt, "target")]
	}
	c.symCounter++
	t := fmt.Sprintf("t%d", c.symCounter)
	c.targets = append(c.targets, t)
	return t
}

// setRealLeaf records the real object of a leaf node the call just returned;
// a node that is already known (hard link, interned symlink) must resolve to
// the object seen before.
func (c *vdCase) setRealLeaf(where string, n *mNode, leaf virtual.Leaf) {
	if n.realLeaf != nil && n.realLeaf != leaf {
		c.failModel("%s returned a different object than the one the reference tree's node %d (%s %s) is known as", where, n.id, n.kind, n.tag)
	}
	n.realLeaf = leaf
}

// checkChangeInfo validates the ChangeInfo of a successful call on d.
// pre is the change ID read before the call.
func (c *vdCase) checkChangeInfo(fn string, d *mNode, ci virtual.ChangeInfo, pre uint64) {
	post := c.changeID(d)
	lenient := c.m.inited[d] && d.fetcher != nil
	if ci.After != post {
		c.failModel("%s: ChangeInfo.After of %s is %d but the directory's change ID is %d", fn, c.dname(d), ci.After, post)
	}
	if ci.Before < pre || (!lenient && ci.Before != pre) {
		c.failModel("%s: ChangeInfo.Before of %s is %d but the change ID before the call was %d", fn, c.dname(d), ci.Before, pre)
	}
	if c.m.changed[d] {
		if ci.After <= ci.Before {
			c.failModel("%s changed the entries of %s but ChangeInfo is %d -> %d", fn, c.dname(d), ci.Before, ci.After)
		}
	} else if ci.After != ci.Before {
		c.failModel("%s did not change the entries of %s but ChangeInfo is %d -> %d", fn, c.dname(d), ci.Before, ci.After)
	}
}

// ---------------------------------------------------------------- kernel-facing calls

func (c *vdCase) opMkdir() {
	d := c.pickDir("dir")
	name := c.pickName(d, "name")
	if !d.deleted && !d.fsAttr && c.m.liveDirCount() >= 6 && c.m.lookup(d, name) == nil {
		c.rec.Exclude("mkdir skipped: the case already has 6 live directories (size bound)")
		return
	}
	if !d.deleted && d.fsAttr && c.m.liveAttrDirCount() >= 5 && c.m.lookup(d, name) == nil {
		c.rec.Exclude("mkdir skipped: the case already has 5 live directories in named attribute directories (size bound)")
		return
	}
	c.noteDirUse(d, true)
	c.begin(vdStep{Op: "VirtualMkdir", Dir: c.dname(d), Name: name})
	pre := c.changeID(d)
	want, child := c.m.opMkdir(d, name)
	var out virtual.Attributes
	var rd virtual.Directory
	var ci virtual.ChangeInfo
	var st virtual.Status
	c.real(func() {
		rd, ci, st = d.realDir.VirtualMkdir(c.w.ctx, comp(name), &virtual.Attributes{}, virtual.AttributesMaskFileType|virtual.AttributesMaskChangeID, &out)
	})
	if c.checkResult("VirtualMkdir", want, vdStatusName(st), true) {
		pd, ok := rd.(virtual.PrepopulatedDirectory)
		if !ok {
			c.failModel("VirtualMkdir returned a %T, not a PrepopulatedDirectory", rd)
		}
		c.register(child, pd)
		c.checkChangeInfo("VirtualMkdir", d, ci, pre)
		if out.GetFileType() != filesystem.FileTypeDirectory {
			c.failModel("VirtualMkdir reported file type %v for the new directory", out.GetFileType())
		}
	}
	c.finish()
}

func (c *vdCase) opMknod() {
	d := c.pickDir("dir")
	name := c.pickName(d, "name")
	kind := rapid.SampledFrom([]string{"symlink", "symlink", "fifo", "socket", "blockdev"}).Draw(c.rt, "kind")
	c.noteDirUse(d, true)
	target := ""
	attrs := &virtual.Attributes{}
	switch kind {
	case "symlink":
		target = c.nextTarget()
		attrs.SetFileType(filesystem.FileTypeSymlink).SetSymlinkTarget(path.UNIXFormat.NewParser(target))
	case "fifo":
		attrs.SetFileType(filesystem.FileTypeFIFO)
	case "socket":
		attrs.SetFileType(filesystem.FileTypeSocket)
	case "blockdev":
		attrs.SetFileType(filesystem.FileTypeBlockDevice)
	}
	c.begin(vdStep{Op: "VirtualMknod", Dir: c.dname(d), Name: name, Arg: kind + " " + target})
	pre := c.changeID(d)
	want, child := c.m.opMknod(d, name, kind, target, c.w.links.failing)
	var out virtual.Attributes
	var leaf virtual.Leaf
	var ci virtual.ChangeInfo
	var st virtual.Status
	c.real(func() {
		leaf, ci, st = d.realDir.VirtualMknod(c.w.ctx, comp(name), attrs, virtual.AttributesMaskFileType, &out)
	})
	if c.checkResult("VirtualMknod", want, vdStatusName(st), true) {
		c.setRealLeaf("VirtualMknod", child, leaf)
		c.checkChangeInfo("VirtualMknod", d, ci, pre)
		if got := vdKindOfType(out.GetFileType()); got != kind {
			c.failModel("VirtualMknod(%s) created a %s", kind, got)
		}
	}
	c.finish()
}

// pickLeaf chooses any leaf node whose real object is known, including
// ones that have been unlinked everywhere.
func (c *vdCase) pickLeaf(label string) *mNode {
	var cands []*mNode
	for _, l := range c.m.leaves {
		if l.realLeaf != nil {
			cands = append(cands, l)
		}
	}
	if len(cands) == 0 {
		return nil
	}
	return cands[rapid.IntRange(0, len(cands)-1).Draw(c.rt, label)]
}

func (c *vdCase) opLink() {
	d := c.pickDir("dir")
	name := c.pickName(d, "name")
	if rapid.IntRange(0, 19).Draw(c.rt, "notlinkable") == 0 {
		c.begin(vdStep{Op: "VirtualLink", Dir: c.dname(d), Name: name, Arg: "leaf that is not a LinkableLeaf"})
		var st virtual.Status
		var out virtual.Attributes
		c.real(func() { _, st = d.realDir.VirtualLink(c.w.ctx, comp(name), vdNotLinkable{}, 0, &out) })
		c.checkResult("VirtualLink", one(rXDev), vdStatusName(st), true)
		c.finish()
		return
	}
	leaf := c.pickLeaf("leaf")
	if leaf == nil {
		return
	}
	if leaf.nlink == 0 && !leaf.stateful() {
		c.rec.Exclude("VirtualLink of a symlink that is unlinked everywhere: outcome is handle allocator specific")
		return
	}
	if leaf.kind != "symlink" && leaf.fsAttr != d.fsAttr {
		c.rec.Exclude("VirtualLink between a named attribute directory and the ordinary tree (no client does this: named attributes are only reachable through OPENATTR of their owner)")
		return
	}
	c.noteDirUse(d, true)
	c.begin(vdStep{Op: "VirtualLink", Dir: c.dname(d), Name: name, Arg: fmt.Sprintf("leaf#%d %s nlink=%d", leaf.leafIdx, leaf.kind, leaf.nlink)})
	pre := c.changeID(d)
	want := c.m.opLink(d, name, leaf)
	var ci virtual.ChangeInfo
	var st virtual.Status
	var out virtual.Attributes
	c.real(func() {
		ci, st = d.realDir.VirtualLink(c.w.ctx, comp(name), leaf.realLeaf, virtual.AttributesMaskFileType, &out)
	})
	if c.checkResult("VirtualLink", want, vdStatusName(st), true) {
		c.checkChangeInfo("VirtualLink", d, ci, pre)
		c.sawHardLink = true
	}
	c.finish()
}

func (c *vdCase) opOpen() {
	d := c.pickDir("dir")
	name := c.pickName(d, "name")
	variant := rapid.SampledFrom([]string{"create", "create", "create_excl", "create_trunc", "existing", "existing_trunc"}).Draw(c.rt, "variant")
	create := variant != "existing" && variant != "existing_trunc"
	existing := variant != "create_excl"
	truncate := variant == "create_trunc" || variant == "existing_trunc"
	exec := rapid.Bool().Draw(c.rt, "exec")
	share := rapid.SampledFrom([]virtual.ShareMask{virtual.ShareMaskWrite, virtual.ShareMaskRead | virtual.ShareMaskWrite}).Draw(c.rt, "share")
	writeAfter := rapid.Bool().Draw(c.rt, "write")
	c.noteDirUse(d, create)
	var createAttrs *virtual.Attributes
	if create {
		perm := virtual.PermissionsRead | virtual.PermissionsWrite
		if exec {
			perm |= virtual.PermissionsExecute
		}
		createAttrs = (&virtual.Attributes{}).SetPermissions(perm)
	}
	var existingOpts *virtual.OpenExistingOptions
	if existing {
		existingOpts = &virtual.OpenExistingOptions{Truncate: truncate}
	}
	// O_TRUNC of an existing file can fail in the pool file (one-shot fault).
	truncFault := truncate && existing && rapid.IntRange(0, 3).Draw(c.rt, "truncate_fails") == 0
	c.begin(vdStep{Op: "VirtualOpenChild", Dir: c.dname(d), Name: name, Arg: fmt.Sprintf("%s exec=%v share=%d truncateFails=%v", variant, exec, share, truncFault)})
	pre := c.changeID(d)
	allocFails := c.w.files.failing || c.w.pool.failing
	want, node, created := c.m.opOpen(d, name, create, existing, truncate, exec, allocFails, truncFault)
	var out virtual.Attributes
	var leaf virtual.Leaf
	var ci virtual.ChangeInfo
	var st virtual.Status
	if truncFault {
		c.w.pool.arm = vdIOFault{Op: "truncate"}
	}
	c.real(func() {
		leaf, _, ci, st = d.realDir.VirtualOpenChild(c.w.ctx, comp(name), share, createAttrs, existingOpts, virtual.AttributesMaskFileType|virtual.AttributesMaskSizeBytes, &out)
	})
	c.w.pool.arm = vdIOFault{}
	if c.checkResult("VirtualOpenChild", want, vdStatusName(st), true) {
		c.checkChangeInfo("VirtualOpenChild", d, ci, pre)
		if created {
			node.realLeaf = leaf
			c.fileLeaves = append(c.fileLeaves, leaf)
		} else {
			c.checkLeafIdentity("VirtualOpenChild of an existing file", node, leaf)
		}
		if size, ok := out.GetSizeBytes(); !ok || size != uint64(len(node.content)) {
			c.failModel("VirtualOpenChild reports size %d, the reference tree says %d", size, len(node.content))
		}
		if created || writeAfter {
			data := []byte(c.nextTag())
			var n int
			c.real(func() { n, st = leaf.VirtualWrite(c.w.ctx, data, 0) })
			if st != virtual.StatusOK || n != len(data) {
				c.failModel("VirtualWrite returned n=%d status %s", n, vdStatusName(st))
			}
			if len(node.content) < len(data) {
				node.content = append(node.content, make([]byte, len(data)-len(node.content))...)
			}
			copy(node.content, data)
			c.script[len(c.script)-1].Arg += " wrote=" + string(data)
		}
		c.real(func() { leaf.VirtualClose(share) })
	}
	c.finish()
}

func (c *vdCase) opVirtualRemove() {
	d := c.pickDir("dir")
	name := c.pickName(d, "name")
	flags := rapid.SampledFrom([]string{"both", "both", "dir", "leaf"}).Draw(c.rt, "flags")
	rmDir, rmLeaf := flags != "leaf", flags != "dir"
	c.noteDirUse(d, false)
	c.begin(vdStep{Op: "VirtualRemove", Dir: c.dname(d), Name: name, Arg: flags})
	pre := c.changeID(d)
	want := c.m.opVirtualRemove(d, name, rmDir, rmLeaf)
	var ci virtual.ChangeInfo
	var st virtual.Status
	c.real(func() { ci, st = d.realDir.VirtualRemove(c.w.ctx, comp(name), rmDir, rmLeaf) })
	if st == virtual.StatusErrNotEmpty {
		c.sawRemoveHard = true
	}
	if c.checkResult("VirtualRemove", want, vdStatusName(st), true) {
		c.checkChangeInfo("VirtualRemove", d, ci, pre)
	}
	c.finish()
}

func (c *vdCase) opVirtualLookup() {
	d := c.pickDir("dir")
	name := c.pickName(d, "name")
	mask := virtual.AttributesMaskFileType
	if rapid.Bool().Draw(c.rt, "locked_attributes") {
		mask |= virtual.AttributesMaskChangeID
	}
	c.begin(vdStep{Op: "VirtualLookup", Dir: c.dname(d), Name: name, Arg: fmt.Sprintf("mask=%d", mask)})
	want := one(rOK)
	var e *mEnt
	if !c.m.need(d) {
		want = one(c.m.needFail)
	} else if e = c.m.lookup(d, name); e == nil {
		want = one(rNoEnt)
	}
	var out virtual.Attributes
	var st virtual.Status
	var child virtual.DirectoryChild
	c.real(func() { child, st = d.realDir.VirtualLookup(c.w.ctx, comp(name), mask, &out) })
	if c.checkResult("VirtualLookup", want, vdStatusName(st), true) {
		rd, _ := child.GetPair()
		if (rd != nil) != e.child.dir {
			c.failModel("VirtualLookup(%s, %q) returned the wrong kind of child", c.dname(d), name)
		}
	}
	c.finish()
}

func (c *vdCase) opRename() {
	dOld := c.pickDir("old_dir")
	oldName := c.pickName(dOld, "old_name")
	dNew := dOld
	if rapid.IntRange(0, 9).Draw(c.rt, "cross_directory") < 6 {
		dNew = c.pickDir("new_dir")
		if dOld.fsAttr != dNew.fsAttr {
			// Refused; a rename within the old directory is made instead.
			c.rec.Exclude("VirtualRename between a named attribute directory and the ordinary tree (no client does this: named attributes are only reachable through OPENATTR of their owner)")
			dNew = dOld
		}
	}
	newName := c.pickName(dNew, "new_name")
	if rapid.IntRange(0, 39).Draw(c.rt, "foreign_directory") == 0 {
		c.begin(vdStep{Op: "VirtualRename", Dir: c.dname(dOld), Name: oldName, Dir2: "directory of another file system", Name2: newName})
		var st virtual.Status
		c.real(func() {
			_, _, st = dOld.realDir.VirtualRename(c.w.ctx, comp(oldName), vdForeignDirectory{}, comp(newName))
		})
		c.checkResult("VirtualRename", one(rXDev), vdStatusName(st), true)
		c.finish()
		return
	}
	// Soundness: a directory is never moved into its own subtree. The
	// kernel and NFS clients refuse that before calling the server, and
	// the code carries a TODO for the missing check.
	if !dOld.uninit {
		if e := c.m.lookup(dOld, oldName); e != nil && e.child.dir && c.m.isAncestorOrSelf(e.child, dNew) {
			c.rec.Exclude("rename of a directory into its own subtree (callers never do this)")
			return
		}
	}
	c.noteDirUse(dNew, true)
	c.noteDirUse(dOld, false)
	if !dNew.uninit && !dOld.uninit && c.m.lookup(dNew, newName) != nil && c.m.lookup(dOld, oldName) != nil {
		c.sawRenameOver = true
	}
	c.begin(vdStep{Op: "VirtualRename", Dir: c.dname(dOld), Name: oldName, Dir2: c.dname(dNew), Name2: newName})
	preOld, preNew := c.changeID(dOld), c.changeID(dNew)
	want := c.m.opRename(dOld, oldName, dNew, newName)
	var ciOld, ciNew virtual.ChangeInfo
	var st virtual.Status
	c.real(func() {
		ciOld, ciNew, st = dOld.realDir.VirtualRename(c.w.ctx, comp(oldName), dNew.realDir, comp(newName))
	})
	if st == virtual.StatusErrNotEmpty {
		c.sawRemoveHard = true
	}
	if c.checkResult("VirtualRename", want, vdStatusName(st), true) {
		c.checkChangeInfo("VirtualRename(old directory)", dOld, ciOld, preOld)
		c.checkChangeInfo("VirtualRename(new directory)", dNew, ciNew, preNew)
	}
	c.finish()
}

func (c *vdCase) opToggleFault() {
	which := rapid.SampledFrom([]string{"file_allocator", "file_pool", "symlink_factory", "fetcher", "fetcher"}).Draw(c.rt, "fault")
	st := vdStep{Op: "fault", Arg: which}
	switch which {
	case "file_allocator":
		c.w.files.failing = !c.w.files.failing
		st.Res = fmt.Sprint(c.w.files.failing)
	case "file_pool":
		c.w.pool.failing = !c.w.pool.failing
		st.Res = fmt.Sprint(c.w.pool.failing)
	case "symlink_factory":
		c.w.links.failing = !c.w.links.failing
		st.Res = fmt.Sprint(c.w.links.failing)
	case "fetcher":
		var cands []*mNode
		for _, d := range c.reg {
			if d.uninit && d.fetcher != nil {
				cands = append(cands, d)
			}
		}
		if len(cands) == 0 {
			return
		}
		d := cands[rapid.IntRange(0, len(cands)-1).Draw(c.rt, "dir")]
		d.fetcher.failing = !d.fetcher.failing
		st.Dir = c.dname(d)
		st.Res = fmt.Sprint(d.fetcher.failing)
	}
	c.script = append(c.script, st)
}

package vfsdir

import (
	"sort"
	"strings"

	"github.com/buildbarn/bb-remote-execution/pkg/filesystem/virtual"
)

// The reference model: a deliberately naive POSIX-style tree. Directories
// hold an ordered list of entries, leaves carry a link count and (for
// regular files) their bytes. It shares no code with /repo.

// Result codes used by the model and by the translation of real results.
const (
	rOK        = "OK"
	rExist     = "EXIST"
	rNoEnt     = "NOENT"
	rIsDir     = "ISDIR"
	rNotDir    = "NOTDIR"
	rNotEmpty  = "NOTEMPTY"
	rPerm      = "PERM"
	rStale     = "STALE"
	rSymlink   = "SYMLINK"
	rXDev      = "XDEV"
	rInval     = "INVAL"
	rNXIO      = "NXIO"
	rAccess    = "ACCESS"
	rWrongType = "WRONGTYPE"
	rIO        = "IO"       // Virtual* calls: lazy initialisation / allocator / symlink factory failed
	rFetchErr  = "FETCHERR" // worker-facing calls: the fetcher's error is passed through
	rLazyFail  = "LAZYFAIL" // model-internal; translated per API family
	// rLazyCollide (model-internal): the fetcher succeeded but two of the
	// names it returned collide under the normaliser; Virtual* calls answer
	// EIO, worker-facing calls pass the InvalidArgument error on.
	rLazyCollide = "LAZYCOLLIDE"
	rInvalidArg  = "INVALIDARG"
)

type mNode struct {
	id  int
	dir bool

	// Directories.
	ents    []*mEnt
	history []*mEnt // every entry that was ever attached, in attach order
	deleted bool
	// uninit: the directory has not been initialised yet. fetcher is nil
	// for directories created empty (EmptyInitialContentsFetcher).
	uninit  bool
	fetcher *vdFetcher
	parent  *mNode
	realDir virtual.PrepopulatedDirectory
	reg     int // index in the registry, -1 if not registered yet

	// Leaves.
	kind     string // "file", "symlink", "fifo", "socket"
	content  []byte
	exec     bool
	nlink    int
	tag      string // symlink target
	realLeaf virtual.Leaf
	leafIdx  int

	// Named attributes (NFSv4 OPENATTR). na is the kind of NamedAttributes
	// object the real node embeds, decided when the node is first attached:
	// "mem" (in-memory named attributes: regular files and directories of the
	// ordinary tree), "attr" (the node lives in a named attribute directory:
	// OPENATTR answers WRONG_TYPE) or "none" (symlinks, FIFOs, sockets:
	// ACCESS / NOENT). attrDir is the node's named attribute directory once
	// OPENATTR(createdir=true) made it; attrOwner points back from that
	// directory. fsAttr: the node lives in the file system of the named
	// attribute directories, which is always case sensitive and has no hidden
	// files pattern (NewInMemoryNamedAttributesFactory).
	na        string
	attrDir   *mNode
	attrOwner *mNode
	fsAttr    bool
}

func (n *mNode) stateful() bool { return !n.dir && n.kind != "symlink" }

type mEnt struct {
	eid    int
	name   string
	norm   string
	child  *mNode
	hidden bool
	born   int
	died   int // -1 while attached
	dir    *mNode
}

type mModel struct {
	caseFold bool
	hiddenOn bool
	// internSymlinks: the NFS handle allocator hands out ONE node object for
	// all symlinks that have the same target for as long as that node is
	// linked somewhere (nfsStatelessHandleAllocation.AsLinkableLeaf: "Reuse
	// an existing leaf if one exists"); the FUSE one creates a node per
	// creation (with an inode number that is a function of the target).
	internSymlinks bool
	nextID         int
	nextEID        int
	tick           int
	root           *mNode
	// needFail: why the last need() that returned false failed (rLazyFail or
	// rLazyCollide).
	needFail string
	// Per call bookkeeping, reset by beginCall().
	changed map[*mNode]bool // entry set changed
	inited  map[*mNode]bool // went from uninitialised to initialised
	// All nodes ever created.
	dirs   []*mNode
	leaves []*mNode
	// Named attribute directories that went away with their owner.
	naReleased         int
	naReleasedNonEmpty int
	naReleasedOfFile   int
}

func newModel(caseFold, hiddenOn, internSymlinks bool) *mModel {
	m := &mModel{caseFold: caseFold, hiddenOn: hiddenOn, internSymlinks: internSymlinks, changed: map[*mNode]bool{}, inited: map[*mNode]bool{}}
	m.root = m.newDir(nil)
	m.root.na = "mem"
	return m
}

func (m *mModel) beginCall() {
	m.tick++
	m.changed = map[*mNode]bool{}
	m.inited = map[*mNode]bool{}
}

func (m *mModel) norm(name string) string {
	if m.caseFold {
		return strings.ToLower(name)
	}
	return name
}

func (m *mModel) isHiddenName(name string) bool {
	return m.hiddenOn && vdHiddenMatcher(name)
}

// normIn is the normalised form of a name in directory d: the file system
// of the named attribute directories is always case sensitive.
func (m *mModel) normIn(d *mNode, name string) string {
	if d.fsAttr {
		return name
	}
	return m.norm(name)
}

// newAttrDir creates the named attribute directory of owner.
func (m *mModel) newAttrDir(owner *mNode) *mNode {
	a := m.newDir(nil)
	a.na = "attr"
	a.fsAttr = true
	a.attrOwner = owner
	owner.attrDir = a
	return a
}

// releaseAttrDir is what NamedAttributes.Release() does when the owner's
// last reference goes: the named attribute directory is emptied recursively
// and tombstoned.
func (m *mModel) releaseAttrDir(owner *mNode) {
	a := owner.attrDir
	if a == nil || a.deleted {
		return
	}
	m.naReleased++
	if !owner.dir {
		m.naReleasedOfFile++
	}
	if !a.uninit && len(a.ents) > 0 {
		m.naReleasedNonEmpty++
	}
	m.removeAllChildren(a, true)
}

// opOpenNamedAttributes models VirtualOpenNamedAttributes on a node that
// still exists (a file with a link, a directory that was not removed).
func (m *mModel) opOpenNamedAttributes(owner *mNode, createDirectory bool) ([]string, *mNode) {
	switch owner.na {
	case "attr":
		return one(rWrongType), nil
	case "mem":
		if owner.attrDir != nil {
			return one(rOK), owner.attrDir
		}
		if !createDirectory {
			return one(rNoEnt), nil
		}
		return one(rOK), m.newAttrDir(owner)
	}
	if createDirectory {
		return one(rAccess), nil
	}
	return one(rNoEnt), nil
}

func (m *mModel) newDir(fetcher *vdFetcher) *mNode {
	m.nextID++
	n := &mNode{id: m.nextID, dir: true, uninit: true, fetcher: fetcher, reg: -1}
	m.dirs = append(m.dirs, n)
	return n
}

func (m *mModel) newLeaf(kind string) *mNode {
	m.nextID++
	n := &mNode{id: m.nextID, kind: kind, nlink: 1, leafIdx: len(m.leaves)}
	m.leaves = append(m.leaves, n)
	return n
}

// newSymlink returns the node a symlink creation yields: under the NFS
// handle allocator the node that is still linked under the same target (its
// hidden link count goes up), otherwise a fresh node.
func (m *mModel) newSymlink(target string) *mNode {
	if m.internSymlinks {
		for _, l := range m.leaves {
			if l.kind == "symlink" && l.tag == target && l.nlink > 0 {
				l.nlink++
				return l
			}
		}
	}
	n := m.newLeaf("symlink")
	n.tag = target
	return n
}

func (m *mModel) lookup(d *mNode, name string) *mEnt {
	norm := m.normIn(d, name)
	for _, e := range d.ents {
		if e.norm == norm {
			return e
		}
	}
	return nil
}

func (m *mModel) attach(d *mNode, name string, child *mNode) *mEnt {
	if d.deleted || m.lookup(d, name) != nil {
		panic("vfsdir model: attach to deleted directory or over existing name")
	}
	m.nextEID++
	e := &mEnt{eid: m.nextEID, name: name, norm: m.normIn(d, name), child: child, born: m.tick, died: -1, dir: d}
	e.hidden = !child.dir && !d.fsAttr && m.isHiddenName(name)
	if child.na == "" {
		// First attachment: the node was created by (or for) this directory's
		// subtree, which decides the kind of named attributes it carries.
		switch {
		case !child.dir && child.kind != "file":
			child.na = "none"
		case d.fsAttr:
			child.na = "attr"
		default:
			child.na = "mem"
		}
		child.fsAttr = d.fsAttr
	}
	d.ents = append(d.ents, e)
	d.history = append(d.history, e)
	if child.dir {
		child.parent = d
	}
	m.changed[d] = true
	return e
}

func (m *mModel) detach(d *mNode, e *mEnt) {
	for i, x := range d.ents {
		if x == e {
			d.ents = append(d.ents[:i:i], d.ents[i+1:]...)
			e.died = m.tick
			if e.child.dir && e.child.parent == d {
				e.child.parent = nil
			}
			m.changed[d] = true
			return
		}
	}
	panic("vfsdir model: detach of an entry that is not attached")
}

func (m *mModel) unlink(n *mNode) {
	if n.nlink <= 0 {
		panic("vfsdir model: unlink of a leaf with link count zero")
	}
	n.nlink--
	if n.nlink == 0 {
		// No open outlives a step, so the last link is the last reference.
		m.releaseAttrDir(n)
	}
}

// need makes the contents of d available, the way getContents() does. It
// returns false if the directory is uninitialised and its fetcher fails.
func (m *mModel) need(d *mNode) bool {
	if !d.uninit {
		return true
	}
	if d.fetcher != nil && d.fetcher.failing {
		m.needFail = rLazyFail
		return false
	}
	if d.fetcher != nil && m.namesCollide(d.fetcher.spec.names()) {
		// getContents() drops what was fetched and stays uninitialised.
		m.needFail = rLazyCollide
		return false
	}
	d.uninit = false
	m.inited[d] = true
	if d.fetcher != nil {
		// Children are attached in sorted name order (the harness
		// passes sort.Sort as the initial contents sorter).
		children := append([]vdSpecChild(nil), d.fetcher.spec.Children...)
		sort.Slice(children, func(i, j int) bool { return children[i].Name < children[j].Name })
		for _, c := range children {
			var child *mNode
			switch c.Kind {
			case "dir":
				child = m.newDir(d.fetcher.subs[c.Name])
			case "file":
				child = m.newLeaf("file")
				child.content = []byte(c.Tag)
			case "symlink":
				child = m.newSymlink(c.Tag)
			}
			m.attach(d, c.Name, child)
		}
		// Initialisation is not a modification of the directory as
		// seen from outside.
		delete(m.changed, d)
	}
	return true
}

// namesCollide: do two of the names become one under the normaliser?
func (m *mModel) namesCollide(names []string) bool {
	seen := map[string]bool{}
	for _, n := range names {
		if seen[m.norm(n)] {
			return true
		}
		seen[m.norm(n)] = true
	}
	return false
}

// forceEmpty is what removeAllChildren() does to an uninitialised
// directory: it becomes initialised and empty without fetching.
func (m *mModel) forceEmpty(d *mNode) {
	d.uninit = false
	m.inited[d] = true
}

func (m *mModel) isDeletable(d *mNode) bool {
	for _, e := range d.ents {
		if e.child.dir || !e.hidden {
			return false
		}
	}
	return true
}

// markDeleted tombstones an (effectively empty) directory; hidden leaves
// still in it are unlinked.
func (m *mModel) markDeleted(d *mNode) {
	if d.deleted {
		return
	}
	for len(d.ents) > 0 {
		e := d.ents[0]
		m.detach(d, e)
		m.unlink(e.child)
	}
	d.deleted = true
	m.releaseAttrDir(d)
}

// removeAllChildren is the recursive bulk removal.
func (m *mModel) removeAllChildren(d *mNode, deleteSelf bool) {
	if d.uninit {
		m.forceEmpty(d)
		if deleteSelf {
			m.markDeleted(d)
		}
		return
	}
	ents := append([]*mEnt(nil), d.ents...)
	for _, e := range ents {
		m.detach(d, e)
	}
	if deleteSelf {
		m.markDeleted(d)
	}
	for _, e := range ents {
		if e.child.dir {
			m.removeAllChildren(e.child, true)
		} else {
			m.unlink(e.child)
		}
	}
}

func (m *mModel) isAncestorOrSelf(anc, d *mNode) bool {
	for x := d; x != nil; x = x.parent {
		if x == anc {
			return true
		}
	}
	return false
}

// liveDirCount counts directories that are not tombstoned, including the
// ones declared by fetchers that have not run yet.
func (m *mModel) liveDirCount() int {
	n := 0
	for _, d := range m.dirs {
		if d.deleted || d.fsAttr {
			continue
		}
		n++
		if d.uninit && d.fetcher != nil {
			n += d.fetcher.spec.dirCount()
		}
	}
	return n
}

// liveAttrDirCount counts the directories of the named attribute file
// system that are not tombstoned (attribute directories and directories made
// inside them).
func (m *mModel) liveAttrDirCount() int {
	n := 0
	for _, d := range m.dirs {
		if d.fsAttr && !d.deleted {
			n++
		}
	}
	return n
}

// ---- operations. Each returns the set of acceptable result codes (first
// is what the code order yields); effects are applied iff the set is
// exactly {OK}.

func one(code string) []string { return []string{code} }

func (m *mModel) opMkdir(d *mNode, name string) ([]string, *mNode) {
	if !m.need(d) {
		return one(m.needFail), nil
	}
	if d.deleted {
		return one(rNoEnt), nil
	}
	if m.lookup(d, name) != nil {
		return one(rExist), nil
	}
	child := m.newDir(nil)
	m.attach(d, name, child)
	return one(rOK), child
}

// opMknod: kind is "fifo", "socket", "symlink" or "blockdev".
func (m *mModel) opMknod(d *mNode, name, kind, target string, symlinkFails bool) ([]string, *mNode) {
	if !m.need(d) {
		return one(m.needFail), nil
	}
	var errs []string
	if d.deleted {
		errs = append(errs, rNoEnt)
	} else if m.lookup(d, name) != nil {
		errs = append(errs, rExist)
	}
	switch kind {
	case "blockdev":
		errs = append(errs, rPerm)
	case "symlink":
		if symlinkFails {
			errs = append(errs, rIO)
		}
	}
	if len(errs) > 0 {
		return errs, nil
	}
	var child *mNode
	if kind == "symlink" {
		child = m.newSymlink(target)
	} else {
		child = m.newLeaf(kind)
	}
	m.attach(d, name, child)
	return one(rOK), child
}

func (m *mModel) opLink(d *mNode, name string, leaf *mNode) []string {
	if !m.need(d) {
		return one(m.needFail)
	}
	var errs []string
	if d.deleted {
		errs = append(errs, rNoEnt)
	} else if m.lookup(d, name) != nil {
		errs = append(errs, rExist)
	}
	if leaf.nlink == 0 {
		errs = append(errs, rStale)
	}
	if len(errs) > 0 {
		return errs
	}
	leaf.nlink++
	m.attach(d, name, leaf)
	return one(rOK)
}

// opOpen models VirtualOpenChild. create: createAttributes given;
// existing: existingOptions given.
// truncFails: the pool file's Truncate() fails (one-shot injected fault).
func (m *mModel) opOpen(d *mNode, name string, create, existing, truncate, exec, allocFails, truncFails bool) ([]string, *mNode, bool) {
	if !m.need(d) {
		return one(m.needFail), nil, false
	}
	if e := m.lookup(d, name); e != nil {
		if !existing {
			return one(rExist), nil, false
		}
		if e.child.dir {
			return one(rIsDir), nil, false
		}
		if e.child.kind != "file" {
			return one(rSymlink), e.child, false
		}
		if truncate {
			if truncFails {
				return one(rIO), e.child, false
			}
			e.child.content = nil
		}
		return one(rOK), e.child, false
	}
	if d.deleted || !create {
		return one(rNoEnt), nil, false
	}
	if allocFails {
		return one(rIO), nil, false
	}
	child := m.newLeaf("file")
	child.exec = exec
	m.attach(d, name, child)
	return one(rOK), child, true
}

func (m *mModel) opVirtualRemove(d *mNode, name string, rmDir, rmLeaf bool) []string {
	if !m.need(d) {
		return one(m.needFail)
	}
	e := m.lookup(d, name)
	if e == nil {
		return one(rNoEnt)
	}
	if e.child.dir {
		if !rmDir {
			return one(rPerm)
		}
		if !m.need(e.child) {
			return one(m.needFail)
		}
		if !m.isDeletable(e.child) {
			return one(rNotEmpty)
		}
		m.markDeleted(e.child)
	} else {
		if !rmLeaf {
			return one(rNotDir)
		}
		m.unlink(e.child)
	}
	m.detach(d, e)
	return one(rOK)
}

func (m *mModel) opRemoveAll(d *mNode, name string) []string {
	if !m.need(d) {
		return one(m.needFail)
	}
	e := m.lookup(d, name)
	if e == nil {
		return one(rNoEnt)
	}
	m.detach(d, e)
	if e.child.dir {
		m.removeAllChildren(e.child, true)
	} else {
		m.unlink(e.child)
	}
	return one(rOK)
}

type mNewChild struct {
	name string
	node *mNode
}

// opCreateChildren: children must not collide under normalisation.
func (m *mModel) opCreateChildren(d *mNode, children []mNewChild, overwrite bool) []string {
	if !m.need(d) {
		return one(m.needFail)
	}
	if d.deleted {
		return one(rNoEnt)
	}
	var names []string
	for _, c := range children {
		names = append(names, c.name)
	}
	if m.namesCollide(names) {
		return one(rInvalidArg)
	}
	if !overwrite {
		for _, c := range children {
			if m.lookup(d, c.name) != nil {
				return one(rExist)
			}
		}
	}
	var replaced []*mEnt
	for _, c := range children {
		if e := m.lookup(d, c.name); e != nil {
			m.detach(d, e)
			replaced = append(replaced, e)
		}
	}
	sorted := append([]mNewChild(nil), children...)
	sort.Slice(sorted, func(i, j int) bool { return sorted[i].name < sorted[j].name })
	for _, c := range sorted {
		m.attach(d, c.name, c.node)
	}
	for _, e := range replaced {
		if e.child.dir {
			m.removeAllChildren(e.child, true)
		} else {
			m.unlink(e.child)
		}
	}
	return one(rOK)
}

func (m *mModel) opCreateAndEnter(d *mNode, name string) ([]string, *mNode) {
	if !m.need(d) {
		return one(m.needFail), nil
	}
	if e := m.lookup(d, name); e != nil {
		if e.child.dir {
			return one(rOK), e.child
		}
		m.detach(d, e)
		m.unlink(e.child)
		child := m.newDir(nil)
		m.attach(d, name, child)
		return one(rOK), child
	}
	if d.deleted {
		return one(rNoEnt), nil
	}
	child := m.newDir(nil)
	m.attach(d, name, child)
	return one(rOK), child
}

func (m *mModel) opRename(dOld *mNode, oldName string, dNew *mNode, newName string) []string {
	if !m.need(dOld) {
		return one(m.needFail)
	}
	if !m.need(dNew) {
		return one(m.needFail)
	}
	if eNew := m.lookup(dNew, newName); eNew != nil {
		eOld := m.lookup(dOld, oldName)
		if eOld == nil {
			return one(rNoEnt)
		}
		if eNew.child.dir {
			if !eOld.child.dir {
				return one(rIsDir)
			}
			if eNew.child == eOld.child {
				return one(rOK)
			}
			if !m.need(eNew.child) {
				return one(m.needFail)
			}
			if !m.isDeletable(eNew.child) {
				return one(rNotEmpty)
			}
			m.detach(dOld, eOld)
			m.detach(dNew, eNew)
			m.markDeleted(eNew.child)
			m.attach(dNew, newName, eOld.child)
			return one(rOK)
		}
		if eOld.child.dir {
			return one(rNotDir)
		}
		if eNew.child == eOld.child {
			// Two names of one file: POSIX says nothing happens.
			return one(rOK)
		}
		m.detach(dOld, eOld)
		m.detach(dNew, eNew)
		m.unlink(eNew.child)
		m.attach(dNew, newName, eOld.child)
		return one(rOK)
	}
	if dNew.deleted {
		return one(rNoEnt)
	}
	eOld := m.lookup(dOld, oldName)
	if eOld == nil {
		return one(rNoEnt)
	}
	m.detach(dOld, eOld)
	m.attach(dNew, newName, eOld.child)
	return one(rOK)
}

// visibleEnts returns the entries directory listings report.
func (m *mModel) visibleEnts(d *mNode) []*mEnt {
	var out []*mEnt
	for _, e := range d.ents {
		if !e.hidden {
			out = append(out, e)
		}
	}
	return out
}

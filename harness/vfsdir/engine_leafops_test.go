package vfsdir

import (
	"fmt"

	"github.com/buildbarn/bb-remote-execution/pkg/filesystem/virtual"
	"github.com/buildbarn/bb-storage/pkg/filesystem"
	"pgregory.net/rapid"
)

// Calls that do not change the directory tree but do take locks: the
// directory calls InstallHooks, VirtualApply and VirtualSetAttributes, and
// every call of the Leaf interface on pool-backed files, with one-shot
// failures of the pool file underneath. C14's verdict is the lock probe after
// every single call; C13 also compares statuses and file contents.

// ---------------------------------------------------------------- directory calls

func (c *vdCase) opInstallHooks() {
	d := c.pickTreeDir("dir")
	c.noteBulk(d)
	c.begin(vdStep{Op: "InstallHooks", Dir: c.dname(d)})
	// The same allocators, logger, attribute setters and named attributes
	// factory the hierarchy was built with: the call replaces the directory's subtree object but
	// nothing observable changes (the reference tree checks that).
	setter := func(requested virtual.AttributesMask, attributes *virtual.Attributes) {}
	c.real(func() {
		d.realDir.InstallHooks(c.w.files, c.w.links, c.w.logger, setter, c.w.naFactory)
	})
	c.script[len(c.script)-1].Res = rOK
	c.finish()
}

type vdUnknownApply struct{}

func (c *vdCase) opDirApply() {
	d := c.pickDir("dir")
	c.noteBulk(d)
	known := rapid.IntRange(0, 3).Draw(c.rt, "unknown_payload") != 0
	c.begin(vdStep{Op: "VirtualApply", Dir: c.dname(d), Arg: fmt.Sprintf("payload_known_to_fetcher=%v", known)})
	probe := &vdApplyProbe{}
	var data any = vdUnknownApply{}
	if known {
		data = probe
	}
	// The call is forwarded to the InitialContentsFetcher of a directory
	// that has not been initialised; it never initialises the directory.
	want := d.uninit && d.fetcher != nil && known
	var got bool
	c.real(func() { got = d.realDir.VirtualApply(data) })
	c.script[len(c.script)-1].Res = fmt.Sprint(got)
	if got != want {
		c.failModel("VirtualApply(%s) returned %v, the reference tree says %v (uninitialised=%v, has fetcher=%v)", c.dname(d), got, want, d.uninit, d.fetcher != nil)
	}
	if want && (probe.seenBy != d.fetcher || probe.calls != 1) {
		c.failModel("VirtualApply(%s) reached another directory's InitialContentsFetcher, or was delivered %d times", c.dname(d), probe.calls)
	}
	if want {
		c.labels["apply_reached_fetcher"] = true
	}
	c.finish()
}

func (c *vdCase) opDirSetAttributes() {
	d := c.pickDir("dir")
	variant := rapid.SampledFrom([]string{"size", "owner_user", "owner_group", "permissions", "mtime", "nothing"}).Draw(c.rt, "variant")
	locked := rapid.Bool().Draw(c.rt, "locked_attributes")
	in := &virtual.Attributes{}
	want := one(rOK)
	switch variant {
	case "size":
		in.SetSizeBytes(uint64(rapid.IntRange(0, 8).Draw(c.rt, "size")))
		// POSIX: truncate() of a directory is EISDIR; the code says EINVAL.
		want = []string{rInval, rIsDir}
	case "owner_user":
		in.SetOwnerUserID(1000)
		want = one(rPerm)
	case "owner_group":
		in.SetOwnerGroupID(1000)
		want = one(rPerm)
	case "permissions":
		in.SetPermissions(virtual.PermissionsRead | virtual.PermissionsExecute)
	case "mtime":
		in.SetLastDataModificationTime(c.w.clock.now)
	}
	mask := virtual.AttributesMaskFileType | virtual.AttributesMaskInodeNumber
	if locked {
		mask |= virtual.AttributesMaskChangeID | virtual.AttributesMaskLastDataModificationTime
	}
	c.begin(vdStep{Op: "VirtualSetAttributes", Dir: c.dname(d), Arg: fmt.Sprintf("%s mask=%d", variant, mask)})
	pre := c.changeID(d)
	var out virtual.Attributes
	var st virtual.Status
	c.real(func() { st = d.realDir.VirtualSetAttributes(c.w.ctx, in, mask, &out) })
	if c.checkResult("VirtualSetAttributes(directory)", want, vdStatusName(st), true) {
		if out.GetFileType() != filesystem.FileTypeDirectory {
			c.failModel("VirtualSetAttributes(%s) reports file type %v", c.dname(d), out.GetFileType())
		}
		if locked && out.GetChangeID() != pre {
			c.failModel("VirtualSetAttributes(%s) reports change ID %d, the directory's change ID is %d", c.dname(d), out.GetChangeID(), pre)
		}
	}
	c.finish()
}

// ---------------------------------------------------------------- leaf calls

// pickFileLeaf chooses a pool-backed regular file whose real object is
// known; files that have been unlinked everywhere (and are closed, since no
// open outlives a step) are chosen on purpose now and then.
func (c *vdCase) pickFileLeaf(label string) *mNode {
	var live, dead []*mNode
	for _, l := range c.m.leaves {
		if l.kind != "file" || l.realLeaf == nil {
			continue
		}
		if l.nlink > 0 {
			live = append(live, l)
		} else {
			dead = append(dead, l)
		}
	}
	if len(dead) > 0 && rapid.IntRange(0, 9).Draw(c.rt, label+"_unlinked") < 2 {
		return dead[rapid.IntRange(0, len(dead)-1).Draw(c.rt, label)]
	}
	if len(live) == 0 {
		return nil
	}
	return live[rapid.IntRange(0, len(live)-1).Draw(c.rt, label)]
}

// drawFault draws a one-shot failure of the named pool file method (one
// call in three fails).
func (c *vdCase) drawFault(op string, maxShort int) vdIOFault {
	if rapid.IntRange(0, 2).Draw(c.rt, "fault_"+op) != 0 {
		return vdIOFault{}
	}
	f := vdIOFault{Op: op}
	if maxShort > 0 {
		f.Short = rapid.IntRange(0, maxShort).Draw(c.rt, "short_"+op)
	}
	return f
}

func vdFaultText(f vdIOFault) string {
	if f.Op == "" {
		return "-"
	}
	return fmt.Sprintf("%s-fails(after %d bytes)", f.Op, f.Short)
}

// leafCall runs one call on a leaf with the fault armed, and reports whether
// the fault was hit. The caller judges the result and then calls leafDone().
func (c *vdCase) leafCall(st vdStep, fault vdIOFault, f func()) bool {
	c.begin(st)
	c.w.pool.arm = fault
	c.real(f)
	hit := fault.Op != "" && c.w.pool.arm.Op == ""
	c.w.pool.arm = vdIOFault{}
	if hit {
		c.labels["pool_file_fault_hit"] = true
	}
	return hit
}

// leafDone is the cheap part of finish(): problems noticed by fakes and the
// lock probes, after every single leaf call.
func (c *vdCase) leafDone() {
	if len(c.w.problems) > 0 {
		p := c.w.problems[0]
		c.w.problems = nil
		c.failModel("%s", p)
	}
	c.probeLocks("")
}

func (c *vdCase) leafDesc(n *mNode) string {
	return fmt.Sprintf("leaf#%d nlink=%d size=%d", n.leafIdx, n.nlink, len(n.content))
}

func vdResize(content []byte, size int) []byte {
	if size <= len(content) {
		return content[:size:size]
	}
	return append(content[:len(content):len(content)], make([]byte, size-len(content))...)
}

const vdLeafMask = virtual.AttributesMaskFileType | virtual.AttributesMaskSizeBytes | virtual.AttributesMaskPermissions | virtual.AttributesMaskChangeID | virtual.AttributesMaskLinkCount

func (c *vdCase) checkLeafAttrs(fn string, n *mNode, attr *virtual.Attributes) {
	if size, ok := attr.GetSizeBytes(); !ok || size != uint64(len(n.content)) {
		c.failModel("%s reports size %d, the reference tree says %d", fn, size, len(n.content))
	}
	if perm, ok := attr.GetPermissions(); !ok || (perm&virtual.PermissionsExecute != 0) != n.exec {
		c.failModel("%s reports permissions %v, the reference tree says executable=%v", fn, perm, n.exec)
	}
}

// leafSetAttributes issues one VirtualSetAttributes on a regular file. alive:
// the file still has a link (or is open), so its pool file exists.
func (c *vdCase) leafSetAttributes(n *mNode) {
	variant := rapid.SampledFrom([]string{"size", "size", "permissions", "owner_user", "owner_group", "nothing"}).Draw(c.rt, "setattr")
	in := &virtual.Attributes{}
	fault := vdIOFault{}
	size := 0
	exec := n.exec
	switch variant {
	case "size":
		size = rapid.IntRange(0, 12).Draw(c.rt, "size")
		in.SetSizeBytes(uint64(size))
		fault = c.drawFault("truncate", 0)
	case "permissions":
		exec = rapid.Bool().Draw(c.rt, "exec")
		perm := virtual.PermissionsRead | virtual.PermissionsWrite
		if exec {
			perm |= virtual.PermissionsExecute
		}
		in.SetPermissions(perm)
	case "owner_user":
		in.SetOwnerUserID(1000)
	case "owner_group":
		in.SetOwnerGroupID(1000)
	}
	var out virtual.Attributes
	var st virtual.Status
	hit := c.leafCall(vdStep{Op: "Leaf.VirtualSetAttributes", Arg: fmt.Sprintf("%s %s size=%d exec=%v fault=%s", c.leafDesc(n), variant, size, exec, vdFaultText(fault))}, fault, func() {
		st = n.realLeaf.VirtualSetAttributes(c.w.ctx, in, vdLeafMask, &out)
	})
	want := rOK
	switch {
	case variant == "owner_user" || variant == "owner_group":
		want = rPerm
	case variant == "size" && n.nlink == 0:
		// The pool file is gone once the last reference was dropped.
		want = rStale
	case hit:
		want = rIO
	}
	if c.checkResult("Leaf.VirtualSetAttributes", one(want), vdStatusName(st), true) {
		switch variant {
		case "size":
			n.content = vdResize(n.content, size)
		case "permissions":
			n.exec = exec
		}
		c.checkLeafAttrs("Leaf.VirtualSetAttributes", n, &out)
	}
	c.leafDone()
}

func (c *vdCase) opLeafSetAttributes() {
	n := c.pickFileLeaf("leaf")
	if n == nil {
		// No linked file yet: make one rather than waste the step.
		c.opOpen()
		return
	}
	c.leafSetAttributes(n)
	c.finish()
}

// opLeafSession opens a regular file (also with share masks no front end
// would send: none at all, unknown bits), issues one to four calls the share
// mask permits, each with a possible one-shot failure of the pool file, and
// closes it again. Locks are probed after every single call.
func (c *vdCase) opLeafSession() {
	n := c.pickFileLeaf("leaf")
	if n == nil {
		// No linked file yet: make one rather than waste the step.
		c.opOpen()
		return
	}
	const r, w = virtual.ShareMaskRead, virtual.ShareMaskWrite
	share := rapid.SampledFrom([]virtual.ShareMask{r, w, r | w, r | w, 0, 4, 7}).Draw(c.rt, "share")
	trunc := rapid.IntRange(0, 3).Draw(c.rt, "truncate") == 0
	fault := vdIOFault{}
	if trunc {
		fault = c.drawFault("truncate", 0)
	}
	if share == 0 || share > 3 {
		c.labels["open_with_unusual_share_mask"] = true
	}
	var attr virtual.Attributes
	var st virtual.Status
	hit := c.leafCall(vdStep{Op: "VirtualOpenSelf", Arg: fmt.Sprintf("%s share=%d truncate=%v fault=%s", c.leafDesc(n), share, trunc, vdFaultText(fault))}, fault, func() {
		st = n.realLeaf.VirtualOpenSelf(c.w.ctx, share, &virtual.OpenExistingOptions{Truncate: trunc}, vdLeafMask, &attr)
	})
	want := rOK
	switch {
	case n.nlink == 0:
		want = rStale
	case hit:
		want = rIO
	}
	opened := c.checkResult("VirtualOpenSelf", one(want), vdStatusName(st), true)
	if opened {
		if trunc {
			n.content = nil
		}
		c.checkLeafAttrs("VirtualOpenSelf", n, &attr)
	}
	c.leafDone()
	if !opened {
		c.finish()
		return
	}
	calls := []string{"setattr"}
	if share&r != 0 {
		calls = append(calls, "read", "read", "seek", "seek")
	}
	if share&w != 0 {
		calls = append(calls, "write", "write", "allocate", "allocate")
	}
	for i, k := 0, rapid.IntRange(1, 4).Draw(c.rt, "calls"); i < k; i++ {
		switch rapid.SampledFrom(calls).Draw(c.rt, "call") {
		case "setattr":
			c.leafSetAttributes(n)
		case "read":
			c.leafRead(n)
		case "seek":
			c.leafSeek(n)
		case "write":
			c.leafWrite(n)
		case "allocate":
			c.leafAllocate(n)
		}
	}
	c.begin(vdStep{Op: "VirtualClose", Arg: fmt.Sprintf("%s share=%d", c.leafDesc(n), share)})
	c.real(func() { n.realLeaf.VirtualClose(share) })
	c.script[len(c.script)-1].Res = rOK
	c.finish()
}

func (c *vdCase) leafRead(n *mNode) {
	length := rapid.IntRange(1, 16).Draw(c.rt, "read_len")
	off := rapid.IntRange(0, 12).Draw(c.rt, "read_off")
	fault := c.drawFault("read", 0)
	buf := make([]byte, length)
	var got int
	var eof bool
	var st virtual.Status
	hit := c.leafCall(vdStep{Op: "VirtualRead", Arg: fmt.Sprintf("%s off=%d len=%d fault=%s", c.leafDesc(n), off, length, vdFaultText(fault))}, fault, func() {
		got, eof, st = n.realLeaf.VirtualRead(c.w.ctx, buf, uint64(off))
	})
	want := rOK
	if hit {
		want = rIO
	}
	if c.checkResult("VirtualRead", one(want), vdStatusName(st), true) {
		wantN, wantEOF := 0, true
		if off < len(n.content) {
			wantN = len(n.content) - off
			if length < wantN {
				wantN, wantEOF = length, false
			}
		}
		if got != wantN || eof != wantEOF || string(buf[:got]) != string(n.content[min(off, len(n.content)):min(off, len(n.content))+wantN]) {
			c.failModel("VirtualRead(off=%d,len=%d) returned %q n=%d eof=%v, the reference tree's file holds %q", off, length, buf[:got], got, eof, n.content)
		}
	}
	c.leafDone()
}

func (c *vdCase) leafSeek(n *mNode) {
	off := rapid.IntRange(0, 12).Draw(c.rt, "seek_off")
	region := rapid.SampledFrom([]filesystem.RegionType{filesystem.Data, filesystem.Hole}).Draw(c.rt, "region")
	fault := c.drawFault("seek", 0)
	var res *uint64
	var st virtual.Status
	hit := c.leafCall(vdStep{Op: "VirtualSeek", Arg: fmt.Sprintf("%s off=%d region=%d fault=%s", c.leafDesc(n), off, region, vdFaultText(fault))}, fault, func() {
		res, st = n.realLeaf.VirtualSeek(c.w.ctx, uint64(off), region)
	})
	want := rOK
	switch {
	case off >= len(n.content):
		want = rNXIO
	case hit:
		want = rIO
	}
	if c.checkResult("VirtualSeek", one(want), vdStatusName(st), true) {
		// The in-memory pool file has no holes: data starts right here,
		// the next hole is the end of the file.
		wantOff := uint64(off)
		if region == filesystem.Hole {
			wantOff = uint64(len(n.content))
		}
		if res == nil || *res != wantOff {
			c.failModel("VirtualSeek(off=%d, region=%d) returned %v, expected %d", off, region, res, wantOff)
		}
	}
	c.leafDone()
}

func (c *vdCase) leafWrite(n *mNode) {
	data := []byte(c.nextTag())
	off := rapid.IntRange(0, 6).Draw(c.rt, "write_off")
	fault := c.drawFault("write", len(data)-1)
	var got int
	var st virtual.Status
	hit := c.leafCall(vdStep{Op: "VirtualWrite", Arg: fmt.Sprintf("%s off=%d data=%s fault=%s", c.leafDesc(n), off, data, vdFaultText(fault))}, fault, func() {
		got, st = n.realLeaf.VirtualWrite(c.w.ctx, data, uint64(off))
	})
	want, wantN := rOK, len(data)
	if hit {
		want, wantN = rIO, fault.Short
	}
	c.checkResult("VirtualWrite", one(want), vdStatusName(st), true)
	if got != wantN {
		c.failModel("VirtualWrite returned n=%d, the pool file took %d bytes", got, wantN)
	}
	// Whatever the pool file took is part of the file now.
	if wantN > 0 {
		if len(n.content) < off+wantN {
			n.content = vdResize(n.content, off+wantN)
		} else {
			n.content = append([]byte(nil), n.content...)
		}
		copy(n.content[off:], data[:wantN])
	}
	c.leafDone()
}

func (c *vdCase) leafAllocate(n *mNode) {
	off := rapid.IntRange(0, 8).Draw(c.rt, "alloc_off")
	size := rapid.IntRange(0, 8).Draw(c.rt, "alloc_size")
	fault := c.drawFault("truncate", 0)
	var st virtual.Status
	hit := c.leafCall(vdStep{Op: "VirtualAllocate", Arg: fmt.Sprintf("%s off=%d size=%d fault=%s", c.leafDesc(n), off, size, vdFaultText(fault))}, fault, func() {
		st = n.realLeaf.VirtualAllocate(c.w.ctx, uint64(off), uint64(size))
	})
	want := rOK
	if hit {
		want = rIO
	}
	if c.checkResult("VirtualAllocate", one(want), vdStatusName(st), true) && len(n.content) < off+size {
		n.content = vdResize(n.content, off+size)
	}
	c.leafDone()
}

package vfsdir

import (
	"encoding/json"
	"fmt"
	"sort"
	"syscall"

	"github.com/buildbarn/bb-remote-execution/pkg/filesystem/virtual"
	"github.com/buildbarn/bb-storage/pkg/filesystem"
	"github.com/buildbarn/bb-storage/pkg/filesystem/path"
	"pgregory.net/rapid"
)

// ---------------------------------------------------------------- worker-facing bulk calls

func (c *vdCase) noteBulk(d *mNode) {
	if d.deleted || d.uninit {
		c.sawDeletedBulk = true
	}
}

// drawSpec draws the declared contents of a lazily populated directory.
func (c *vdCase) drawSpec(depth int, dirBudget *int) *vdSpec {
	spec := &vdSpec{Failing: rapid.IntRange(0, 3).Draw(c.rt, "fetcher_fails") == 0}
	n := rapid.IntRange(0, 3).Draw(c.rt, "lazy_children")
	used := map[string]bool{}
	for i := 0; i < n; i++ {
		name := rapid.SampledFrom(c.alphabet).Draw(c.rt, "lazy_name")
		if used[name] {
			continue
		}
		if used["~"+c.m.norm(name)] && rapid.IntRange(0, 2).Draw(c.rt, "lazy_collision") != 0 {
			// Two spellings of one name (case-insensitive normaliser): kept
			// one time in three; the directory then rejects what its
			// fetcher returns (InvalidArgument) and stays uninitialised.
			continue
		}
		used[name] = true
		used["~"+c.m.norm(name)] = true
		kind := rapid.SampledFrom([]string{"file", "file", "symlink", "dir"}).Draw(c.rt, "lazy_kind")
		ch := vdSpecChild{Name: name, Kind: kind}
		switch kind {
		case "dir":
			if depth <= 0 || *dirBudget <= 0 {
				ch.Kind = "file"
				ch.Tag = c.nextTag()
			} else {
				*dirBudget--
				ch.Sub = c.drawSpec(depth-1, dirBudget)
			}
		case "file":
			ch.Tag = c.nextTag()
		case "symlink":
			ch.Tag = c.nextTarget()
		}
		spec.Children = append(spec.Children, ch)
	}
	return spec
}

func (c *vdCase) opCreateChildren() {
	d := c.pickTreeDir("dir")
	overwrite := rapid.Bool().Draw(c.rt, "overwrite")
	n := rapid.IntRange(1, 3).Draw(c.rt, "children")
	var names []string
	used := map[string]bool{}
	for i := 0; i < n; i++ {
		name := c.pickName(d, "child_name")
		if used[name] {
			// The same spelling twice cannot be expressed (map keys).
			continue
		}
		if used["~"+c.m.norm(name)] && rapid.Bool().Draw(c.rt, "skip_collision") {
			continue
		}
		if used["~"+c.m.norm(name)] {
			// Two spellings of one name: CreateChildren documents an
			// InvalidArgument error and changes nothing.
			c.labels["create_children_colliding_names"] = true
		}
		used[name] = true
		used["~"+c.m.norm(name)] = true
		names = append(names, name)
	}
	if len(names) == 0 {
		return
	}
	c.createChildren(d, overwrite, names, []string{"dir", "dir", "file", "symlink"})
}

// opWideFill (wide profile) adds 4-12 names that a directory does not have
// yet in one CreateChildren call, so that one directory reaches 12-16
// entries. Of two candidate directories the fuller one is filled.
func (c *vdCase) opWideFill() {
	d := c.pickTreeDir("dir")
	if d2 := c.pickTreeDir("dir_alt"); !d2.deleted && !d2.uninit && (d.deleted || d.uninit || len(d2.ents) > len(d.ents)) {
		d = d2
	}
	var absent []string
	used := map[string]bool{}
	for _, name := range c.alphabet {
		if used[c.m.norm(name)] || (!d.uninit && c.m.lookup(d, name) != nil) {
			continue
		}
		used[c.m.norm(name)] = true
		absent = append(absent, name)
	}
	if len(absent) == 0 {
		return
	}
	lo := 4
	if len(absent) < lo {
		lo = len(absent)
	}
	hi := len(absent)
	if hi > 12 {
		hi = 12
	}
	k := rapid.IntRange(lo, hi).Draw(c.rt, "fill_count")
	// A generated subset of the absent names: drop len-k of them.
	for len(absent) > k {
		i := rapid.IntRange(0, len(absent)-1).Draw(c.rt, "fill_drop")
		absent = append(absent[:i:i], absent[i+1:]...)
	}
	c.createChildren(d, false, absent, []string{"file", "file", "symlink", "symlink", "dir"})
}

func (c *vdCase) createChildren(d *mNode, overwrite bool, names []string, kinds []string) {
	budget := 6 - c.m.liveDirCount()
	type newChild struct {
		name string
		kind string
		spec *vdSpec
		node *mNode
		leaf virtual.LinkableLeaf
	}
	var kids []newChild
	for _, name := range names {
		kind := rapid.SampledFrom(kinds).Draw(c.rt, "child_kind")
		k := newChild{name: name, kind: kind}
		if kind == "dir" {
			if budget <= 0 {
				k.kind = "file"
			} else {
				budget--
				k.spec = c.drawSpec(1, &budget)
			}
		}
		kids = append(kids, k)
	}
	c.noteDirUse(d, true)
	c.noteBulk(d)
	arg := fmt.Sprintf("overwrite=%v", overwrite)
	real := map[path.Component]virtual.InitialChild{}
	var mkids []mNewChild
	for i := range kids {
		k := &kids[i]
		switch k.kind {
		case "dir":
			f := newVdFetcher(c.w, k.spec)
			k.node = c.m.newDir(f)
			real[comp(k.name)] = virtual.InitialChild{}.FromDirectory(f)
			arg += fmt.Sprintf(" %s=dir%s", k.name, vdSpecText(k.spec))
		case "file":
			tag := c.nextTag()
			k.node = c.m.newLeaf("file")
			k.node.content = []byte(tag)
			c.real(func() { k.leaf = c.w.newFileLeaf([]byte(tag)) })
			k.node.realLeaf = k.leaf
			c.fileLeaves = append(c.fileLeaves, k.leaf)
			real[comp(k.name)] = virtual.InitialChild{}.FromLeaf(k.leaf)
			arg += fmt.Sprintf(" %s=file(%s)", k.name, tag)
		case "symlink":
			target := c.nextTarget()
			k.node = c.m.newSymlink(target)
			c.real(func() { k.leaf = c.w.newSymlinkLeaf(target) })
			c.setRealLeaf("the symlink factory", k.node, k.leaf)
			real[comp(k.name)] = virtual.InitialChild{}.FromLeaf(k.leaf)
			arg += fmt.Sprintf(" %s=symlink(%s)", k.name, target)
		}
		mkids = append(mkids, mNewChild{name: k.name, node: k.node})
	}
	c.begin(vdStep{Op: "CreateChildren", Dir: c.dname(d), Arg: arg})
	want := c.m.opCreateChildren(d, mkids, overwrite)
	var err error
	c.real(func() { err = d.realDir.CreateChildren(real, overwrite) })
	if !c.checkResult("CreateChildren", want, vdErrName(err), false) {
		// The call did not take ownership: the caller drops its leaves,
		// and the directories never come to exist.
		for i := range kids {
			k := &kids[i]
			if k.leaf != nil {
				c.real(func() { k.leaf.Unlink() })
				c.m.unlink(k.node)
			} else {
				k.node.deleted = true
				k.node.uninit = false
			}
		}
	}
	c.finish()
}

func (c *vdCase) opCreateAndEnter() {
	d := c.pickTreeDir("dir")
	name := c.pickName(d, "name")
	if !d.deleted && c.m.liveDirCount() >= 6 {
		if e := c.m.lookup(d, name); d.uninit || e == nil || !e.child.dir {
			c.rec.Exclude("CreateAndEnterPrepopulatedDirectory skipped: the case already has 6 live directories (size bound)")
			return
		}
	}
	c.noteDirUse(d, true)
	c.noteBulk(d)
	c.begin(vdStep{Op: "CreateAndEnterPrepopulatedDirectory", Dir: c.dname(d), Name: name})
	want, child := c.m.opCreateAndEnter(d, name)
	var rd virtual.PrepopulatedDirectory
	var err error
	c.real(func() { rd, err = d.realDir.CreateAndEnterPrepopulatedDirectory(comp(name)) })
	if c.checkResult("CreateAndEnterPrepopulatedDirectory", want, vdErrName(err), false) {
		if rd == nil {
			c.failModel("CreateAndEnterPrepopulatedDirectory returned nil without an error")
		}
		c.register(child, rd)
	}
	c.finish()
}

func (c *vdCase) opLookups() {
	d := c.pickTreeDir("dir")
	which := rapid.SampledFrom([]string{"LookupChild", "LookupAllChildren", "ReadDir"}).Draw(c.rt, "which")
	name := ""
	if which == "LookupChild" {
		name = c.pickName(d, "name")
	}
	c.noteBulk(d)
	c.begin(vdStep{Op: which, Dir: c.dname(d), Name: name})
	want := one(rOK)
	if !c.m.need(d) {
		want = one(c.m.needFail)
	} else if which == "LookupChild" && c.m.lookup(d, name) == nil {
		want = one(rNoEnt)
	}
	var err error
	c.real(func() {
		switch which {
		case "LookupChild":
			_, err = d.realDir.LookupChild(comp(name))
		case "LookupAllChildren":
			_, _, err = d.realDir.LookupAllChildren()
		case "ReadDir":
			var infos []filesystem.FileInfo
			infos, err = d.realDir.ReadDir()
			_ = infos
		}
	})
	// The values returned are compared by finish() (compareDir).
	c.checkResult(which, want, vdErrName(err), false)
	c.finish()
}

func (c *vdCase) opRemove() {
	d := c.pickTreeDir("dir")
	name := c.pickName(d, "name")
	all := rapid.Bool().Draw(c.rt, "recursive")
	c.noteDirUse(d, false)
	c.noteBulk(d)
	fn := "Remove"
	if all {
		fn = "RemoveAll"
	}
	c.begin(vdStep{Op: fn, Dir: c.dname(d), Name: name})
	var want []string
	if all {
		want = c.m.opRemoveAll(d, name)
	} else {
		want = c.m.opVirtualRemove(d, name, true, true)
	}
	var err error
	c.real(func() {
		if all {
			err = d.realDir.RemoveAll(comp(name))
		} else {
			err = d.realDir.Remove(comp(name))
		}
	})
	if err == syscall.ENOTEMPTY {
		c.sawRemoveHard = true
	}
	c.checkResult(fn, want, vdErrName(err), false)
	c.finish()
}

func (c *vdCase) opRemoveAllChildren() {
	d := c.pickTreeDir("dir")
	deleteSelf := rapid.IntRange(0, 3).Draw(c.rt, "forbid_new_children") == 0
	if deleteSelf && d == c.m.root && rapid.IntRange(0, 2).Draw(c.rt, "really_root") != 0 {
		deleteSelf = false
	}
	c.noteBulk(d)
	c.begin(vdStep{Op: "RemoveAllChildren", Dir: c.dname(d), Arg: fmt.Sprintf("forbidNewChildren=%v", deleteSelf)})
	c.m.removeAllChildren(d, deleteSelf)
	var err error
	c.real(func() { err = d.realDir.RemoveAllChildren(deleteSelf) })
	c.checkResult("RemoveAllChildren", one(rOK), vdErrName(err), false)
	c.finish()
}

// ---------------------------------------------------------------- FilterChildren

type vdFilterItem struct {
	d       *mNode // containing directory (leaf) or the uninitialised directory itself
	e       *mEnt  // leaf entry; nil for directories
	matched bool
}

type vdSavedRemover struct {
	remove virtual.ChildRemover
	d      *mNode
	name   string // leaf name; "" for "remove all children of d"
	desc   string
}

func (c *vdCase) filterExpected(d *mNode, out *[]*vdFilterItem) {
	if d.uninit {
		*out = append(*out, &vdFilterItem{d: d})
		return
	}
	for _, e := range d.ents {
		if !e.child.dir {
			*out = append(*out, &vdFilterItem{d: d, e: e})
		}
	}
	for _, e := range d.ents {
		if e.child.dir {
			c.filterExpected(e.child, out)
		}
	}
}

func (c *vdCase) opFilterChildren() {
	d := c.pickTreeDir("dir")
	c.noteBulk(d)
	c.begin(vdStep{Op: "FilterChildren", Dir: c.dname(d)})
	var expected []*vdFilterItem
	c.filterExpected(d, &expected)
	stopped := false
	log := ""
	callback := func(child virtual.InitialChild, remove virtual.ChildRemover) bool {
		if stopped {
			c.failModel("FilterChildren called the filter again after it had returned false")
		}
		// No lock may be held while the filter runs: the remover takes
		// the directory lock itself.
		c.probeLocks("inside the FilterChildren callback ")
		fetcher, leaf := child.GetPair()
		var item *vdFilterItem
		var cands []*vdFilterItem
		for _, it := range expected {
			if it.matched {
				continue
			}
			if fetcher != nil && it.e == nil {
				if it.d.fetcher != nil && virtual.InitialContentsFetcher(it.d.fetcher) == fetcher ||
					it.d.fetcher == nil && fetcher == virtual.EmptyInitialContentsFetcher {
					cands = append(cands, it)
				}
			} else if fetcher == nil && it.e != nil && it.e.child.realLeaf == virtual.Leaf(leaf) {
				cands = append(cands, it)
			}
		}
		if len(cands) == 0 {
			c.failModel("FilterChildren reported a child (directory=%v) that the reference tree does not have below %s, or reported it twice", fetcher != nil, c.dname(d))
		}
		item = cands[0]
		action := rapid.SampledFrom([]string{"keep", "keep", "keep", "remove", "remove", "save", "stop"}).Draw(c.rt, "filter_action")
		if item.e == nil && item.d.fetcher == nil && action != "stop" {
			// Directories created empty all carry the same
			// EmptyInitialContentsFetcher and cannot be told apart:
			// their removers are left alone.
			action = "keep"
		}
		if len(cands) > 1 && action == "save" {
			action = "keep"
		}
		item.matched = true
		switch action {
		case "remove":
			var err error
			c.real(func() { err = remove() })
			if err != nil {
				c.failModel("the remover handed to the FilterChildren callback failed: %v", err)
			}
			if item.e == nil {
				c.m.removeAllChildren(item.d, false)
				log += fmt.Sprintf(" clear(d#%d)", item.d.id)
			} else {
				// Hard links: find out which of the candidate
				// entries the remover was for.
				var gone *vdFilterItem
				for _, it := range cands {
					var pc virtual.PrepopulatedDirectoryChild
					var lerr error
					c.real(func() { pc, lerr = it.d.realDir.LookupChild(comp(it.e.name)) })
					_, pl := pc.GetPair()
					if lerr == syscall.ENOENT || lerr == nil && virtual.Leaf(pl) != it.e.child.realLeaf {
						if gone != nil {
							c.failModel("one remover removed more than one entry")
						}
						gone = it
					}
				}
				if gone == nil {
					c.failModel("the remover returned nil but no entry of the file disappeared")
				}
				item.matched = false
				gone.matched = true
				c.m.detach(gone.d, gone.e)
				c.m.unlink(gone.e.child)
				log += fmt.Sprintf(" rm(%s/%s)", c.dname(gone.d), gone.e.name)
			}
		case "save":
			sr := &vdSavedRemover{remove: remove, d: item.d}
			if item.e != nil {
				sr.name = item.e.name
				sr.desc = fmt.Sprintf("Remove(d#%d,%q)", item.d.id, sr.name)
			} else {
				sr.desc = fmt.Sprintf("RemoveAllChildren(d#%d,false)", item.d.id)
			}
			c.removers = append(c.removers, sr)
			log += " save:" + sr.desc
		case "stop":
			stopped = true
			log += " stop"
			return false
		}
		return true
	}
	var err error
	c.real(func() { err = d.realDir.FilterChildren(callback) })
	c.script[len(c.script)-1].Arg = log
	c.checkResult("FilterChildren", one(rOK), vdErrName(err), false)
	if !stopped {
		for _, it := range expected {
			if !it.matched && !(it.e != nil && it.e.hidden) {
				what := "uninitialised directory"
				if it.e != nil {
					what = "leaf " + it.e.name
				}
				c.failModel("FilterChildren(%s) ran to the end but never reported %s of directory node %d", c.dname(d), what, it.d.id)
			}
		}
	}
	c.finish()
}

func (c *vdCase) opInvokeRemover() {
	if len(c.removers) == 0 {
		return
	}
	i := rapid.IntRange(0, len(c.removers)-1).Draw(c.rt, "remover")
	sr := c.removers[i]
	c.removers = append(c.removers[:i:i], c.removers[i+1:]...)
	c.noteBulk(sr.d)
	c.begin(vdStep{Op: "saved remover", Dir: c.dname(sr.d), Arg: sr.desc})
	var want []string
	if sr.name == "" {
		c.m.removeAllChildren(sr.d, false)
		want = one(rOK)
	} else {
		want = c.m.opVirtualRemove(sr.d, sr.name, true, true)
	}
	var err error
	c.real(func() { err = sr.remove() })
	c.checkResult("ChildRemover", want, vdErrName(err), false)
	c.finish()
}

// ---------------------------------------------------------------- paginated listings

type vdCurItem struct {
	eid    int
	cookie uint64
}

type vdCursor struct {
	id        int
	d         *mNode
	page      int
	mask      virtual.AttributesMask
	start     int
	pos       uint64
	hist      []vdCurItem
	pages     int
	mutAtLast int
	mixed     bool
	maxSeen   int // largest number of visible entries the directory had at one of the pages
}

func (c *vdCase) opCursorOpen() {
	maxCursors := 3
	pages := []int{1, 1, 2, 3}
	if c.profile == "wide" {
		// 1000 stands for "all": no directory has that many entries.
		maxCursors = 4
		pages = []int{1, 2, 3, 4, 5, 6, 7, 8, 1000}
	}
	if len(c.cursors) >= maxCursors {
		return
	}
	// Of two candidate directories the fuller one is listed, so that
	// listings usually need several pages.
	d := c.pickDir("dir")
	if d2 := c.pickDir("dir_alt"); len(c.m.visibleEnts(d2)) > len(c.m.visibleEnts(d)) {
		d = d2
	}
	c.m.beginCall()
	cur := &vdCursor{id: c.nextCur, d: d, page: rapid.SampledFrom(pages).Draw(c.rt, "page_size"), start: c.m.tick}
	cur.mask = virtual.AttributesMaskFileType | virtual.AttributesMaskInodeNumber | virtual.AttributesMaskLinkCount
	if rapid.Bool().Draw(c.rt, "locked_attributes") {
		cur.mask |= virtual.AttributesMaskChangeID
	}
	c.nextCur++
	c.cursors = append(c.cursors, cur)
	c.script = append(c.script, vdStep{Op: "open listing", Dir: c.dname(d), Arg: fmt.Sprintf("cursor#%d page=%d mask=%d", cur.id, cur.page, cur.mask)})
}

type vdPageReporter struct {
	c        *vdCase
	cur      *vdCursor
	accepted int
	refused  bool
	log      string
}

func (r *vdPageReporter) ReportEntry(nextCookie uint64, name path.Component, child virtual.DirectoryChild, attributes *virtual.Attributes) bool {
	c, cur := r.c, r.cur
	if r.refused {
		c.failModel("VirtualReadDir kept reporting after the reporter returned false")
	}
	if r.accepted == cur.page {
		r.refused = true
		return false
	}
	var e *mEnt
	for _, x := range cur.d.ents {
		if x.name == name.String() {
			e = x
		}
	}
	if e == nil {
		c.failModel("listing cursor#%d of %s reported %q, which is not in the directory now", cur.id, c.dname(cur.d), name.String())
	}
	if e.hidden {
		c.failModel("listing cursor#%d of %s reported hidden file %q", cur.id, c.dname(cur.d), name.String())
	}
	c.checkListedEntry(cur.d, vdListed{name: name.String(), child: child, attrs: *attributes}, map[uint64]*mNode{})
	if nextCookie <= cur.pos {
		c.failModel("listing cursor#%d of %s: cookie %d of %q does not exceed the resume cookie %d", cur.id, c.dname(cur.d), nextCookie, name.String(), cur.pos)
	}
	for _, h := range cur.hist {
		if h.eid == e.eid {
			c.failModel("listing cursor#%d of %s reported entry %q twice (same incarnation)", cur.id, c.dname(cur.d), e.name)
		}
	}
	cur.hist = append(cur.hist, vdCurItem{eid: e.eid, cookie: nextCookie})
	cur.pos = nextCookie
	r.accepted++
	r.log += " " + e.name
	return true
}

func (c *vdCase) opCursorNext() {
	if len(c.cursors) == 0 {
		return
	}
	i := rapid.IntRange(0, len(c.cursors)-1).Draw(c.rt, "cursor")
	cur := c.cursors[i]
	d := cur.d
	rewindShare := 1
	if c.profile == "wide" {
		rewindShare = 3
	}
	if rapid.IntRange(0, 9).Draw(c.rt, "rewind") < rewindShare && len(cur.hist) > 0 {
		// Resume from an earlier cookie that was handed out.
		j := rapid.IntRange(0, len(cur.hist)-1).Draw(c.rt, "rewind_to")
		cur.hist = cur.hist[:j]
		cur.pos = 0
		if j > 0 {
			cur.pos = cur.hist[j-1].cookie
		}
		c.script = append(c.script, vdStep{Op: "rewind listing", Arg: fmt.Sprintf("cursor#%d to %d entries (cookie %d)", cur.id, j, cur.pos)})
		c.labels["listing_rewound"] = true
		return
	}
	// Which entry was reported last before the cookie this page resumes
	// from, and is it still there? (Resuming right behind a removed entry
	// is the case in which the directory has to re-seek by cookie value.)
	if len(cur.hist) > 0 {
		last := cur.hist[len(cur.hist)-1].eid
		for _, e := range d.history {
			if e.eid == last && e.died != -1 {
				c.labels["listing_resumed_behind_removed_entry"] = true
				if len(c.m.visibleEnts(d)) > 8 {
					c.labels["listing_resumed_behind_removed_entry_wide"] = true
				}
			}
		}
	}
	if n := len(c.m.visibleEnts(d)); n > cur.maxSeen && !d.uninit {
		cur.maxSeen = n
	}
	c.begin(vdStep{Op: "VirtualReadDir", Dir: c.dname(d), Arg: fmt.Sprintf("cursor#%d cookie=%d page=%d", cur.id, cur.pos, cur.page)})
	want := one(rOK)
	if !c.m.need(d) {
		want = one(c.m.needFail)
	}
	if cur.pages > 0 && c.mutations[d] != cur.mutAtLast {
		cur.mixed = true
		c.sawInterleaved = true
	}
	rep := &vdPageReporter{c: c, cur: cur}
	var st virtual.Status
	c.real(func() { st = d.realDir.VirtualReadDir(c.w.ctx, cur.pos, cur.mask, rep) })
	c.script[len(c.script)-1].Arg += " ->" + rep.log
	if c.checkResult("VirtualReadDir", want, vdStatusName(st), true) {
		cur.pages++
		cur.mutAtLast = c.mutations[d]
		if n := len(c.m.visibleEnts(d)); n > cur.maxSeen {
			cur.maxSeen = n
		}
		if !rep.refused {
			// The listing ran to the end: everything that was there
			// all the time must have been reported exactly once.
			counts := map[int]int{}
			for _, h := range cur.hist {
				counts[h.eid]++
			}
			for _, e := range d.history {
				if e.hidden || e.born >= cur.start || e.died != -1 {
					continue
				}
				if counts[e.eid] != 1 {
					c.failModel("listing cursor#%d of %s finished; entry %q existed during the whole listing but was reported %d times", cur.id, c.dname(d), e.name, counts[e.eid])
				}
			}
			c.cursorsCompleted++
			if cur.mixed {
				c.labels["listing_completed_across_mutation"] = true
				if cur.maxSeen >= 9 {
					c.sawWideCompleted = true
				}
			}
			if cur.maxSeen >= 12 {
				c.labels["listing_over_12_or_more_entries_completed"] = true
			}
			c.cursors = append(c.cursors[:i:i], c.cursors[i+1:]...)
			c.script[len(c.script)-1].Arg += " (end)"
		}
	}
	c.finish()
}

func vdSpecText(spec *vdSpec) string {
	b, err := json.Marshal(spec)
	if err != nil {
		return "?"
	}
	return string(b)
}

func vdSortedKeys(m map[string]int) []string {
	keys := make([]string, 0, len(m))
	for k := range m {
		keys = append(keys, k)
	}
	sort.Strings(keys)
	return keys
}

package vfsdir

// C13 (and C14): directed exploration of the windows in which a directory
// call drops the parent's lock to wait for a child directory's lock
// (LockPile back-off in VirtualReadDir, VirtualLookup, Remove, ...). The
// harness pins the child's lock by parking a file creation inside it, starts
// the call under test (which has to wait), performs a generated mutation of
// the parent meanwhile, and then lets everything proceed. The outcome must be
// explainable by running the call either before or after the mutation, and a
// listing must never report a name twice.

import (
	"context"
	"fmt"
	"sort"
	"strings"
	"sync"
	"testing"
	"time"

	"github.com/buildbarn/bb-remote-execution/pkg/filesystem/pool"
	"github.com/buildbarn/bb-remote-execution/pkg/filesystem/virtual"
	"github.com/buildbarn/bb-storage/pkg/filesystem/path"
	"google.golang.org/grpc/codes"
	"google.golang.org/grpc/status"
	"pgregory.net/rapid"

	"verif/harness/internal/simkit"
)

type ldParkingAllocator struct {
	base virtual.FileAllocator
	mu   sync.Mutex
	arm  bool
	in   chan struct{} // closed when a NewFile call is parked
	go_  chan struct{} // closed to release it
	fail bool          // the parked call fails when released: the pinned directory stays empty
}

func (a *ldParkingAllocator) NewFile(holeSource pool.HoleSource, isExecutable bool, size uint64, shareAccess virtual.ShareMask) (virtual.LinkableLeaf, error) {
	a.mu.Lock()
	armed := a.arm
	a.arm = false
	a.mu.Unlock()
	if armed {
		close(a.in)
		<-a.go_
		if a.fail {
			return nil, status.Error(codes.Internal, "injected failure of the pinning file creation")
		}
	}
	return a.base.NewFile(holeSource, isExecutable, size, shareAccess)
}

type ldEntry struct {
	Name string `json:"name"`
	Dir  bool   `json:"dir"`
}

type ldCase struct {
	Handles  string    `json:"handles"`
	Entries  []ldEntry `json:"entries"`
	Pinned   string    `json:"pinned"`
	Op       string    `json:"op"`
	Mutation string    `json:"mutation"`
	// PinFails: the file creation that pins the child's lock fails when it
	// is released, so the pinned directory is empty when the call under
	// test finally gets its lock.
	PinFails bool   `json:"pin_fails,omitempty"`
	Outcome  string `json:"outcome,omitempty"`
}

func TestC13LockDropWindows(t *testing.T) {
	rec := simkit.NewRecorder(t, "C13", "lock-drop-windows", "directed concurrency: a parent directory with 2-5 generated entries (files and directories); one child directory's lock is pinned by parking a file creation inside it; a generated call on the parent that needs that child's lock (VirtualReadDir with change IDs, VirtualLookup with change ID, bulk Remove, VirtualRemove) is started and has to wait after dropping the parent's lock; meanwhile a generated mutation of the parent runs (rename the pinned child within/out of the parent, remove/add/rename a sibling, replace the child); then the pin is released. Oracle: all calls return; a listing reports no name twice, cookies strictly increase, every entry untouched by the mutation is reported exactly once and nothing is reported that existed neither before nor after; lookup/remove outcomes equal running the call before or after the mutation; the final tree equals the model; all directory locks free. Real goroutines: whether the call was already waiting when the mutation ran is timing dependent (2 ms grace), which only affects which of the allowed outcomes occurs. Non-trivial: the mutation touched the pinned child or an entry the listing had not reached; distinct by case hash")
	ctx := context.Background()
	rapid.Check(t, func(rt *rapid.T) {
		c := ldCase{Handles: rapid.SampledFrom([]string{"nfs", "fuse"}).Draw(rt, "handles")}
		names := []string{"a", "b", "d", "e", "f"}
		n := rapid.IntRange(2, 5).Draw(rt, "n")
		perm := rapid.Permutation(names).Draw(rt, "names")[:n]
		var dirs []string
		for _, nm := range perm {
			isDir := rapid.Bool().Draw(rt, "isDir")
			c.Entries = append(c.Entries, ldEntry{Name: nm, Dir: isDir})
			if isDir {
				dirs = append(dirs, nm)
			}
		}
		if len(dirs) == 0 {
			c.Entries[0].Dir = true
			dirs = []string{c.Entries[0].Name}
		}
		c.Pinned = rapid.SampledFrom(dirs).Draw(rt, "pinned")
		c.Op = rapid.SampledFrom([]string{"readdir", "readdir", "lookup", "bulkRemove", "virtualRemove", "renameOntoPinned"}).Draw(rt, "op")
		if c.Op == "renameOntoPinned" {
			// The source of the rename: an empty directory "s" next to
			// the pinned one.
			c.Entries = append(c.Entries, ldEntry{Name: "s", Dir: true})
		}
		c.Mutation = rapid.SampledFrom([]string{"renamePinnedWithin", "renamePinnedOut", "removeSibling", "addSibling", "renameSibling", "replacePinned", "replacePinned", "removeAllChildren", "removeAllChildren", "overwriteChildren", "none"}).Draw(rt, "mutation")
		c.PinFails = rapid.Bool().Draw(rt, "pinFails")
		if c.Op == "renameOntoPinned" {
			c.Mutation = rapid.SampledFrom([]string{"removeSource", "removeSource", "renameSourceAway", "none"}).Draw(rt, "renameMutation")
		}

		// Build the tree: root/p/<entries>.
		tree := newStTree(c.Handles)
		alloc := &ldParkingAllocator{base: tree.files, in: make(chan struct{}), go_: make(chan struct{}), fail: c.PinFails}
		setter := func(requested virtual.AttributesMask, attributes *virtual.Attributes) {}
		tree.root.InstallHooks(alloc, virtual.NewHandleAllocatingSymlinkFactory(virtual.NewBaseSymlinkFactory(setter), virtual.NewFUSEHandleAllocator(&stRNG{}).New(), path.UNIXFormat), &stLogger{}, setter, virtual.NoNamedAttributesFactory)
		p, err := tree.root.CreateAndEnterPrepopulatedDirectory(path.MustNewComponent("p"))
		if err != nil {
			rt.Fatalf("harness: cannot create p: %v", err)
		}
		p.InstallHooks(alloc, virtual.NewHandleAllocatingSymlinkFactory(virtual.NewBaseSymlinkFactory(setter), virtual.NewFUSEHandleAllocator(&stRNG{}).New(), path.UNIXFormat), &stLogger{}, setter, virtual.NoNamedAttributesFactory)
		var pinned virtual.PrepopulatedDirectory
		for _, e := range c.Entries {
			if e.Dir {
				d, err := p.CreateAndEnterPrepopulatedDirectory(path.MustNewComponent(e.Name))
				if err != nil {
					rt.Fatalf("harness: cannot create %s: %v", e.Name, err)
				}
				if e.Name == c.Pinned {
					pinned = d
				}
			} else {
				leaf, err := tree.files.NewFile(pool.ZeroHoleSource, false, 0, 0)
				if err != nil {
					rt.Fatalf("harness: cannot create leaf: %v", err)
				}
				if err := p.CreateChildren(map[path.Component]virtual.InitialChild{path.MustNewComponent(e.Name): virtual.InitialChild{}.FromLeaf(leaf)}, false); err != nil {
					rt.Fatalf("harness: cannot attach %s: %v", e.Name, err)
				}
			}
		}
		pinned.InstallHooks(alloc, virtual.NewHandleAllocatingSymlinkFactory(virtual.NewBaseSymlinkFactory(setter), virtual.NewFUSEHandleAllocator(&stRNG{}).New(), path.UNIXFormat), &stLogger{}, setter, virtual.NoNamedAttributesFactory)

		before := map[string]bool{}
		for _, e := range c.Entries {
			before[e.Name] = e.Dir
		}

		// T1: pin the child's lock.
		alloc.mu.Lock()
		alloc.arm = true
		alloc.mu.Unlock()
		var wg sync.WaitGroup
		wg.Add(1)
		go func() {
			defer wg.Done()
			var attr virtual.Attributes
			leaf, _, _, s := pinned.VirtualOpenChild(ctx, path.MustNewComponent("pinfile"), virtual.ShareMaskWrite, (&virtual.Attributes{}).SetPermissions(virtual.PermissionsRead|virtual.PermissionsWrite), nil, 0, &attr)
			if s == virtual.StatusOK {
				leaf.VirtualClose(virtual.ShareMaskWrite)
			}
		}()
		select {
		case <-alloc.in:
		case <-time.After(10 * time.Second):
			rt.Fatalf("harness: the pinning call never reached the file allocator; case=%+v", c)
		}

		// T2: the call under test.
		type listing struct {
			names   []string
			cookies []uint64
		}
		var lst listing
		var opStatus virtual.Status
		var opErr error
		wg.Add(1)
		go func() {
			defer wg.Done()
			switch c.Op {
			case "readdir":
				r := &ldReporter{}
				opStatus = p.VirtualReadDir(ctx, 0, virtual.AttributesMaskInodeNumber|virtual.AttributesMaskChangeID, r)
				lst.names, lst.cookies = r.names, r.cookies
			case "lookup":
				var attr virtual.Attributes
				_, opStatus = p.VirtualLookup(ctx, path.MustNewComponent(c.Pinned), virtual.AttributesMaskChangeID|virtual.AttributesMaskInodeNumber, &attr)
			case "bulkRemove":
				opErr = p.Remove(path.MustNewComponent(c.Pinned))
			case "virtualRemove":
				_, opStatus = p.VirtualRemove(ctx, path.MustNewComponent(c.Pinned), true, false)
			case "renameOntoPinned":
				// The target is a directory whose lock is busy: the call
				// backs off after it has looked at the source.
				_, _, opStatus = p.VirtualRename(ctx, path.MustNewComponent("s"), p, path.MustNewComponent(c.Pinned))
			}
		}()
		time.Sleep(2 * time.Millisecond)

		// T3: the mutation, on the test goroutine.
		var bulkErr error
		after := map[string]bool{}
		for k, v := range before {
			after[k] = v
		}
		var sibling string
		for _, e := range c.Entries {
			if e.Name != c.Pinned {
				sibling = e.Name
			}
		}
		touched := map[string]bool{}
		switch c.Mutation {
		case "renamePinnedWithin":
			if _, _, s := p.VirtualRename(ctx, path.MustNewComponent(c.Pinned), p, path.MustNewComponent("g")); s == virtual.StatusOK {
				delete(after, c.Pinned)
				after["g"] = true
				touched[c.Pinned], touched["g"] = true, true
			}
		case "renamePinnedOut":
			if _, _, s := p.VirtualRename(ctx, path.MustNewComponent(c.Pinned), tree.root, path.MustNewComponent("g")); s == virtual.StatusOK {
				delete(after, c.Pinned)
				touched[c.Pinned] = true
			}
		case "removeSibling":
			if sibling != "" {
				if _, s := p.VirtualRemove(ctx, path.MustNewComponent(sibling), true, true); s == virtual.StatusOK {
					delete(after, sibling)
					touched[sibling] = true
				}
			}
		case "addSibling":
			var attr virtual.Attributes
			if _, _, s := p.VirtualMkdir(ctx, path.MustNewComponent("n"), (&virtual.Attributes{}).SetPermissions(virtual.PermissionsRead), 0, &attr); s == virtual.StatusOK {
				after["n"] = true
				touched["n"] = true
			}
		case "renameSibling":
			if sibling != "" {
				if _, _, s := p.VirtualRename(ctx, path.MustNewComponent(sibling), p, path.MustNewComponent("h")); s == virtual.StatusOK {
					after["h"] = after[sibling]
					delete(after, sibling)
					touched[sibling], touched["h"] = true, true
				}
			}
		case "removeAllChildren":
			// A bulk call of the worker detaches every entry at once
			// under the parent's lock and then empties the detached
			// directories, for which it has to wait for the pinned
			// child's lock: it runs beside the call under test and
			// finishes once the pin is released.
			for k := range after {
				delete(after, k)
				touched[k] = true
			}
			wg.Add(1)
			go func() {
				defer wg.Done()
				if err := p.RemoveAllChildren(false); err != nil {
					bulkErr = err
				}
			}()
			time.Sleep(2 * time.Millisecond)
		case "overwriteChildren":
			// CreateChildren with overwrite replaces the pinned
			// directory and a sibling by fresh, empty directories.
			repl := map[path.Component]virtual.InitialChild{}
			for _, nm := range []string{c.Pinned, sibling} {
				if nm != "" {
					repl[path.MustNewComponent(nm)] = virtual.InitialChild{}.FromDirectory(virtual.EmptyInitialContentsFetcher)
					after[nm] = true
					touched[nm] = true
				}
			}
			wg.Add(1)
			go func() {
				defer wg.Done()
				if err := p.CreateChildren(repl, true); err != nil {
					bulkErr = err
				}
			}()
			time.Sleep(2 * time.Millisecond)
		case "removeSource":
			if _, s := p.VirtualRemove(ctx, path.MustNewComponent("s"), true, false); s == virtual.StatusOK {
				delete(after, "s")
				touched["s"] = true
			}
		case "renameSourceAway":
			if _, _, s := p.VirtualRename(ctx, path.MustNewComponent("s"), tree.root, path.MustNewComponent("g")); s == virtual.StatusOK {
				delete(after, "s")
				touched["s"] = true
			}
		case "replacePinned":
			if _, _, s := p.VirtualRename(ctx, path.MustNewComponent(c.Pinned), tree.root, path.MustNewComponent("g")); s == virtual.StatusOK {
				var attr virtual.Attributes
				if _, _, s := p.VirtualMkdir(ctx, path.MustNewComponent(c.Pinned), (&virtual.Attributes{}).SetPermissions(virtual.PermissionsRead), 0, &attr); s == virtual.StatusOK {
					touched[c.Pinned] = true
				} else {
					delete(after, c.Pinned)
					touched[c.Pinned] = true
				}
			}
		}

		// Release the pin and wait.
		close(alloc.go_)
		done := make(chan struct{})
		go func() { wg.Wait(); close(done) }()
		select {
		case <-done:
		case <-time.After(30 * time.Second):
			rt.Fatalf("C14: calls did not return within 30 s after the pinned lock was released (deadlock?); case=%+v\n%s", c, allGoroutineStacks())
		}

		if bulkErr != nil {
			rt.Fatalf("C13: the bulk call of the mutation (%s) failed: %v; case=%+v", c.Mutation, bulkErr, c)
		}
		// Oracle.
		switch c.Op {
		case "readdir":
			if opStatus != virtual.StatusOK {
				rt.Fatalf("C13: VirtualReadDir failed with status %v; case=%+v", opStatus, c)
			}
			seen := map[string]int{}
			for i, nm := range lst.names {
				seen[nm]++
				if i > 0 && lst.cookies[i] <= lst.cookies[i-1] {
					rt.Fatalf("C13: one VirtualReadDir call reported cookies %v (not strictly increasing), names %v; case=%+v", lst.cookies, lst.names, c)
				}
			}
			for nm, k := range seen {
				if k > 1 && !touched[nm] {
					// A name that the mutation re-bound to a new entry
					// meanwhile may be seen in both incarnations (two
					// entries, increasing cookies); an entry that was
					// there throughout may not.
					rt.Fatalf("C13: one VirtualReadDir call reported entry %q %d times: %v; case=%+v", nm, k, lst.names, c)
				}
				if _, b := before[nm]; !b {
					if _, a := after[nm]; !a {
						rt.Fatalf("C13: VirtualReadDir reported %q, which existed neither before nor after the concurrent mutation: %v; case=%+v", nm, lst.names, c)
					}
				}
			}
			for nm := range before {
				if _, stays := after[nm]; stays && !touched[nm] && seen[nm] != 1 {
					rt.Fatalf("C13: entry %q existed throughout the listing but was reported %d times: %v; case=%+v", nm, seen[nm], lst.names, c)
				}
			}
			c.Outcome = strings.Join(lst.names, ",")
		case "lookup":
			_, existsAfter := after[c.Pinned]
			if opStatus != virtual.StatusOK && !(opStatus == virtual.StatusErrNoEnt && !existsAfter) {
				rt.Fatalf("C13: VirtualLookup(%s) returned %v; it exists before the mutation and exists-after=%v; case=%+v", c.Pinned, opStatus, existsAfter, c)
			}
			c.Outcome = fmt.Sprint(opStatus)
		case "bulkRemove", "virtualRemove":
			// Reference: the call ran either before or after the mutation.
			// When its lock can finally be taken the pinned directory
			// holds the file created by the pinning call (removal fails
			// with ENOTEMPTY), unless that creation failed (PinFails: it
			// is empty and can be removed). After a mutation that moved
			// it away the name is gone (ENOENT) or names a new empty
			// directory (removal succeeds and removes THAT directory; the
			// old one lives on under its new name).
			out := ""
			if c.Op == "bulkRemove" {
				out = fmt.Sprint(opErr)
			} else {
				out = fmt.Sprint(opStatus)
			}
			c.Outcome = out
			removed := (c.Op == "bulkRemove" && opErr == nil) || (c.Op == "virtualRemove" && opStatus == virtual.StatusOK)
			movedAway := touched[c.Pinned] // the mutation renamed the pinned directory, which only works while it exists
			_, nameAfter := after[c.Pinned]
			if removed {
				switch {
				case movedAway && !nameAfter:
					rt.Fatalf("C13: removal of %s succeeded although the concurrent mutation, which succeeded, had renamed it away and nothing took its name; case=%+v", c.Pinned, c)
				case !movedAway && !c.PinFails:
					rt.Fatalf("C13: removal of non-empty directory %s succeeded; case=%+v", c.Pinned, c)
				}
				delete(after, c.Pinned)
			} else if movedAway && nameAfter && c.Mutation == "replacePinned" {
				// The name denotes the new, empty directory from the
				// moment the mutation finished, which is before the call
				// under test could continue: "not empty" can only be
				// explained by the call having run entirely before the
				// mutation, when the directory held the pinning file.
				if c.PinFails {
					rt.Fatalf("C13: removal of %s failed (%s) although both the old directory (the pinning file creation failed) and the new directory of that name are empty; case=%+v", c.Pinned, out, c)
				}
			}
			if movedAway && (c.Mutation == "replacePinned" || c.Mutation == "renamePinnedOut") {
				// The directory that was moved to root/g must be alive,
				// whatever happened to the name it used to have.
				g, s := tree.root.VirtualLookup(ctx, path.MustNewComponent("g"), virtual.AttributesMaskInodeNumber, &virtual.Attributes{})
				if s != virtual.StatusOK {
					rt.Fatalf("C13: the directory renamed to root/g cannot be looked up afterwards (%v); case=%+v", s, c)
				}
				gd, _ := g.GetPair()
				if gd == nil {
					rt.Fatalf("C13: root/g is not a directory; case=%+v", c)
				}
				var attr virtual.Attributes
				if _, _, s := gd.VirtualMkdir(ctx, path.MustNewComponent("probe"), (&virtual.Attributes{}).SetPermissions(virtual.PermissionsRead), 0, &attr); s != virtual.StatusOK {
					rt.Fatalf("C13: the directory renamed to root/g no longer accepts entries (%v): the removal of the name it used to have hit it; case=%+v", s, c)
				}
			}
		case "renameOntoPinned":
			// Reference: the source exists and the target is empty =>
			// the rename succeeds; the target holds the pinning file =>
			// "not empty"; the source was removed or renamed away by the
			// mutation (which finished before the call could continue) =>
			// ENOENT, or - if the call is taken to have run entirely
			// before the mutation - the answer for the old state, provided
			// that answer is a refusal (a successful rename would have made
			// the mutation fail).
			c.Outcome = fmt.Sprint(opStatus)
			refusal := func(s virtual.Status) bool { return s == virtual.StatusErrNotEmpty || s == virtual.StatusErrExist }
			sourceGone := touched["s"]
			switch {
			case !sourceGone && c.PinFails:
				if opStatus != virtual.StatusOK {
					rt.Fatalf("C13: rename of the empty directory s onto the empty directory %s returned %v; case=%+v", c.Pinned, opStatus, c)
				}
				delete(after, "s")
			case !sourceGone:
				if !refusal(opStatus) {
					rt.Fatalf("C13: rename of s onto the non-empty directory %s returned %v; case=%+v", c.Pinned, opStatus, c)
				}
			default:
				if !(opStatus == virtual.StatusErrNoEnt || (!c.PinFails && refusal(opStatus))) {
					rt.Fatalf("C13: rename of s onto %s returned %v although s had been removed or renamed away meanwhile (pinned directory empty: %v); case=%+v", c.Pinned, opStatus, c.PinFails, c)
				}
			}
		}
		// Final tree.
		dirsAfter, leavesAfter, err := p.LookupAllChildren()
		if err != nil {
			rt.Fatalf("C13: LookupAllChildren(p) fails afterwards: %v; case=%+v", err, c)
		}
		got := map[string]bool{}
		for _, e := range dirsAfter {
			got[e.Name.String()] = true
		}
		for _, e := range leavesAfter {
			got[e.Name.String()] = false
		}
		var gk, wk []string
		for k, v := range got {
			gk = append(gk, fmt.Sprintf("%s:%v", k, v))
		}
		for k, v := range after {
			wk = append(wk, fmt.Sprintf("%s:%v", k, v))
		}
		sort.Strings(gk)
		sort.Strings(wk)
		if strings.Join(gk, ",") != strings.Join(wk, ",") {
			rt.Fatalf("C13: after the concurrent calls p contains %v, the model says %v; case=%+v", gk, wk, c)
		}
		for i, d := range []virtual.PrepopulatedDirectory{tree.root, p, pinned} {
			if free, known := virtual.VerifLockIsFree(d); known && !free {
				rt.Fatalf("C14: lock of directory #%d still held after all calls returned; case=%+v", i, c)
			}
		}
		labels := []string{"op_" + c.Op, "mutation_" + c.Mutation}
		rec.Case(c, len(touched) > 0, labels...)
	})
}

type ldReporter struct {
	names   []string
	cookies []uint64
}

func (r *ldReporter) ReportEntry(nextCookie uint64, name path.Component, child virtual.DirectoryChild, attributes *virtual.Attributes) bool {
	r.names = append(r.names, name.String())
	r.cookies = append(r.cookies, nextCookie)
	return true
}

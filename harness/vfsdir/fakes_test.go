// Package vfsdir decides C13 (directory tree behaves like a POSIX
// hierarchy) and C14(a) (no call leaves a directory or file lock behind) for
// virtual.NewInMemoryPrepopulatedDirectory, by running generated call
// sequences against the real code and a naive reference tree.
package vfsdir

import (
	"context"
	"errors"
	"fmt"
	"io"
	"sort"
	"strings"
	"time"

	"github.com/buildbarn/bb-remote-execution/pkg/filesystem/pool"
	"github.com/buildbarn/bb-remote-execution/pkg/filesystem/virtual"
	"github.com/buildbarn/bb-storage/pkg/clock"
	"github.com/buildbarn/bb-storage/pkg/filesystem"
	"github.com/buildbarn/bb-storage/pkg/filesystem/path"
)

// ---------------------------------------------------------------- clock

// vdClock is a clock.Clock whose time only moves when the harness says so.
// InMemoryPrepopulatedDirectory only calls Now().
type vdClock struct {
	now time.Time
}

var _ clock.Clock = (*vdClock)(nil)

func (c *vdClock) Now() time.Time { return c.now }

func (c *vdClock) NewContextWithTimeout(parent context.Context, timeout time.Duration) (context.Context, context.CancelFunc) {
	panic("vdClock: NewContextWithTimeout is not expected to be used by the directory code")
}

func (c *vdClock) NewTimer(d time.Duration) (clock.Timer, <-chan time.Time) {
	panic("vdClock: NewTimer is not expected to be used by the directory code")
}

func (c *vdClock) NewTicker(d time.Duration) (clock.Ticker, <-chan time.Time) {
	panic("vdClock: NewTicker is not expected to be used by the directory code")
}

// ---------------------------------------------------------------- rng

// vdRNG is a deterministic random.ThreadSafeGenerator: Uint64 is a
// bijection of a counter (splitmix64 finaliser), so inode numbers handed
// out by the handle allocators never collide within a case.
type vdRNG struct {
	ctr uint64
}

func vdMix(x uint64) uint64 {
	x += 0x9E3779B97F4A7C15
	x = (x ^ (x >> 30)) * 0xBF58476D1CE4E5B9
	x = (x ^ (x >> 27)) * 0x94D049BB133111EB
	return x ^ (x >> 31)
}

func (r *vdRNG) Uint64() uint64 {
	r.ctr++
	return vdMix(r.ctr)
}
func (r *vdRNG) Uint32() uint32       { return uint32(r.Uint64() >> 32) }
func (r *vdRNG) Float64() float64     { return float64(r.Uint64()>>11) / (1 << 53) }
func (r *vdRNG) Int64N(n int64) int64 { return int64(r.Uint64() % uint64(n)) }
func (r *vdRNG) IntN(n int) int       { return int(r.Uint64() % uint64(n)) }
func (r *vdRNG) IsThreadSafe()        {}
func (r *vdRNG) Read(p []byte) (int, error) {
	for i := range p {
		p[i] = byte(r.Uint64())
	}
	return len(p), nil
}
func (r *vdRNG) Shuffle(n int, swap func(i, j int)) {
	for i := n - 1; i > 0; i-- {
		swap(i, r.IntN(i+1))
	}
}

// ---------------------------------------------------------------- error logger

type vdErrorLogger struct {
	count int
	last  string
}

func (l *vdErrorLogger) Log(err error) {
	l.count++
	l.last = err.Error()
}

// ---------------------------------------------------------------- file pool

// vdMemPool is a trivially correct pool.FilePool: every file is a byte
// slice. It is deliberately not the block device backed pool (that one is
// the subject of C15); only the virtual package is under test here.
type vdMemPool struct {
	failing bool
	opened  int
	closed  int
	// arm is a one-shot fault: the next call of the named method on ANY
	// file of this pool fails (and disarms it). The engine arms it right
	// before one call into /repo and disarms it right after, so it is
	// always known which call it belongs to.
	arm       vdIOFault
	faultsHit int
}

// vdIOFault names the pool file method that is to fail once: "read",
// "write", "truncate" or "seek" (GetNextRegionOffset). For "write"/"read",
// Short is the number of bytes that are still transferred before the error.
type vdIOFault struct {
	Op    string
	Short int
}

var (
	errVdPool = errors.New("vfsdir: injected file pool failure")
	errVdIO   = errors.New("vfsdir: injected pool file I/O failure")
)

func (p *vdMemPool) take(op string) (vdIOFault, bool) {
	if p.arm.Op != op {
		return vdIOFault{}, false
	}
	a := p.arm
	p.arm = vdIOFault{}
	p.faultsHit++
	return a, true
}

func (p *vdMemPool) NewFile(holeSource pool.HoleSource, size uint64) (filesystem.FileReadWriter, error) {
	if p.failing {
		return nil, errVdPool
	}
	p.opened++
	return &vdMemFile{pool: p, data: make([]byte, size)}, nil
}

type vdMemFile struct {
	pool   *vdMemPool
	data   []byte
	closed bool
}

func (f *vdMemFile) check() {
	if f.closed {
		panic("vfsdir: pool file used after Close")
	}
}

func (f *vdMemFile) Close() error {
	f.check()
	f.closed = true
	f.pool.closed++
	return nil
}

func (f *vdMemFile) ReadAt(p []byte, off int64) (int, error) {
	f.check()
	if a, hit := f.pool.take("read"); hit {
		n := 0
		if off < int64(len(f.data)) {
			n = copy(p[:min(a.Short, len(p))], f.data[off:])
		}
		return n, errVdIO
	}
	if off >= int64(len(f.data)) {
		return 0, io.EOF
	}
	n := copy(p, f.data[off:])
	if n < len(p) {
		return n, io.EOF
	}
	return n, nil
}

func (f *vdMemFile) WriteAt(p []byte, off int64) (int, error) {
	f.check()
	if a, hit := f.pool.take("write"); hit {
		n := min(a.Short, len(p))
		if n > 0 {
			if end := off + int64(n); end > int64(len(f.data)) {
				f.data = append(f.data, make([]byte, end-int64(len(f.data)))...)
			}
			copy(f.data[off:], p[:n])
		}
		return n, errVdIO
	}
	if end := off + int64(len(p)); end > int64(len(f.data)) {
		f.data = append(f.data, make([]byte, end-int64(len(f.data)))...)
	}
	copy(f.data[off:], p)
	return len(p), nil
}

func (f *vdMemFile) Truncate(size int64) error {
	f.check()
	if _, hit := f.pool.take("truncate"); hit {
		return errVdIO
	}
	if size <= int64(len(f.data)) {
		f.data = f.data[:size]
	} else {
		f.data = append(f.data, make([]byte, size-int64(len(f.data)))...)
	}
	return nil
}

func (f *vdMemFile) Sync() error { f.check(); return nil }

func (f *vdMemFile) Len() (int64, error) { f.check(); return int64(len(f.data)), nil }

func (f *vdMemFile) GetNextRegionOffset(offset int64, regionType filesystem.RegionType) (int64, error) {
	f.check()
	if _, hit := f.pool.take("seek"); hit {
		return 0, errVdIO
	}
	if offset >= int64(len(f.data)) {
		return 0, io.EOF
	}
	if regionType == filesystem.Data {
		return offset, nil
	}
	return int64(len(f.data)), nil
}

// ---------------------------------------------------------------- faulty decorators

var (
	errVdAllocator = errors.New("vfsdir: injected file allocator failure")
	errVdSymlink   = errors.New("vfsdir: injected symlink factory failure")
	errVdFetch     = errors.New("vfsdir: injected InitialContentsFetcher failure")
)

type vdFaultyFileAllocator struct {
	base    virtual.FileAllocator
	failing bool
	calls   int
	// follow: this allocator also fails whenever that one is set to fail
	// (the allocator of the named attribute directories follows the
	// allocator of the ordinary tree, so one switch covers both).
	follow *vdFaultyFileAllocator
}

func (fa *vdFaultyFileAllocator) NewFile(holeSource pool.HoleSource, isExecutable bool, size uint64, shareAccess virtual.ShareMask) (virtual.LinkableLeaf, error) {
	fa.calls++
	if fa.failing || (fa.follow != nil && fa.follow.failing) {
		return nil, errVdAllocator
	}
	return fa.base.NewFile(holeSource, isExecutable, size, shareAccess)
}

type vdFaultySymlinkFactory struct {
	base    virtual.SymlinkFactory
	failing bool
	calls   int
}

func (sf *vdFaultySymlinkFactory) LookupSymlink(target path.Parser) (virtual.LinkableLeaf, error) {
	sf.calls++
	if sf.failing {
		return nil, errVdSymlink
	}
	return sf.base.LookupSymlink(target)
}

// ---------------------------------------------------------------- initial contents fetcher

// vdSpecChild describes one child a lazy directory will have once it is
// initialised.
type vdSpecChild struct {
	Name string  `json:"name"`
	Kind string  `json:"kind"` // "dir", "file", "symlink"
	Tag  string  `json:"tag,omitempty"`
	Sub  *vdSpec `json:"sub,omitempty"`
}

// vdSpec is the declared contents of a lazily populated directory.
type vdSpec struct {
	Children []vdSpecChild `json:"children,omitempty"`
	Failing  bool          `json:"failing,omitempty"`
}

func (s *vdSpec) names() []string {
	var out []string
	for _, c := range s.Children {
		out = append(out, c.Name)
	}
	return out
}

func (s *vdSpec) dirCount() int {
	n := 0
	for _, c := range s.Children {
		if c.Kind == "dir" {
			n += 1 + c.Sub.dirCount()
		}
	}
	return n
}

// vdFetcher is the hand-written InitialContentsFetcher. Leaves are created
// (through the real, non-failing allocators) only when FetchContents
// succeeds, so a directory that is never initialised owns nothing.
type vdFetcher struct {
	w         *vdWorld
	spec      *vdSpec
	failing   bool
	calls     int
	successes int
	// collides: two of the declared names are one name under the case
	// folding normaliser; the directory rejects what was fetched and asks
	// again next time.
	collides bool
	leaves   map[string]virtual.LinkableLeaf
	subs     map[string]*vdFetcher
}

func newVdFetcher(w *vdWorld, spec *vdSpec) *vdFetcher {
	f := &vdFetcher{w: w, spec: spec, failing: spec.Failing, leaves: map[string]virtual.LinkableLeaf{}, subs: map[string]*vdFetcher{}}
	if w.caseFold {
		seen := map[string]bool{}
		for _, c := range spec.Children {
			if seen[strings.ToLower(c.Name)] {
				f.collides = true
			}
			seen[strings.ToLower(c.Name)] = true
		}
	}
	for _, c := range spec.Children {
		if c.Kind == "dir" {
			f.subs[c.Name] = newVdFetcher(w, c.Sub)
		}
	}
	return f
}

// vdApplyProbe is the only payload this fetcher understands; everything else
// is answered with false, as InitialContentsFetcher.VirtualApply documents for
// unknown operations.
type vdApplyProbe struct {
	seenBy *vdFetcher
	calls  int
}

func (f *vdFetcher) VirtualApply(data any) bool {
	if p, ok := data.(*vdApplyProbe); ok {
		p.seenBy = f
		p.calls++
		return true
	}
	return false
}

func (f *vdFetcher) FetchContents(fileReadMonitorFactory virtual.FileReadMonitorFactory) (map[path.Component]virtual.InitialChild, error) {
	f.calls++
	if f.failing {
		return nil, errVdFetch
	}
	f.successes++
	if f.successes > 1 && !f.collides {
		f.w.problems = append(f.w.problems, "InitialContentsFetcher.FetchContents was called again after it had succeeded")
	}
	out := map[path.Component]virtual.InitialChild{}
	for _, c := range f.spec.Children {
		name := path.MustNewComponent(c.Name)
		switch c.Kind {
		case "dir":
			out[name] = virtual.InitialChild{}.FromDirectory(f.subs[c.Name])
		case "file":
			leaf := f.w.newFileLeaf([]byte(c.Tag))
			f.leaves[c.Name] = leaf
			out[name] = virtual.InitialChild{}.FromLeaf(leaf)
		case "symlink":
			leaf := f.w.newSymlinkLeaf(c.Tag)
			f.leaves[c.Name] = leaf
			out[name] = virtual.InitialChild{}.FromLeaf(leaf)
		default:
			panic("vfsdir: bad spec kind " + c.Kind)
		}
	}
	return out, nil
}

// ---------------------------------------------------------------- world

// vdWorld is everything real that one case is wired to.
type vdWorld struct {
	ctx       context.Context
	clock     *vdClock
	rng       *vdRNG
	logger    *vdErrorLogger
	pool      *vdMemPool
	handles   string // "nfs" or "fuse"
	nfs       *virtual.NFSStatefulHandleAllocator
	fuse      *virtual.FUSEStatefulHandleAllocator
	allocator virtual.StatefulHandleAllocator
	baseFiles virtual.FileAllocator
	files     *vdFaultyFileAllocator
	// Named attributes, wired the way pkg/builder/virtual_build_directory.go
	// InstallHooks() does: attribute values are pool-backed files that
	// cannot have named attributes themselves.
	attrFiles *vdFaultyFileAllocator
	naFactory virtual.NamedAttributesFactory
	baseLinks virtual.SymlinkFactory
	links     *vdFaultySymlinkFactory
	caseFold  bool
	hidden    bool
	root      virtual.PrepopulatedDirectory
	// problems found by fakes while inside a call (reported by the engine
	// after the call returns).
	problems []string
	// lockProblems are found by the FUSE removal notifier.
	lockProblems []string
	// onNotify is invoked from the FUSE removal notifier.
	onNotify func(parent uint64, name string)
	notified int
}

func vdHiddenMatcher(s string) bool {
	return len(s) >= 2 && s[0] == '.' && s[1] == 'h'
}

func newVdWorld(handles string, caseFold, hidden bool) *vdWorld {
	w := &vdWorld{
		ctx:      context.Background(),
		clock:    &vdClock{now: time.Unix(1000, 0)},
		rng:      &vdRNG{},
		logger:   &vdErrorLogger{},
		pool:     &vdMemPool{},
		handles:  handles,
		caseFold: caseFold,
		hidden:   hidden,
	}
	switch handles {
	case "nfs":
		w.nfs = virtual.NewNFSHandleAllocator(w.rng)
		w.allocator = w.nfs
	case "fuse":
		w.fuse = virtual.NewFUSEHandleAllocator(w.rng)
		w.fuse.RegisterRemovalNotifier(func(parent uint64, name path.Component) {
			w.notified++
			if w.onNotify != nil {
				w.onNotify(parent, name.String())
			}
		})
		w.allocator = w.fuse
	default:
		panic("vfsdir: unknown handle allocator " + handles)
	}
	setter := func(requested virtual.AttributesMask, attributes *virtual.Attributes) {}
	w.baseLinks = virtual.NewHandleAllocatingSymlinkFactory(
		virtual.NewBaseSymlinkFactory(setter),
		w.allocator.New(),
		path.UNIXFormat)
	w.links = &vdFaultySymlinkFactory{base: w.baseLinks}
	w.files = &vdFaultyFileAllocator{}
	w.attrFiles = &vdFaultyFileAllocator{
		base: virtual.NewHandleAllocatingFileAllocator(
			virtual.NewPoolBackedFileAllocator(w.pool, w.logger, setter, virtual.InNamedAttributeDirectoryNamedAttributesFactory),
			w.allocator),
		follow: w.files,
	}
	w.naFactory = virtual.NewInMemoryNamedAttributesFactory(w.attrFiles, w.links, w.logger, w.allocator, w.clock)
	w.baseFiles = virtual.NewHandleAllocatingFileAllocator(
		virtual.NewPoolBackedFileAllocator(w.pool, w.logger, setter, w.naFactory),
		w.allocator)
	w.files.base = w.baseFiles
	var normalizer virtual.ComponentNormalizer = virtual.CaseSensitiveComponentNormalizer
	if caseFold {
		normalizer = virtual.CaseInsensitiveComponentNormalizer
	}
	matcher := virtual.StringMatcher(func(string) bool { return false })
	if hidden {
		matcher = vdHiddenMatcher
	}
	w.root = virtual.NewInMemoryPrepopulatedDirectory(
		w.files, w.links, w.logger, w.allocator, sort.Sort, matcher, w.clock, normalizer, setter, w.naFactory)
	return w
}

// newFileLeaf creates a fresh pool-backed regular file with link count one
// holding the given bytes, the way a worker-side caller would before
// handing it to CreateChildren.
func (w *vdWorld) newFileLeaf(content []byte) virtual.LinkableLeaf {
	wasFailing := w.pool.failing
	w.pool.failing = false
	leaf, err := w.baseFiles.NewFile(pool.ZeroHoleSource, false, 0, 0)
	w.pool.failing = wasFailing
	if err != nil {
		panic(fmt.Sprintf("vfsdir: cannot create file leaf: %v", err))
	}
	if len(content) > 0 {
		var attr virtual.Attributes
		if s := leaf.VirtualOpenSelf(w.ctx, virtual.ShareMaskWrite, &virtual.OpenExistingOptions{}, 0, &attr); s != virtual.StatusOK {
			panic(fmt.Sprintf("vfsdir: cannot open fresh file leaf: status %d", s))
		}
		if n, s := leaf.VirtualWrite(w.ctx, content, 0); s != virtual.StatusOK || n != len(content) {
			panic(fmt.Sprintf("vfsdir: cannot write fresh file leaf: n=%d status %d", n, s))
		}
		leaf.VirtualClose(virtual.ShareMaskWrite)
	}
	return leaf
}

// newSymlinkLeaf creates a symlink node through the real (non-failing)
// symlink factory.
func (w *vdWorld) newSymlinkLeaf(target string) virtual.LinkableLeaf {
	leaf, err := w.baseLinks.LookupSymlink(path.UNIXFormat.NewParser(target))
	if err != nil {
		panic(fmt.Sprintf("vfsdir: cannot create symlink leaf: %v", err))
	}
	return leaf
}

// vdNotLinkable is a Leaf that is not a LinkableLeaf.
type vdNotLinkable struct{ virtual.Leaf }

// vdForeignDirectory is a Directory that does not belong to the in-memory
// hierarchy.
type vdForeignDirectory struct{ virtual.Directory }

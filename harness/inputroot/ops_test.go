package inputroot

import (
	"bytes"
	"fmt"
	"sort"
	"strings"

	"github.com/buildbarn/bb-remote-execution/pkg/filesystem/virtual"
	"github.com/buildbarn/bb-storage/pkg/filesystem"
	"github.com/buildbarn/bb-storage/pkg/filesystem/path"
)

// staleBuffer is a read buffer that already contains something, like the
// reply buffers of the FUSE and NFS servers do.
func staleBuffer(n int) []byte {
	return bytes.Repeat([]byte{'#'}, n)
}

var closedChannel = func() <-chan struct{} { c := make(chan struct{}); close(c); return c }()

func (st *step) mask() virtual.AttributesMask { return maskVariants[st.Mask%len(maskVariants)] }

// ---------------------------------------------------------------------
// Real side: execute one step against the real tree and describe what
// came back. Never consults the model, except for walkloaded, where the
// model says which directories have been visited before.

func (r *rig) real(st *step) outcome {
	ctx := r.w.ctx
	if st.Op == "walk" || st.Op == "walkloaded" {
		return r.realWalk(st.Op == "walk")
	}
	if st.Op == "merge" {
		return outcome{code: errCode(r.w.merge(r.w.actionBD[st.Off], r.mat.rootDigest()))}
	}
	if st.BD {
		bd, code := r.realBD(st.Path)
		if code != "ok" {
			return navFailure(code, st.Path)
		}
		switch st.Op {
		case "lookup":
			fi, err := bd.Lstat(comp(st.Name))
			if err != nil {
				return outcome{code: errCode(err)}
			}
			return outcome{code: "ok", detail: renderFileInfo(fi)}
		case "readdir":
			items := map[string]string{}
			if st.Flags == 0 {
				infos, err := bd.ReadDir()
				if err != nil {
					return outcome{code: errCode(err)}
				}
				for _, fi := range infos {
					if _, dup := items[fi.Name().String()]; dup {
						return outcome{code: "duplicate-entry", detail: fi.Name().String()}
					}
					items[fi.Name().String()] = renderFileInfo(fi)
				}
			} else {
				pd, code := r.realPD(st.Path)
				if code != "ok" {
					return navFailure(code, st.Path)
				}
				dirs, leaves, err := pd.LookupAllChildren()
				if err != nil {
					return outcome{code: errCode(err)}
				}
				for _, e := range dirs {
					items[e.Name.String()] = "dir"
				}
				for _, e := range leaves {
					if _, dup := items[e.Name.String()]; dup {
						return outcome{code: "duplicate-entry", detail: e.Name.String()}
					}
					var attrs virtual.Attributes
					e.Child.VirtualGetAttributes(ctx, st.mask(), &attrs)
					items[e.Name.String()] = renderAttributes(&attrs)
				}
			}
			return outcome{code: "ok", detail: renderListing(items)}
		case "upload":
			d, err := bd.UploadFile(ctx, comp(st.Name), digestFunction, closedChannel)
			if err != nil {
				return outcome{code: errCode(err)}
			}
			return outcome{code: "ok", detail: d.String()}
		case "readlink":
			target, err := bd.Readlink(comp(st.Name))
			if err != nil {
				return outcome{code: errCode(err)}
			}
			return outcome{code: "ok", detail: parserString(target)}
		case "mkdir":
			return outcome{code: errCode(bd.Mkdir(comp(st.Name), 0o777))}
		case "remove":
			return outcome{code: errCode(bd.Remove(comp(st.Name)))}
		case "removeall":
			return outcome{code: errCode(bd.RemoveAll(comp(st.Name)))}
		}
		panic("harness bug: unknown BuildDirectory op " + st.Op)
	}

	d, code := r.realDir(st.Path)
	if code != "ok" {
		return navFailure(code, st.Path)
	}
	switch st.Op {
	case "lookup":
		var attrs virtual.Attributes
		_, s := d.VirtualLookup(ctx, comp(st.Name), st.mask(), &attrs)
		if s != virtual.StatusOK {
			return outcome{code: statusCode(s)}
		}
		return outcome{code: "ok", detail: renderAttributes(&attrs)}
	case "readdir":
		entries, code := r.readDirAll(d, st.mask(), st.Len)
		if code != "ok" {
			return outcome{code: code}
		}
		items := map[string]string{}
		for i := range entries {
			if _, dup := items[entries[i].name]; dup {
				return outcome{code: "duplicate-entry", detail: entries[i].name}
			}
			items[entries[i].name] = renderAttributes(&entries[i].attrs)
		}
		return outcome{code: "ok", detail: renderListing(items)}
	case "read":
		var attrs virtual.Attributes
		leaf, _, _, s := d.VirtualOpenChild(ctx, comp(st.Name), virtual.ShareMaskRead, nil, &virtual.OpenExistingOptions{}, st.mask(), &attrs)
		if s != virtual.StatusOK {
			return outcome{code: statusCode(s)}
		}
		defer leaf.VirtualClose(virtual.ShareMaskRead)
		buf := staleBuffer(st.Len)
		n, eof, s := leaf.VirtualRead(ctx, buf, uint64(st.Off))
		if s != virtual.StatusOK {
			return outcome{code: statusCode(s)}
		}
		return outcome{code: "ok", detail: fmt.Sprintf("%q eof=%v", buf[:n], eof)}
	case "create":
		perm := virtual.PermissionsRead | virtual.PermissionsWrite
		if st.Exec {
			perm |= virtual.PermissionsExecute
		}
		var attrs virtual.Attributes
		share := virtual.ShareMaskRead | virtual.ShareMaskWrite
		leaf, _, _, s := d.VirtualOpenChild(ctx, comp(st.Name), share, (&virtual.Attributes{}).SetPermissions(perm), nil, st.mask(), &attrs)
		if s != virtual.StatusOK {
			return outcome{code: statusCode(s)}
		}
		defer leaf.VirtualClose(share)
		if len(st.Data) > 0 {
			if n, s := leaf.VirtualWrite(ctx, []byte(st.Data), 0); s != virtual.StatusOK || n != len(st.Data) {
				return outcome{code: "write-" + statusCode(s), detail: fmt.Sprint(n)}
			}
		}
		return outcome{code: "ok"}
	case "write":
		var attrs virtual.Attributes
		leaf, _, _, s := d.VirtualOpenChild(ctx, comp(st.Name), virtual.ShareMaskWrite, nil, &virtual.OpenExistingOptions{}, st.mask(), &attrs)
		if s != virtual.StatusOK {
			return outcome{code: statusCode(s)}
		}
		defer leaf.VirtualClose(virtual.ShareMaskWrite)
		if n, s := leaf.VirtualWrite(ctx, []byte(st.Data), uint64(st.Off)); s != virtual.StatusOK || n != len(st.Data) {
			return outcome{code: "write-" + statusCode(s), detail: fmt.Sprint(n)}
		}
		return outcome{code: "ok"}
	case "openw":
		share := virtual.ShareMask(st.Len)
		options := &virtual.OpenExistingOptions{Truncate: st.Exec}
		var attrs virtual.Attributes
		if st.Flags&1 != 0 {
			// The way an NFSv4 OPEN by file handle reaches the leaf.
			var la virtual.Attributes
			child, s := d.VirtualLookup(ctx, comp(st.Name), virtual.AttributesMaskFileType, &la)
			if s != virtual.StatusOK {
				return outcome{code: statusCode(s)}
			}
			_, leaf := child.GetPair()
			if leaf == nil {
				return outcome{code: "isdir"}
			}
			if s := leaf.VirtualOpenSelf(ctx, share, options, st.mask(), &attrs); s != virtual.StatusOK {
				return outcome{code: statusCode(s)}
			}
			leaf.VirtualClose(share)
			return outcome{code: "ok"}
		}
		var createAttributes *virtual.Attributes
		if st.Flags&2 != 0 {
			// open(O_CREAT) without O_EXCL on a name that exists.
			createAttributes = (&virtual.Attributes{}).SetPermissions(virtual.PermissionsRead | virtual.PermissionsWrite)
		}
		leaf, _, _, s := d.VirtualOpenChild(ctx, comp(st.Name), share, createAttributes, options, st.mask(), &attrs)
		if s != virtual.StatusOK {
			return outcome{code: statusCode(s)}
		}
		leaf.VirtualClose(share)
		return outcome{code: "ok"}
	case "setsize", "allocate":
		var la virtual.Attributes
		child, s := d.VirtualLookup(ctx, comp(st.Name), virtual.AttributesMaskFileType, &la)
		if s != virtual.StatusOK {
			return outcome{code: statusCode(s)}
		}
		_, leaf := child.GetPair()
		if leaf == nil {
			return outcome{code: "isdir"}
		}
		if st.Op == "allocate" {
			return outcome{code: statusCode(leaf.VirtualAllocate(ctx, uint64(st.Off), uint64(st.Len)))}
		}
		var out virtual.Attributes
		return outcome{code: statusCode(leaf.VirtualSetAttributes(ctx, (&virtual.Attributes{}).SetSizeBytes(uint64(st.Len)), st.mask(), &out))}
	case "mkdir":
		var out virtual.Attributes
		_, _, s := d.VirtualMkdir(ctx, comp(st.Name), &virtual.Attributes{}, st.mask(), &out)
		return outcome{code: statusCode(s)}
	case "symlink":
		var out virtual.Attributes
		_, _, s := d.VirtualMknod(ctx, comp(st.Name), (&virtual.Attributes{}).SetFileType(filesystem.FileTypeSymlink).SetSymlinkTarget(path.UNIXFormat.NewParser(st.Target)), st.mask(), &out)
		return outcome{code: statusCode(s)}
	case "remove":
		_, s := d.VirtualRemove(ctx, comp(st.Name), st.Flags&1 == 0, st.Flags&2 == 0)
		return outcome{code: statusCode(s)}
	case "rename":
		d2, code := r.realDir(st.Path2)
		if code != "ok" {
			return navFailure(code, st.Path2)
		}
		_, _, s := d.VirtualRename(ctx, comp(st.Name), d2, comp(st.Name2))
		if s != virtual.StatusOK {
			return outcome{code: statusCode(s)}
		}
		var la virtual.Attributes
		switch _, s := d.VirtualLookup(ctx, comp(st.Name), virtual.AttributesMaskFileType, &la); s {
		case virtual.StatusOK:
			return outcome{code: "ok", detail: "old_present"}
		case virtual.StatusErrNoEnt:
			return outcome{code: "ok", detail: "old_gone"}
		default:
			return outcome{code: "ok", detail: "old_" + statusCode(s)}
		}
	case "link":
		var la virtual.Attributes
		child, s := d.VirtualLookup(ctx, comp(st.Name), virtual.AttributesMaskFileType, &la)
		if s != virtual.StatusOK {
			return outcome{code: statusCode(s)}
		}
		_, leaf := child.GetPair()
		if leaf == nil {
			return outcome{code: "isdir"}
		}
		d2, code := r.realDir(st.Path2)
		if code != "ok" {
			return navFailure(code, st.Path2)
		}
		var out virtual.Attributes
		_, s = d2.VirtualLink(ctx, comp(st.Name2), leaf, st.mask(), &out)
		return outcome{code: statusCode(s)}
	}
	panic("harness bug: unknown op " + st.Op)
}

func (r *rig) realWalk(full bool) outcome {
	var lines []string
	io := false
	var walk func(d virtual.Directory, m *mnode, prefix string)
	walk = func(d virtual.Directory, m *mnode, prefix string) {
		entries, code := r.readDirAll(d, maskVariants[0], 0)
		if code != "ok" {
			lines = append(lines, prefix+"/ !"+code)
			if code == "io" {
				io = true
			}
			return
		}
		sort.SliceStable(entries, func(i, j int) bool { return entries[i].name < entries[j].name })
		for i := range entries {
			e := &entries[i]
			line := prefix + "/" + e.name + " " + renderAttributes(&e.attrs)
			childDir, _ := e.child.GetPair()
			if childDir == nil && full && e.attrs.GetFileType() == filesystem.FileTypeRegularFile {
				size, _ := e.attrs.GetSizeBytes()
				data, code := r.readWhole(d, e.name, int(size))
				if code != "ok" {
					line += " data=!" + code
					if code == "io" {
						io = true
					}
				} else {
					line += " data=" + data
				}
			}
			lines = append(lines, line)
			if childDir != nil {
				var cm *mnode
				if m != nil {
					cm = r.get(m, e.name)
				}
				if full || (cm != nil && cm.kind == kindDir && cm.visited) {
					walk(childDir, cm, prefix+"/"+e.name)
				}
			}
		}
	}
	walk(r.w.top, r.root, "")
	code := "ok"
	if io {
		code = "io"
	}
	return outcome{code: code, detail: strings.Join(lines, "\n")}
}

// ---------------------------------------------------------------------
// Model side: what the step must return, and how it changes the tree.

func (r *rig) modelWalk(full bool) outcome {
	var lines []string
	io := false
	var walk func(n *mnode, prefix string)
	walk = func(n *mnode, prefix string) {
		if r.contentsBad(n) {
			lines = append(lines, prefix+"/ !io")
			io = true
			return
		}
		r.touch(n)
		for _, name := range n.names() {
			c := r.get(n, name)
			line := prefix + "/" + name + " " + c.renderFull()
			if c.kind == kindFile && full {
				if c.cas && r.badContent[c.content] != "" && len(c.data) > 0 {
					line += " data=!io"
					io = true
				} else {
					line += fmt.Sprintf(" data=%q eof=true", c.data)
				}
			}
			lines = append(lines, line)
			if c.kind == kindDir && (full || c.visited) {
				walk(c, prefix+"/"+name)
			}
		}
	}
	walk(r.root, "")
	code := "ok"
	if io {
		code = "io"
	}
	return outcome{code: code, detail: strings.Join(lines, "\n")}
}

// isPrefix compares paths component-wise after name normalization.
func (r *rig) isPrefix(prefix, p []string) bool {
	if len(prefix) > len(p) {
		return false
	}
	for i := range prefix {
		if r.norm(prefix[i]) != r.norm(p[i]) {
			return false
		}
	}
	return true
}

func (r *rig) noteRefused(op string) {
	r.refused++
	r.refusedBy[op]++
}

// noteCASEntryEdit counts local removals / replacements / moves of an
// entry that is a CAS-backed file (or a directory from the input root).
func (r *rig) noteCASEntryEdit(n *mnode) {
	if n != nil && ((n.kind == kindFile && n.cas) || (n.kind == kindDir && n.occ1 > 0)) {
		r.casEntryEdits++
	}
}

func (r *rig) noteMod(st *step) {
	r.mods++
	if r.inShared(st.Path) || (st.Path2 != nil && r.inShared(st.Path2)) {
		r.modsInShared++
	}
}

// predict returns the outcome the model demands and a function that
// applies the step's effect to the model (called only when the real
// operation did not report an I/O error).
func (r *rig) predict(st *step) (outcome, func(got outcome)) {
	io := outcome{code: "io"}
	switch st.Op {
	case "walk":
		return r.modelWalk(true), nil
	case "walkloaded":
		return r.modelWalk(false), nil
	case "merge":
		// MergeDirectoryContents fetches the root directory eagerly and
		// then creates its children without overwriting.
		d, ok := r.modelDir(r.w.actionPath[st.Off])
		if !ok {
			panic("harness bug: action directory is inaccessible")
		}
		root := r.spec.root()
		if r.badTmpl[root] != "" {
			return io, nil
		}
		for _, e := range r.spec.Dirs[root].Entries {
			if r.get(d, e.Name) != nil {
				return outcome{code: "exist"}, nil
			}
		}
		return outcome{code: "ok"}, func(outcome) {
			for _, e := range r.spec.Dirs[root].Entries {
				r.put(d, e.Name, r.nodeFromEntry(e))
			}
			d.occ1 = root + 1
			r.occExpanded[root]++
			r.merged[st.Off] = true
		}
	}
	d, ok := r.modelDir(st.Path)
	if !ok {
		return io, nil
	}
	c := r.get(d, st.Name)
	kindCode := func(c *mnode) string {
		switch {
		case c == nil:
			return "noent"
		case c.kind == kindDir:
			return "isdir"
		case c.kind == kindSymlink:
			return "symlink"
		}
		return ""
	}
	switch st.Op {
	case "lookup":
		if c == nil {
			return outcome{code: "noent"}, nil
		}
		if st.BD {
			return outcome{code: "ok", detail: c.renderInfo()}, nil
		}
		return outcome{code: "ok", detail: c.renderFull()}, nil
	case "readdir":
		items := map[string]string{}
		for _, c := range d.children {
			if st.BD && st.Flags == 0 {
				items[c.name] = c.renderInfo()
			} else {
				items[c.name] = c.renderFull()
			}
		}
		return outcome{code: "ok", detail: renderListing(items)}, nil
	case "read":
		if k := kindCode(c); k != "" {
			return outcome{code: k}, nil
		}
		lo, hi := st.Off, st.Off+st.Len
		if lo > len(c.data) {
			lo = len(c.data)
		}
		if hi > len(c.data) {
			hi = len(c.data)
		}
		if c.cas && r.badContent[c.content] == "short_file" && hi > lo {
			// The object lost its tail on a medium that does not
			// validate: a read that stays inside what is left may
			// succeed, but only with the right bytes.
			return outcome{code: "ok-or-io", detail: fmt.Sprintf("%q eof=%v", c.data[lo:hi], st.Off+st.Len >= len(c.data))}, nil
		}
		if c.cas && r.badContent[c.content] != "" && hi > lo {
			return io, nil
		}
		return outcome{code: "ok", detail: fmt.Sprintf("%q eof=%v", c.data[lo:hi], st.Off+st.Len >= len(c.data))}, nil
	case "upload":
		if k := kindCode(c); k != "" {
			if k == "symlink" {
				panic("harness bug: upload of a symlink is not generated")
			}
			return outcome{code: k}, nil
		}
		return outcome{code: "ok", detail: digestOf(c.data).String()}, nil
	case "readlink":
		switch {
		case c == nil:
			return outcome{code: "noent"}, nil
		case c.kind == kindDir:
			return outcome{code: "isdir"}, nil
		case c.kind == kindFile:
			return outcome{code: "inval"}, nil
		}
		return outcome{code: "ok", detail: c.target}, nil
	case "create":
		if c != nil {
			return outcome{code: "exist"}, nil
		}
		return outcome{code: "ok"}, func(outcome) {
			r.put(d, st.Name, &mnode{kind: kindFile, exec: st.Exec, data: []byte(st.Data)})
			r.noteMod(st)
		}
	case "write":
		if k := kindCode(c); k != "" {
			return outcome{code: k}, nil
		}
		if c.cas {
			return outcome{code: "refused"}, func(outcome) { r.noteRefused(st.Op) }
		}
		return outcome{code: "ok"}, func(outcome) {
			if len(st.Data) == 0 {
				return // a zero-length write changes nothing
			}
			if end := st.Off + len(st.Data); end > len(c.data) {
				c.data = append(c.data, make([]byte, end-len(c.data))...)
			}
			copy(c.data[st.Off:], st.Data)
			r.noteMod(st)
		}
	case "openw":
		if k := kindCode(c); k != "" {
			return outcome{code: k}, nil
		}
		wantsChange := virtual.ShareMask(st.Len)&virtual.ShareMaskWrite != 0 || st.Exec
		if c.cas {
			if wantsChange {
				return outcome{code: "refused"}, func(outcome) { r.noteRefused(st.Op) }
			}
			return outcome{code: "ok"}, nil
		}
		return outcome{code: "ok"}, func(outcome) {
			if st.Exec {
				c.data = nil
				r.noteMod(st)
			}
		}
	case "setsize":
		switch {
		case c == nil:
			return outcome{code: "noent"}, nil
		case c.kind == kindDir:
			return outcome{code: "isdir"}, nil
		case c.kind != kindFile:
			return outcome{code: "inval"}, nil
		case c.cas:
			// Also when the requested size is the size the file already
			// has: "every attempt to ... truncate ... is refused".
			return outcome{code: "refused"}, func(outcome) { r.noteRefused(st.Op) }
		}
		return outcome{code: "ok"}, func(outcome) {
			if st.Len <= len(c.data) {
				c.data = c.data[:st.Len]
			} else {
				c.data = append(c.data, make([]byte, st.Len-len(c.data))...)
			}
			r.noteMod(st)
		}
	case "allocate":
		if k := kindCode(c); k != "" {
			if k == "symlink" {
				panic("harness bug: allocate on a symlink is not generated")
			}
			return outcome{code: k}, nil
		}
		if c.cas {
			return outcome{code: "refused"}, func(outcome) { r.noteRefused(st.Op) }
		}
		return outcome{code: "ok"}, func(outcome) {
			if end := st.Off + st.Len; end > len(c.data) {
				c.data = append(c.data, make([]byte, end-len(c.data))...)
				r.noteMod(st)
			}
		}
	case "mkdir":
		if c != nil {
			return outcome{code: "exist"}, nil
		}
		return outcome{code: "ok"}, func(outcome) {
			r.put(d, st.Name, &mnode{kind: kindDir, tmpl: -1, expanded: true, visited: true, children: map[string]*mnode{}})
			r.noteMod(st)
		}
	case "symlink":
		if c != nil {
			return outcome{code: "exist"}, nil
		}
		return outcome{code: "ok"}, func(outcome) {
			r.put(d, st.Name, &mnode{kind: kindSymlink, target: normTarget(st.Target)})
			r.noteMod(st)
		}
	case "remove":
		removeDirectory, removeLeaf := true, true
		if !st.BD {
			removeDirectory, removeLeaf = st.Flags&1 == 0, st.Flags&2 == 0
		}
		switch {
		case c == nil:
			return outcome{code: "noent"}, nil
		case c.kind == kindDir:
			// VirtualRemove is documented to behave "like rmdir(),
			// unlink() or a mixture of the two", Directory.Remove as
			// "the equivalent of os.Remove()": the error codes those
			// calls document are accepted, nothing narrower.
			if !removeDirectory {
				return outcome{code: "oneof:perm|isdir"}, nil // unlink(2) of a directory
			}
			if r.contentsBad(c) {
				return io, nil
			}
			r.touch(c)
			if len(c.children) > 0 {
				return outcome{code: "oneof:notempty|exist"}, nil // rmdir(2) of a non-empty directory
			}
		default:
			if !removeLeaf {
				return outcome{code: "notdir"}, nil // rmdir(2) of something else
			}
		}
		return outcome{code: "ok"}, func(outcome) {
			r.del(d, st.Name)
			r.noteMod(st)
			r.noteCASEntryEdit(c)
		}
	case "removeall":
		if c == nil {
			return outcome{code: "noent"}, nil
		}
		return outcome{code: "ok"}, func(outcome) {
			r.del(d, st.Name)
			r.noteMod(st)
			r.noteCASEntryEdit(c)
		}
	case "rename":
		d2, ok := r.modelDir(st.Path2)
		if !ok {
			return io, nil
		}
		if c != nil && c.kind == kindDir && r.isPrefix(append(append([]string(nil), st.Path...), st.Name), st.Path2) {
			panic("harness bug: rename of a directory into its own subtree is not generated")
		}
		n := r.get(d2, st.Name2)
		move := func(outcome) {
			r.noteCASEntryEdit(c)
			r.noteCASEntryEdit(n)
			r.del(d, st.Name)
			r.put(d2, st.Name2, c)
			r.noteMod(st)
		}
		// VirtualRename documents no error codes and C17 does not
		// depend on them: a rename that cannot be done (no such source,
		// a non-directory over a directory or the reverse, a non-empty
		// target directory) has to fail with some error other than an
		// I/O error and change nothing.
		if c == nil {
			return outcome{code: "error", detail: "no such source"}, nil
		}
		if n == nil {
			return outcome{code: "ok", detail: "old_gone"}, move
		}
		if n == c {
			return outcome{code: "ok", detail: "old_present"}, nil
		}
		if n.kind == kindDir {
			if c.kind != kindDir {
				return outcome{code: "error", detail: "non-directory over a directory"}, nil
			}
			if r.contentsBad(n) {
				return io, nil
			}
			r.touch(n)
			if len(n.children) > 0 {
				return outcome{code: "error", detail: "over a non-empty directory"}, nil
			}
			return outcome{code: "ok", detail: "old_gone"}, move
		}
		if c.kind == kindDir {
			return outcome{code: "error", detail: "directory over a non-directory"}, nil
		}
		ic, okc := c.immutableIdentity()
		in, okn := n.immutableIdentity()
		if okc && okn && ic == in {
			// The two names may or may not refer to one object
			// (stateless handles are deduplicated by the NFS
			// allocator, and hard links exist): POSIX says a
			// rename between two links of one file does nothing.
			return outcome{code: "ok", detail: "either"}, func(got outcome) {
				r.ambiguous++
				if got.detail == "old_gone" {
					move(got)
				}
			}
		}
		return outcome{code: "ok", detail: "old_gone"}, move
	case "link":
		if c == nil {
			return outcome{code: "noent"}, nil
		}
		if c.kind == kindDir {
			return outcome{code: "isdir"}, nil
		}
		if _, immutable := c.immutableIdentity(); !immutable {
			panic("harness bug: hard links to locally created files are not generated")
		}
		d2, ok := r.modelDir(st.Path2)
		if !ok {
			return io, nil
		}
		if r.get(d2, st.Name2) != nil {
			return outcome{code: "exist"}, nil
		}
		return outcome{code: "ok"}, func(outcome) {
			cp := *c
			r.put(d2, st.Name2, &cp)
			r.noteMod(st)
		}
	}
	panic("harness bug: unknown op " + st.Op)
}

func matches(got, want outcome) bool {
	if alternatives, ok := strings.CutPrefix(want.code, "oneof:"); ok {
		for _, a := range strings.Split(alternatives, "|") {
			if got.code == a {
				return true
			}
		}
		return false
	}
	switch want.code {
	case "refused", "error":
		// Some error that is an answer (not an I/O error, not a
		// failure to get there, not an unknown status, not a panic).
		return got.code != "ok" && got.code != "io" && got.code != "panic" && !strings.HasPrefix(got.code, "nav-") && !strings.HasPrefix(got.code, "status(")
	case "refused-or-ok":
		return got.code != "io" && !strings.HasPrefix(got.code, "nav-")
	case "ok-or-io":
		return got.code == "io" || (got.code == "ok" && got.detail == want.detail)
	}
	if got.code != want.code {
		return false
	}
	if want.detail == "either" {
		return got.detail == "old_gone" || got.detail == "old_present"
	}
	return got.detail == want.detail
}

func clip(s string) string {
	if len(s) > 160 {
		return s[:160] + "..."
	}
	return s
}

// safeReal turns a panic of the code under test into an outcome, so that
// it is reported with the script like any other wrong answer. (The world
// is unusable afterwards: a directory lock may still be held. The case
// fails right away, so nothing else touches it.)
func (r *rig) safeReal(st *step) (got outcome) {
	defer func() {
		if p := recover(); p != nil {
			got = outcome{code: "panic", detail: fmt.Sprint(p)}
		}
	}()
	return r.real(st)
}

// run executes one step on both sides and compares. A storage fault that
// fires during the step must make it report an error and leave the tree
// untouched; the step is then retried (faults are one-shot) and must give
// the model's answer.
func (r *rig) run(st *step) error {
	c := r.w.cas
	if st.Op == "repair" {
		// Missing and corrupted blobs are stored correctly from now on.
		tmpls, contents := r.repairFn()
		for _, t := range tmpls {
			if r.caseBad[t] {
				r.badTmpl[t] = "case_collision"
			} else {
				delete(r.badTmpl, t)
			}
		}
		for _, i := range contents {
			delete(r.badContent, i)
		}
		r.repaired = true
		st.Res = "repaired"
		return nil
	}
	r.marking = true
	want, commit := r.predict(st)
	r.marking = false
	c.resetFired()
	got := r.safeReal(st)
	for attempt := 0; c.firedCount() > 0; attempt++ {
		if got.code != "io" {
			if c.lastFiredShort && matches(got, want) {
				// The object was served short and unvalidated,
				// but this read did not need the lost part.
				break
			}
			return fmt.Errorf("a storage fault fired during %+v, but the operation reported %q instead of an error (the model gives %q)", *st, got, want)
		}
		if attempt > 8 {
			return fmt.Errorf("harness bug: faults keep firing during %+v", *st)
		}
		r.ioSeen++
		c.resetFired()
		got = r.safeReal(st)
		if c.firedCount() == 0 && got.code != "io" {
			r.retriedOK++
		}
	}
	if !matches(got, want) {
		return fmt.Errorf("step %+v: real tree answered\n%s\nbut the requested tree plus local edits gives\n%s\nlogged errors: %q", *st, got, want, r.w.errlog.errs)
	}
	if got.code == "io" {
		r.ioSeen++
		r.badAccess++
	} else if commit != nil {
		commit(got)
	}
	if st.Op == "merge" && (got.code == "exist" || (got.code == "io" && r.badTmpl[r.spec.root()] == "case_collision")) {
		// CreateChildren failed inside MergeDirectoryContents (EEXIST,
		// or colliding names on a case insensitive mount).
		r.mergeCollisions++
	}
	st.Res = clip(got.String())
	return nil
}

package inputroot

import (
	"bytes"
	"fmt"
	"strings"

	remoteexecution "github.com/bazelbuild/remote-apis/build/bazel/remote/execution/v2"
	"github.com/buildbarn/bb-storage/pkg/digest"
	"google.golang.org/protobuf/proto"
	"pgregory.net/rapid"
)

// A malformation makes one Directory message invalid, or one blob
// unavailable or corrupted. Message-level malformations change the bytes
// (and hence the digest) of a template; every parent refers to the digest
// of the malformed message, exactly as a client that uploaded such a tree
// would have made it.
type malform struct {
	Kind     string `json:"kind"`
	Template int    `json:"template,omitempty"`
	Content  int    `json:"content,omitempty"`
	Entry    int    `json:"entry,omitempty"`
	Variant  int    `json:"variant,omitempty"`
}

// Names that path.NewComponent documents as invalid: empty, ".", "..",
// containing a slash, not a C string.
var invalidNames = []string{"", ".", "..", "a/b", "/", "x\x00y", "/abs", "a/", "./a", "../x", "a//b", "\x00"}

var (
	// symlink_target_nul: a symlink whose target contains a NUL byte (the
	// UNIX path parser documents that it rejects these, so
	// SymlinkFactory.LookupSymlink fails after the files of the directory
	// have been created).
	messageMalformations = []string{"invalid_name", "duplicate", "bad_digest", "garbage_dir", "symlink_target_nul"}
	blobMalformations    = []string{"missing_dir", "corrupt_dir", "missing_file", "corrupt_file", "short_file"}
	// Further ways in which a Directory object can be unusable (drawn by
	// TestC17Malformed only): a name or symlink target that is not UTF-8
	// (proto3 strings have to be), a message that ends in the middle of a
	// field or has an invalid wire type, a reference whose size_bytes
	// does not match the stored object, a message larger than the
	// configured maximum Directory size.
	extraMessageMalformations = []string{"invalid_utf8", "truncated_dir", "size_mismatch", "oversized_dir"}
)

// maximumDirectorySizeBytes is the limit newDirectoryFetcher configures.
const maximumDirectorySizeBytes = 1 << 16

var nulTargets = []string{"a\x00b", "\x00", "ok/\x00", "../x\x00", "/abs\x00/y"}

func drawMalformations(rt *rapid.T, g *dagSpec) []malform {
	n := rapid.SampledFrom([]int{0, 1, 1, 1, 2}).Draw(rt, "nMalformations")
	var out []malform
	for i := 0; i < n; i++ {
		kinds := append(append([]string(nil), messageMalformations...), blobMalformations...)
		m := malform{Kind: rapid.SampledFrom(kinds).Draw(rt, "malformation")}
		switch m.Kind {
		case "missing_file", "corrupt_file", "short_file":
			m.Content = rapid.IntRange(0, len(g.Contents)-1).Draw(rt, "content")
			m.Variant = rapid.IntRange(0, 80).Draw(rt, "variant")
		default:
			// Bias away from the root, so that the lazily loaded
			// part of the tree is where the trouble usually is.
			m.Template = rapid.OneOf(rapid.IntRange(0, len(g.Dirs)-1), rapid.IntRange(0, max(0, len(g.Dirs)-2))).Draw(rt, "template")
			m.Entry = rapid.IntRange(0, 5).Draw(rt, "entry")
			m.Variant = rapid.IntRange(0, 59).Draw(rt, "variant")
			if m.Kind == "duplicate" && rapid.IntRange(0, 9).Draw(rt, "duplicateOfSameKind") < 5 {
				// Half of the duplicates repeat the kind of the entry
				// they duplicate (variants >= 30); among the entries,
				// directories come after the files.
				m.Variant = 30 + m.Variant%30
				m.Entry = rapid.SampledFrom([]int{0, 1, 2, 3, 4, 5, 3, 4, 5}).Draw(rt, "entryLate")
			}
		}
		out = append(out, m)
	}
	return out
}

var badHashes = []string{
	"zz00000000000000000000000000000000000000000000000000000000000000", // not hexadecimal
	"abcd", // too short
	"E3B0C44298FC1C149AFBF4C8996FB92427AE41E4649B934CA495991B7852B855", // upper case
	"", // empty
	"e3b0c44298fc1c149afbf4c8996fb92427ae41e4649b934ca495991b7852b85",                                                                  // 63 characters
	"e3b0c44298fc1c149afbf4c8996fb92427ae41e4649b934ca495991b7852b8555",                                                                // 65 characters
	"da39a3ee5e6b4b0d3255bfef95601890afd80709",                                                                                         // a SHA-1 sized hash with a SHA-256 digest function
	"cf83e1357eefb8bdf1542850d66d8007d620e4050b5715dc83f4a921d36ce9ce47d0d13c5d85f2b0ff8318d2877eec2f63b931bd47417a81a538327af927da3e", // SHA-512 sized
	"e3b0c44298fc1c149afbf4c8996fb924 7ae41e4649b934ca495991b7852b855",                                                                 // a space
	"e3b0c44298fc1c149afbf4c8996fb92427ae41e4649b934ca495991b7852b85g",                                                                 // 'g' at the end
}

// applyMessageMalformation edits the Directory message of a template.
func applyMessageMalformation(msg *remoteexecution.Directory, m malform) {
	total := len(msg.Files) + len(msg.Directories) + len(msg.Symlinks)
	nameOf := func(i int) *string {
		switch {
		case i < len(msg.Files):
			return &msg.Files[i].Name
		case i < len(msg.Files)+len(msg.Directories):
			return &msg.Directories[i-len(msg.Files)].Name
		default:
			return &msg.Symlinks[i-len(msg.Files)-len(msg.Directories)].Name
		}
	}
	emptyFile := digestOf(nil).GetProto()
	switch m.Kind {
	case "invalid_name":
		bad := invalidNames[m.Variant%len(invalidNames)]
		if total == 0 {
			switch m.Entry % 3 {
			case 0:
				msg.Files = append(msg.Files, &remoteexecution.FileNode{Name: bad, Digest: emptyFile})
			case 1:
				msg.Directories = append(msg.Directories, &remoteexecution.DirectoryNode{Name: bad, Digest: emptyFile})
			default:
				msg.Symlinks = append(msg.Symlinks, &remoteexecution.SymlinkNode{Name: bad, Target: "a"})
			}
			return
		}
		*nameOf(m.Entry % total) = bad
	case "duplicate":
		name := "dup"
		if total == 0 {
			msg.Files = append(msg.Files, &remoteexecution.FileNode{Name: name, Digest: emptyFile})
		} else {
			name = *nameOf(m.Entry % total)
		}
		kind := m.Variant % 3
		dirDigest := emptyFile
		if total > 0 && m.Variant >= 30 {
			if i := m.Entry%total - len(msg.Files); i >= 0 && i < len(msg.Directories) {
				// A second directory of that name with contents that can
				// be fetched: those of the next sibling directory (or its
				// own), so that a merge of the two would go through.
				dirDigest = msg.Directories[(i+1)%len(msg.Directories)].Digest
			}
			// The second entry is of the same kind as the one it
			// duplicates (two directories of one name whose contents do
			// not clash could be merged silently).
			switch i := m.Entry % total; {
			case i < len(msg.Files):
				kind = 0
			case i < len(msg.Files)+len(msg.Directories):
				kind = 1
			default:
				kind = 2
			}
		}
		switch kind {
		case 0:
			msg.Files = append(msg.Files, &remoteexecution.FileNode{Name: name, Digest: emptyFile, IsExecutable: true})
		case 1:
			msg.Directories = append(msg.Directories, &remoteexecution.DirectoryNode{Name: name, Digest: dirDigest})
		default:
			msg.Symlinks = append(msg.Symlinks, &remoteexecution.SymlinkNode{Name: name, Target: "elsewhere"})
		}
	case "bad_digest":
		n := len(msg.Files) + len(msg.Directories)
		if n == 0 {
			msg.Files = append(msg.Files, &remoteexecution.FileNode{Name: "baddigest", Digest: emptyFile})
			n = 1
		}
		i := m.Entry % n
		var d **remoteexecution.Digest
		if i < len(msg.Files) {
			d = &msg.Files[i].Digest
		} else {
			d = &msg.Directories[i-len(msg.Files)].Digest
		}
		switch v := m.Variant % (len(badHashes) + 3); v {
		case len(badHashes):
			*d = nil
		case len(badHashes) + 1:
			*d = &remoteexecution.Digest{Hash: (*d).GetHash(), SizeBytes: -1}
		case len(badHashes) + 2:
			*d = &remoteexecution.Digest{Hash: (*d).GetHash(), SizeBytes: -1 << 63}
		default:
			*d = &remoteexecution.Digest{Hash: badHashes[v], SizeBytes: (*d).GetSizeBytes()}
		}
	case "symlink_target_nul":
		bad := nulTargets[m.Variant%len(nulTargets)]
		if len(msg.Symlinks) == 0 {
			msg.Symlinks = append(msg.Symlinks, &remoteexecution.SymlinkNode{Name: "nul", Target: bad})
		} else {
			msg.Symlinks[m.Entry%len(msg.Symlinks)].Target = bad
		}
	case "oversized_dir":
		// A valid message that is larger than the configured maximum.
		msg.Files = append(msg.Files, &remoteexecution.FileNode{Name: strings.Repeat("n", maximumDirectorySizeBytes), Digest: emptyFile})
	case "invalid_utf8":
		// The placeholder is made invalid UTF-8 after marshalling.
		switch m.Variant % 3 {
		case 0:
			msg.Files = append(msg.Files, &remoteexecution.FileNode{Name: utf8Placeholder, Digest: emptyFile})
		case 1:
			msg.Directories = append(msg.Directories, &remoteexecution.DirectoryNode{Name: utf8Placeholder, Digest: emptyFile})
		default:
			msg.Symlinks = append(msg.Symlinks, &remoteexecution.SymlinkNode{Name: "utf8", Target: utf8Placeholder})
		}
	}
}

const utf8Placeholder = "@@UTF8@@"

// unparseable reports whether the bytes are not a Directory message.
func unparseable(b []byte) bool {
	return proto.Unmarshal(b, &remoteexecution.Directory{}) != nil
}

// applyByteMalformation damages a marshalled Directory message so that
// it cannot be parsed any more (checked with the protobuf library; if a
// variant happens to leave a parseable message, a field that claims more
// bytes than there are is appended).
func applyByteMalformation(b []byte, m malform) []byte {
	b = append([]byte(nil), b...)
	switch m.Kind {
	case "invalid_utf8":
		b = bytes.Replace(b, []byte(utf8Placeholder), []byte("@@\xff\xfe8@@"), 1)
	case "truncated_dir":
		switch v := m.Variant % 4; {
		case v == 0 && len(b) > 0:
			b = b[:len(b)-1] // ends in the middle of the last field
		case v == 1:
			b = append(b, 0x0f) // field 1 with wire type 7
		case v == 2:
			b = append(b, 0x08) // a varint field without its value
		case v == 3 && len(b) > 3:
			b = b[:len(b)/2]
		}
	}
	if !unparseable(b) {
		b = append(b, 0x0a, 0x7f)
	}
	if !unparseable(b) {
		panic(fmt.Sprintf("harness bug: %x still parses as a Directory message", b))
	}
	return b
}

func digestWithSize(d digest.Digest, size int64) digest.Digest {
	out, err := digestFunction.NewDigest(d.GetHashString(), size)
	if err != nil {
		panic(fmt.Sprintf("harness bug: %v", err))
	}
	return out
}

// materializeWith stores the DAG with the malformations applied. It
// returns which templates / contents are inaccessible, and a function
// that repairs everything repairable (missing or corrupted blobs are
// stored correctly) and returns what it repaired.
func materializeWith(c *fakeCAS, g *dagSpec, malforms []malform) (mat *materialized, badTmpl map[int]string, badContent map[int]string, repair func() (tmpl []int, content []int)) {
	mat = &materialized{spec: g, badKeys: map[string]bool{}}
	badTmpl, badContent = map[int]string{}, map[int]string{}
	for _, content := range g.Contents {
		mat.fileDigest = append(mat.fileDigest, c.store([]byte(content)))
		c.fileKeys[casKey(mat.fileDigest[len(mat.fileDigest)-1])] = len(content) > 0
	}
	for t, d := range g.Dirs {
		msg := encodeDir(g, d, mat.dirDigests, mat.fileDigest)
		var b []byte
		garbage := false
		var byteLevel []malform
		var sizeMismatch *malform
		for _, m := range malforms {
			if m.Template != t {
				continue
			}
			switch m.Kind {
			case "invalid_name", "duplicate", "bad_digest", "symlink_target_nul", "oversized_dir":
				applyMessageMalformation(msg, m)
				badTmpl[t] = m.Kind
			case "invalid_utf8":
				applyMessageMalformation(msg, m)
				byteLevel = append(byteLevel, m)
				badTmpl[t] = m.Kind
			case "truncated_dir":
				byteLevel = append(byteLevel, m)
				badTmpl[t] = m.Kind
			case "size_mismatch":
				m := m
				sizeMismatch = &m
				badTmpl[t] = m.Kind
			case "garbage_dir":
				garbage = true
				badTmpl[t] = m.Kind
			}
		}
		if garbage {
			// A length-delimited field that claims more bytes than
			// there are: never parses. The template index keeps the
			// garbage of different templates apart.
			b = []byte{0x0a, 0x7f, byte(t)}
		} else {
			b = mustMarshal(msg)
			for _, m := range byteLevel {
				b = applyByteMalformation(b, m)
			}
		}
		mat.dirBytes = append(mat.dirBytes, b)
		d := c.store(b)
		if sizeMismatch != nil {
			// Every parent refers to the object with a size_bytes
			// that is not the size of the object the storage holds
			// for that reference.
			size := d.GetSizeBytes()
			switch v := sizeMismatch.Variant % 3; {
			case v == 0 && size > 0:
				size--
			case v == 1:
				size += 100
			default:
				size++
			}
			d = digestWithSize(d, size)
			c.blobs[casKey(d)] = append([]byte(nil), b...)
		}
		mat.dirDigests = append(mat.dirDigests, d)
	}
	type fix struct {
		key  string
		data []byte
	}
	var fixes []fix
	var fixedTmpl, fixedContent []int
	for _, m := range malforms {
		switch m.Kind {
		case "missing_dir", "corrupt_dir":
			t := m.Template
			if badTmpl[t] != "" {
				continue // already permanently malformed
			}
			key := casKey(mat.dirDigests[t])
			mat.badKeys[key] = true
			fixes = append(fixes, fix{key, mat.dirBytes[t]})
			fixedTmpl = append(fixedTmpl, t)
			badTmpl[t] = m.Kind
			if m.Kind == "missing_dir" {
				delete(c.blobs, key)
			} else {
				bad := append([]byte(nil), mat.dirBytes[t]...)
				if len(bad) == 0 {
					bad = []byte{0x00}
				} else {
					bad[len(bad)-1] ^= 0x01
				}
				c.blobs[key] = bad
			}
		case "missing_file", "corrupt_file", "short_file":
			i := m.Content
			if badContent[i] != "" || len(g.Contents[i]) == 0 {
				continue // reads of empty files never reach the CAS
			}
			key := casKey(mat.fileDigest[i])
			mat.badKeys[key] = true
			fixes = append(fixes, fix{key, []byte(g.Contents[i])})
			fixedContent = append(fixedContent, i)
			badContent[i] = m.Kind
			switch m.Kind {
			case "missing_file":
				delete(c.blobs, key)
			case "corrupt_file":
				bad := []byte(g.Contents[i])
				bad[0] ^= 0x20
				c.blobs[key] = bad
			default:
				// The medium lost 1..len bytes of the tail and the
				// backend does not validate what it hands out.
				c.shortBy[key] = 1 + m.Variant%len(g.Contents[i])
			}
		}
	}
	// Several templates may share one digest (identical contents): a
	// blob-level malformation of one then hits all of them.
	for t := range g.Dirs {
		for _, u := range fixedTmpl {
			if badTmpl[t] == "" && mat.dirDigests[t] == mat.dirDigests[u] {
				badTmpl[t] = badTmpl[u] + fmt.Sprintf("(same blob as template %d)", u)
				fixedTmpl = append(fixedTmpl, t)
			}
		}
	}
	for i := range g.Contents {
		for _, u := range fixedContent {
			if badContent[i] == "" && mat.fileDigest[i] == mat.fileDigest[u] {
				badContent[i] = badContent[u]
				fixedContent = append(fixedContent, i)
			}
		}
	}
	repair = func() ([]int, []int) {
		for _, f := range fixes {
			c.blobs[f.key] = append([]byte(nil), f.data...)
			delete(c.shortBy, f.key)
		}
		return fixedTmpl, fixedContent
	}
	return mat, badTmpl, badContent, repair
}

package inputroot

import (
	"testing"

	"github.com/buildbarn/bb-storage/pkg/filesystem/path"
	"pgregory.net/rapid"
)

// TestC17HarnessNormTarget is a self-check of the harness (not part of
// the verdict, not registered in checks.d): the hand-written normal form
// of symlink targets agrees with the form in which bb-storage's (trusted)
// path package prints a parsed UNIX path, is idempotent and is the
// identity on the canonical targets.
func TestC17HarnessNormTarget(t *testing.T) {
	for _, s := range symlinkTargets {
		if normTarget(s) != s {
			t.Fatalf("normTarget(%q) = %q", s, normTarget(s))
		}
	}
	rapid.Check(t, func(rt *rapid.T) {
		s := drawSymlinkTarget(rt)
		n := normTarget(s)
		if lib := parserString(path.UNIXFormat.NewParser(s)); lib != n {
			rt.Fatalf("normTarget(%q) = %q, path.Builder gives %q", s, n, lib)
		}
		if normTarget(n) != n {
			rt.Fatalf("normTarget is not idempotent on %q: %q, %q", s, n, normTarget(n))
		}
	})
}

package inputroot

import (
	"context"
	"fmt"
	"os"
	"path/filepath"
	"sort"
	"strings"
	"sync"
	"testing"

	"github.com/buildbarn/bb-remote-execution/pkg/builder"
	"github.com/buildbarn/bb-remote-execution/pkg/cas"
	"github.com/buildbarn/bb-storage/pkg/eviction"
	"github.com/buildbarn/bb-storage/pkg/filesystem"
	"github.com/buildbarn/bb-storage/pkg/filesystem/path"
	"golang.org/x/sync/semaphore"
	"google.golang.org/grpc/status"
	"pgregory.net/rapid"

	"verif/harness/internal/simkit"
)

type naiveHeader struct {
	Op          string      `json:"op"`
	DAG         *dagSpec    `json:"dag"`
	Malform     []malform   `json:"malform,omitempty"`
	World       worldConfig `json:"world"`
	Hardlinking bool        `json:"hardlinking"`
	MaxFiles    int         `json:"maxFiles"`
	MaxBytes    int64       `json:"maxBytes"`
	Concurrency int64       `json:"concurrency"`
	Merges      int         `json:"merges"`
	// Cancellation of the caller's context: "" (none), "at" (when file
	// download number CancelAt starts) or "window" (the last
	// min(concurrency, files) downloads are held until all downloads have
	// started, i.e. the directory traversal has launched everything; then
	// the context is cancelled and they are let go).
	Cancel   string `json:"cancel,omitempty"`
	CancelAt int    `json:"cancelAt,omitempty"`
}

// cancelPlan is the Get hook that implements naiveHeader.Cancel.
type cancelPlan struct {
	mu       sync.Mutex
	fileKeys map[string]bool
	mode     string
	at       int
	total    int
	window   int
	started  int
	fired    bool
	cancel   context.CancelFunc
	released chan struct{}
}

func (p *cancelPlan) hook(key string) {
	if !p.fileKeys[key] {
		return
	}
	p.mu.Lock()
	idx := p.started
	p.started++
	last := p.started == p.total
	p.mu.Unlock()
	switch p.mode {
	case "at":
		if idx == p.at {
			p.fired = true
			p.cancel()
		}
	case "window":
		if last {
			p.fired = true
			p.cancel()
			close(p.released)
		} else if idx >= p.total-p.window {
			<-p.released
		}
	}
}

// countFiles returns the number of file entries of the expanded DAG.
func countFiles(g *dagSpec) int {
	var count func(t int) int
	count = func(t int) int {
		n := 0
		for _, e := range g.Dirs[t].Entries {
			switch e.Kind {
			case kindFile:
				n++
			case kindDir:
				n += count(e.Child)
			}
		}
		return n
	}
	return count(g.root())
}

// renderDisk lists a directory tree on the local file system in the same
// format as renderSpec.
func renderDisk(root string) (string, error) {
	var lines []string
	var walk func(dir, prefix string) error
	walk = func(dir, prefix string) error {
		entries, err := os.ReadDir(dir)
		if err != nil {
			return err
		}
		for _, e := range entries {
			full := filepath.Join(dir, e.Name())
			info, err := os.Lstat(full)
			if err != nil {
				return err
			}
			switch {
			case info.Mode()&os.ModeSymlink != 0:
				target, err := os.Readlink(full)
				if err != nil {
					return err
				}
				lines = append(lines, fmt.Sprintf("%s/%s symlink->%s", prefix, e.Name(), target))
			case info.IsDir():
				lines = append(lines, fmt.Sprintf("%s/%s dir", prefix, e.Name()))
				if err := walk(full, prefix+"/"+e.Name()); err != nil {
					return err
				}
			case info.Mode().IsRegular():
				data, err := os.ReadFile(full)
				if err != nil {
					return err
				}
				lines = append(lines, fmt.Sprintf("%s/%s file x=%v data=%q", prefix, e.Name(), info.Mode()&0o111 != 0, data))
			default:
				lines = append(lines, fmt.Sprintf("%s/%s !mode(%v)", prefix, e.Name(), info.Mode()))
			}
		}
		return nil
	}
	if err := walk(root, ""); err != nil {
		return "", err
	}
	sort.Strings(lines)
	return strings.Join(lines, "\n"), nil
}

// renderSpec expands the DAG. It also reports whether anything reachable
// is malformed, missing or corrupted (then the merge has to fail).
func renderSpec(mat *materialized, badTmpl map[int]string) (string, bool) {
	var lines []string
	bad := false
	var walk func(t int, prefix string)
	walk = func(t int, prefix string) {
		if badTmpl[t] != "" {
			bad = true
			return
		}
		for _, e := range mat.spec.Dirs[t].Entries {
			switch e.Kind {
			case kindDir:
				lines = append(lines, fmt.Sprintf("%s/%s dir", prefix, e.Name))
				walk(e.Child, prefix+"/"+e.Name)
			case kindSymlink:
				lines = append(lines, fmt.Sprintf("%s/%s symlink->%s", prefix, e.Name, e.Target))
			default:
				if mat.badKeys[casKey(mat.fileDigest[e.Content])] {
					bad = true
				}
				lines = append(lines, fmt.Sprintf("%s/%s file x=%v data=%q", prefix, e.Name, e.Exec, mat.spec.Contents[e.Content]))
			}
		}
	}
	walk(mat.spec.root(), "")
	sort.Strings(lines)
	return strings.Join(lines, "\n"), bad
}

func TestC17NaiveBuildDirectory(t *testing.T) {
	rec := simkit.NewRecorder(t, "C17", "naive-build-directory",
		"rapid: DAG (+0-1 malformation) in the fake CAS; real naiveBuildDirectory over a real local directory (per-run temporary directory under VERIF_SCRATCH, removed before the test returns) with the real BlobAccessFileFetcher, optionally wrapped by HardlinkingFileFetcher with a 1-3 entry cache directory, caching or plain directory fetcher, download concurrency 1-4; MergeDirectoryContents of the same root into 1-3 build directories in a row (later ones are served from the hard link cache, with evictions). Oracle: if nothing reachable is malformed/missing/corrupted, the merge succeeds and every build directory on disk has exactly the names, kinds, exec bits, symlink targets and bytes of the expanded DAG (earlier ones still intact after later merges); otherwise the merge reports an error. NON-TRIVIAL: a shared template expanded in >=2 places on disk, >=2 merges and a hard link cache in use, or a malformation below the root that made the merge fail, or the caller's context cancelled while the last downloads were held in flight after the traversal had launched everything; distinct by script hash. Cancellation cases (1 in 3): plain BlobAccessFileFetcher over a fake CAS that honours the context; the context is cancelled when file download #k starts, or when all downloads have started with the last min(concurrency, files) held in flight; oracle: MergeDirectoryContents returns nil => the tree on disk equals the DAG, otherwise it returns an error")
	scratch := os.Getenv("VERIF_SCRATCH")
	if scratch == "" {
		scratch = t.TempDir()
	} else if err := os.MkdirAll(scratch, 0o777); err != nil {
		t.Fatalf("cannot create scratch directory: %v", err)
	}
	base, err := os.MkdirTemp(scratch, "c17-naive-")
	if err != nil {
		t.Fatalf("cannot create scratch directory: %v", err)
	}
	defer os.RemoveAll(base)
	ctx := context.Background()
	caseNo := 0
	rapid.Check(t, func(rt *rapid.T) {
		caseNo++
		caseDir := filepath.Join(base, fmt.Sprintf("case%d", caseNo))
		defer os.RemoveAll(caseDir)
		hdr := naiveHeader{Op: "setup", DAG: drawDAG(rt), World: drawWorldConfig(rt)}
		switch rapid.IntRange(0, 5).Draw(rt, "variant") {
		case 0, 1:
			ms := drawMalformations(rt, hdr.DAG)
			if len(ms) > 1 {
				ms = ms[:1]
			}
			// An object that lost its tail on a medium that does not
			// validate is copied as it is by any fetcher: nothing in the
			// code under test can notice. Not an input for this check.
			if len(ms) == 1 && ms[0].Kind == "short_file" {
				ms = nil
			}
			hdr.Malform = ms
		case 2, 3:
			// The caller's context (the action's) ends while input files
			// are being downloaded. Every file gets a non-empty content,
			// so that file downloads and directory fetches can be told
			// apart by digest.
			for i, c := range hdr.DAG.Contents {
				if c == "" {
					hdr.DAG.Contents[i] = fmt.Sprintf("e%d", i)
				}
			}
			if nFiles := countFiles(hdr.DAG); nFiles > 0 {
				hdr.Cancel = rapid.SampledFrom([]string{"window", "window", "at"}).Draw(rt, "cancel")
				hdr.CancelAt = rapid.IntRange(0, nFiles-1).Draw(rt, "cancelAt")
			}
		}
		hdr.Hardlinking = rapid.IntRange(0, 3).Draw(rt, "hardlinking") > 0 && hdr.Cancel == ""
		hdr.MaxFiles = rapid.IntRange(1, 3).Draw(rt, "maxFiles")
		hdr.MaxBytes = rapid.SampledFrom([]int64{1, 50, 1 << 20}).Draw(rt, "maxBytes")
		hdr.Concurrency = int64(rapid.IntRange(1, 4).Draw(rt, "concurrency"))
		hdr.Merges = rapid.IntRange(1, 3).Draw(rt, "merges")
		if hdr.Cancel != "" {
			hdr.Merges = 1
		}

		c := newFakeCAS()
		mat, badTmpl, _, _ := materializeWith(c, hdr.DAG, hdr.Malform)
		before := c.snapshot()
		want, mustFail := renderSpec(mat, badTmpl)

		cancelOutcome := ""
		var fileFetcher cas.FileFetcher = cas.NewBlobAccessFileFetcher(c)
		if hdr.Hardlinking {
			cachePath := filepath.Join(caseDir, "cache")
			if err := os.MkdirAll(cachePath, 0o777); err != nil {
				rt.Fatalf("mkdir: %v", err)
			}
			cacheDirectory, err := filesystem.NewLocalDirectory(path.LocalFormat.NewParser(cachePath))
			if err != nil {
				rt.Fatalf("cannot open cache directory: %v", err)
			}
			defer cacheDirectory.Close()
			fileFetcher = cas.NewHardlinkingFileFetcher(fileFetcher, cacheDirectory, hdr.MaxFiles, hdr.MaxBytes, eviction.NewLRUSet[string]())
		}
		directoryFetcher := newDirectoryFetcher(c, hdr.World)
		sem := semaphore.NewWeighted(hdr.Concurrency)
		mergeCtx := ctx
		var plan *cancelPlan
		if hdr.Cancel != "" {
			var cancel context.CancelFunc
			mergeCtx, cancel = context.WithCancel(ctx)
			defer cancel()
			nFiles := countFiles(hdr.DAG)
			plan = &cancelPlan{fileKeys: c.fileKeys, mode: hdr.Cancel, at: hdr.CancelAt, total: nFiles, window: min(int(hdr.Concurrency), nFiles), cancel: cancel, released: make(chan struct{})}
			c.getHook = plan.hook
		}
		var roots []string
		for m := 0; m < hdr.Merges; m++ {
			buildPath := filepath.Join(caseDir, fmt.Sprintf("build%d", m))
			if err := os.MkdirAll(buildPath, 0o777); err != nil {
				rt.Fatalf("mkdir: %v", err)
			}
			buildDirectory, err := filesystem.NewLocalDirectory(path.LocalFormat.NewParser(buildPath))
			if err != nil {
				rt.Fatalf("cannot open build directory: %v", err)
			}
			bd := builder.NewNaiveBuildDirectory(buildDirectory, directoryFetcher, fileFetcher, sem, c)
			err = bd.MergeDirectoryContents(mergeCtx, &errLogger{}, mat.rootDigest(), nil)
			bd.Close()
			if plan != nil {
				// Success is only acceptable if everything is there;
				// an error is always acceptable.
				c.getHook = nil
				if err == nil {
					got, lerr := renderDisk(buildPath)
					if lerr != nil || got != want {
						rt.Fatalf("the caller's context was cancelled (%s, download %d of %d started) and MergeDirectoryContents reported success, but the build directory on disk is\n%s\n(%v) while the requested tree is\n%s\nscript=%s", hdr.Cancel, plan.started, plan.total, got, lerr, want, jsonOf(hdr))
					}
					cancelOutcome = "cancelled_but_complete"
				} else {
					cancelOutcome = "cancelled_and_failed:" + status.Code(err).String()
				}
				continue
			}
			if mustFail {
				if err == nil {
					got, _ := renderDisk(buildPath)
					rt.Fatalf("merge %d succeeded although the requested tree is malformed or incomplete; on disk:\n%s\nscript=%s", m, got, jsonOf(hdr))
				}
				continue
			}
			if err != nil {
				rt.Fatalf("merge %d of a well-formed input root failed: %v\nscript=%s", m, err, jsonOf(hdr))
			}
			roots = append(roots, buildPath)
			for i, root := range roots {
				got, err := renderDisk(root)
				if err != nil {
					rt.Fatalf("cannot list %s: %v\nscript=%s", root, err, jsonOf(hdr))
				}
				if got != want {
					rt.Fatalf("after merge %d, build directory %d on disk is\n%s\nbut the requested tree is\n%s\nscript=%s", m, i, got, want, jsonOf(hdr))
				}
			}
		}
		if msg := diffSnapshots(before, c.snapshot()); msg != "" {
			rt.Fatalf("the CAS was altered: %s\nscript=%s", msg, jsonOf(hdr))
		}
		shared := false
		for t, n := range hdr.DAG.occurrences() {
			if n >= 2 && len(hdr.DAG.Dirs[t].Entries) > 0 {
				shared = true
			}
		}
		badBelowRoot := false
		for t := range badTmpl {
			if t != hdr.DAG.root() {
				badBelowRoot = true
			}
		}
		labels := []string{}
		add := func(cond bool, l string) {
			if cond {
				labels = append(labels, l)
			}
		}
		add(mustFail, "merge_failed_as_required")
		add(!mustFail && plan == nil, "tree_on_disk_equal")
		add(shared, "shared_subtree")
		add(hdr.Hardlinking, "hardlink_cache")
		add(hdr.Merges > 1, "several_merges")
		if plan != nil {
			labels = append(labels, "cancel:"+hdr.Cancel, cancelOutcome)
			add(plan.fired && hdr.Cancel == "window", "cancelled_with_downloads_in_flight_after_traversal")
		}
		for _, m := range hdr.Malform {
			labels = append(labels, "malformed:"+m.Kind)
		}
		nontrivial := (plan != nil && plan.fired && hdr.Cancel == "window") || (!mustFail && shared && hdr.Merges > 1 && hdr.Hardlinking) || (mustFail && (badBelowRoot || len(mat.badKeys) > 0))
		rec.Case(hdr, nontrivial, labels...)
	})
}

package inputroot

import (
	"context"
	"fmt"
	"os"
	"path/filepath"
	"sort"
	"strings"
	"sync"
	"testing"

	"github.com/buildbarn/bb-remote-execution/pkg/builder"
	"github.com/buildbarn/bb-remote-execution/pkg/cas"
	"github.com/buildbarn/bb-storage/pkg/eviction"
	"github.com/buildbarn/bb-storage/pkg/filesystem"
	"github.com/buildbarn/bb-storage/pkg/filesystem/path"
	"golang.org/x/sync/semaphore"
	"google.golang.org/grpc/status"
	"pgregory.net/rapid"

	"verif/harness/internal/simkit"
)

type naiveHeader struct {
	Op          string      `json:"op"`
	DAG         *dagSpec    `json:"dag"`
	Malform     []malform   `json:"malform,omitempty"`
	World       worldConfig `json:"world"`
	Hardlinking bool        `json:"hardlinking"`
	MaxFiles    int         `json:"maxFiles"`
	MaxBytes    int64       `json:"maxBytes"`
	Concurrency int64       `json:"concurrency"`
	Merges      int         `json:"merges"`
	// Cancellation of the caller's context: "" (none), "at" (when file
	// download number CancelAt starts) or "window" (the last
	// min(concurrency, files) downloads are held until all downloads have
	// started, i.e. the directory traversal has launched everything; then
	// the context is cancelled and they are let go).
	Cancel   string `json:"cancel,omitempty"`
	CancelAt int    `json:"cancelAt,omitempty"`
	// What the actions do to their own build directory between the
	// merges.
	Edits []naiveEdit `json:"edits,omitempty"`
}

// naiveEdit is something an action can do to an input file in its build
// directory without write permission on the file itself: the directory is
// its own, so it can unlink the name and create a new file under it.
type naiveEdit struct {
	AfterMerge int    `json:"after"` // applied when this merge has completed
	Build      int    `json:"build"` // which build directory (<= AfterMerge)
	File       int    `json:"file"`  // index into the sorted list of input files
	Op         string `json:"op"`    // "replace" (unlink + create), "rename_over" (create elsewhere + rename over it), "remove"
	Data       string `json:"data"`
}

// fileOverride is the expected state of an input file after an edit.
type fileOverride struct {
	removed bool
	data    string
}

// cancelPlan is the Get hook that implements naiveHeader.Cancel.
type cancelPlan struct {
	mu       sync.Mutex
	fileKeys map[string]bool
	mode     string
	at       int
	total    int
	window   int
	started  int
	fired    bool
	cancel   context.CancelFunc
	released chan struct{}
}

func (p *cancelPlan) hook(key string) {
	if !p.fileKeys[key] {
		return
	}
	p.mu.Lock()
	idx := p.started
	p.started++
	last := p.started == p.total
	p.mu.Unlock()
	switch p.mode {
	case "at":
		if idx == p.at {
			p.fired = true
			p.cancel()
		}
	case "window":
		if last {
			p.fired = true
			p.cancel()
			close(p.released)
		} else if idx >= p.total-p.window {
			<-p.released
		}
	}
}

// countFiles returns the number of file entries of the expanded DAG.
func countFiles(g *dagSpec) int {
	var count func(t int) int
	count = func(t int) int {
		n := 0
		for _, e := range g.Dirs[t].Entries {
			switch e.Kind {
			case kindFile:
				n++
			case kindDir:
				n += count(e.Child)
			}
		}
		return n
	}
	return count(g.root())
}

// renderDisk lists a directory tree on the local file system in the same
// format as renderSpec.
func renderDisk(root string) (string, error) {
	var lines []string
	var walk func(dir, prefix string) error
	walk = func(dir, prefix string) error {
		entries, err := os.ReadDir(dir)
		if err != nil {
			return err
		}
		for _, e := range entries {
			full := filepath.Join(dir, e.Name())
			info, err := os.Lstat(full)
			if err != nil {
				return err
			}
			switch {
			case info.Mode()&os.ModeSymlink != 0:
				target, err := os.Readlink(full)
				if err != nil {
					return err
				}
				lines = append(lines, fmt.Sprintf("%s/%s symlink->%s", prefix, e.Name(), normTarget(target)))
			case info.IsDir():
				lines = append(lines, fmt.Sprintf("%s/%s dir", prefix, e.Name()))
				if err := walk(full, prefix+"/"+e.Name()); err != nil {
					return err
				}
			case info.Mode().IsRegular():
				data, err := os.ReadFile(full)
				if err != nil {
					return err
				}
				lines = append(lines, fmt.Sprintf("%s/%s file x=%v data=%q", prefix, e.Name(), info.Mode()&0o111 != 0, data))
				if x := info.Mode().Perm() & 0o111; x != 0 && x != 0o111 {
					lines = append(lines, fmt.Sprintf("%s/%s !partially-executable(%v)", prefix, e.Name(), info.Mode()))
				}
			default:
				lines = append(lines, fmt.Sprintf("%s/%s !mode(%v)", prefix, e.Name(), info.Mode()))
			}
		}
		return nil
	}
	if err := walk(root, ""); err != nil {
		return "", err
	}
	sort.Strings(lines)
	return strings.Join(lines, "\n"), nil
}

// renderSpec expands the DAG. It also reports whether anything reachable
// is malformed, missing or corrupted (then the merge has to fail).
func renderSpec(mat *materialized, badTmpl map[int]string) (string, bool) {
	return renderSpecWith(mat, badTmpl, nil)
}

// renderSpecWith is renderSpec for a build directory in which the action
// replaced or removed some input files (keyed by path below the root).
func renderSpecWith(mat *materialized, badTmpl map[int]string, over map[string]fileOverride) (string, bool) {
	var lines []string
	bad := false
	var walk func(t int, prefix string)
	walk = func(t int, prefix string) {
		if badTmpl[t] != "" {
			bad = true
			return
		}
		for _, e := range mat.spec.Dirs[t].Entries {
			switch e.Kind {
			case kindDir:
				lines = append(lines, fmt.Sprintf("%s/%s dir", prefix, e.Name))
				walk(e.Child, prefix+"/"+e.Name)
			case kindSymlink:
				lines = append(lines, fmt.Sprintf("%s/%s symlink->%s", prefix, e.Name, normTarget(e.Target)))
			default:
				if mat.badKeys[casKey(mat.fileDigest[e.Content])] {
					bad = true
				}
				if o, ok := over[prefix+"/"+e.Name]; ok {
					if !o.removed {
						lines = append(lines, fmt.Sprintf("%s/%s file x=%v data=%q", prefix, e.Name, false, o.data))
					}
					continue
				}
				lines = append(lines, fmt.Sprintf("%s/%s file x=%v data=%q", prefix, e.Name, e.Exec, mat.spec.Contents[e.Content]))
			}
		}
	}
	walk(mat.spec.root(), "")
	sort.Strings(lines)
	return strings.Join(lines, "\n"), bad
}

// inputFiles lists the paths (below the root) of all files of the
// expanded DAG, sorted, and the cache key -> contents of every distinct
// (digest, executable) pair among them, the way HardlinkingFileFetcher
// names its cache entries.
func inputFiles(mat *materialized) (paths []string, cacheEntries map[string]string) {
	cacheEntries = map[string]string{}
	var walk func(t int, prefix string)
	walk = func(t int, prefix string) {
		for _, e := range mat.spec.Dirs[t].Entries {
			switch e.Kind {
			case kindDir:
				walk(e.Child, prefix+"/"+e.Name)
			case kindFile:
				paths = append(paths, prefix+"/"+e.Name)
				key := casKey(mat.fileDigest[e.Content])
				if e.Exec {
					key += "+x"
				} else {
					key += "-x"
				}
				cacheEntries[key] = mat.spec.Contents[e.Content]
			}
		}
	}
	walk(mat.spec.root(), "")
	sort.Strings(paths)
	return paths, cacheEntries
}

// writableInputFile returns the first regular file below root, other than
// the ones the action created itself, that somebody has write permission
// on. Input files are hard links shared with the cache directory and with
// the build directories of other actions (cas.NewHardlinkingFileFetcher),
// which is why cas.NewBlobAccessFileFetcher creates them with mode 0444 or
// 0555: the action may unlink them, but not write to them.
func writableInputFile(root string, own map[string]fileOverride) (string, error) {
	found := ""
	err := filepath.Walk(root, func(p string, info os.FileInfo, err error) error {
		if err != nil {
			return err
		}
		rel := strings.TrimPrefix(p, root)
		if _, mine := own[rel]; mine || !info.Mode().IsRegular() {
			return nil
		}
		if info.Mode().Perm()&0o222 != 0 && found == "" {
			found = fmt.Sprintf("%s (mode %v)", rel, info.Mode())
		}
		return nil
	})
	return found, err
}

// checkCacheDirectory verifies the hard link cache on disk: every entry
// is named <digest key>+x or <digest key>-x, holds exactly the bytes of
// that digest (a malformed directory may name files that are not in the
// generated tree, so the name is judged against the bytes themselves), has
// the matching executable bits and is not writable.
func checkCacheDirectory(cachePath string) (int, string) {
	entries, err := os.ReadDir(cachePath)
	if err != nil {
		return 0, "cannot list the cache directory: " + err.Error()
	}
	for _, e := range entries {
		key, isX := strings.CutSuffix(e.Name(), "+x")
		if !isX {
			var notX bool
			if key, notX = strings.CutSuffix(e.Name(), "-x"); !notX {
				return 0, fmt.Sprintf("cache entry %q is not named after a digest and an executable flag", e.Name())
			}
		}
		full := filepath.Join(cachePath, e.Name())
		info, err := os.Lstat(full)
		if err != nil {
			return 0, err.Error()
		}
		if !info.Mode().IsRegular() {
			return 0, fmt.Sprintf("cache entry %q is not a regular file (%v)", e.Name(), info.Mode())
		}
		data, err := os.ReadFile(full)
		if err != nil {
			return 0, err.Error()
		}
		if got := casKey(digestOf(data)); got != key {
			return 0, fmt.Sprintf("cache entry %q holds %q, whose digest is %s: not the bytes of the digest it is named after", e.Name(), data, got)
		}
		if info.Mode().Perm()&0o222 != 0 {
			return 0, fmt.Sprintf("cache entry %q is writable (mode %v)", e.Name(), info.Mode())
		}
		if exec := info.Mode().Perm()&0o111 != 0; exec != strings.HasSuffix(e.Name(), "+x") {
			return 0, fmt.Sprintf("cache entry %q has mode %v", e.Name(), info.Mode())
		}
	}
	return len(entries), ""
}

// applyEdit does to build directory `root` what an action that owns the
// directory (but has no write permission on the input files) can do.
func applyEdit(root string, rel string, e naiveEdit) error {
	full := filepath.Join(root, filepath.FromSlash(rel))
	switch e.Op {
	case "remove":
		return os.Remove(full)
	case "replace":
		if err := os.Remove(full); err != nil {
			return err
		}
		return os.WriteFile(full, []byte(e.Data), 0o644)
	case "rename_over":
		tmp := full + ".verif-tmp"
		if err := os.WriteFile(tmp, []byte(e.Data), 0o644); err != nil {
			return err
		}
		return os.Rename(tmp, full)
	}
	panic("harness bug: unknown edit " + e.Op)
}

func TestC17NaiveBuildDirectory(t *testing.T) {
	rec := simkit.NewRecorder(t, "C17", "naive-build-directory",
		"rapid: DAG (+0-1 malformation) in the fake CAS; real naiveBuildDirectory over a real local directory (per-run temporary directory under VERIF_SCRATCH, removed before the test returns) with the real BlobAccessFileFetcher, optionally wrapped by HardlinkingFileFetcher with a 1-3 entry cache directory, caching or plain directory fetcher, download concurrency 1-4; MergeDirectoryContents of the same root into 1-3 build directories in a row (later ones are served from the hard link cache, with evictions); between the merges the harness acts like the actions: it replaces (unlink + create, or create + rename over) or removes input files in a build directory it 'owns'. Oracle: if nothing reachable is malformed/missing/corrupted, the merge succeeds and every build directory on disk has exactly the names, kinds, exec bits, symlink targets (POSIX-equivalent) and bytes of the expanded DAG plus its own edits (earlier ones still intact after later merges and after edits in OTHER build directories; a merge after an edit still delivers the original bytes); no input file in any build directory and no entry of the cache directory is writable (they are hard links of each other); every cache entry holds exactly the bytes of the digest it is named after, also after a failed or cancelled merge; otherwise the merge reports an error. NON-TRIVIAL: a shared template expanded in >=2 places on disk, >=2 merges and a hard link cache in use, or an input file replaced in one build directory while another build directory and the cache held hard links to it, or a malformation below the root that made the merge fail, or the caller's context cancelled while the last downloads were held in flight after the traversal had launched everything, or a merge cancelled with the hard link cache in use followed by a complete merge from that cache; distinct by script hash. Cancellation cases (1 in 3): fake CAS that honours the context; the context is cancelled when file download #k starts, or (plain BlobAccessFileFetcher only) when all downloads have started with the last min(concurrency, files) held in flight; oracle: MergeDirectoryContents returns nil => the tree on disk equals the DAG, otherwise it returns an error; with the hard link cache a second merge with a live context follows and must deliver the whole tree")
	scratch := os.Getenv("VERIF_SCRATCH")
	if scratch == "" {
		scratch = t.TempDir()
	} else if err := os.MkdirAll(scratch, 0o777); err != nil {
		t.Fatalf("cannot create scratch directory: %v", err)
	}
	base, err := os.MkdirTemp(scratch, "c17-naive-")
	if err != nil {
		t.Fatalf("cannot create scratch directory: %v", err)
	}
	defer os.RemoveAll(base)
	ctx := context.Background()
	caseNo := 0
	rapid.Check(t, func(rt *rapid.T) {
		caseNo++
		caseDir := filepath.Join(base, fmt.Sprintf("case%d", caseNo))
		defer os.RemoveAll(caseDir)
		hdr := naiveHeader{Op: "setup", DAG: drawDAG(rt), World: drawWorldConfig(rt)}
		variant := rapid.IntRange(0, 5).Draw(rt, "variant")
		hdr.Hardlinking = rapid.IntRange(0, 3).Draw(rt, "hardlinking") > 0
		switch variant {
		case 0, 1:
			ms := drawMalformations(rt, hdr.DAG)
			if len(ms) > 1 {
				ms = ms[:1]
			}
			// An object that lost its tail on a medium that does not
			// validate is copied as it is by any fetcher: nothing in the
			// code under test can notice. Not an input for this check.
			if len(ms) == 1 && ms[0].Kind == "short_file" {
				ms = nil
			}
			hdr.Malform = ms
		case 2, 3:
			// The caller's context (the action's) ends while input files
			// are being downloaded. Every file gets a non-empty content,
			// so that file downloads and directory fetches can be told
			// apart by digest.
			for i, c := range hdr.DAG.Contents {
				if c == "" {
					hdr.DAG.Contents[i] = fmt.Sprintf("e%d", i)
				}
			}
			if nFiles := countFiles(hdr.DAG); nFiles > 0 {
				hdr.Cancel = rapid.SampledFrom([]string{"window", "window", "at"}).Draw(rt, "cancel")
				hdr.CancelAt = rapid.IntRange(0, nFiles-1).Draw(rt, "cancelAt")
				// Half of the cancellations with the hard link cache.
				hdr.Hardlinking = rapid.Bool().Draw(rt, "cancelWithCache")
			}
		}
		hdr.MaxFiles = rapid.IntRange(1, 3).Draw(rt, "maxFiles")
		hdr.MaxBytes = rapid.SampledFrom([]int64{1, 50, 1 << 20}).Draw(rt, "maxBytes")
		hdr.Concurrency = int64(rapid.IntRange(1, 4).Draw(rt, "concurrency"))
		hdr.Merges = rapid.IntRange(1, 3).Draw(rt, "merges")

		c := newFakeCAS()
		mat, badTmpl, _, _ := materializeWith(c, hdr.DAG, hdr.Malform)
		before := c.snapshot()
		want, mustFail := renderSpec(mat, badTmpl)
		filePaths, cacheEntries := inputFiles(mat)

		if hdr.Cancel != "" {
			hdr.Merges = 1
			if hdr.Hardlinking {
				// Requests for a file that is in the cache, or that is
				// being downloaded by somebody else, do not reach the
				// CAS, so only one download per distinct (digest,
				// executable) pair is certain to start, and a download
				// that is held back makes the other requests for the
				// same file wait while they occupy download slots: only
				// "cancel when download #k starts" is used. A second
				// merge with a live context follows.
				hdr.Cancel = "at"
				hdr.CancelAt %= len(cacheEntries)
				hdr.Merges = 2
			}
		}
		if hdr.Cancel == "" && !mustFail && len(filePaths) > 0 {
			for m := 0; m < hdr.Merges; m++ {
				for i, n := 0, rapid.IntRange(0, 2).Draw(rt, "nEdits"); i < n; i++ {
					hdr.Edits = append(hdr.Edits, naiveEdit{
						AfterMerge: m,
						Build:      rapid.IntRange(0, m).Draw(rt, "editBuild"),
						File:       rapid.IntRange(0, len(filePaths)-1).Draw(rt, "editFile"),
						Op:         rapid.SampledFrom([]string{"replace", "replace", "rename_over", "remove"}).Draw(rt, "editOp"),
						Data:       "edited:" + drawData(rt),
					})
				}
			}
		}

		cancelOutcome := ""
		cachePath := filepath.Join(caseDir, "cache")
		var fileFetcher cas.FileFetcher = cas.NewBlobAccessFileFetcher(c)
		if hdr.Hardlinking {
			if err := os.MkdirAll(cachePath, 0o777); err != nil {
				rt.Fatalf("mkdir: %v", err)
			}
			cacheDirectory, err := filesystem.NewLocalDirectory(path.LocalFormat.NewParser(cachePath))
			if err != nil {
				rt.Fatalf("cannot open cache directory: %v", err)
			}
			defer cacheDirectory.Close()
			fileFetcher = cas.NewHardlinkingFileFetcher(fileFetcher, cacheDirectory, hdr.MaxFiles, hdr.MaxBytes, eviction.NewLRUSet[string]())
		}
		maxCacheEntries := 0
		checkCache := func(when string) {
			if !hdr.Hardlinking {
				return
			}
			n, msg := checkCacheDirectory(cachePath)
			if msg != "" {
				rt.Fatalf("%s: hard link cache: %s\nscript=%s", when, msg, jsonOf(hdr))
			}
			maxCacheEntries = max(maxCacheEntries, n)
		}
		directoryFetcher := newDirectoryFetcher(c, hdr.World)
		sem := semaphore.NewWeighted(hdr.Concurrency)
		var plan *cancelPlan
		var roots []string
		var overrides []map[string]fileOverride
		sharedReplaced := false
		// verifyAll compares every build directory merged so far with the
		// requested tree plus the edits made in THAT directory.
		verifyAll := func(when string) {
			for i, root := range roots {
				wantI, _ := renderSpecWith(mat, badTmpl, overrides[i])
				got, err := renderDisk(root)
				if err != nil {
					rt.Fatalf("%s: cannot list %s: %v\nscript=%s", when, root, err, jsonOf(hdr))
				}
				if got != wantI {
					rt.Fatalf("%s: build directory %d on disk is\n%s\nbut the requested tree (plus what the action did in that directory) is\n%s\nscript=%s", when, i, got, wantI, jsonOf(hdr))
				}
				if w, err := writableInputFile(root, overrides[i]); err != nil || w != "" {
					rt.Fatalf("%s: build directory %d: input file %s is writable by the action (%v); input files are created read-only (0444/0555) because with the hard link cache they are shared with the cache and with other actions' build directories\nscript=%s", when, i, w, err, jsonOf(hdr))
				}
			}
			checkCache(when)
		}
		for m := 0; m < hdr.Merges; m++ {
			buildPath := filepath.Join(caseDir, fmt.Sprintf("build%d", m))
			if err := os.MkdirAll(buildPath, 0o777); err != nil {
				rt.Fatalf("mkdir: %v", err)
			}
			buildDirectory, err := filesystem.NewLocalDirectory(path.LocalFormat.NewParser(buildPath))
			if err != nil {
				rt.Fatalf("cannot open build directory: %v", err)
			}
			mergeCtx := ctx
			cancelled := hdr.Cancel != "" && m == 0
			if cancelled {
				var cancel context.CancelFunc
				mergeCtx, cancel = context.WithCancel(ctx)
				defer cancel()
				total := len(filePaths)
				if hdr.Hardlinking {
					total = len(cacheEntries)
				}
				plan = &cancelPlan{fileKeys: c.fileKeys, mode: hdr.Cancel, at: hdr.CancelAt, total: total, window: min(int(hdr.Concurrency), total), cancel: cancel, released: make(chan struct{})}
				c.getHook = plan.hook
			}
			bd := builder.NewNaiveBuildDirectory(buildDirectory, directoryFetcher, fileFetcher, sem, c)
			err = bd.MergeDirectoryContents(mergeCtx, &errLogger{}, mat.rootDigest(), nil)
			bd.Close()
			if cancelled {
				// Success is only acceptable if everything is there;
				// an error is always acceptable.
				c.getHook = nil
				if !plan.fired {
					rt.Fatalf("harness bug: the cancellation point (%s, %d of %d) was not reached; script=%s", hdr.Cancel, hdr.CancelAt, plan.total, jsonOf(hdr))
				}
				if err == nil {
					got, lerr := renderDisk(buildPath)
					if lerr != nil || got != want {
						rt.Fatalf("the caller's context was cancelled (%s, download %d of %d started) and MergeDirectoryContents reported success, but the build directory on disk is\n%s\n(%v) while the requested tree is\n%s\nscript=%s", hdr.Cancel, plan.started, plan.total, got, lerr, want, jsonOf(hdr))
					}
					cancelOutcome = "cancelled_but_complete"
				} else {
					cancelOutcome = "cancelled_and_failed:" + status.Code(err).String()
				}
				// Whatever made it into the cache is complete.
				checkCache("after the cancelled merge")
				continue
			}
			if mustFail {
				if err == nil {
					got, _ := renderDisk(buildPath)
					rt.Fatalf("merge %d succeeded although the requested tree is malformed or incomplete; on disk:\n%s\nscript=%s", m, got, jsonOf(hdr))
				}
				checkCache(fmt.Sprintf("after merge %d failed", m))
				continue
			}
			if err != nil {
				rt.Fatalf("merge %d of a well-formed input root failed: %v\nscript=%s", m, err, jsonOf(hdr))
			}
			roots = append(roots, buildPath)
			overrides = append(overrides, map[string]fileOverride{})
			verifyAll(fmt.Sprintf("after merge %d", m))
			for _, e := range hdr.Edits {
				if e.AfterMerge != m || e.Build >= len(roots) {
					continue
				}
				rel := filePaths[e.File]
				if overrides[e.Build][rel].removed {
					continue // nothing left to edit under that name
				}
				if err := applyEdit(roots[e.Build], rel, e); err != nil {
					rt.Fatalf("harness: edit %+v failed: %v\nscript=%s", e, err, jsonOf(hdr))
				}
				overrides[e.Build][rel] = fileOverride{removed: e.Op == "remove", data: e.Data}
				if hdr.Hardlinking && len(roots) > 1 && e.Op != "remove" {
					sharedReplaced = true
				}
				// The other build directories and the cache entry
				// still hold the bytes of the digest.
				verifyAll(fmt.Sprintf("after merge %d and edit %+v", m, e))
			}
		}
		if msg := diffSnapshots(before, c.snapshot()); msg != "" {
			rt.Fatalf("the CAS was altered: %s\nscript=%s", msg, jsonOf(hdr))
		}
		shared := false
		for t, n := range hdr.DAG.occurrences() {
			if n >= 2 && len(hdr.DAG.Dirs[t].Entries) > 0 {
				shared = true
			}
		}
		badBelowRoot := false
		for t := range badTmpl {
			if t != hdr.DAG.root() {
				badBelowRoot = true
			}
		}
		labels := []string{}
		add := func(cond bool, l string) {
			if cond {
				labels = append(labels, l)
			}
		}
		add(mustFail, "merge_failed_as_required")
		add(!mustFail && plan == nil, "tree_on_disk_equal")
		add(shared, "shared_subtree")
		add(hdr.Hardlinking, "hardlink_cache")
		add(hdr.Merges > 1, "several_merges")
		add(len(hdr.Edits) > 0, "action_edits")
		add(sharedReplaced, "input_file_replaced_while_hard_linked_elsewhere")
		add(maxCacheEntries > 0, "cache_entries_verified")
		cancelledWithCache := false
		if plan != nil {
			labels = append(labels, "cancel:"+hdr.Cancel, cancelOutcome)
			add(plan.fired && hdr.Cancel == "window", "cancelled_with_downloads_in_flight_after_traversal")
			cancelledWithCache = hdr.Hardlinking && len(roots) == 1
			add(cancelledWithCache, "cancelled_with_hardlink_cache_then_complete_merge")
		}
		for _, m := range hdr.Malform {
			labels = append(labels, "malformed:"+m.Kind)
		}
		nontrivial := (plan != nil && plan.fired && hdr.Cancel == "window") || cancelledWithCache || sharedReplaced ||
			(!mustFail && shared && hdr.Merges > 1 && hdr.Hardlinking) || (mustFail && (badBelowRoot || len(mat.badKeys) > 0))
		rec.Case(hdr, nontrivial, labels...)
	})
}

package inputroot

import (
	"bytes"
	"encoding/json"
	"fmt"
	"sort"
)

func jsonOf(v any) string {
	b, err := json.Marshal(v)
	if err != nil {
		return fmt.Sprintf("%+v", v)
	}
	return string(b)
}

// casDamage compares two snapshots of the fake CAS: every blob that was
// there before must be there, bit for bit; a blob that was added must
// hash to its key.
func casDamage(before, after map[string][]byte) string {
	keys := make([]string, 0, len(after))
	for k := range after {
		keys = append(keys, k)
	}
	for k := range before {
		if _, ok := after[k]; !ok {
			keys = append(keys, k)
		}
	}
	sort.Strings(keys)
	for _, k := range keys {
		vb, okb := before[k]
		va, oka := after[k]
		switch {
		case okb && !oka:
			return fmt.Sprintf("blob %s disappeared", k)
		case okb && !bytes.Equal(va, vb):
			return fmt.Sprintf("blob %s changed from %q to %q", k, vb, va)
		case !okb:
			if got := casKey(digestOf(va)); got != k {
				return fmt.Sprintf("new blob stored under %s has contents hashing to %s", k, got)
			}
		}
	}
	return ""
}

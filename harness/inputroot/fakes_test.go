// Package inputroot decides C17: the lazily populated input root is exactly
// the requested tree and CAS-backed files cannot be altered.
//
// All fakes in this file are hand written (no generated mocks exist).
package inputroot

import (
	"bytes"
	"context"
	"fmt"
	"io"
	"sort"
	"sync"
	"time"

	remoteexecution "github.com/bazelbuild/remote-apis/build/bazel/remote/execution/v2"
	"github.com/buildbarn/bb-remote-execution/pkg/filesystem/pool"
	"github.com/buildbarn/bb-storage/pkg/blobstore/buffer"
	"github.com/buildbarn/bb-storage/pkg/blobstore/slicing"
	"github.com/buildbarn/bb-storage/pkg/clock"
	"github.com/buildbarn/bb-storage/pkg/digest"
	"github.com/buildbarn/bb-storage/pkg/filesystem"

	"google.golang.org/grpc/codes"
	"google.golang.org/grpc/status"
)

var digestFunction = digest.MustNewFunction("main", remoteexecution.DigestFunction_SHA256)

func digestOf(data []byte) digest.Digest {
	g := digestFunction.NewGenerator(int64(len(data)))
	g.Write(data)
	return g.Sum()
}

func casKey(d digest.Digest) string { return d.GetKey(digest.KeyWithoutInstance) }

// ---------------------------------------------------------------------
// fake Content Addressable Storage

type faultKind int

const (
	faultNone        faultKind = iota
	faultUnavailable           // the call fails with UNAVAILABLE
	faultInternal              // the call fails with INTERNAL
	faultCorrupt               // the call returns a blob with one byte flipped (integrity check must catch it)
	faultTruncated             // the call returns a blob that is one byte short
	faultNotFound              // the call fails with NOT_FOUND
	// The storage medium lost the tail of the object and the backend does
	// not validate (buffer.NewValidatedBufferFromReaderAt, as handed out
	// by local file / block device backed storage): ReadAt comes up short
	// with io.EOF instead of an integrity error. Only used for file blobs.
	faultShortObject
)

var faultKindNames = map[faultKind]string{
	faultUnavailable: "unavailable",
	faultInternal:    "internal",
	faultCorrupt:     "corrupt",
	faultTruncated:   "truncated",
	faultNotFound:    "notfound",
	faultShortObject: "short_object_unvalidated",
}

// mediumReader is the backing medium of an object served without
// validation.
type mediumReader struct{ *bytes.Reader }

func (mediumReader) Close() error { return nil }

// fakeCAS is an in-memory blobstore.BlobAccess. Blobs are stored under the
// digest key the test chose (which need not match the content: that is how
// corrupted blobs are represented). Buffers handed out verify the digest the
// way a real storage backend's buffers do.
type fakeCAS struct {
	mu    sync.Mutex
	blobs map[string][]byte

	// One entry per Get/GetFromComposite call, in call order.
	calls []string
	// Fault plan: call index -> fault.
	faults map[int]faultKind
	// Number of faults that fired since the flag was last reset.
	fired int
	// Integrity callbacks that reported invalid data.
	integrityFailures int
	// Every Put ever attempted (key, data).
	puts []string

	// Keys of file blobs (as opposed to Directory / Tree messages).
	fileKeys map[string]bool
	// Persistent variant of faultShortObject: key -> bytes lost from the
	// tail of the object.
	shortBy map[string]int
	// The most recent fault that fired was a short, unvalidated object
	// (a read inside the surviving prefix legitimately succeeds).
	lastFiredShort bool
	// Called at the start of every Get, before any lock is taken (may
	// block: used to park downloads).
	getHook func(key string)
}

func newFakeCAS() *fakeCAS {
	return &fakeCAS{blobs: map[string][]byte{}, faults: map[int]faultKind{}, fileKeys: map[string]bool{}, shortBy: map[string]int{}}
}

func (c *fakeCAS) store(data []byte) digest.Digest {
	d := digestOf(data)
	c.blobs[casKey(d)] = append([]byte(nil), data...)
	return d
}

// snapshot returns a deep copy of the stored blobs.
func (c *fakeCAS) snapshot() map[string][]byte {
	c.mu.Lock()
	defer c.mu.Unlock()
	out := make(map[string][]byte, len(c.blobs))
	for k, v := range c.blobs {
		out[k] = append([]byte(nil), v...)
	}
	return out
}

func diffSnapshots(a, b map[string][]byte) string {
	keys := map[string]struct{}{}
	for k := range a {
		keys[k] = struct{}{}
	}
	for k := range b {
		keys[k] = struct{}{}
	}
	sorted := make([]string, 0, len(keys))
	for k := range keys {
		sorted = append(sorted, k)
	}
	sort.Strings(sorted)
	for _, k := range sorted {
		va, oka := a[k]
		vb, okb := b[k]
		switch {
		case !oka:
			return fmt.Sprintf("blob %s appeared (%d bytes)", k, len(vb))
		case !okb:
			return fmt.Sprintf("blob %s disappeared", k)
		case !bytes.Equal(va, vb):
			return fmt.Sprintf("blob %s changed from %q to %q", k, va, vb)
		}
	}
	return ""
}

func (c *fakeCAS) callCount() int {
	c.mu.Lock()
	defer c.mu.Unlock()
	return len(c.calls)
}

func (c *fakeCAS) resetFired() {
	c.mu.Lock()
	c.fired = 0
	c.mu.Unlock()
}

func (c *fakeCAS) firedCount() int {
	c.mu.Lock()
	defer c.mu.Unlock()
	return c.fired
}

func (c *fakeCAS) GetCapabilities(ctx context.Context, instanceName digest.InstanceName) (*remoteexecution.ServerCapabilities, error) {
	return &remoteexecution.ServerCapabilities{CacheCapabilities: &remoteexecution.CacheCapabilities{}}, nil
}

func (c *fakeCAS) Get(ctx context.Context, d digest.Digest) buffer.Buffer {
	key := casKey(d)
	if c.getHook != nil {
		c.getHook(key)
	}
	c.mu.Lock()
	defer c.mu.Unlock()
	idx := len(c.calls)
	c.calls = append(c.calls, key)
	if err := ctx.Err(); err != nil {
		return buffer.NewBufferFromError(status.Error(codes.Canceled, err.Error()))
	}
	fault := c.faults[idx]
	if fault == faultShortObject && !c.fileKeys[key] {
		fault = faultTruncated // Directory messages are always parsed as a whole
	}
	if fault != faultNone {
		c.fired++
		c.lastFiredShort = fault == faultShortObject
	}
	switch fault {
	case faultUnavailable:
		return buffer.NewBufferFromError(status.Errorf(codes.Unavailable, "injected storage fault at call %d", idx))
	case faultInternal:
		return buffer.NewBufferFromError(status.Errorf(codes.Internal, "injected storage fault at call %d", idx))
	case faultNotFound:
		return buffer.NewBufferFromError(status.Errorf(codes.NotFound, "injected missing blob at call %d", idx))
	}
	data, ok := c.blobs[key]
	if !ok {
		return buffer.NewBufferFromError(status.Errorf(codes.NotFound, "blob %s not found", key))
	}
	data = append([]byte(nil), data...)
	if fault == faultShortObject && digestOf(data) != d {
		// The stored blob is corrupted already (a malformation of the
		// scenario). Serving that without validation would hand out wrong
		// bytes that nothing can detect; keep this fault a validated one.
		fault = faultTruncated
		c.lastFiredShort = false
	}
	if lost := c.shortBy[key]; (lost > 0 || fault == faultShortObject) && len(data) > 0 && digestOf(data) == d {
		if fault != faultNone && fault != faultShortObject {
			// A one-shot fault on top of the persistent one.
			return buffer.NewBufferFromError(status.Errorf(codes.Internal, "injected storage fault at call %d", idx))
		}
		if fault == faultShortObject {
			lost = len(data) - len(data)/2
		}
		if lost > len(data) {
			lost = len(data)
		}
		return buffer.NewValidatedBufferFromReaderAt(mediumReader{bytes.NewReader(data[:len(data)-lost])}, d.GetSizeBytes())
	}
	switch fault {
	case faultCorrupt:
		if len(data) == 0 {
			data = []byte{0x55}
		} else {
			data[len(data)/2] ^= 0x41
		}
	case faultTruncated:
		if len(data) == 0 {
			data = []byte{0x55}
		} else {
			data = data[:len(data)-1]
		}
	}
	if fault != faultNone && digestOf(data) == d {
		// Mangling a blob that was stored corrupted may accidentally
		// produce the right bytes; the fault has to stay a fault.
		return buffer.NewBufferFromError(status.Errorf(codes.Internal, "injected storage fault at call %d", idx))
	}
	return buffer.NewCASBufferFromByteSlice(d, data, buffer.BackendProvided(func(dataIsValid bool) {
		if !dataIsValid {
			// Called synchronously by the constructor above or
			// later by a reader; c.mu may be held in the former
			// case, so do not lock here.
			c.integrityFailures++
		}
	}))
}

func (c *fakeCAS) GetFromComposite(ctx context.Context, parentDigest, childDigest digest.Digest, slicer slicing.BlobSlicer) buffer.Buffer {
	b, _ := slicer.Slice(c.Get(ctx, parentDigest), childDigest)
	return b
}

func (c *fakeCAS) Put(ctx context.Context, d digest.Digest, b buffer.Buffer) error {
	data, err := b.ToByteSlice(1 << 20)
	if err != nil {
		return err
	}
	c.mu.Lock()
	defer c.mu.Unlock()
	key := casKey(d)
	c.puts = append(c.puts, key)
	if got := digestOf(data); got != d {
		return status.Errorf(codes.InvalidArgument, "Put of %s with contents hashing to %s", d, got)
	}
	c.blobs[key] = data
	return nil
}

func (c *fakeCAS) FindMissing(ctx context.Context, digests digest.Set) (digest.Set, error) {
	c.mu.Lock()
	defer c.mu.Unlock()
	missing := digest.NewSetBuilder(0)
	for _, d := range digests.Items() {
		if _, ok := c.blobs[casKey(d)]; !ok {
			missing.Add(d)
		}
	}
	return missing.Build(), nil
}

// ---------------------------------------------------------------------
// in-memory file pool for locally created files

type memFilePool struct {
	mu    sync.Mutex
	files int
}

type memFile struct {
	pool   *memFilePool
	data   []byte
	closed bool
}

func (p *memFilePool) NewFile(holeSource pool.HoleSource, size uint64) (filesystem.FileReadWriter, error) {
	p.mu.Lock()
	p.files++
	p.mu.Unlock()
	return &memFile{pool: p, data: make([]byte, size)}, nil
}

func (f *memFile) Close() error {
	if f.closed {
		panic("memFile closed twice")
	}
	f.closed = true
	f.pool.mu.Lock()
	f.pool.files--
	f.pool.mu.Unlock()
	return nil
}

func (f *memFile) ReadAt(p []byte, off int64) (int, error) {
	if off >= int64(len(f.data)) {
		return 0, io.EOF
	}
	n := copy(p, f.data[off:])
	if n < len(p) {
		return n, io.EOF
	}
	return n, nil
}

func (f *memFile) WriteAt(p []byte, off int64) (int, error) {
	if end := int(off) + len(p); end > len(f.data) {
		f.data = append(f.data, make([]byte, end-len(f.data))...)
	}
	copy(f.data[off:], p)
	return len(p), nil
}

func (f *memFile) Truncate(size int64) error {
	if int(size) <= len(f.data) {
		f.data = f.data[:size]
	} else {
		f.data = append(f.data, make([]byte, int(size)-len(f.data))...)
	}
	return nil
}

func (f *memFile) Sync() error { return nil }

func (f *memFile) Len() (int64, error) { return int64(len(f.data)), nil }

func (f *memFile) GetNextRegionOffset(offset int64, regionType filesystem.RegionType) (int64, error) {
	if offset >= int64(len(f.data)) {
		return 0, io.EOF
	}
	if regionType == filesystem.Data {
		return offset, nil
	}
	return int64(len(f.data)), nil
}

// ---------------------------------------------------------------------
// deterministic random number generator (inode numbers)

type seqGenerator struct {
	mu   sync.Mutex
	next uint64
}

func (g *seqGenerator) Uint64() uint64 {
	g.mu.Lock()
	defer g.mu.Unlock()
	g.next++
	// A bijective scramble, so that inode numbers look arbitrary but
	// never repeat.
	return g.next * 0x9E3779B97F4A7C15
}
func (g *seqGenerator) Uint32() uint32       { return uint32(g.Uint64() >> 32) }
func (g *seqGenerator) Float64() float64     { return float64(g.Uint64()>>11) / (1 << 53) }
func (g *seqGenerator) Int64N(n int64) int64 { return int64(g.Uint64() % uint64(n)) }
func (g *seqGenerator) IntN(n int) int       { return int(g.Uint64() % uint64(n)) }
func (g *seqGenerator) Read(p []byte) (int, error) {
	for i := range p {
		p[i] = byte(g.Uint64() >> 56)
	}
	return len(p), nil
}

func (g *seqGenerator) Shuffle(n int, swap func(i, j int)) {
	for i := n - 1; i > 0; i-- {
		swap(i, g.IntN(i+1))
	}
}
func (g *seqGenerator) IsThreadSafe() {}

// ---------------------------------------------------------------------
// clock and error logger

type fixedClock struct {
	mu sync.Mutex
	n  int64
}

func (c *fixedClock) Now() time.Time {
	c.mu.Lock()
	defer c.mu.Unlock()
	c.n++
	return time.Unix(1700000000, c.n)
}

func (c *fixedClock) NewContextWithTimeout(parent context.Context, timeout time.Duration) (context.Context, context.CancelFunc) {
	return context.WithCancel(parent)
}

func (c *fixedClock) NewTimer(d time.Duration) (clock.Timer, <-chan time.Time) {
	panic("fixedClock.NewTimer is not expected to be used")
}

func (c *fixedClock) NewTicker(d time.Duration) (clock.Ticker, <-chan time.Time) {
	panic("fixedClock.NewTicker is not expected to be used")
}

type errLogger struct {
	mu   sync.Mutex
	errs []string
}

func (l *errLogger) Log(err error) {
	l.mu.Lock()
	defer l.mu.Unlock()
	if len(l.errs) < 50 {
		l.errs = append(l.errs, err.Error())
	}
}

// deterministicSorter returns a virtual.Sorter-compatible function: sort,
// then (if seed != 0) permute with a fixed linear congruential sequence,
// standing in for the production "shuffle directory listings" option
// without a global random source.
func deterministicSorter(seed uint64) func(data sort.Interface) {
	return func(data sort.Interface) {
		sort.Sort(data)
		if seed == 0 {
			return
		}
		x := seed
		for i := data.Len() - 1; i > 0; i-- {
			x = x*6364136223846793005 + 1442695040888963407
			data.Swap(i, int((x>>33)%uint64(i+1)))
		}
	}
}

package inputroot

import (
	"fmt"
	"os"
	"runtime"
	"sort"
	"strings"
	"sync"
	"sync/atomic"
	"testing"
	"testing/synctest"

	"pgregory.net/rapid"

	"verif/harness/internal/simkit"
)

// goroutinesWaitingForDirectoryLock inspects the goroutine dump (harness
// side observation only) and counts goroutines that are blocked in
// sync.Mutex.Lock somewhere below a method of
// inMemoryPrepopulatedDirectory. sync.Mutex waits are invisible to
// synctest.Wait, so this is how the harness learns that the other callers
// have reached the directory whose contents are being fetched.
func goroutinesWaitingForDirectoryLock() int {
	buf := make([]byte, 1<<17)
	for {
		n := runtime.Stack(buf, true)
		if n < len(buf) {
			buf = buf[:n]
			break
		}
		buf = make([]byte, 2*len(buf))
	}
	count := 0
	for _, g := range strings.Split(string(buf), "\n\n") {
		header, _, _ := strings.Cut(g, "\n")
		if strings.Contains(header, "[sync.Mutex.Lock") && strings.Contains(g, "inMemoryPrepopulatedDirectory") {
			count++
		}
	}
	return count
}

type concurrentHeader struct {
	Op      string      `json:"op"`
	World   worldConfig `json:"world"`
	DAG     *dagSpec    `json:"dag"`
	Target  []string    `json:"target"`  // path of the lazily loaded directory below the action's root
	Failure string      `json:"failure"` // "", "unavailable_once", "corrupt_once", "notfound_once", "missing", "malformed"
	Malform []malform   `json:"malform,omitempty"`
	Callers []*step     `json:"callers"`
}

// parkingLot parks every CAS read of one key until the harness lets it go.
type parkingLot struct {
	mu     sync.Mutex
	key    string
	parked []chan struct{}
	gets   int
	open   bool // nothing is parked any more
	events chan string
}

// openAll lets everything go, now and from now on.
func (p *parkingLot) openAll() {
	p.mu.Lock()
	defer p.mu.Unlock()
	p.open = true
	for _, ch := range p.parked {
		close(ch)
	}
	p.parked = nil
}

func (p *parkingLot) hook(key string) {
	if key != p.key {
		return
	}
	ch := make(chan struct{})
	p.mu.Lock()
	p.gets++
	if p.open {
		p.mu.Unlock()
		return
	}
	p.parked = append(p.parked, ch)
	p.mu.Unlock()
	p.events <- "parked"
	<-ch
}

func (p *parkingLot) releaseOne() bool {
	p.mu.Lock()
	defer p.mu.Unlock()
	if len(p.parked) == 0 {
		return false
	}
	close(p.parked[0])
	p.parked = p.parked[1:]
	return true
}

func (p *parkingLot) counts() (gets, parked int) {
	p.mu.Lock()
	defer p.mu.Unlock()
	return p.gets, len(p.parked)
}

func TestC17ConcurrentFirstAccess(t *testing.T) {
	rec := simkit.NewRecorder(t, "C17", "inputroot-concurrent-first-access",
		"rapid + testing/synctest: DAG merged into one action directory of the real stack (as in inputroot-model); one directory below the root that has not been loaded yet is chosen (its ancestors are loaded first); the fake CAS parks every read of that directory's Directory object. Caller 1 (lookup of a present or absent name / readdir in chunks / Lstat / ReadDir / LookupAllChildren / read of a file / Readlink, through virtual.Directory or the BuildDirectory API) is started and runs into the parked fetch; then 1-3 more callers with drawn accesses are started against the SAME directory and the harness waits until the goroutine dump shows them blocked on the directory's lock (bounded; which of the allowed outcomes occurs does not depend on it); then the fetch is released: successfully, with a one-shot storage fault (UNAVAILABLE / corrupted bytes / NOT_FOUND), or against a persistently missing or malformed Directory object; later fetches are released as they arrive. Oracle (InitialContentsFetcher: \"FetchContents() should be called until it succeeds at most once\"): fault-free: exactly one CAS read of the Directory object (half of the cases run without the directory cache, so that every FetchContents is a CAS read); every caller gets exactly the model's answer; one-shot fault: the caller whose fetch was hit gets an error, every other caller the model's answer, 2 CAS reads in total; persistent: every caller gets an error; all callers return (liveness); every caller that sees the contents sees the same child objects (inode numbers, also equal to a later sequential listing); afterwards the whole tree equals the model, and after tearing down the NFS handle pool tracks no leaf (nothing was created twice and leaked). NON-TRIVIAL: at least one other caller was observed blocked on the directory lock while the first fetch was parked, and the directory has entries; distinct by script hash")
	rapid.Check(t, func(rt *rapid.T) {
		cfg := drawWorldConfig(rt)
		cfg.Actions = 1
		if rapid.Bool().Draw(rt, "uncachedFetcher") {
			// Without the directory cache every FetchContents call
			// that gets as far as the storage is a CAS read.
			cfg.Cache = "none"
		}
		spec := drawDAG(rt)
		if cfg.CaseInsensitive {
			spec.decollide()
		}
		hasDir := false
		for _, e := range spec.Dirs[spec.root()].Entries {
			hasDir = hasDir || e.Kind == kindDir
		}
		if !hasDir {
			// Put the generated tree below a new root, so that there is
			// a lazily loaded directory.
			spec.Dirs = append(spec.Dirs, dirSpec{Height: spec.Dirs[spec.root()].Height + 1, Entries: []entrySpec{{Name: "sub", Kind: kindDir, Child: spec.root()}}})
		}
		hdr := concurrentHeader{Op: "setup", World: cfg, DAG: spec}
		// Random descent to the target directory.
		tt := spec.root()
		for depth := 0; depth < 4; depth++ {
			var dirs []entrySpec
			for _, e := range spec.Dirs[tt].Entries {
				if e.Kind == kindDir {
					dirs = append(dirs, e)
				}
			}
			if len(dirs) == 0 || (depth > 0 && rapid.IntRange(0, 2).Draw(rt, "stop") == 0) {
				break
			}
			e := dirs[rapid.IntRange(0, len(dirs)-1).Draw(rt, "descend")]
			hdr.Target = append(hdr.Target, e.Name)
			tt = e.Child
		}
		hdr.Failure = rapid.SampledFrom([]string{"", "", "", "unavailable_once", "corrupt_once", "notfound_once", "missing", "malformed"}).Draw(rt, "failure")
		switch hdr.Failure {
		case "missing":
			hdr.Malform = []malform{{Kind: "missing_dir", Template: tt}}
		case "malformed":
			hdr.Malform = []malform{{Kind: rapid.SampledFrom([]string{"duplicate", "invalid_name", "bad_digest", "symlink_target_nul"}).Draw(rt, "malformation"), Template: tt, Entry: rapid.IntRange(0, 5).Draw(rt, "entry"), Variant: rapid.IntRange(0, 59).Draw(rt, "variant")}}
		}
		// The callers' accesses; names come from the target's template.
		var names, files, links []string
		for _, e := range spec.Dirs[tt].Entries {
			names = append(names, e.Name)
			switch e.Kind {
			case kindFile:
				files = append(files, e.Name)
			case kindSymlink:
				links = append(links, e.Name)
			}
		}
		nCallers := rapid.IntRange(2, 4).Draw(rt, "callers")
		for i := 0; i < nCallers; i++ {
			st := &step{Path: nil, Mask: rapid.IntRange(0, 1).Draw(rt, "mask")}
			name := "absent"
			if len(names) > 0 && rapid.IntRange(0, 4).Draw(rt, "existing") > 0 {
				name = rapid.SampledFrom(names).Draw(rt, "name")
			}
			switch kind := rapid.SampledFrom([]string{"lookup", "lookup", "readdir", "readdir", "read", "readlink"}).Draw(rt, "access"); {
			case kind == "read" && len(files) > 0:
				st.Op, st.Name, st.Len = "read", rapid.SampledFrom(files).Draw(rt, "file"), 100
			case kind == "readlink" && len(links) > 0:
				st.Op, st.Name, st.BD = "readlink", rapid.SampledFrom(links).Draw(rt, "link"), true
			case kind == "readdir":
				st.Op, st.BD = "readdir", rapid.Bool().Draw(rt, "bd")
				if st.BD {
					st.Flags = rapid.IntRange(0, 1).Draw(rt, "lookupAllChildren")
				} else {
					st.Len = rapid.IntRange(0, 3).Draw(rt, "chunk")
				}
			default:
				st.Op, st.Name, st.BD = "lookup", name, rapid.Bool().Draw(rt, "bd")
			}
			hdr.Callers = append(hdr.Callers, st)
		}

		var failure string
		var labels []string
		nontrivial := false
		// A caller that never returns (e.g. a directory lock that is
		// never released) cannot be seen from inside the bubble, where
		// time is fake and sync.Mutex waits do not count as blocked: a
		// real-time watchdog outside the bubble reports it.
		var caseProgress atomic.Uint64
		stopWatchdog := simkit.StallWatchdog(&caseProgress, 150, func() {
			fmt.Printf("VERIF-VIOLATION property=C17 check=inputroot-concurrent-first-access: the concurrent first accesses of one directory did not all return during 150 s in which this process was running (a caller is stuck); script=%s\n", jsonOf(hdr))
			os.Exit(1)
		})
		defer stopWatchdog()
		synctest.Test(t, func(_ *testing.T) {
			var lot *parkingLot
			defer func() {
				if p := recover(); p != nil {
					failure = fmt.Sprintf("panic: %v", p)
				}
				if lot != nil {
					lot.openAll() // no goroutine may stay behind in the bubble
				}
			}()
			fail := func(format string, args ...any) {
				if failure == "" {
					failure = fmt.Sprintf(format, args...)
				}
			}
			c := newFakeCAS()
			mat, badTmpl, badContent, repair := materializeWith(c, spec, hdr.Malform)
			r, err := setupRig(c, mat, cfg, false)
			if err != nil {
				fail("setup failed: %v", err)
				return
			}
			r.badTmpl, r.badContent, r.repairFn = badTmpl, badContent, repair
			if err := r.run(&step{Op: "merge", Off: 0}); err != nil {
				fail("merge: %v", err)
				return
			}
			// Load the ancestors, one after the other.
			full := append([]string(nil), r.w.actionPath[0]...)
			for _, name := range hdr.Target {
				if err := r.run(&step{Op: "lookup", Path: append([]string(nil), full...), Name: name}); err != nil {
					fail("loading the ancestors: %v", err)
					return
				}
				full = append(full, name)
			}
			for _, st := range hdr.Callers {
				st.Path = full
			}
			targetDir, code := r.realDir(full)
			if code != "ok" {
				fail("harness bug: cannot reach the target directory: %s", code)
				return
			}
			// What the model says each caller has to get.
			want := make([]outcome, nCallers)
			r.marking = true
			for i, st := range hdr.Callers {
				want[i], _ = r.predict(st)
			}
			r.marking = false

			lot = &parkingLot{key: casKey(mat.dirDigests[tt]), events: make(chan string, 64)}
			c.getHook = lot.hook
			got := make([]outcome, nCallers)
			ids := make([]map[string]uint64, nCallers)
			listIDs := func() map[string]uint64 {
				entries, code := r.readDirAll(targetDir, maskVariants[1], 0)
				if code != "ok" {
					return nil
				}
				out := map[string]uint64{}
				for i := range entries {
					out[entries[i].name] = entries[i].attrs.GetInodeNumber()
				}
				return out
			}
			start := func(i int) {
				go func() {
					defer func() {
						if p := recover(); p != nil {
							got[i] = outcome{code: "panic", detail: fmt.Sprint(p)}
						}
						lot.events <- "done"
					}()
					got[i] = r.safeReal(hdr.Callers[i])
					if got[i].code == "ok" {
						ids[i] = listIDs()
					}
				}()
			}
			start(0)
			if ev := <-lot.events; ev != "parked" {
				fail("the first access to a directory that had not been loaded returned %q without fetching its Directory object", got[0])
				return
			}
			for i := 1; i < nCallers; i++ {
				start(i)
			}
			// Let the other callers reach the directory.
			blocked := 0
			for spin := 0; spin < 200000; spin++ {
				runtime.Gosched()
				if _, parked := lot.counts(); parked > 1 {
					break
				}
				if spin%64 == 63 {
					if blocked = goroutinesWaitingForDirectoryLock(); blocked >= nCallers-1 {
						break
					}
				}
			}
			// InitialContentsFetcher documents that "FetchContents() should
			// be called until it succeeds at most once": several fetches
			// in flight are not wrong by themselves (all but one might
			// fail), two that succeed are. Counted below.
			// Release: the first fetch with the drawn fault, later ones as
			// they arrive.
			switch hdr.Failure {
			case "unavailable_once":
				c.faults[c.callCount()] = faultUnavailable
			case "corrupt_once":
				c.faults[c.callCount()] = faultCorrupt
			case "notfound_once":
				c.faults[c.callCount()] = faultNotFound
			}
			lot.releaseOne()
			done, inFlightMax := 0, 1
			if _, parked := lot.counts(); parked > inFlightMax {
				inFlightMax = parked
			}
			for done < nCallers {
				switch <-lot.events {
				case "done":
					done++
				case "parked":
					if _, parked := lot.counts(); parked > inFlightMax {
						inFlightMax = parked
					}
					lot.releaseOne()
				}
			}
			lot.openAll()
			if _, parked := lot.counts(); parked > inFlightMax {
				inFlightMax = parked
			}
			gets, _ := lot.counts()
			persistent := hdr.Failure == "missing" || hdr.Failure == "malformed"
			oneShot := hdr.Failure != "" && !persistent
			for i := range got {
				switch {
				case persistent || (oneShot && i == 0):
					if got[i].code != "io" {
						fail("caller %d (%+v) got %q although the fetch of the directory's contents failed for it (model: %q)", i, *hdr.Callers[i], got[i], want[i])
					}
				default:
					if !matches(got[i], want[i]) {
						fail("caller %d (%+v) got\n%s\nbut the requested tree gives\n%s", i, *hdr.Callers[i], got[i], want[i])
					}
				}
			}
			switch {
			case hdr.Failure == "" && gets != 1:
				fail("the Directory object of the directory was fetched successfully %d times for %d concurrent first accesses (at most %d at the same time); FetchContents() is to be called until it succeeds at most once", gets, nCallers, inFlightMax)
			case oneShot && gets != 2:
				fail("the Directory object of the directory was fetched %d times (one fetch failed, %d callers, at most %d fetches at the same time); FetchContents() is to be called until it succeeds at most once: the failed fetch and one successful one", gets, nCallers, inFlightMax)
			}
			// Everybody who saw the contents saw the same objects.
			if !persistent {
				final := listIDs()
				for i := range ids {
					if ids[i] == nil {
						continue
					}
					if a, b := fmt.Sprint(sortedIDs(ids[i])), fmt.Sprint(sortedIDs(final)); a != b {
						fail("caller %d saw children with inode numbers %s, a later listing gives %s: the contents were created more than once", i, a, b)
					}
				}
			}
			// The model's bookkeeping for what follows.
			if failure != "" {
				return
			}
			if err := r.run(&step{Op: "walk"}); err != nil {
				fail("final walk: %v", err)
				return
			}
			if msg := r.handleLeakDiagnostic(); msg != "" {
				fail("leaves were created and not released: %s", msg)
				return
			}
			add := func(cond bool, l string) {
				if cond {
					labels = append(labels, l)
				}
			}
			add(blocked >= 1, "callers_blocked_on_directory_lock_during_fetch")
			add(blocked >= nCallers-1, "all_other_callers_blocked_during_fetch")
			add(blocked == 0, "no_caller_observed_blocked")
			add(inFlightMax > 1, "diagnostic:several_fetches_in_flight")
			add(hdr.Failure == "", "fetch_succeeded")
			add(oneShot, "fetch_failed_once:"+hdr.Failure)
			add(persistent, "fetch_fails_persistently:"+hdr.Failure)
			add(len(names) == 0, "empty_directory")
			add(r.w.nfs != nil, "nfs_handles")
			labels = append(labels, fmt.Sprintf("callers:%d", nCallers))
			nontrivial = blocked >= 1 && len(names) > 0
		})
		if failure != "" {
			rt.Fatalf("%s\nscript=%s", failure, jsonOf(hdr))
		}
		rec.Case(hdr, nontrivial, labels...)
	})
}

func sortedIDs(m map[string]uint64) []string {
	out := make([]string, 0, len(m))
	for k, v := range m {
		out = append(out, fmt.Sprintf("%q:%d", k, v))
	}
	sort.Strings(out)
	return out
}

package inputroot

import (
	"context"
	"encoding/hex"
	"fmt"
	"testing"

	remoteexecution "github.com/bazelbuild/remote-apis/build/bazel/remote/execution/v2"
	"github.com/buildbarn/bb-remote-execution/pkg/cas"
	"github.com/buildbarn/bb-storage/pkg/digest"
	"github.com/buildbarn/bb-storage/pkg/eviction"
	"google.golang.org/grpc/status"
	"google.golang.org/protobuf/proto"
	"pgregory.net/rapid"

	"verif/harness/internal/simkit"
)

type cacheStep struct {
	Op    string `json:"op"`
	D     int    `json:"d"`
	C     int    `json:"c,omitempty"`
	Res   string `json:"res,omitempty"`
	Cache string `json:"cached,omitempty"`
}

type cacheHeader struct {
	Op        string   `json:"op"`
	Policy    string   `json:"policy"`
	MaxCount  int      `json:"maxCount"`
	MaxBytes  int64    `json:"maxBytes"`
	MaxTree   int64    `json:"maxTree"`
	Universe  []string `json:"universe"` // what each digest index is
	BlobsHex  []string `json:"blobs"`
	KeyFormat string   `json:"keyFormat"`
}

// drawPoolDirectory draws a small Directory message. "Name only" ones
// contain no digests, so that a Tree built from them is also a valid
// Directory message (field 1 of a Tree is its root Directory, field 1 of a
// Directory is a FileNode whose field 1 is a string): one blob, one digest,
// two different meanings.
func drawPoolDirectory(rt *rapid.T, nameOnly bool) *remoteexecution.Directory {
	d := &remoteexecution.Directory{}
	for i, n := 0, rapid.IntRange(0, 2).Draw(rt, "nFiles"); i < n; i++ {
		f := &remoteexecution.FileNode{Name: rapid.SampledFrom(nameAlphabet).Draw(rt, "name"), IsExecutable: rapid.Bool().Draw(rt, "exec")}
		if !nameOnly {
			f.Digest = digestOf([]byte(f.Name)).GetProto()
		}
		d.Files = append(d.Files, f)
	}
	for i, n := 0, rapid.IntRange(0, 1).Draw(rt, "nDirs"); i < n; i++ {
		d.Directories = append(d.Directories, &remoteexecution.DirectoryNode{Name: rapid.SampledFrom(nameAlphabet).Draw(rt, "name")})
	}
	for i, n := 0, rapid.IntRange(0, 1).Draw(rt, "nSymlinks"); i < n; i++ {
		d.Symlinks = append(d.Symlinks, &remoteexecution.SymlinkNode{Name: rapid.SampledFrom(nameAlphabet).Draw(rt, "name"), Target: rapid.SampledFrom(symlinkTargets).Draw(rt, "target")})
	}
	return d
}

type fetchResult struct {
	dir *remoteexecution.Directory
	err error
}

func (r fetchResult) String() string {
	if r.err != nil {
		return "error: " + r.err.Error()
	}
	return "ok: " + protoText(r.dir)
}

func protoText(m proto.Message) string {
	return hex.EncodeToString(mustMarshal(m))
}

func TestC17CachingFetcherDifferential(t *testing.T) {
	rec := simkit.NewRecorder(t, "C17", "caching-fetcher-differential",
		"rapid: universe of <=10 digests over generated blobs: plain Directory messages, Tree messages whose root/children come from the same pool (so a child digest can also exist as a plain Directory blob, or only inside a Tree), Trees built from digest-free directories (one blob that is BOTH a valid Tree and a valid Directory: same digest key, different meaning), a digest that is not stored; generated sequences of GetDirectory / GetTreeRootDirectory / GetTreeChildDirectory on cas.CachingDirectoryFetcher (max 1-3 entries, small byte budgets, LRU or FIFO, both key formats) and on an uncached BlobAccessDirectoryFetcher over an identical second CAS, interleaved with removal / restoration of blobs. Oracle (differential): when the uncached fetcher succeeds the cached one returns an equal message; when it fails the cached one fails too (with whatever error: status code and text are only compared for a diagnostic label), or returns the message the uncached fetcher returned earlier for the same (digest, tree-root?) key (a legitimately cached content-addressed object). NON-TRIVIAL: one digest fetched successfully both as tree root and as directory with different results AND a cache hit AND a refetch after eviction were observed; distinct by script hash")
	ctx := context.Background()
	rapid.Check(t, func(rt *rapid.T) {
		// Pool of directory messages.
		nameOnlyTrees := rapid.Bool().Draw(rt, "nameOnly")
		var pool [][]byte
		for i, n := 0, rapid.IntRange(2, 4).Draw(rt, "poolSize"); i < n; i++ {
			pool = append(pool, mustMarshal(drawPoolDirectory(rt, nameOnlyTrees || rapid.Bool().Draw(rt, "thisNameOnly"))))
		}
		type blob struct {
			data   []byte
			stored bool
			what   string
		}
		var universe []blob
		// Plain directories: some of the pool is stored as blobs.
		for i, b := range pool {
			universe = append(universe, blob{data: b, stored: rapid.IntRange(0, 3).Draw(rt, "stored") > 0, what: fmt.Sprintf("directory pool[%d]", i)})
		}
		// Trees.
		for i, n := 0, rapid.IntRange(1, 3).Draw(rt, "nTrees"); i < n; i++ {
			tree := &remoteexecution.Tree{}
			if rapid.IntRange(0, 9).Draw(rt, "hasRoot") > 0 {
				tree.Root = &remoteexecution.Directory{}
				if err := proto.Unmarshal(pool[rapid.IntRange(0, len(pool)-1).Draw(rt, "root")], tree.Root); err != nil {
					rt.Fatalf("harness bug: %v", err)
				}
			}
			for j, m := 0, rapid.IntRange(0, 3).Draw(rt, "nChildren"); j < m; j++ {
				child := &remoteexecution.Directory{}
				if err := proto.Unmarshal(pool[rapid.IntRange(0, len(pool)-1).Draw(rt, "child")], child); err != nil {
					rt.Fatalf("harness bug: %v", err)
				}
				tree.Children = append(tree.Children, child)
			}
			universe = append(universe, blob{data: mustMarshal(tree), stored: true, what: fmt.Sprintf("tree[%d]", i)})
		}
		universe = append(universe, blob{data: []byte("never stored"), stored: false, what: "absent"})

		digests := make([]digest.Digest, len(universe))
		casCached, casPlain := newFakeCAS(), newFakeCAS()
		hdr := cacheHeader{Op: "setup"}
		for i, b := range universe {
			digests[i] = digestOf(b.data)
			if b.stored {
				casCached.store(b.data)
				casPlain.store(b.data)
			}
			hdr.Universe = append(hdr.Universe, fmt.Sprintf("%s stored=%v", b.what, b.stored))
			hdr.BlobsHex = append(hdr.BlobsHex, hex.EncodeToString(b.data))
		}

		hdr.Policy = rapid.SampledFrom([]string{"lru", "fifo"}).Draw(rt, "policy")
		hdr.MaxCount = rapid.IntRange(1, 3).Draw(rt, "maxCount")
		hdr.MaxBytes = rapid.SampledFrom([]int64{1, 20, 60, 1 << 20}).Draw(rt, "maxBytes")
		hdr.MaxTree = rapid.SampledFrom([]int64{1 << 20, 1 << 20, 40, 0}).Draw(rt, "maxTree")
		keyFormat := digest.KeyWithoutInstance
		hdr.KeyFormat = "without_instance"
		if rapid.Bool().Draw(rt, "keyWithInstance") {
			keyFormat = digest.KeyWithInstance
			hdr.KeyFormat = "with_instance"
		}
		var evictionSet cas.CachingDirectoryFetcherEvictionSet
		if hdr.Policy == "lru" {
			evictionSet = eviction.NewLRUSet[cas.CachingDirectoryFetcherKey]()
		} else {
			evictionSet = eviction.NewFIFOSet[cas.CachingDirectoryFetcherKey]()
		}
		plain := cas.NewBlobAccessDirectoryFetcher(casPlain, 1<<16, hdr.MaxTree)
		cached := cas.NewCachingDirectoryFetcher(cas.NewBlobAccessDirectoryFetcher(casCached, 1<<16, hdr.MaxTree), keyFormat, hdr.MaxCount, hdr.MaxBytes, evictionSet)

		script := []any{hdr}
		// Several universe entries may have identical bytes, hence one
		// digest: everything is keyed by digest, not by index.
		type logicalKey struct {
			treeRoot bool
			d        string
		}
		keyOf := func(i int) string { return casKey(digests[i]) }
		earlier := map[logicalKey]*remoteexecution.Directory{}
		okAsRoot := map[string]*remoteexecution.Directory{}
		okAsDir := map[string]*remoteexecution.Directory{}
		dualSeen, hitSeen, refetchSeen := false, false, false
		bothFailed, errorCodeDiffers, errorTextDiffers := false, false, false
		fetchedBefore := map[string]bool{}

		compare := func(st *cacheStep, key logicalKey, u, k fetchResult, cachedReads int) {
			st.Res, st.Cache = clip(u.String()), clip(k.String())
			script = append(script, st)
			switch {
			case u.err == nil:
				if k.err != nil || !proto.Equal(u.dir, k.dir) {
					rt.Fatalf("%+v: uncached fetcher returned %v, caching fetcher returned %v\nscript=%s", *st, u, k, jsonOf(script))
				}
				earlier[key] = u.dir
			case k.err == nil:
				want, ok := earlier[key]
				if !ok || !proto.Equal(want, k.dir) {
					rt.Fatalf("%+v: uncached fetcher failed with %v; caching fetcher returned %v, which the uncached fetcher never returned for this key (earlier: %v)\nscript=%s", *st, u.err, k, want, jsonOf(script))
				}
				hitSeen = true
			default:
				// Both fail. That the caching fetcher passes the
				// error of the underlying fetcher on unchanged is
				// what the code does, but it is not documented and
				// not part of C17: differences are only counted.
				if status.Code(u.err) != status.Code(k.err) {
					errorCodeDiffers = true
				} else if u.err.Error() != k.err.Error() {
					errorTextDiffers = true
				}
				bothFailed = true
			}
			if k.err == nil {
				id := fmt.Sprintf("%v/%s", key.treeRoot, key.d)
				if cachedReads == 0 {
					hitSeen = true
				} else if fetchedBefore[id] {
					refetchSeen = true
				}
				fetchedBefore[id] = true
			}
		}

		pick := func(label string) int { return rapid.IntRange(0, len(universe)-1).Draw(rt, label) }
		rt.Repeat(map[string]func(*rapid.T){
			"getdir": func(rt *rapid.T) {
				st := &cacheStep{Op: "getdir", D: pick("d")}
				before := casCached.callCount()
				var u, k fetchResult
				u.dir, u.err = plain.GetDirectory(ctx, digests[st.D])
				k.dir, k.err = cached.GetDirectory(ctx, digests[st.D])
				compare(st, logicalKey{false, keyOf(st.D)}, u, k, casCached.callCount()-before)
				if u.err == nil {
					okAsDir[keyOf(st.D)] = u.dir
				}
			},
			"treeroot": func(rt *rapid.T) {
				st := &cacheStep{Op: "treeroot", D: pick("d")}
				before := casCached.callCount()
				var u, k fetchResult
				u.dir, u.err = plain.GetTreeRootDirectory(ctx, digests[st.D])
				k.dir, k.err = cached.GetTreeRootDirectory(ctx, digests[st.D])
				compare(st, logicalKey{true, keyOf(st.D)}, u, k, casCached.callCount()-before)
				if u.err == nil {
					okAsRoot[keyOf(st.D)] = u.dir
				}
			},
			"treechild": func(rt *rapid.T) {
				st := &cacheStep{Op: "treechild", D: pick("tree"), C: pick("child")}
				before := casCached.callCount()
				var u, k fetchResult
				u.dir, u.err = plain.GetTreeChildDirectory(ctx, digests[st.D], digests[st.C])
				k.dir, k.err = cached.GetTreeChildDirectory(ctx, digests[st.D], digests[st.C])
				compare(st, logicalKey{false, keyOf(st.C)}, u, k, casCached.callCount()-before)
			},
			"remove": func(rt *rapid.T) {
				st := &cacheStep{Op: "remove", D: pick("d")}
				delete(casCached.blobs, casKey(digests[st.D]))
				delete(casPlain.blobs, casKey(digests[st.D]))
				script = append(script, st)
			},
			"restore": func(rt *rapid.T) {
				st := &cacheStep{Op: "restore", D: pick("d")}
				casCached.store(universe[st.D].data)
				casPlain.store(universe[st.D].data)
				script = append(script, st)
			},
			"": func(rt *rapid.T) {
				for d, root := range okAsRoot {
					if dir, ok := okAsDir[d]; ok && !proto.Equal(root, dir) {
						dualSeen = true
					}
				}
			},
		})
		labels := []string{}
		add := func(cond bool, l string) {
			if cond {
				labels = append(labels, l)
			}
		}
		add(dualSeen, "same_digest_as_tree_root_and_directory_with_different_results")
		add(hitSeen, "cache_hit")
		add(refetchSeen, "refetch_after_eviction")
		add(hdr.KeyFormat == "with_instance", "key_with_instance")
		add(bothFailed, "both_fetchers_failed")
		add(errorCodeDiffers, "diagnostic:error_code_differs_from_uncached")
		add(errorTextDiffers, "diagnostic:error_text_differs_from_uncached")
		rec.Case(script, dualSeen && hitSeen && refetchSeen, labels...)
	})
}

package inputroot

import (
	"context"
	"fmt"
	"sort"
	"strings"
	"testing"

	"github.com/buildbarn/bb-remote-execution/pkg/cas"
	"github.com/buildbarn/bb-remote-execution/pkg/filesystem/virtual"
	"github.com/buildbarn/bb-storage/pkg/digest"
	"github.com/buildbarn/bb-storage/pkg/filesystem/path"
	"pgregory.net/rapid"

	"verif/harness/internal/simkit"
)

// ---------------------------------------------------------------------
// Counting leaf factories: the real factories, with every leaf they hand
// out wrapped so that Link() and Unlink() calls are counted per leaf.

type leafBooks struct {
	created []*countedLeaf
}

type countedLeaf struct {
	virtual.LinkableLeaf
	what    string
	links   int
	unlinks int
}

func (l *countedLeaf) Link() virtual.Status {
	l.links++
	return l.LinkableLeaf.Link()
}

func (l *countedLeaf) Unlink() {
	l.unlinks++
	l.LinkableLeaf.Unlink()
}

type countingCASFileFactory struct {
	base  virtual.CASFileFactory
	books *leafBooks
}

func (f *countingCASFileFactory) LookupFile(d digest.Digest, isExecutable bool, readMonitor virtual.FileReadMonitor) virtual.LinkableLeaf {
	l := &countedLeaf{LinkableLeaf: f.base.LookupFile(d, isExecutable, readMonitor), what: fmt.Sprintf("file %s x=%v", casKey(d), isExecutable)}
	f.books.created = append(f.books.created, l)
	return l
}

type countingSymlinkFactory struct {
	base  virtual.SymlinkFactory
	books *leafBooks
}

func (f *countingSymlinkFactory) LookupSymlink(target path.Parser) (virtual.LinkableLeaf, error) {
	leaf, err := f.base.LookupSymlink(target)
	if err != nil {
		return nil, err
	}
	l := &countedLeaf{LinkableLeaf: leaf, what: "symlink"}
	f.books.created = append(f.books.created, l)
	return l, nil
}

// probeResult is what one direct FetchContents call on the real
// CASInitialContentsFetcher did.
type probeResult struct {
	err           error
	names         []string // "name kind", sorted
	leavesCreated int
	// What is wrong with the books, if anything.
	complaint string
}

// probeFetch calls FetchContents of a real CASInitialContentsFetcher for
// one Directory object, with the real CAS file and symlink factories over
// a private NFS handle allocator, and checks how it keeps its books:
//
//   - on failure nothing is returned and every leaf that was created has
//     been unlinked exactly once ("Ensure that leaves are properly
//     unlinked if this method fails"), so the handle pool tracks nothing;
//   - on success every created leaf is returned exactly once and none has
//     been unlinked.
//
// Leaves returned by a successful call are released by the harness.
func probeFetch(ctx context.Context, c *fakeCAS, d digest.Digest) probeResult {
	nfs := virtual.NewNFSHandleAllocator(&seqGenerator{})
	books := &leafBooks{}
	errlog := &errLogger{}
	ownerSetter := func(requested virtual.AttributesMask, attributes *virtual.Attributes) {}
	fileFactory := &countingCASFileFactory{
		base:  virtual.NewStatelessHandleAllocatingCASFileFactory(virtual.NewBlobAccessCASFileFactory(ctx, c, errlog), nfs.New()),
		books: books,
	}
	symlinkFactory := &countingSymlinkFactory{
		base:  virtual.NewHandleAllocatingSymlinkFactory(virtual.NewBaseSymlinkFactory(ownerSetter), nfs.New(), path.LocalFormat),
		books: books,
	}
	fetcher := cas.NewBlobAccessDirectoryFetcher(c, maximumDirectorySizeBytes, 0)
	icf := virtual.NewCASInitialContentsFetcher(ctx, cas.NewDecomposedDirectoryWalker(fetcher, d), fileFactory, symlinkFactory, digestFunction)
	children, err := icf.FetchContents(func(name path.Component) virtual.FileReadMonitor { return nil })
	res := probeResult{err: err, leavesCreated: len(books.created)}
	if err != nil {
		if children != nil {
			res.complaint = fmt.Sprintf("FetchContents failed with %v and returned %d children", err, len(children))
		}
		for _, l := range books.created {
			if l.unlinks != 1 || l.links != 0 {
				res.complaint = fmt.Sprintf("FetchContents failed with %v; the leaf it had created for %s was unlinked %d times (want exactly once) and linked %d times", err, l.what, l.unlinks, l.links)
			}
		}
	} else {
		returned := map[*countedLeaf]int{}
		for name, child := range children {
			dir, leaf := child.GetPair()
			switch {
			case dir != nil:
				res.names = append(res.names, name.String()+" dir")
			case leaf != nil:
				res.names = append(res.names, name.String()+" leaf")
				if cl, ok := leaf.(*countedLeaf); ok {
					returned[cl]++
				} else {
					res.complaint = fmt.Sprintf("child %q is a leaf that did not come from the factories", name.String())
				}
			}
		}
		sort.Strings(res.names)
		for _, l := range books.created {
			if l.unlinks != 0 || returned[l] != 1 {
				res.complaint = fmt.Sprintf("FetchContents succeeded; the leaf created for %s was unlinked %d times (want 0) and returned %d times (want 1)", l.what, l.unlinks, returned[l])
			}
		}
		// The harness lets go of what it was given.
		for _, l := range books.created {
			l.LinkableLeaf.Unlink()
		}
	}
	if dirs, stateful, stateless := nfs.VerifNFSHandlePoolCounts(); res.complaint == "" && (stateful != 0 || stateless != 0) {
		res.complaint = fmt.Sprintf("after FetchContents (error: %v) and releasing what it returned, the handle pool still tracks %d directories, %d stateful and %d stateless leaves", err, dirs, stateful, stateless)
	}
	return res
}

// wantNames lists the entries of a template the way probeResult.names does.
func wantNames(d dirSpec) []string {
	var out []string
	for _, e := range d.Entries {
		if e.Kind == kindDir {
			out = append(out, e.Name+" dir")
		} else {
			out = append(out, e.Name+" leaf")
		}
	}
	sort.Strings(out)
	return out
}

// Names that path.NewComponent accepts although they look odd: a
// directory that uses them is well formed.
var oddValidNames = []string{"...", "..a", "a..", " ", "a b ", "äö", "\\", "-rf", "\t", "a\nb", "*", strings.Repeat("n", 300), ".hidden", "CON"}

// findOccurrence returns the path (names below the root of the input
// root) of one occurrence of template t all of whose ancestors are
// accessible, or ok=false if there is none.
func findOccurrence(g *dagSpec, badTmpl map[int]string, t int) ([]string, bool) {
	var found []string
	ok := false
	var walk func(cur int, p []string)
	walk = func(cur int, p []string) {
		if ok {
			return
		}
		if cur == t {
			found, ok = append([]string(nil), p...), true
			return
		}
		if badTmpl[cur] != "" {
			return
		}
		for _, e := range g.Dirs[cur].Entries {
			if e.Kind == kindDir {
				walk(e.Child, append(p, e.Name))
			}
		}
	}
	walk(g.root(), nil)
	return found, ok
}

type malformedHeader struct {
	Op      string      `json:"op"`
	World   worldConfig `json:"world"`
	DAG     *dagSpec    `json:"dag"`
	Malform []malform   `json:"malform,omitempty"`
	// Template that got a symlink with an empty target (-1: none).
	EmptyTarget int `json:"emptyTarget"`
}

func TestC17Malformed(t *testing.T) {
	rec := simkit.NewRecorder(t, "C17", "inputroot-malformed",
		"rapid, fault-free and cheap: DAG + exactly one unusable Directory object (1 in 10: none, as a control; 1 in 6 an entry renamed to an odd but valid name; 1 in 8 a symlink with an EMPTY target): an invalid name (\"\", \".\", \"..\", with '/', with NUL, absolute, trailing slash) for a file, directory or symlink; a name used twice within or across files/directories/symlinks; a digest that is missing, non-hex, too short/long, of another hash size, upper case, negative-sized; a symlink target with a NUL byte (SymlinkFactory.LookupSymlink fails after the files have been created); a name or target that is not UTF-8; a message that is cut off or has an invalid wire type; a reference whose size_bytes does not match the stored object; a message larger than the configured maximum; garbage; a missing or corrupted Directory blob. (1) The Directory object is fetched directly through the real CASInitialContentsFetcher with the real leaf factories wrapped by counters: an unusable object gives an error, no children, and every leaf created before the failure has been unlinked exactly once (handle pool empty); a usable one gives exactly its names and no leaf is unlinked. (2) The whole stack (as in inputroot-model) runs a step script aimed at the unusable directory, its parent and its siblings, against the reference model in which the contents of that directory are inaccessible. Oracle: every answer that needs the unusable directory is an error (never a tree, never a panic), it is listed as a directory by its parent, well-formed siblings and the rest of the tree answer exactly as the model says, local edits around it work; unusable root => MergeDirectoryContents fails and attaches nothing; after tearing down, the NFS handle pool tracks no leaf; the CAS is unchanged. An empty symlink target is not documented either way: the load may fail (then like any unusable directory) or present the target \".\". NON-TRIVIAL: the unusable directory is not the root, and the script got an error from it while its parent or siblings answered; distinct by script hash")
	ctx := context.Background()
	rapid.Check(t, func(rt *rapid.T) {
		cfg := drawWorldConfig(rt)
		spec := drawDAG(rt)
		if cfg.CaseInsensitive {
			// Names that collide after normalization are the business
			// of TestC17MalformedAndFaults.
			spec.decollide()
		}
		hdr := malformedHeader{Op: "setup", World: cfg, DAG: spec, EmptyTarget: -1}
		labels := []string{}
		if rapid.IntRange(0, 5).Draw(rt, "oddName") == 0 {
			// Control: unusual names that are valid must not be
			// mistaken for malformed ones.
			tm := rapid.IntRange(0, len(spec.Dirs)-1).Draw(rt, "oddNameTemplate")
			if n := len(spec.Dirs[tm].Entries); n > 0 {
				spec.Dirs[tm].Entries[rapid.IntRange(0, n-1).Draw(rt, "oddNameEntry")].Name = rapid.SampledFrom(oddValidNames).Draw(rt, "oddNameValue")
				labels = append(labels, "odd_valid_name")
			}
		}
		if rapid.IntRange(0, 7).Draw(rt, "emptyTarget") == 0 {
			tm := rapid.IntRange(0, len(spec.Dirs)-1).Draw(rt, "emptyTargetTemplate")
			hdr.EmptyTarget = tm
			set := false
			for i := range spec.Dirs[tm].Entries {
				if e := &spec.Dirs[tm].Entries[i]; e.Kind == kindSymlink {
					e.Target, set = "", true
					break
				}
			}
			if !set {
				spec.Dirs[tm].Entries = append(spec.Dirs[tm].Entries, entrySpec{Name: "empty-target", Kind: kindSymlink, Target: ""})
			}
		}
		if rapid.IntRange(0, 9).Draw(rt, "malformed") > 0 {
			kinds := append(append(append([]string(nil), messageMalformations...), extraMessageMalformations...), "missing_dir", "corrupt_dir")
			m := malform{Kind: rapid.SampledFrom(kinds).Draw(rt, "malformation")}
			// Mostly a template that occurs in the tree, mostly not the
			// root (the lazily loaded part is where the trouble is).
			var reachable, belowRoot []int
			for tm, n := range spec.occurrences() {
				if n > 0 {
					reachable = append(reachable, tm)
					if tm != spec.root() {
						belowRoot = append(belowRoot, tm)
					}
				}
			}
			switch pick := rapid.IntRange(0, 9).Draw(rt, "templateClass"); {
			case pick == 0:
				m.Template = rapid.IntRange(0, len(spec.Dirs)-1).Draw(rt, "template")
			case pick <= 2 || len(belowRoot) == 0:
				m.Template = rapid.SampledFrom(reachable).Draw(rt, "template")
			default:
				m.Template = rapid.SampledFrom(belowRoot).Draw(rt, "template")
			}
			m.Entry = rapid.IntRange(0, 5).Draw(rt, "entry")
			m.Variant = rapid.IntRange(0, 59).Draw(rt, "variant")
			hdr.Malform = []malform{m}
			labels = append(labels, "malformed:"+m.Kind)
			switch m.Kind {
			case "invalid_name":
				labels = append(labels, fmt.Sprintf("invalid_name:%q", clipName(invalidNames[m.Variant%len(invalidNames)])))
			case "duplicate":
				labels = append(labels, "duplicate_as:"+[]string{"file", "directory", "symlink"}[m.Variant%3])
			}
		} else {
			labels = append(labels, "well_formed_control")
		}

		c := newFakeCAS()
		mat, badTmpl, badContent, repair := materializeWith(c, spec, hdr.Malform)
		before := c.snapshot()

		// (1) Direct probes of the Directory objects of interest.
		probe := func(tm int) probeResult {
			res := probeFetch(ctx, c, mat.dirDigests[tm])
			if res.complaint != "" {
				rt.Fatalf("template %d: %s\nscript=%s", tm, res.complaint, jsonOf(hdr))
			}
			return res
		}
		probed := map[int]bool{}
		for _, m := range hdr.Malform {
			probed[m.Template] = true
		}
		probed[spec.root()] = true
		if hdr.EmptyTarget >= 0 {
			probed[hdr.EmptyTarget] = true
		}
		probedSorted := make([]int, 0, len(probed))
		for tm := range probed {
			probedSorted = append(probedSorted, tm)
		}
		sort.Ints(probedSorted)
		for _, tm := range probedSorted {
			res := probe(tm)
			switch {
			case badTmpl[tm] != "":
				if res.err == nil {
					rt.Fatalf("template %d is unusable (%s), but FetchContents presented it as a directory with children %q\nscript=%s", tm, badTmpl[tm], res.names, jsonOf(hdr))
				}
				if res.leavesCreated > 0 {
					labels = append(labels, "partial_leaves_released_after_failed_load")
				}
			case tm == hdr.EmptyTarget && res.err != nil:
				// Not documented either way; from here on this is an
				// unusable directory like the others.
				badTmpl[tm] = "empty_symlink_target"
				labels = append(labels, "empty_symlink_target_refused")
			default:
				if res.err != nil {
					rt.Fatalf("template %d is well formed, but FetchContents failed: %v\nscript=%s", tm, res.err, jsonOf(hdr))
				}
				if got, want := strings.Join(res.names, ","), strings.Join(wantNames(spec.Dirs[tm]), ","); got != want {
					rt.Fatalf("template %d: FetchContents returned children %q, the Directory object has %q\nscript=%s", tm, got, want, jsonOf(hdr))
				}
				if tm == hdr.EmptyTarget {
					labels = append(labels, "empty_symlink_target_presented_as_dot")
				}
			}
		}
		if msg := diffSnapshots(before, c.snapshot()); msg != "" {
			rt.Fatalf("the probes altered the CAS: %s\nscript=%s", msg, jsonOf(hdr))
		}

		// (2) The whole stack against the model.
		r, err := setupRig(c, mat, cfg, false)
		if err != nil {
			rt.Fatalf("setup failed: %v; script=%s", err, jsonOf(hdr))
		}
		r.badTmpl, r.badContent, r.repairFn = badTmpl, badContent, repair
		var steps []*step
		scriptOf := func() string { return jsonOf([]any{hdr, steps}) }
		do := func(st *step) {
			if st == nil {
				return
			}
			err := r.run(st)
			steps = append(steps, st)
			if err != nil {
				rt.Fatalf("%v\nscript=%s", err, scriptOf())
			}
			if err := r.run(&step{Op: "walkloaded"}); err != nil {
				rt.Fatalf("after %v: %v\nscript=%s", st, err, scriptOf())
			}
		}
		for a := 0; a < cfg.Actions; a++ {
			do(&step{Op: "merge", Off: a})
		}
		g := &stepGen{r: r}
		badTemplates := make([]int, 0, len(badTmpl))
		for tm := range badTmpl {
			badTemplates = append(badTemplates, tm)
		}
		sort.Ints(badTemplates)
		badNonRoot := false
		for _, tm := range badTemplates {
			if tm == spec.root() {
				continue
			}
			if occ, ok := findOccurrence(spec, badTmpl, tm); ok {
				badNonRoot = true
				for a := range r.w.actionPath {
					full := append(append([]string(nil), r.w.actionPath[a]...), occ...)
					g.focus = append(g.focus, full, full[:len(full)-1])
				}
			}
		}
		okBefore := 0
		gens := map[string]func(*rapid.T) *step{
			"lookup":    g.lookup,
			"readdir":   g.readdir,
			"read":      g.read,
			"readlink":  g.readlink,
			"create":    g.create,
			"mkdir":     g.mkdir,
			"symlink":   g.symlink,
			"remove":    g.remove,
			"removeall": g.removeall,
			"rename":    func(rt *rapid.T) *step { return g.rename(rt, rec.Exclude) },
			"link":      g.link,
			"openw":     g.openw,
		}
		// No UploadFile here: an upload of an empty local file stores
		// the empty blob, which is also the (missing or corrupted)
		// Directory object of an empty directory, and would repair it
		// behind the model's back.
		opNames := []string{"lookup", "lookup", "readdir", "readdir", "read", "readlink", "create", "mkdir", "symlink", "remove", "removeall", "rename", "link", "openw"}
		nSteps := rapid.IntRange(4, 16).Draw(rt, "steps")
		answeredAroundError := false
		for i := 0; i < nSteps; i++ {
			badBefore, ioBefore := r.badAccess, r.ioSeen
			do(gens[rapid.SampledFrom(opNames).Draw(rt, "op")](rt))
			if r.badAccess == badBefore && r.ioSeen == ioBefore {
				okBefore++
			} else if okBefore > 0 {
				answeredAroundError = true
			}
		}
		final := &step{Op: "walk"}
		if err := r.run(final); err != nil {
			rt.Fatalf("final walk: %v\nscript=%s", err, scriptOf())
		}
		steps = append(steps, final)
		if msg := diffSnapshots(before, c.snapshot()); msg != "" {
			rt.Fatalf("the CAS was altered: %s\nscript=%s", msg, scriptOf())
		}
		if r.mergeCollisions == 0 {
			if msg := r.handleLeakDiagnostic(); msg != "" {
				rt.Fatalf("leaves were created and not released: %s\nscript=%s", msg, scriptOf())
			}
			if r.w.nfs != nil {
				labels = append(labels, "handle_pool_empty_after_teardown")
			}
		}
		if r.badAccess > 0 {
			labels = append(labels, "error_reported_for_unusable_directory")
		}
		if badTmpl[spec.root()] != "" {
			labels = append(labels, "unusable_root")
		} else if badNonRoot {
			labels = append(labels, "unusable_below_root")
		} else if len(badTmpl) > 0 {
			labels = append(labels, "unusable_but_unreachable")
		}
		if cfg.CaseInsensitive {
			labels = append(labels, "case_insensitive")
		}
		rec.Case([]any{hdr, steps}, badNonRoot && r.badAccess > 0 && answeredAroundError, labels...)
	})
}

func clipName(s string) string {
	if len(s) > 12 {
		return s[:12] + "..."
	}
	return s
}

package inputroot

import (
	"testing"

	"pgregory.net/rapid"

	"verif/harness/internal/simkit"
)

type faultHeader struct {
	Op   string `json:"op"`
	Call int    `json:"call"`
	Kind string `json:"kind"`
	What string `json:"what"`
}

// Signature of finding 1 of this package: on a case insensitive mount an
// input directory with two names that differ only by case makes
// inMemoryDirectoryContents.attach panic ("may not be attached: file
// exists") on first access instead of the access failing with an error.
// Proposed repair: proposed-fixes/0001-*.diff. While the finding is listed
// as open in known_findings.json the generator renames such entries and
// counts the exclusion; otherwise the panic is reported as a violation.
const findingCaseCollisionPanic = "C17/case-insensitive-name-collision-panics"

var enumeratedFaults = []faultKind{faultUnavailable, faultCorrupt, faultTruncated, faultNotFound, faultShortObject}

// scenario is everything needed to rebuild an identical world.
type scenario struct {
	cfg      worldConfig
	spec     *dagSpec
	malforms []malform
}

func (sc *scenario) build(faults map[int]faultKind) (*rig, *fakeCAS, error) {
	c := newFakeCAS()
	mat, badTmpl, badContent, repair := materializeWith(c, sc.spec, sc.malforms)
	for k, v := range faults {
		c.faults[k] = v
	}
	r, err := setupRig(c, mat, sc.cfg, false)
	if err != nil {
		return nil, nil, err
	}
	if sc.cfg.CaseInsensitive {
		// On a case insensitive file system two names that differ only
		// by case are duplicates: the directory cannot be presented.
		// That cannot be repaired by storing a blob.
		for t := range sc.spec.Dirs {
			if sc.spec.Dirs[t].caseCollision() {
				r.caseBad[t] = true
				if badTmpl[t] == "" {
					badTmpl[t] = "case_collision"
				}
			}
		}
	}
	r.badTmpl, r.badContent, r.repairFn = badTmpl, badContent, repair
	return r, c, nil
}

// describeCall says what the k-th CAS read of a run fetched.
func describeCall(c *fakeCAS, mat *materialized, k int) string {
	key := c.calls[k]
	for t, d := range mat.dirDigests {
		if casKey(d) == key {
			if t == mat.spec.root() {
				return "root_directory_fetch"
			}
			return "child_directory_fetch"
		}
	}
	for _, d := range mat.fileDigest {
		if casKey(d) == key {
			return "file_read"
		}
	}
	return "other"
}

func TestC17MalformedAndFaults(t *testing.T) {
	rec := simkit.NewRecorder(t, "C17", "inputroot-malformed-faults",
		"rapid scenario = DAG + 0-2 malformations (invalid names \"\", \".\", \"..\", \"a/b\", \"/\", NUL; duplicate names across files/directories/symlinks; digests that are non-hex, short, upper case, empty, nil or negative-sized; unparseable, missing or corrupted Directory blobs; missing or corrupted file blobs; file objects that lost their tail on a medium served through a non-validating ReaderAt buffer) + a generated step script (same step set as inputroot-model plus MergeDirectoryContents retries and a repair step that stores missing/corrupted blobs correctly). The script is first run fault-free counting CAS reads, then once per (read index x {UNAVAILABLE, corrupted bytes, truncated bytes, NOT_FOUND, and for file reads: object short by half served unvalidated}) in a fresh world; read buffers are pre-filled so that stale bytes are visible: fault enumeration, exhaustive per scenario. Oracle: an answer that needs an inaccessible directory/file is an error (EIO status / error), never any tree; everything else equals the model; a step during which a fault fired reports an error, changes nothing, and gives the model's answer when retried; the visited part is compared after every step and the whole tree at the end; with the NFS handle allocator, after removing the whole tree the handle pool tracks no leaf any more (leaves created by a directory load that then failed have been unlinked, as fetchContentsUnwrapped documents; not checked after a MergeDirectoryContents that collided with existing names). One evaluation = one (scenario, fault) run. NON-TRIVIAL: the fault hit the lazy fetch of a non-root directory or a file read and the retry succeeded, or (fault-free run) a malformed non-root directory was hit and reported as an error; distinct by script hash")
	rapid.Check(t, func(rt *rapid.T) {
		sc := &scenario{cfg: drawWorldConfig(rt), spec: drawDAG(rt)}
		sc.malforms = drawMalformations(rt, sc.spec)
		collisions := false
		if sc.cfg.CaseInsensitive {
			if simkit.KnownOpen(findingCaseCollisionPanic) {
				// Open finding: the trigger is removed by construction.
				if sc.spec.decollide() > 0 {
					rec.Exclude("input directory with two names differing only by case on a case-insensitive mount (open finding " + findingCaseCollisionPanic + ")")
				}
			}
			for t := range sc.spec.Dirs {
				collisions = collisions || sc.spec.Dirs[t].caseCollision()
			}
		}
		header := scriptHeader{Op: "setup", World: sc.cfg, DAG: sc.spec, Malform: sc.malforms}

		// Baseline: generate the script while running it fault-free.
		r, c, err := sc.build(nil)
		if err != nil {
			rt.Fatalf("setup failed: %v; script=%s", err, jsonOf(header))
		}
		var steps []*step
		scriptOf := func() string { return jsonOf([]any{header, steps}) }
		do := func(st *step) {
			err := r.run(st)
			steps = append(steps, st)
			if err != nil {
				rt.Fatalf("fault-free run: %v\nscript=%s", err, scriptOf())
			}
			if err := r.run(&step{Op: "walkloaded"}); err != nil {
				rt.Fatalf("fault-free run, after %v: %v\nscript=%s", st, err, scriptOf())
			}
		}
		for a := 0; a < sc.cfg.Actions; a++ {
			do(&step{Op: "merge", Off: a})
		}
		g := &stepGen{r: r}
		gens := map[string]func(*rapid.T) *step{
			"lookup":    g.lookup,
			"readdir":   g.readdir,
			"read":      g.read,
			"readlink":  g.readlink,
			"create":    g.create,
			"mkdir":     g.mkdir,
			"remove":    g.remove,
			"removeall": g.removeall,
			"rename":    func(rt *rapid.T) *step { return g.rename(rt, rec.Exclude) },
			"link":      g.link,
			"openw":     g.openw,
			"merge": func(rt *rapid.T) *step {
				// Mostly a retry of a merge that failed; rarely a second
				// merge onto what is already there.
				a := rapid.IntRange(0, sc.cfg.Actions-1).Draw(rt, "action")
				if r.merged[a] && rapid.IntRange(0, 4).Draw(rt, "mergeAgain") != 0 {
					return nil
				}
				return &step{Op: "merge", Off: a}
			},
			"repair": func(rt *rapid.T) *step {
				if len(sc.malforms) == 0 || r.repaired {
					return nil
				}
				return &step{Op: "repair"}
			},
		}
		opNames := []string{"lookup", "readdir", "read", "read", "readlink", "create", "mkdir", "remove", "removeall", "rename", "link", "openw", "merge", "repair"}
		nSteps := rapid.IntRange(3, 14).Draw(rt, "steps")
		for i := 0; i < nSteps; i++ {
			st := gens[rapid.SampledFrom(opNames).Draw(rt, "op")](rt)
			if st != nil {
				do(st)
			}
		}
		final := &step{Op: "walk"}
		if err := r.run(final); err != nil {
			rt.Fatalf("fault-free run, final walk: %v\nscript=%s", err, scriptOf())
		}
		steps = append(steps, final)
		nCalls := c.callCount()
		diag := func(r *rig, where any) {
			if r.mergeCollisions > 0 {
				rec.Label("diagnostic:skipped_after_merge_onto_existing_names")
			} else if msg := r.handleLeakDiagnostic(); msg != "" {
				// fetchContentsUnwrapped documents "Ensure that leaves
				// are properly unlinked if this method fails" (and
				// getContents does the same when it cannot attach
				// what was fetched): a leaf whose link count was not
				// returned stays in the handle pool for good.
				rt.Fatalf("leaves were created and not released: %s\nscript=%s", msg, jsonOf(where))
			} else if r.w.nfs != nil {
				rec.Label("handle_pool_empty_after_teardown")
			}
		}
		diag(r, []any{header, steps})

		labels := []string{"fault_free_run"}
		for _, m := range sc.malforms {
			labels = append(labels, "malformed:"+m.Kind)
		}
		if len(sc.malforms) == 0 && !collisions {
			labels = append(labels, "well_formed")
		}
		if collisions {
			labels = append(labels, "malformed:case_collision_on_case_insensitive_mount")
		}
		if sc.cfg.CaseInsensitive {
			labels = append(labels, "case_insensitive")
		}
		if r.badAccess > 0 {
			labels = append(labels, "persistent_error_reported")
		}
		if r.repaired {
			labels = append(labels, "repaired")
		}
		badNonRoot := false
		for t := range r.badTmpl {
			if t != sc.spec.root() {
				badNonRoot = true
			}
		}
		rec.Case([]any{header, steps}, r.badAccess > 0 && (badNonRoot || len(r.badContent) > 0), labels...)

		// Fault enumeration: every read of the fault-free run, every kind.
		for k := 0; k < nCalls; k++ {
			what := describeCall(c, r.mat, k)
			for _, kind := range enumeratedFaults {
				if kind == faultShortObject && what != "file_read" {
					continue // only file blobs are read piecewise
				}
				fh := faultHeader{Op: "fault", Call: k, Kind: faultKindNames[kind], What: what}
				fr, fc, err := sc.build(map[int]faultKind{k: kind})
				if err != nil {
					rt.Fatalf("setup failed: %v; script=%s", err, jsonOf(header))
				}
				for i, orig := range steps {
					st := *orig
					st.Res = ""
					fc.resetFired()
					if err := fr.run(&st); err != nil {
						rt.Fatalf("with %+v, step %d: %v\nscript=%s", fh, i, err, jsonOf([]any{header, fh, steps}))
					}
					if st.Op != "walk" && st.Op != "repair" {
						if err := fr.run(&step{Op: "walkloaded"}); err != nil {
							rt.Fatalf("with %+v, after step %d: %v\nscript=%s", fh, i, err, jsonOf([]any{header, fh, steps}))
						}
					}
				}
				if fc.callCount() <= k {
					rt.Fatalf("harness bug: replay with %+v made only %d CAS reads; script=%s", fh, fc.callCount(), jsonOf([]any{header, fh, steps}))
				}
				diag(fr, []any{header, fh, steps})
				fl := []string{"fault:" + fh.Kind, "fault_at:" + what}
				if fr.retriedOK > 0 {
					fl = append(fl, "retry_succeeded")
				}
				if fr.retriedOK == 0 {
					fl = append(fl, "retry_hit_persistent_error")
				}
				rec.Case([]any{header, fh, steps}, fr.retriedOK > 0 && what != "root_directory_fetch", fl...)
			}
		}
	})
}

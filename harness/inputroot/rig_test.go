package inputroot

import (
	"errors"
	"fmt"
	"sort"
	"strings"
	"syscall"

	"github.com/buildbarn/bb-remote-execution/pkg/builder"
	"github.com/buildbarn/bb-remote-execution/pkg/filesystem/virtual"
	"github.com/buildbarn/bb-storage/pkg/filesystem"
	"github.com/buildbarn/bb-storage/pkg/filesystem/path"
)

// ---------------------------------------------------------------------
// Reference model: a plain mutable tree. Directories that come from the
// DAG are expanded lazily from their (immutable) template, so every
// occurrence of a shared template is its own copy by construction.

type mnode struct {
	name     string // name as stored in the parent (display case)
	kind     string
	exec     bool
	data     []byte
	cas      bool // CAS-backed (immutable) regular file
	content  int  // content index of a CAS-backed file
	target   string
	tmpl     int  // template of a directory that came from the DAG, else -1
	expanded bool // model children materialised (lazy evaluation of the template; may run ahead of the real tree)
	visited  bool // an executed step needed the contents, so the real directory has been asked to load them
	children map[string]*mnode
	occ1     int // 1 + template this directory is an expanded occurrence of (0 = none); statistics only
}

// names returns the display names of the children, sorted.
func (n *mnode) names() []string {
	out := make([]string, 0, len(n.children))
	for _, c := range n.children {
		out = append(out, c.name)
	}
	sort.Strings(out)
	return out
}

// The children map is keyed by the normalized name: the name itself on a
// case sensitive file system, its lower case form on a case insensitive
// one (virtual.CaseInsensitiveComponentNormalizer).
func (r *rig) norm(name string) string {
	if r.w != nil && r.w.cfg.CaseInsensitive {
		return strings.ToLower(name)
	}
	return name
}

func (r *rig) get(d *mnode, name string) *mnode { return d.children[r.norm(name)] }

func (r *rig) put(d *mnode, name string, n *mnode) {
	n.name = name
	d.children[r.norm(name)] = n
}

func (r *rig) del(d *mnode, name string) { delete(d.children, r.norm(name)) }

// identity of an immutable leaf: two leaves with the same identity may be
// one object in the real tree (stateless handles are deduplicated).
func (n *mnode) immutableIdentity() (string, bool) {
	switch {
	case n.kind == kindSymlink:
		return "symlink:" + n.target, true
	case n.kind == kindFile && n.cas:
		return fmt.Sprintf("cas:%v:%q", n.exec, n.data), true
	}
	return "", false
}

// A step is one concrete executed operation. Paths are relative to the top
// directory of the virtual file system.
type step struct {
	Op     string   `json:"op"`
	Path   []string `json:"p,omitempty"`
	Name   string   `json:"n,omitempty"`
	Path2  []string `json:"p2,omitempty"`
	Name2  string   `json:"n2,omitempty"`
	BD     bool     `json:"bd,omitempty"`   // through the builder.BuildDirectory / PrepopulatedDirectory API
	Mask   int      `json:"mask,omitempty"` // which attributes are requested
	Off    int      `json:"off,omitempty"`
	Len    int      `json:"len,omitempty"`
	Data   string   `json:"data,omitempty"`
	Exec   bool     `json:"x,omitempty"`
	Target string   `json:"t,omitempty"`
	Flags  int      `json:"f,omitempty"`
	Res    string   `json:"res,omitempty"`
}

type outcome struct {
	code   string
	detail string
}

func (o outcome) String() string {
	if o.detail == "" {
		return o.code
	}
	return o.code + " " + o.detail
}

type rig struct {
	w    *world
	mat  *materialized
	spec *dagSpec
	root *mnode

	// Templates whose Directory message cannot be obtained or is
	// malformed: every access to the contents of an occurrence must fail.
	badTmpl map[int]string
	// File contents whose blob is missing or corrupted.
	badContent map[int]string
	// Templates with two names differing only by case, on a case
	// insensitive mount: inaccessible whatever is stored in the CAS.
	caseBad map[int]bool

	marking  bool // true while predict() runs for an executed step
	repairFn func() ([]int, []int)
	merged   map[int]bool // action -> input root merged successfully
	repaired bool
	// MergeDirectoryContents calls that failed with EEXIST. The pinned code
	// does not return the link counts of the root directory's leaves in that
	// case (observation 1; proposed repair in proposed-fixes/0002-*.diff), which the handle diagnostic
	// would report over and over.
	mergeCollisions int

	// Coverage facts.
	badAccess     int         // answers that had to be (and were) a persistent I/O error
	occExpanded   map[int]int // template -> occurrences whose contents an executed step asked for
	mods          int         // successful local modifications
	modsInShared  int         // ... inside an occurrence of a template that occurs more than once
	refused       int         // refused mutation attempts on CAS-backed files
	refusedBy     map[string]int
	casEntryEdits int // local remove/replace/move of an entry that came from the input root
	ioSeen        int // operations that reported an I/O error
	retriedOK     int // faulted operations that succeeded when retried
	ambiguous     int // renames between two identical immutable leaves
}

func newRig(w *world, mat *materialized) *rig {
	return &rig{
		w: w, mat: mat, spec: mat.spec,
		root:        &mnode{kind: kindDir, tmpl: -1, expanded: true, visited: true, children: map[string]*mnode{}},
		badTmpl:     map[int]string{},
		badContent:  map[int]string{},
		caseBad:     map[int]bool{},
		occExpanded: map[int]int{},
		merged:      map[int]bool{},
		refusedBy:   map[string]int{},
		repairFn:    func() ([]int, []int) { return nil, nil },
	}
}

// handleLeakDiagnostic removes everything below the top directory and then
// asks the NFS handle pool (read-only verif hook) what it still tracks. Leaf
// handles that survive are leaves whose link count was not returned, e.g.
// leaves created by a directory load that failed half way, which
// fetchContentsUnwrapped documents it unlinks. Callers treat a non-empty
// answer as a violation, unless a MergeDirectoryContents failed because of
// existing names (r.mergeCollisions; see there).
func (r *rig) handleLeakDiagnostic() string {
	if r.w.nfs == nil {
		return ""
	}
	if err := r.w.top.RemoveAllChildren(false); err != nil {
		return "RemoveAllChildren failed: " + err.Error()
	}
	dirs, stateful, stateless := r.w.nfs.VerifNFSHandlePoolCounts()
	if dirs != 1 || stateful != 0 || stateless != 0 {
		return fmt.Sprintf("after removing the whole tree the NFS handle pool still tracks %d directories (want 1, the top), %d stateful and %d stateless leaves (want 0)", dirs, stateful, stateless)
	}
	return ""
}

func (r *rig) contentsBad(n *mnode) bool {
	return n.kind == kindDir && !n.expanded && n.tmpl >= 0 && r.badTmpl[n.tmpl] != ""
}

func (r *rig) nodeFromEntry(e entrySpec) *mnode {
	switch e.Kind {
	case kindDir:
		return &mnode{kind: kindDir, tmpl: e.Child}
	case kindFile:
		return &mnode{kind: kindFile, exec: e.Exec, cas: true, content: e.Content, data: []byte(r.spec.Contents[e.Content])}
	default:
		return &mnode{kind: kindSymlink, target: normTarget(e.Target)}
	}
}

func (r *rig) expand(n *mnode) {
	if n.kind != kindDir || n.expanded {
		return
	}
	if r.contentsBad(n) {
		panic("harness bug: expanding a directory whose contents are inaccessible")
	}
	n.expanded = true
	n.children = map[string]*mnode{}
	if n.tmpl >= 0 {
		n.occ1 = n.tmpl + 1
		for _, e := range r.spec.Dirs[n.tmpl].Entries {
			r.put(n, e.Name, r.nodeFromEntry(e))
		}
	}
}

// touch expands a directory and, while a step is being judged (as opposed
// to generated), records that the real tree was asked for its contents.
func (r *rig) touch(n *mnode) {
	r.expand(n)
	if r.marking && n.kind == kindDir && !n.visited {
		n.visited = true
		if n.tmpl >= 0 {
			r.occExpanded[n.tmpl]++
		}
	}
}

// modelDir walks the model along p. ok=false means that the contents of a
// directory on the way (or of the final directory) are inaccessible, so
// the real operation is expected to fail with an I/O error.
func (r *rig) modelDir(p []string) (*mnode, bool) {
	cur := r.root
	for _, name := range p {
		if r.contentsBad(cur) {
			return nil, false
		}
		r.touch(cur)
		next := r.get(cur, name)
		if next == nil || next.kind != kindDir {
			panic(fmt.Sprintf("harness bug: model has no directory %q on path %v", name, p))
		}
		cur = next
	}
	if r.contentsBad(cur) {
		return nil, false
	}
	r.touch(cur)
	return cur, true
}

// inShared says whether the directory at p lies inside (or is) an
// occurrence of a template that has been expanded in more than one place.
func (r *rig) inShared(p []string) bool {
	cur := r.root
	for _, name := range p {
		cur = r.get(cur, name)
		if cur == nil {
			return false
		}
		if cur.occ1 > 0 && r.occExpanded[cur.occ1-1] >= 2 {
			return true
		}
	}
	return false
}

// ---------------------------------------------------------------------
// Rendering of nodes, identical for model and real side.

func renderFull(kind string, exec bool, size int, target string) string {
	switch kind {
	case kindDir:
		return "dir"
	case kindSymlink:
		return "symlink->" + target
	default:
		return fmt.Sprintf("file x=%v size=%d", exec, size)
	}
}

func renderInfo(kind string, exec bool) string {
	switch kind {
	case kindDir:
		return "dir"
	case kindSymlink:
		return "symlink"
	default:
		return fmt.Sprintf("file x=%v", exec)
	}
}

func (n *mnode) renderFull() string { return renderFull(n.kind, n.exec, len(n.data), n.target) }
func (n *mnode) renderInfo() string { return renderInfo(n.kind, n.exec) }

func parserString(p path.Parser) string {
	b, sw := path.EmptyBuilder.Join(path.VoidScopeWalker)
	if err := path.Resolve(p, sw); err != nil {
		return "!unresolvable:" + err.Error()
	}
	return b.GetUNIXString()
}

var maskVariants = []virtual.AttributesMask{
	virtual.AttributesMaskFileType | virtual.AttributesMaskPermissions | virtual.AttributesMaskSizeBytes | virtual.AttributesMaskSymlinkTarget,
	virtual.AttributesMaskFileType | virtual.AttributesMaskPermissions | virtual.AttributesMaskSizeBytes | virtual.AttributesMaskSymlinkTarget |
		virtual.AttributesMaskInodeNumber | virtual.AttributesMaskLinkCount | virtual.AttributesMaskChangeID | virtual.AttributesMaskLastDataModificationTime |
		virtual.AttributesMaskOwnerUserID | virtual.AttributesMaskOwnerGroupID | virtual.AttributesMaskFileHandle | virtual.AttributesMaskHasNamedAttributes,
}

func renderAttributes(a *virtual.Attributes) string {
	switch t := a.GetFileType(); t {
	case filesystem.FileTypeDirectory:
		return "dir"
	case filesystem.FileTypeSymlink:
		target, ok := a.GetSymlinkTarget()
		if !ok {
			return "symlink->!absent"
		}
		return "symlink->" + parserString(target)
	case filesystem.FileTypeRegularFile:
		perm, ok := a.GetPermissions()
		if !ok {
			return "file !nopermissions"
		}
		size, ok := a.GetSizeBytes()
		if !ok {
			return "file !nosize"
		}
		if perm&virtual.PermissionsRead == 0 {
			return "file !unreadable"
		}
		return fmt.Sprintf("file x=%v size=%d", perm&virtual.PermissionsExecute != 0, size)
	default:
		return fmt.Sprintf("!filetype(%d)", t)
	}
}

func renderFileInfo(fi filesystem.FileInfo) string {
	switch t := fi.Type(); t {
	case filesystem.FileTypeDirectory:
		return "dir"
	case filesystem.FileTypeSymlink:
		return "symlink"
	case filesystem.FileTypeRegularFile:
		return fmt.Sprintf("file x=%v", fi.IsExecutable())
	default:
		return fmt.Sprintf("!filetype(%d)", t)
	}
}

// ---------------------------------------------------------------------
// Classification of results.

var statusNames = map[virtual.Status]string{
	virtual.StatusOK:           "ok",
	virtual.StatusErrAccess:    "access",
	virtual.StatusErrExist:     "exist",
	virtual.StatusErrInval:     "inval",
	virtual.StatusErrIO:        "io",
	virtual.StatusErrIsDir:     "isdir",
	virtual.StatusErrNoEnt:     "noent",
	virtual.StatusErrNotDir:    "notdir",
	virtual.StatusErrNotEmpty:  "notempty",
	virtual.StatusErrPerm:      "perm",
	virtual.StatusErrSymlink:   "symlink",
	virtual.StatusErrStale:     "stale",
	virtual.StatusErrXDev:      "xdev",
	virtual.StatusErrROFS:      "rofs",
	virtual.StatusErrWrongType: "wrongtype",
}

func statusCode(s virtual.Status) string {
	if n, ok := statusNames[s]; ok {
		return n
	}
	return fmt.Sprintf("status(%d)", int(s))
}

// errCode maps errors of the BuildDirectory / PrepopulatedDirectory API:
// errno values are answers, anything else is an I/O-like failure.
func errCode(err error) string {
	var errno syscall.Errno
	switch {
	case err == nil:
		return "ok"
	case errors.As(err, &errno):
		switch errno {
		case syscall.ENOENT:
			return "noent"
		case syscall.EEXIST:
			return "exist"
		case syscall.ENOTEMPTY:
			return "notempty"
		case syscall.ENOTDIR:
			return "notdir"
		case syscall.EISDIR:
			return "isdir"
		case syscall.EINVAL:
			return "inval"
		}
		return "errno(" + errno.Error() + ")"
	}
	return "io"
}

func comp(name string) path.Component { return path.MustNewComponent(name) }

// ---------------------------------------------------------------------
// Real-side navigation.

func (r *rig) realDir(p []string) (virtual.Directory, string) {
	var cur virtual.Directory = r.w.top
	for _, name := range p {
		var attrs virtual.Attributes
		child, s := cur.VirtualLookup(r.w.ctx, comp(name), virtual.AttributesMaskFileType, &attrs)
		if s != virtual.StatusOK {
			return nil, statusCode(s)
		}
		d, _ := child.GetPair()
		if d == nil {
			return nil, "notdir"
		}
		cur = d
	}
	return cur, "ok"
}

func (r *rig) realBD(p []string) (builder.BuildDirectory, string) {
	cur := r.w.topBD
	for _, name := range p {
		next, err := cur.EnterBuildDirectory(comp(name))
		if err != nil {
			return nil, errCode(err)
		}
		cur = next
	}
	return cur, "ok"
}

// realPD walks with PrepopulatedDirectory.LookupChild.
func (r *rig) realPD(p []string) (virtual.PrepopulatedDirectory, string) {
	cur := r.w.top
	for _, name := range p {
		child, err := cur.LookupChild(comp(name))
		if err != nil {
			return nil, errCode(err)
		}
		d, _ := child.GetPair()
		if d == nil {
			return nil, "notdir"
		}
		cur = d
	}
	return cur, "ok"
}

// navFailure converts a navigation failure into an outcome: I/O errors
// stay I/O errors, anything else means the real tree lacks a directory
// the model has.
func navFailure(code string, p []string) outcome {
	if code == "io" {
		return outcome{code: "io"}
	}
	return outcome{code: "nav-" + code, detail: strings.Join(p, "/")}
}

type collector struct {
	limit   int
	entries []collected
	next    uint64
}

type collected struct {
	name  string
	child virtual.DirectoryChild
	attrs virtual.Attributes
}

func (c *collector) ReportEntry(nextCookie uint64, name path.Component, child virtual.DirectoryChild, attributes *virtual.Attributes) bool {
	if c.limit > 0 && len(c.entries) >= c.limit {
		return false
	}
	c.entries = append(c.entries, collected{name: name.String(), child: child, attrs: *attributes})
	c.next = nextCookie
	return true
}

// readDirAll lists a directory through VirtualReadDir in chunks of `chunk`
// entries (0 = everything in one call), resuming from the last cookie.
func (r *rig) readDirAll(d virtual.Directory, mask virtual.AttributesMask, chunk int) ([]collected, string) {
	var all []collected
	cookie := uint64(0)
	for iter := 0; ; iter++ {
		c := &collector{limit: chunk}
		if s := d.VirtualReadDir(r.w.ctx, cookie, mask, c); s != virtual.StatusOK {
			return nil, statusCode(s)
		}
		all = append(all, c.entries...)
		if chunk == 0 || len(c.entries) == 0 {
			return all, "ok"
		}
		cookie = c.next
		if iter > 1000 {
			return nil, "readdir-never-ends"
		}
	}
}

func renderListing(items map[string]string) string {
	names := make([]string, 0, len(items))
	for k := range items {
		names = append(names, k)
	}
	sort.Strings(names)
	var sb strings.Builder
	for _, n := range names {
		fmt.Fprintf(&sb, "[%q %s]", n, items[n])
	}
	return sb.String()
}

// readWhole reads a leaf completely through open/read/close.
func (r *rig) readWhole(d virtual.Directory, name string, size int) (string, string) {
	var attrs virtual.Attributes
	leaf, _, _, s := d.VirtualOpenChild(r.w.ctx, comp(name), virtual.ShareMaskRead, nil, &virtual.OpenExistingOptions{}, virtual.AttributesMaskSizeBytes, &attrs)
	if s != virtual.StatusOK {
		return "", statusCode(s)
	}
	defer leaf.VirtualClose(virtual.ShareMaskRead)
	buf := staleBuffer(size + 3)
	n, eof, s := leaf.VirtualRead(r.w.ctx, buf, 0)
	if s != virtual.StatusOK {
		return "", statusCode(s)
	}
	return fmt.Sprintf("%q eof=%v", buf[:n], eof), "ok"
}

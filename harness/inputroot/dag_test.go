package inputroot

import (
	"fmt"
	"sort"
	"strings"

	remoteexecution "github.com/bazelbuild/remote-apis/build/bazel/remote/execution/v2"
	"github.com/buildbarn/bb-storage/pkg/digest"
	"google.golang.org/protobuf/proto"
	"pgregory.net/rapid"
)

// A generated input root: a DAG of directory templates. Templates are
// numbered in creation order; a template only refers to templates with a
// smaller index, so the graph is acyclic and the last template is the root.

const (
	kindFile    = "file"
	kindDir     = "dir"
	kindSymlink = "symlink"
)

type entrySpec struct {
	Name    string `json:"n"`
	Kind    string `json:"k"`
	Exec    bool   `json:"x,omitempty"`
	Content int    `json:"c,omitempty"` // index into dagSpec.Contents
	Target  string `json:"t,omitempty"`
	Child   int    `json:"d,omitempty"` // template index
}

type dirSpec struct {
	Entries []entrySpec `json:"e"`
	Height  int         `json:"h"`
}

type dagSpec struct {
	Contents []string  `json:"contents"`
	Dirs     []dirSpec `json:"dirs"`
}

func (g *dagSpec) root() int { return len(g.Dirs) - 1 }

var nameAlphabet = []string{"a", "b", "c", "d", "e", "A", "x.y", "lnk", "-", "f g"}

// Symlink targets that are already in the canonical form produced by
// path.Builder.GetUNIXString(), so that they can be compared as strings.
var symlinkTargets = []string{"a", "b/c", "../a", "..", ".", "/abs/x", "../../e", "a/../b"}

// Targets that REv2 allows (any UTF-8 string without NUL: relative or
// absolute, ".." anywhere) but that are not in canonical form, or are
// unusual: the virtual file system keeps symlink targets as parsed paths,
// so what comes back is compared after normTarget (below), which keeps the
// meaning of the path under POSIX pathname resolution. Lengths stay well
// below PATH_MAX, so that naiveBuildDirectory can create them on disk.
var wideSymlinkTargets = []string{
	"/", "//abs//x", "/..", "/../x", "/a/../..", "a/", "a/.", "./a", "a//b", "../", "../..", "a/b/../../..", "x/./y/", "./", "./.", ".//.", "a/..", "a/../",
	"...", "..a", "a..", ".hidden", "-", "a\\b", "sp ace/\ttab", "\u00fcn\u00ef/\u00e7o\u2202\u00e9", "\U0001F600/x", "a\nb",
	strings.Repeat("d/", 150) + "f", strings.Repeat("L", 255), strings.Repeat("M", 700), strings.Repeat("../", 100) + "up", "/" + strings.Repeat("p/", 120),
}

var targetComponents = []string{"a", "b", "c", "..", "..", ".", "", "x.y", "\u00e9", "lnk"}

// drawSymlinkTarget: canonical targets, the wide list, or a composition
// of components (with empty, "." and ".." components, optionally absolute,
// optionally with a trailing slash).
func drawSymlinkTarget(rt *rapid.T) string {
	switch rapid.IntRange(0, 3).Draw(rt, "targetClass") {
	case 0, 1:
		return rapid.SampledFrom(symlinkTargets).Draw(rt, "target")
	case 2:
		return rapid.SampledFrom(wideSymlinkTargets).Draw(rt, "wideTarget")
	}
	n := rapid.IntRange(1, 6).Draw(rt, "targetComponents")
	parts := make([]string, n)
	for i := range parts {
		parts[i] = rapid.SampledFrom(targetComponents).Draw(rt, "targetComponent")
	}
	t := strings.Join(parts, "/")
	if rapid.IntRange(0, 3).Draw(rt, "absoluteTarget") == 0 {
		t = "/" + t
	}
	if rapid.IntRange(0, 3).Draw(rt, "trailingSlash") == 0 {
		t += "/"
	}
	return t
}

// normTarget is the harness's own normal form of a UNIX symlink target:
// empty and "." components are dropped, ".." components are kept (a
// preceding component may be a symlink) except directly below the root, a
// trailing slash (or trailing "." component) is kept as a trailing slash
// because it requires the last component to be a directory, and nothing
// is left of a relative path becomes ".". Two targets with the same
// normal form resolve identically under POSIX. It is written
// independently of bb-storage's path.Builder and is idempotent; for the
// canonical targets above it is the identity.
func normTarget(t string) string {
	absolute := strings.HasPrefix(t, "/")
	parts := strings.Split(t, "/")
	var comps []string
	suffix := ""
	for i, p := range parts {
		switch p {
		case "", ".":
			// Nothing: the component before it (if any) was
			// followed by a slash and is a directory already.
		case "..":
			if absolute && len(comps) == 0 {
				continue // "/.." is "/"
			}
			comps = append(comps, p)
			suffix = ""
		default:
			comps = append(comps, p)
			if i == len(parts)-1 {
				suffix = ""
			} else {
				suffix = "/"
			}
		}
	}
	switch {
	case len(comps) == 0 && absolute:
		return "/"
	case len(comps) == 0:
		return "."
	case absolute:
		return "/" + strings.Join(comps, "/") + suffix
	}
	return strings.Join(comps, "/") + suffix
}

func drawContents(rt *rapid.T) []string {
	n := rapid.IntRange(1, 4).Draw(rt, "nContents")
	out := make([]string, n)
	for i := range out {
		l := rapid.OneOf(rapid.IntRange(0, 12), rapid.Just(0), rapid.IntRange(13, 70)).Draw(rt, "contentLen")
		b := make([]byte, l)
		for j := range b {
			// Distinct contents get distinct bytes; position dependent so
			// that reads at a wrong offset are visible.
			b[j] = byte('A' + (i*7+j*3)%26)
		}
		if l > 0 && rapid.Bool().Draw(rt, "binary") {
			b[l/2] = byte(rapid.IntRange(0, 255).Draw(rt, "byte"))
		}
		out[i] = string(b)
	}
	return out
}

// drawDAG generates a well-formed DAG. maxHeight is the height of the root
// (0 = no subdirectories); depth of the expanded tree is maxHeight+1 <= 5.
func drawDAG(rt *rapid.T) *dagSpec {
	g := &dagSpec{Contents: drawContents(rt)}
	maxHeight := rapid.IntRange(0, 4).Draw(rt, "height")
	for h := 0; h <= maxHeight; h++ {
		// One to three templates per level, exactly one at the top.
		n := 1
		if h < maxHeight {
			n = rapid.IntRange(1, 3).Draw(rt, "templatesAtLevel")
		}
		lower := len(g.Dirs) // templates with height < h
		for t := 0; t < n; t++ {
			g.Dirs = append(g.Dirs, drawDir(rt, g, h, lower))
		}
	}
	return g
}

func drawDir(rt *rapid.T, g *dagSpec, h, lower int) dirSpec {
	names := append([]string(nil), nameAlphabet...)
	// Deterministic partial shuffle driven by rapid.
	take := func() string {
		i := rapid.IntRange(0, len(names)-1).Draw(rt, "nameIdx")
		n := names[i]
		names = append(names[:i], names[i+1:]...)
		return n
	}
	d := dirSpec{Height: h}
	nDirs := 0
	if h > 0 {
		nDirs = rapid.IntRange(1, 3).Draw(rt, "nSubdirs")
	}
	var lastChild = -1
	for i := 0; i < nDirs; i++ {
		var child int
		switch {
		case i == 0:
			// Guarantee the stated height: refer to a template of height h-1.
			cands := []int{}
			for t := 0; t < lower; t++ {
				if g.Dirs[t].Height == h-1 {
					cands = append(cands, t)
				}
			}
			child = rapid.SampledFrom(cands).Draw(rt, "child")
		case rapid.IntRange(0, 2).Draw(rt, "shareSame") > 0:
			// Same subtree under a second name: sharing within one parent.
			child = lastChild
		default:
			child = rapid.IntRange(0, lower-1).Draw(rt, "child")
		}
		lastChild = child
		d.Entries = append(d.Entries, entrySpec{Name: take(), Kind: kindDir, Child: child})
	}
	nFiles := rapid.IntRange(0, 3).Draw(rt, "nFiles")
	for i := 0; i < nFiles; i++ {
		d.Entries = append(d.Entries, entrySpec{
			Name:    take(),
			Kind:    kindFile,
			Exec:    rapid.Bool().Draw(rt, "exec"),
			Content: rapid.IntRange(0, len(g.Contents)-1).Draw(rt, "content"),
		})
	}
	nLinks := rapid.IntRange(0, 2).Draw(rt, "nSymlinks")
	for i := 0; i < nLinks; i++ {
		d.Entries = append(d.Entries, entrySpec{Name: take(), Kind: kindSymlink, Target: drawSymlinkTarget(rt)})
	}
	return d
}

// caseCollision reports whether two entries of the directory have names
// that differ only by case.
func (d *dirSpec) caseCollision() bool {
	seen := map[string]bool{}
	for _, e := range d.Entries {
		l := strings.ToLower(e.Name)
		if seen[l] {
			return true
		}
		seen[l] = true
	}
	return false
}

// decollide renames entries so that no two names of one directory differ
// only by case; it returns how many entries it renamed.
func (g *dagSpec) decollide() int {
	renamed := 0
	for t := range g.Dirs {
		seen := map[string]bool{}
		for i := range g.Dirs[t].Entries {
			e := &g.Dirs[t].Entries[i]
			for seen[strings.ToLower(e.Name)] {
				e.Name += "2"
				renamed++
			}
			seen[strings.ToLower(e.Name)] = true
		}
	}
	return renamed
}

// sharedTemplates returns, per template, in how many places of the
// expanded tree below the root it occurs.
func (g *dagSpec) occurrences() []int {
	occ := make([]int, len(g.Dirs))
	var walk func(t int)
	walk = func(t int) {
		occ[t]++
		for _, e := range g.Dirs[t].Entries {
			if e.Kind == kindDir {
				walk(e.Child)
			}
		}
	}
	walk(g.root())
	return occ
}

// materialized is a DAG stored in a fake CAS.
type materialized struct {
	spec       *dagSpec
	dirDigests []digest.Digest
	dirBytes   [][]byte
	fileDigest []digest.Digest
	// Keys whose blob is missing or corrupted in the CAS.
	badKeys map[string]bool
}

// encodeDir builds the REv2 Directory message of a template, children
// sorted by name as REv2 requires.
func encodeDir(g *dagSpec, d dirSpec, dirDigests []digest.Digest, fileDigests []digest.Digest) *remoteexecution.Directory {
	entries := append([]entrySpec(nil), d.Entries...)
	sort.SliceStable(entries, func(i, j int) bool { return entries[i].Name < entries[j].Name })
	m := &remoteexecution.Directory{}
	for _, e := range entries {
		switch e.Kind {
		case kindDir:
			m.Directories = append(m.Directories, &remoteexecution.DirectoryNode{Name: e.Name, Digest: dirDigests[e.Child].GetProto()})
		case kindFile:
			m.Files = append(m.Files, &remoteexecution.FileNode{Name: e.Name, Digest: fileDigests[e.Content].GetProto(), IsExecutable: e.Exec})
		case kindSymlink:
			m.Symlinks = append(m.Symlinks, &remoteexecution.SymlinkNode{Name: e.Name, Target: e.Target})
		}
	}
	return m
}

func mustMarshal(m proto.Message) []byte {
	b, err := proto.MarshalOptions{Deterministic: true}.Marshal(m)
	if err != nil {
		panic(fmt.Sprintf("marshal: %v", err))
	}
	return b
}

// materialize stores all file blobs and Directory messages of the DAG in
// the CAS and returns their digests.
func materialize(c *fakeCAS, g *dagSpec) *materialized {
	m := &materialized{spec: g}
	for _, content := range g.Contents {
		m.fileDigest = append(m.fileDigest, c.store([]byte(content)))
		c.fileKeys[casKey(m.fileDigest[len(m.fileDigest)-1])] = len(content) > 0
	}
	for _, d := range g.Dirs {
		b := mustMarshal(encodeDir(g, d, m.dirDigests, m.fileDigest))
		m.dirBytes = append(m.dirBytes, b)
		m.dirDigests = append(m.dirDigests, c.store(b))
	}
	return m
}

func (m *materialized) rootDigest() digest.Digest { return m.dirDigests[m.spec.root()] }

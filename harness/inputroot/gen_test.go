package inputroot

import (
	"fmt"

	"pgregory.net/rapid"
)

// stepGen draws the next step from the current state of the model. All
// randomness comes from rapid.
type stepGen struct {
	r *rig
	// profile weights what is drawn.
	immutability bool // bias towards mutation attempts on CAS-backed files
	// Directories (paths from the top) that two out of three steps are
	// aimed at, e.g. a malformed directory and its parent. A path is cut
	// where the model no longer has a directory of that name.
	focus [][]string
}

// validPrefix returns the longest prefix of p along which the model has
// accessible directories (the last one may be inaccessible itself).
func (g *stepGen) validPrefix(p []string) []string {
	cur := g.r.root
	for i, name := range p {
		if g.r.contentsBad(cur) {
			return p[:i]
		}
		g.r.touch(cur)
		next := g.r.get(cur, name)
		if next == nil || next.kind != kindDir {
			return p[:i]
		}
		cur = next
	}
	return p
}

// pickDir does a random descent from one of the action roots and returns
// the path of the directory it ends in. Directories on the way are
// expanded in the model (the real lookups of the step will load the same
// ones). It may end in a directory whose contents are inaccessible.
func (g *stepGen) pickDir(rt *rapid.T, label string) []string {
	r := g.r
	if len(g.focus) > 0 && rapid.IntRange(0, 2).Draw(rt, label+"Focus") > 0 {
		return append([]string(nil), g.validPrefix(rapid.SampledFrom(g.focus).Draw(rt, label+"FocusPath"))...)
	}
	a := rapid.IntRange(0, len(r.w.actionPath)-1).Draw(rt, label+"Action")
	p := append([]string(nil), r.w.actionPath[a]...)
	for depth := 0; depth < 6; depth++ {
		cur, ok := r.modelDir(p)
		if !ok {
			return p
		}
		var dirs []string
		for _, name := range cur.names() {
			if g.r.get(cur, name).kind == kindDir {
				dirs = append(dirs, name)
			}
		}
		if len(dirs) == 0 || rapid.IntRange(0, 3).Draw(rt, label+"Stop") == 0 {
			return p
		}
		p = append(p, rapid.SampledFrom(dirs).Draw(rt, label+"Child"))
	}
	return p
}

func (g *stepGen) namesOf(p []string, pred func(*mnode) bool) []string {
	d, ok := g.r.modelDir(p)
	if !ok {
		return nil
	}
	var out []string
	for _, name := range d.names() {
		if pred(g.r.get(d, name)) {
			out = append(out, name)
		}
	}
	return out
}

var freshNames = []string{"new", "out.o", "a", "b", "c", "d", "e", "tmp"}

func (g *stepGen) absentName(rt *rapid.T, p []string) string {
	d, ok := g.r.modelDir(p)
	var cands []string
	for _, n := range freshNames {
		if !ok || g.r.get(d, n) == nil {
			cands = append(cands, n)
		}
	}
	if len(cands) == 0 {
		return "zz"
	}
	return rapid.SampledFrom(cands).Draw(rt, "absentName")
}

// anyName: mostly an existing name, sometimes an absent one.
func (g *stepGen) anyName(rt *rapid.T, p []string, pred func(*mnode) bool) string {
	names := g.namesOf(p, pred)
	if len(names) == 0 || rapid.IntRange(0, 5).Draw(rt, "useAbsent") == 0 {
		return g.absentName(rt, p)
	}
	return rapid.SampledFrom(names).Draw(rt, "name")
}

func isAny(*mnode) bool       { return true }
func isFile(n *mnode) bool    { return n.kind == kindFile }
func isCASFile(n *mnode) bool { return n.kind == kindFile && n.cas }
func isLocalFile(n *mnode) bool {
	return n.kind == kindFile && !n.cas
}
func isLeaf(n *mnode) bool { return n.kind != kindDir }
func isImmutableLeaf(n *mnode) bool {
	_, ok := n.immutableIdentity()
	return ok
}

func drawData(rt *rapid.T) string {
	n := rapid.IntRange(0, 10).Draw(rt, "dataLen")
	b := make([]byte, n)
	for i := range b {
		b[i] = byte('a' + rapid.IntRange(0, 25).Draw(rt, "dataByte"))
	}
	return string(b)
}

// observation steps --------------------------------------------------

func (g *stepGen) lookup(rt *rapid.T) *step {
	p := g.pickDir(rt, "dir")
	return &step{Op: "lookup", Path: p, Name: g.anyName(rt, p, isAny), BD: rapid.Bool().Draw(rt, "bd"), Mask: rapid.IntRange(0, 1).Draw(rt, "mask")}
}

func (g *stepGen) readdir(rt *rapid.T) *step {
	st := &step{Op: "readdir", Path: g.pickDir(rt, "dir"), BD: rapid.Bool().Draw(rt, "bd"), Mask: rapid.IntRange(0, 1).Draw(rt, "mask")}
	if st.BD {
		st.Flags = rapid.IntRange(0, 1).Draw(rt, "lookupAllChildren")
	} else {
		st.Len = rapid.IntRange(0, 3).Draw(rt, "chunk")
	}
	return st
}

func (g *stepGen) read(rt *rapid.T) *step {
	p := g.pickDir(rt, "dir")
	st := &step{Op: "read", Path: p, Name: g.anyName(rt, p, isFile), Mask: rapid.IntRange(0, 1).Draw(rt, "mask")}
	st.Off = rapid.OneOf(rapid.Just(0), rapid.IntRange(0, 80)).Draw(rt, "off")
	st.Len = rapid.OneOf(rapid.IntRange(0, 16), rapid.Just(100)).Draw(rt, "len")
	return st
}

func (g *stepGen) upload(rt *rapid.T) *step {
	p := g.pickDir(rt, "dir")
	names := g.namesOf(p, isFile)
	if len(names) == 0 {
		return nil
	}
	return &step{Op: "upload", Path: p, Name: rapid.SampledFrom(names).Draw(rt, "name"), BD: true}
}

func (g *stepGen) readlink(rt *rapid.T) *step {
	p := g.pickDir(rt, "dir")
	return &step{Op: "readlink", Path: p, Name: g.anyName(rt, p, func(n *mnode) bool { return n.kind == kindSymlink }), BD: true}
}

// local modifications --------------------------------------------------

func (g *stepGen) create(rt *rapid.T) *step {
	p := g.pickDir(rt, "dir")
	name := g.absentName(rt, p)
	if rapid.IntRange(0, 4).Draw(rt, "existing") == 0 {
		name = g.anyName(rt, p, isAny)
	}
	return &step{Op: "create", Path: p, Name: name, Exec: rapid.Bool().Draw(rt, "exec"), Data: drawData(rt)}
}

func (g *stepGen) write(rt *rapid.T) *step {
	p := g.pickDir(rt, "dir")
	names := g.namesOf(p, isLocalFile)
	if len(names) == 0 {
		return nil
	}
	return &step{Op: "write", Path: p, Name: rapid.SampledFrom(names).Draw(rt, "name"), Off: rapid.IntRange(0, 12).Draw(rt, "off"), Data: drawData(rt)}
}

// writeCAS tries to open a CAS-backed file for writing and write to it;
// the open has to be refused, so the write never happens.
func (g *stepGen) writeCAS(rt *rapid.T) *step {
	p := g.pickDir(rt, "dir")
	names := g.namesOf(p, isCASFile)
	if len(names) == 0 {
		return nil
	}
	return &step{Op: "write", Path: p, Name: rapid.SampledFrom(names).Draw(rt, "name"), Off: rapid.IntRange(0, 12).Draw(rt, "off"), Data: drawData(rt)}
}

func (g *stepGen) mkdir(rt *rapid.T) *step {
	p := g.pickDir(rt, "dir")
	name := g.absentName(rt, p)
	if rapid.IntRange(0, 4).Draw(rt, "existing") == 0 {
		name = g.anyName(rt, p, isAny)
	}
	return &step{Op: "mkdir", Path: p, Name: name, BD: rapid.Bool().Draw(rt, "bd")}
}

func (g *stepGen) symlink(rt *rapid.T) *step {
	p := g.pickDir(rt, "dir")
	name := g.absentName(rt, p)
	if rapid.IntRange(0, 4).Draw(rt, "existing") == 0 {
		name = g.anyName(rt, p, isAny)
	}
	return &step{Op: "symlink", Path: p, Name: name, Target: drawSymlinkTarget(rt)}
}

func (g *stepGen) remove(rt *rapid.T) *step {
	p := g.pickDir(rt, "dir")
	st := &step{Op: "remove", Path: p, Name: g.anyName(rt, p, isAny), BD: rapid.Bool().Draw(rt, "bd")}
	if !st.BD {
		st.Flags = rapid.SampledFrom([]int{0, 0, 0, 1, 2}).Draw(rt, "removeFlags")
	}
	return st
}

func (g *stepGen) removeall(rt *rapid.T) *step {
	p := g.pickDir(rt, "dir")
	return &step{Op: "removeall", Path: p, Name: g.anyName(rt, p, isAny), BD: true}
}

// rename returns nil (and counts an exclusion through excl) when the draw
// would move a directory into its own subtree: the Linux VFS and NFS
// clients reject that before the file system sees it.
func (g *stepGen) rename(rt *rapid.T, excl func(string)) *step {
	p := g.pickDir(rt, "dir")
	p2 := p
	if rapid.Bool().Draw(rt, "otherDir") {
		p2 = g.pickDir(rt, "dir2")
	}
	st := &step{Op: "rename", Path: p, Name: g.anyName(rt, p, isAny), Path2: p2}
	if rapid.Bool().Draw(rt, "overExisting") {
		st.Name2 = g.anyName(rt, p2, isAny)
	} else {
		st.Name2 = g.absentName(rt, p2)
	}
	if d, ok := g.r.modelDir(p); ok {
		if c := g.r.get(d, st.Name); c != nil && c.kind == kindDir && g.r.isPrefix(append(append([]string(nil), p...), st.Name), p2) {
			excl("rename of a directory into its own subtree (rejected by the kernel before reaching the file system)")
			return nil
		}
	}
	return st
}

func (g *stepGen) link(rt *rapid.T) *step {
	p := g.pickDir(rt, "dir")
	names := g.namesOf(p, isImmutableLeaf)
	if len(names) == 0 {
		return nil
	}
	p2 := g.pickDir(rt, "dir2")
	name2 := g.absentName(rt, p2)
	if rapid.IntRange(0, 4).Draw(rt, "existing") == 0 {
		name2 = g.anyName(rt, p2, isAny)
	}
	return &step{Op: "link", Path: p, Name: rapid.SampledFrom(names).Draw(rt, "name"), Path2: p2, Name2: name2}
}

// mutation attempts on files --------------------------------------------------

func (g *stepGen) fileTarget(rt *rapid.T) ([]string, string, bool) {
	p := g.pickDir(rt, "dir")
	pred := isFile
	if g.immutability {
		pred = isCASFile
	}
	names := g.namesOf(p, pred)
	if len(names) == 0 {
		return nil, "", false
	}
	return p, rapid.SampledFrom(names).Draw(rt, "name"), true
}

func (g *stepGen) openw(rt *rapid.T) *step {
	p, name, ok := g.fileTarget(rt)
	if !ok {
		return nil
	}
	return &step{Op: "openw", Path: p, Name: name,
		Len:   rapid.SampledFrom([]int{2, 3, 1, 0}).Draw(rt, "share"),
		Exec:  rapid.Bool().Draw(rt, "truncate"),
		Flags: rapid.SampledFrom([]int{0, 1, 2}).Draw(rt, "how"),
		Mask:  rapid.IntRange(0, 1).Draw(rt, "mask")}
}

func (g *stepGen) setsize(rt *rapid.T) *step {
	p, name, ok := g.fileTarget(rt)
	if !ok {
		return nil
	}
	d, _ := g.r.modelDir(p)
	cur := len(g.r.get(d, name).data)
	return &step{Op: "setsize", Path: p, Name: name, Len: rapid.OneOf(rapid.Just(0), rapid.Just(cur), rapid.Just(cur+1), rapid.IntRange(0, 90)).Draw(rt, "size"), Mask: rapid.IntRange(0, 1).Draw(rt, "mask")}
}

func (g *stepGen) allocate(rt *rapid.T) *step {
	p, name, ok := g.fileTarget(rt)
	if !ok {
		return nil
	}
	return &step{Op: "allocate", Path: p, Name: name, Off: rapid.IntRange(0, 80).Draw(rt, "off"), Len: rapid.IntRange(0, 40).Draw(rt, "len")}
}

func (st *step) String() string { return fmt.Sprintf("%+v", *st) }

package inputroot

import (
	"bytes"
	"testing"

	"pgregory.net/rapid"

	"verif/harness/internal/simkit"
)

func TestC17CASFilesImmutable(t *testing.T) {
	rec := simkit.NewRecorder(t, "C17", "inputroot-immutable",
		"rapid: DAG merged into two action directories that share one CAS, handle allocator and directory cache; generated sequence of mutation attempts on CAS-backed files (VirtualOpenChild / VirtualOpenSelf with write share, with truncate, with O_CREAT-style create attributes; open-for-write followed by the write the front end would issue; VirtualSetAttributes(size) smaller/larger/equal; VirtualAllocate), hard links to CAS files followed by more attempts, UploadFile, interleaved with reads and LOCAL replace/remove/rename/RemoveAll of the same entries. VirtualWrite is never issued without a successful write-open (the code panics by design). Oracle: every attempt that would change bytes or size is refused (any non-OK, non-I/O status); a read-only open succeeds; no Put reaches the CAS; afterwards the fake CAS is bit-for-bit what it was, re-reading every digest from it returns the original bytes, and both action trees equal the model (the other action still sees the original bytes of every digest). NON-TRIVIAL: >=1 refused write-open AND >=1 refused size change (setsize or allocate) AND >=1 local remove/replace/move of an entry from the input root; distinct by script hash")
	rapid.Check(t, func(rt *rapid.T) {
		cfg := drawWorldConfig(rt)
		cfg.Actions = 2
		spec := drawDAG(rt)
		if cfg.CaseInsensitive {
			spec.decollide()
		}
		c := newFakeCAS()
		mat := materialize(c, spec)
		before := c.snapshot()
		script := []any{scriptHeader{Op: "setup", World: cfg, DAG: spec}}
		r, err := setupRig(c, mat, cfg, true)
		if err != nil {
			rt.Fatalf("setting up a well-formed input root failed: %v; script=%s", err, jsonOf(script))
		}
		g := &stepGen{r: r, immutability: true}
		do := func(st *step) {
			if st == nil {
				rt.Skip("step not applicable in this state")
			}
			err := r.run(st)
			script = append(script, st)
			if err != nil {
				rt.Fatalf("%v\nscript=%s", err, jsonOf(script))
			}
		}
		rt.Repeat(map[string]func(*rapid.T){
			"openw":     func(rt *rapid.T) { do(g.openw(rt)) },
			"openw2":    func(rt *rapid.T) { do(g.openw(rt)) },
			"openw3":    func(rt *rapid.T) { do(g.openw(rt)) },
			"writeCAS":  func(rt *rapid.T) { do(g.writeCAS(rt)) },
			"setsize":   func(rt *rapid.T) { do(g.setsize(rt)) },
			"setsize2":  func(rt *rapid.T) { do(g.setsize(rt)) },
			"allocate":  func(rt *rapid.T) { do(g.allocate(rt)) },
			"allocate2": func(rt *rapid.T) { do(g.allocate(rt)) },
			"link":      func(rt *rapid.T) { do(g.link(rt)) },
			"read":      func(rt *rapid.T) { do(g.read(rt)) },
			"lookup":    func(rt *rapid.T) { do(g.lookup(rt)) },
			"readdir":   func(rt *rapid.T) { do(g.readdir(rt)) },
			"upload": func(rt *rapid.T) {
				st := g.upload(rt)
				if st != nil {
					if d, ok := r.modelDir(st.Path); !ok || !r.get(d, st.Name).cas {
						st = nil // only CAS-backed files here: nothing may be written to the CAS
					}
				}
				do(st)
			},
			"create":    func(rt *rapid.T) { do(g.create(rt)) },
			"remove":    func(rt *rapid.T) { do(g.remove(rt)) },
			"removeall": func(rt *rapid.T) { do(g.removeall(rt)) },
			"rename":    func(rt *rapid.T) { do(g.rename(rt, rec.Exclude)) },
			"": func(rt *rapid.T) {
				if err := r.run(&step{Op: "walkloaded"}); err != nil {
					rt.Fatalf("%v\nscript=%s", err, jsonOf(script))
				}
			},
		})
		if err := r.run(&step{Op: "walk"}); err != nil {
			rt.Fatalf("final walk: %v\nscript=%s", err, jsonOf(script))
		}
		if len(c.puts) != 0 {
			rt.Fatalf("blobs %v were written to the CAS\nscript=%s", c.puts, jsonOf(script))
		}
		if msg := diffSnapshots(before, c.snapshot()); msg != "" {
			rt.Fatalf("the CAS is no longer bit-for-bit what it was: %s\nscript=%s", msg, jsonOf(script))
		}
		for i, d := range mat.fileDigest {
			got, err := c.Get(r.w.ctx, d).ToByteSlice(1 << 20)
			if err != nil || !bytes.Equal(got, []byte(spec.Contents[i])) {
				rt.Fatalf("re-reading digest %s gives %q, %v; want %q\nscript=%s", d, got, err, spec.Contents[i], jsonOf(script))
			}
		}
		for i, d := range mat.dirDigests {
			got, err := c.Get(r.w.ctx, d).ToByteSlice(1 << 20)
			if err != nil || !bytes.Equal(got, mat.dirBytes[i]) {
				rt.Fatalf("re-reading directory digest %s gives %q, %v; want %q\nscript=%s", d, got, err, mat.dirBytes[i], jsonOf(script))
			}
		}
		labels := []string{}
		add := func(cond bool, l string) {
			if cond {
				labels = append(labels, l)
			}
		}
		openRefused := r.refusedBy["openw"]+r.refusedBy["write"] > 0
		sizeRefused := r.refusedBy["setsize"]+r.refusedBy["allocate"] > 0
		add(r.refusedBy["openw"] > 0, "write_open_refused")
		add(r.refusedBy["write"] > 0, "open_then_write_refused")
		add(r.refusedBy["setsize"] > 0, "set_size_refused")
		add(r.refusedBy["allocate"] > 0, "allocate_refused")
		add(r.casEntryEdits > 0, "input_entry_replaced_or_removed_locally")
		add(r.ambiguous > 0, "rename_between_identical_immutable_leaves")
		add(cfg.NFS, "nfs_handles")
		add(!cfg.NFS, "fuse_handles")
		rec.LabelN("refused_attempts", r.refused)
		rec.Case(script, openRefused && sizeRefused && r.casEntryEdits > 0, labels...)
	})
}

package inputroot

import "os"

var debugCalls = os.Getenv("C17_DEBUG") != ""

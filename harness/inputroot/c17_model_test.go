package inputroot

import (
	"testing"

	"pgregory.net/rapid"

	"verif/harness/internal/simkit"
)

// scriptHeader is the first element of every recorded script: the inputs
// the steps were run against.
type scriptHeader struct {
	Op      string      `json:"op"`
	World   worldConfig `json:"world"`
	DAG     *dagSpec    `json:"dag"`
	Malform []malform   `json:"malform,omitempty"`
}

// setupRig builds a fresh world, merges the input root into every action
// directory and mirrors that in the model.
func setupRig(c *fakeCAS, mat *materialized, cfg worldConfig, merge bool) (*rig, error) {
	w := newWorld(c, cfg)
	r := newRig(w, mat)
	for a := 0; a < cfg.Actions; a++ {
		_, pth, err := w.addAction()
		if err != nil {
			return nil, err
		}
		// Model: act<a>[/root] are empty, locally created directories.
		cur := r.root
		for _, name := range pth {
			n := &mnode{kind: kindDir, tmpl: -1, expanded: true, visited: true, children: map[string]*mnode{}}
			r.put(cur, name, n)
			cur = n
		}
		if merge {
			if err := r.run(&step{Op: "merge", Off: a}); err != nil {
				return nil, err
			}
		}
	}
	return r, nil
}

func countUnexpanded(r *rig) (unexpanded, expanded int) {
	var walk func(n *mnode)
	walk = func(n *mnode) {
		for _, name := range n.names() {
			c := r.get(n, name)
			if c.kind != kindDir {
				continue
			}
			if c.visited {
				expanded++
				walk(c)
			} else {
				unexpanded++
			}
		}
	}
	walk(r.root)
	return
}

func sharedTwiceExpanded(r *rig) bool {
	for t, n := range r.occExpanded {
		if n >= 2 && len(r.spec.Dirs[t].Entries) > 0 {
			return true
		}
	}
	return false
}

func refetched(c *fakeCAS, mat *materialized) bool {
	dirKeys := map[string]bool{}
	for _, d := range mat.dirDigests {
		dirKeys[casKey(d)] = true
	}
	seen := map[string]int{}
	for _, k := range c.calls {
		if dirKeys[k] {
			seen[k]++
			if seen[k] >= 2 {
				return true
			}
		}
	}
	return false
}

func TestC17InputRootModel(t *testing.T) {
	rec := simkit.NewRecorder(t, "C17", "inputroot-model",
		"rapid: REv2 Directory DAG (shared templates reachable via several paths and under several names, height<=4, empty directories, exec bits, generated contents, symlinks with relative or absolute, canonical or non-canonical targets up to 700 bytes, compared after a normal form that preserves POSIX resolution) stored in a hand-written fake CAS; real BlobAccessDirectoryFetcher + CachingDirectoryFetcher (1-3 entries, LRU/FIFO) + CASInitialContentsFetcher + BlobAccess/StatelessHandleAllocating CAS file factory + InMemoryPrepopulatedDirectory (FUSE or NFS handle allocator) + virtualBuildDirectory.MergeDirectoryContents into 1-2 action directories; generated interleaving of lookups/readdirs (chunked, both attribute masks)/reads/readlinks/UploadFile through the virtual.Directory+Leaf API and the BuildDirectory API with local create/write/mkdir/symlink/remove/RemoveAll/rename/hard-link and refused mutation attempts. Oracle: every answer equals a plain mutable copy of the expanded DAG plus the local edits (names, kinds, exec bits, sizes, symlink targets, file bytes), after every step for the visited part and at the end for the whole tree. NON-TRIVIAL: a shared template expanded in >=2 places AND some directory still unvisited when the steps end (partial exploration) AND >=1 successful local modification; distinct by script hash")
	rapid.Check(t, func(rt *rapid.T) {
		cfg := drawWorldConfig(rt)
		spec := drawDAG(rt)
		if cfg.CaseInsensitive {
			// Names differing only by case are malformed input on a case
			// insensitive mount; that is the business of
			// TestC17MalformedAndFaults. Here the tree is well formed.
			spec.decollide()
		}
		c := newFakeCAS()
		mat := materialize(c, spec)
		before := c.snapshot()
		script := []any{scriptHeader{Op: "setup", World: cfg, DAG: spec}}
		r, err := setupRig(c, mat, cfg, true)
		if err != nil {
			rt.Fatalf("setting up a well-formed input root failed: %v; script=%+v", err, script)
		}
		g := &stepGen{r: r}
		do := func(st *step) {
			if st == nil {
				rt.Skip("step not applicable in this state")
			}
			err := r.run(st)
			script = append(script, st)
			if err != nil {
				rt.Fatalf("%v\nscript=%s", err, jsonOf(script))
			}
		}
		partialAtEnd := false
		rt.Repeat(map[string]func(*rapid.T){
			"lookup":    func(rt *rapid.T) { do(g.lookup(rt)) },
			"readdir":   func(rt *rapid.T) { do(g.readdir(rt)) },
			"read":      func(rt *rapid.T) { do(g.read(rt)) },
			"upload":    func(rt *rapid.T) { do(g.upload(rt)) },
			"readlink":  func(rt *rapid.T) { do(g.readlink(rt)) },
			"create":    func(rt *rapid.T) { do(g.create(rt)) },
			"write":     func(rt *rapid.T) { do(g.write(rt)) },
			"mkdir":     func(rt *rapid.T) { do(g.mkdir(rt)) },
			"symlink":   func(rt *rapid.T) { do(g.symlink(rt)) },
			"remove":    func(rt *rapid.T) { do(g.remove(rt)) },
			"removeall": func(rt *rapid.T) { do(g.removeall(rt)) },
			"rename":    func(rt *rapid.T) { do(g.rename(rt, rec.Exclude)) },
			"rename2":   func(rt *rapid.T) { do(g.rename(rt, rec.Exclude)) },
			"link":      func(rt *rapid.T) { do(g.link(rt)) },
			"openw":     func(rt *rapid.T) { do(g.openw(rt)) },
			"setsize":   func(rt *rapid.T) { do(g.setsize(rt)) },
			"allocate":  func(rt *rapid.T) { do(g.allocate(rt)) },
			"": func(rt *rapid.T) {
				// The visited part of the tree must still be right
				// (this never loads anything new).
				if err := r.run(&step{Op: "walkloaded"}); err != nil {
					rt.Fatalf("%v\nscript=%s", err, jsonOf(script))
				}
				un, _ := countUnexpanded(r)
				partialAtEnd = un > 0
			},
		})
		shared := sharedTwiceExpanded(r)
		// Finally the whole tree, including everything never visited.
		if err := r.run(&step{Op: "walk"}); err != nil {
			rt.Fatalf("final walk: %v\nscript=%s", err, jsonOf(script))
		}
		// Nothing above may have changed a stored blob; new blobs (uploads
		// of locally written files) must be self-consistent.
		if msg := casDamage(before, c.snapshot()); msg != "" {
			rt.Fatalf("the CAS was altered: %s\nscript=%s", msg, jsonOf(script))
		}
		labels := []string{}
		add := func(cond bool, l string) {
			if cond {
				labels = append(labels, l)
			}
		}
		add(shared, "shared_expanded_twice")
		add(partialAtEnd, "partial_exploration")
		add(r.mods > 0, "local_modification")
		add(r.modsInShared > 0, "modification_inside_shared_subtree")
		add(r.refused > 0, "mutation_refused")
		add(r.ambiguous > 0, "rename_between_identical_immutable_leaves")
		add(refetched(c, mat), "directory_refetched_after_eviction")
		add(cfg.NFS, "nfs_handles")
		add(!cfg.NFS, "fuse_handles")
		add(cfg.Actions > 1, "two_actions")
		add(cfg.Cache == "none", "uncached_fetcher")
		add(cfg.CaseInsensitive, "case_insensitive")
		rec.Case(script, shared && partialAtEnd && r.mods > 0, labels...)
	})
}

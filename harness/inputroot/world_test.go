package inputroot

import (
	"context"
	"fmt"

	"github.com/buildbarn/bb-remote-execution/pkg/builder"
	"github.com/buildbarn/bb-remote-execution/pkg/cas"
	"github.com/buildbarn/bb-remote-execution/pkg/filesystem/pool"
	"github.com/buildbarn/bb-remote-execution/pkg/filesystem/virtual"
	"github.com/buildbarn/bb-storage/pkg/digest"
	"github.com/buildbarn/bb-storage/pkg/eviction"
	"github.com/buildbarn/bb-storage/pkg/filesystem/path"

	"google.golang.org/grpc/codes"
	"google.golang.org/grpc/status"
	"pgregory.net/rapid"
)

// worldConfig is the per-case wiring choice; everything is a rapid draw.
type worldConfig struct {
	NFS         bool   `json:"nfs"`        // NFS handle allocator (deduplicates stateless leaves) or FUSE
	Cache       string `json:"cache"`      // "none", "lru", "fifo"
	CacheCount  int    `json:"cacheCount"` // maximum number of cached directories
	CacheBytes  int64  `json:"cacheBytes"` // maximum total size
	ShuffleSeed uint64 `json:"shuffle"`    // 0 = sorted initial contents
	Actions     int    `json:"actions"`    // input roots merged next to each other
	RootSubdir  bool   `json:"rootSubdir"` // merge into <action>/root like LocalBuildExecutor, or into <action> directly
	// The bb_worker option case_insensitive (file names are compared
	// after lower-casing; needed for Windows/macOS workers).
	CaseInsensitive bool `json:"caseInsensitive,omitempty"`
}

func drawWorldConfig(rt *rapid.T) worldConfig {
	return worldConfig{
		NFS:         rapid.Bool().Draw(rt, "nfs"),
		Cache:       rapid.SampledFrom([]string{"lru", "fifo", "lru", "none"}).Draw(rt, "cache"),
		CacheCount:  rapid.IntRange(1, 3).Draw(rt, "cacheCount"),
		CacheBytes:  rapid.SampledFrom([]int64{1, 100, 300, 1 << 20}).Draw(rt, "cacheBytes"),
		ShuffleSeed: rapid.SampledFrom([]uint64{0, 0, 1, 7}).Draw(rt, "shuffle"),
		Actions:     rapid.IntRange(1, 2).Draw(rt, "actions"),
		RootSubdir:  rapid.Bool().Draw(rt, "rootSubdir"),

		CaseInsensitive: rapid.IntRange(0, 3).Draw(rt, "caseInsensitive") == 0,
	}
}

// world is the real stack under test, wired the way cmd/bb_worker does.
type world struct {
	cfg     worldConfig
	ctx     context.Context
	cas     *fakeCAS
	errlog  *errLogger
	fetcher cas.DirectoryFetcher
	nfs     *virtual.NFSStatefulHandleAllocator
	top     virtual.PrepopulatedDirectory
	topBD   builder.BuildDirectory
	pools   []*memFilePool
	// Per action: the directory the input root was merged into.
	actionBD   []builder.BuildDirectory
	actionPath [][]string
}

func newDirectoryFetcher(c *fakeCAS, cfg worldConfig) cas.DirectoryFetcher {
	var fetcher cas.DirectoryFetcher = cas.NewBlobAccessDirectoryFetcher(c, 1<<16, 0)
	switch cfg.Cache {
	case "lru":
		fetcher = cas.NewCachingDirectoryFetcher(fetcher, digest.KeyWithoutInstance, cfg.CacheCount, cfg.CacheBytes, eviction.NewLRUSet[cas.CachingDirectoryFetcherKey]())
	case "fifo":
		fetcher = cas.NewCachingDirectoryFetcher(fetcher, digest.KeyWithoutInstance, cfg.CacheCount, cfg.CacheBytes, eviction.NewFIFOSet[cas.CachingDirectoryFetcherKey]())
	}
	return fetcher
}

func newWorld(c *fakeCAS, cfg worldConfig) *world {
	w := &world{cfg: cfg, ctx: context.Background(), cas: c, errlog: &errLogger{}}
	var handleAllocator virtual.StatefulHandleAllocator
	if cfg.NFS {
		w.nfs = virtual.NewNFSHandleAllocator(&seqGenerator{})
		handleAllocator = w.nfs
	} else {
		handleAllocator = virtual.NewFUSEHandleAllocator(&seqGenerator{})
	}
	w.fetcher = newDirectoryFetcher(c, cfg)
	clk := &fixedClock{}
	normalizer := virtual.CaseSensitiveComponentNormalizer
	if cfg.CaseInsensitive {
		normalizer = virtual.CaseInsensitiveComponentNormalizer
	}
	noDefaults := func(requested virtual.AttributesMask, attributes *virtual.Attributes) {}
	characterDeviceFactory := virtual.NewHandleAllocatingCharacterDeviceFactory(virtual.BaseCharacterDeviceFactory, handleAllocator.New())
	w.top = virtual.NewInMemoryPrepopulatedDirectory(
		virtual.NewHandleAllocatingFileAllocator(
			virtual.NewPoolBackedFileAllocator(pool.EmptyFilePool, w.errlog, noDefaults, virtual.NoNamedAttributesFactory),
			handleAllocator,
		),
		virtual.NewErrorSymlinkFactory(status.Error(codes.PermissionDenied, "Symlink outside build directory")),
		w.errlog,
		handleAllocator,
		deterministicSorter(cfg.ShuffleSeed),
		func(string) bool { return false },
		clk,
		normalizer,
		noDefaults,
		virtual.NoNamedAttributesFactory,
	)
	ownerSetter := func(requested virtual.AttributesMask, attributes *virtual.Attributes) {
		attributes.SetOwnerUserID(1000)
		attributes.SetOwnerGroupID(1000)
	}
	symlinkFactory := virtual.NewHandleAllocatingSymlinkFactory(virtual.NewBaseSymlinkFactory(ownerSetter), handleAllocator.New(), path.LocalFormat)
	w.topBD = builder.NewVirtualBuildDirectory(w.top, w.fetcher, c, symlinkFactory, characterDeviceFactory, handleAllocator, ownerSetter, clk)
	return w
}

// addAction creates <top>/act<i>[/root] the way the build directory
// creators and LocalBuildExecutor do, and returns the build directory the
// input root has to be merged into.
func (w *world) addAction() (builder.BuildDirectory, []string, error) {
	i := len(w.actionBD)
	name := fmt.Sprintf("act%d", i)
	if err := w.topBD.Mkdir(path.MustNewComponent(name), 0o777); err != nil {
		return nil, nil, fmt.Errorf("Mkdir %s: %w", name, err)
	}
	bd, err := w.topBD.EnterBuildDirectory(path.MustNewComponent(name))
	if err != nil {
		return nil, nil, fmt.Errorf("EnterBuildDirectory %s: %w", name, err)
	}
	p := &memFilePool{}
	w.pools = append(w.pools, p)
	bd.InstallHooks(p, w.errlog)
	pth := []string{name}
	if w.cfg.RootSubdir {
		if err := bd.Mkdir(path.MustNewComponent("root"), 0o777); err != nil {
			return nil, nil, fmt.Errorf("Mkdir root: %w", err)
		}
		if bd, err = bd.EnterBuildDirectory(path.MustNewComponent("root")); err != nil {
			return nil, nil, fmt.Errorf("EnterBuildDirectory root: %w", err)
		}
		pth = append(pth, "root")
	}
	w.actionBD = append(w.actionBD, bd)
	w.actionPath = append(w.actionPath, pth)
	return bd, pth, nil
}

func (w *world) merge(bd builder.BuildDirectory, root digest.Digest) error {
	return bd.MergeDirectoryContents(w.ctx, w.errlog, root, nil)
}

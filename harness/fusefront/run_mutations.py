#!/usr/bin/env python3
"""Development aid (sensitivity trials for the fusefront package only).

  run_mutations.py <scratch worktree of /repo> [--only name] [--scale S]

Applies each textual mutation of mutations.json to the scratch worktree (never to
/repo), runs the C13 FUSE part through the driver against it, reverts, and appends
the outcome to mutation_results.jsonl next to this file.
"""
import json, os, subprocess, sys, time

here = os.path.dirname(os.path.abspath(__file__))
wt = sys.argv[1]
only, scale = None, "1"
args = sys.argv[2:]
while args:
    a = args.pop(0)
    if a == "--only":
        only = args.pop(0)
    elif a == "--scale":
        scale = args.pop(0)
assert os.path.abspath(wt) != "/repo"
for m in json.load(open(os.path.join(here, "mutations.json"))):
    if only and m["name"] != only:
        continue
    path = os.path.join(wt, m["file"])
    src = open(path).read()
    if src.count(m["old"]) != 1:
        print("SKIP %s: pattern occurs %d times" % (m["name"], src.count(m["old"])))
        continue
    open(path, "w").write(src.replace(m["old"], m["new"]))
    try:
        t0 = time.time()
        env = dict(os.environ, VERIF_REPO=wt, VERIF_ALL_PARTS="1")
        p = subprocess.run(["/verif/check", "C13", "--only", "TestC13FUSEFrontEndModel", "--scale", scale],
                           env=env, capture_output=True, text=True)
        first = ""
        for l in p.stdout.splitlines():
            if "violation after" in l or "HARNESS BUG" in l:
                first = l.strip()[:400]
                break
        rec = {"mutation": m["name"], "rc": p.returncode, "caught": p.returncode == 1,
               "wall_s": round(time.time() - t0, 1), "first": first}
        print(json.dumps(rec), flush=True)
        with open(os.path.join(here, "mutation_results.jsonl"), "a") as f:
            f.write(json.dumps(rec) + "\n")
    finally:
        open(path, "w").write(src)

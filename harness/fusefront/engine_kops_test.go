package fusefront

import (
	"fmt"
	"syscall"

	go_fuse "github.com/hanwen/go-fuse/v2/fuse"
	"pgregory.net/rapid"
)

// Requests the kernel sends. Every one addresses node IDs the kernel holds
// (entry replies not yet forgotten) and handles it has open.

const (
	ffMaxLiveDirs    = 6
	ffMaxFileHandles = 4
	ffMaxDirHandles  = 3
)

func (c *ffCase) noteDirMutation(d *mNode) {
	if d.deleted {
		c.sawRemoveHard = true
	}
}

func (c *ffCase) opLookup() {
	kn := c.pickDirNode("dir")
	d := kn.m
	name := c.pickNameP(d, "name", 8)
	c.noteNodeUse(kn)
	c.begin(ffStep{Op: "Lookup", Node: c.nname(kn), Name: name}, false)
	c.m.need(d)
	e := c.m.lookup(d, name)
	var out go_fuse.EntryOut
	var st go_fuse.Status
	h := header(kn)
	c.real(func() { st = c.w.rfs.Lookup(nil, &h, name, &out) })
	want := one(rOK)
	if e == nil {
		want = one(rNoEnt)
	}
	if c.checkStatus("Lookup", want, st) {
		child := c.gotEntry("Lookup reply", e.child, &out)
		c.note("->n%d x%d", child.idx, child.nlookup)
	}
	c.finish()
}

func (c *ffCase) opMkdir() {
	kn := c.pickDirNode("dir")
	d := kn.m
	name := c.pickNewName(d, "name")
	if !d.deleted && c.m.liveDirCount() >= ffMaxLiveDirs {
		c.rec.Exclude("Mkdir skipped: the case already has 6 live directories (size bound)")
		return
	}
	c.noteNodeUse(kn)
	c.noteDirMutation(d)
	c.begin(ffStep{Op: "Mkdir", Node: c.nname(kn), Name: name}, false)
	want, child := c.m.opMkdir(d, name)
	var out go_fuse.EntryOut
	var st go_fuse.Status
	in := &go_fuse.MkdirIn{InHeader: header(kn), Mode: 0o755}
	c.real(func() { st = c.w.rfs.Mkdir(nil, in, name, &out) })
	if c.checkStatus("Mkdir", want, st) {
		ck := c.gotEntry("Mkdir reply", child, &out)
		c.note("->n%d", ck.idx)
	}
	c.finish()
}

func (c *ffCase) opMknod() {
	kn := c.pickDirNode("dir")
	d := kn.m
	name := c.pickNewName(d, "name")
	kind := rapid.SampledFrom([]string{"fifo", "fifo", "socket", "regular", "blockdev", "chardev"}).Draw(c.rt, "mknod_type")
	var mode uint32
	mkind := kind
	switch kind {
	case "fifo":
		mode = syscall.S_IFIFO | 0o644
	case "socket":
		mode = syscall.S_IFSOCK | 0o600
	case "regular":
		mode, mkind = syscall.S_IFREG|0o644, "refused"
	case "blockdev":
		mode, mkind = syscall.S_IFBLK|0o660, "refused"
	case "chardev":
		mode, mkind = syscall.S_IFCHR|0o660, "refused"
	}
	c.noteNodeUse(kn)
	c.noteDirMutation(d)
	c.begin(ffStep{Op: "Mknod", Node: c.nname(kn), Name: name, Arg: kind}, false)
	want, child := c.m.opMknod(d, name, mkind, "")
	var out go_fuse.EntryOut
	var st go_fuse.Status
	in := &go_fuse.MknodIn{InHeader: header(kn), Mode: mode}
	c.real(func() { st = c.w.rfs.Mknod(nil, in, name, &out) })
	if c.checkStatus("Mknod", want, st) {
		ck := c.gotEntry("Mknod reply", child, &out)
		c.note(" ->n%d", ck.idx)
	}
	c.finish()
}

func (c *ffCase) opSymlink() {
	kn := c.pickDirNode("dir")
	d := kn.m
	name := c.pickNewName(d, "name")
	target := rapid.SampledFrom(ffTargets).Draw(c.rt, "target")
	c.noteNodeUse(kn)
	c.noteDirMutation(d)
	c.begin(ffStep{Op: "Symlink", Node: c.nname(kn), Name: name, Arg: target}, false)
	want, child := c.m.opMknod(d, name, "symlink", target)
	var out go_fuse.EntryOut
	var st go_fuse.Status
	h := header(kn)
	c.real(func() { st = c.w.rfs.Symlink(nil, &h, target, name, &out) })
	if c.checkStatus("Symlink", want, st) {
		ck := c.gotEntry("Symlink reply", child, &out)
		c.note(" ->n%d", ck.idx)
		if c.m.symCount[target] > 1 {
			c.labels["symlinks_sharing_one_node_id"] = true
		}
	}
	c.finish()
}

func accName(flags uint32) string {
	s := []string{"O_RDONLY", "O_WRONLY", "O_RDWR"}[flags&syscall.O_ACCMODE]
	if flags&syscall.O_CREAT != 0 {
		s += "|O_CREAT"
	}
	if flags&syscall.O_EXCL != 0 {
		s += "|O_EXCL"
	}
	if flags&syscall.O_TRUNC != 0 {
		s += "|O_TRUNC"
	}
	return s
}

func (c *ffCase) drawOpenFlags(create bool) uint32 {
	flags := uint32(rapid.SampledFrom([]int{syscall.O_RDONLY, syscall.O_WRONLY, syscall.O_RDWR, syscall.O_RDWR}).Draw(c.rt, "accmode"))
	if flags != syscall.O_RDONLY && rapid.IntRange(0, 3).Draw(c.rt, "o_trunc") == 0 {
		flags |= syscall.O_TRUNC
	}
	if create {
		flags |= syscall.O_CREAT
		if rapid.IntRange(0, 2).Draw(c.rt, "o_excl") == 0 {
			flags |= syscall.O_EXCL
		}
	}
	return flags
}

func (c *ffCase) newFileHandle(kn *kNode, flags uint32) *kFile {
	f := &kFile{idx: c.nextFh, node: kn, flags: flags & syscall.O_ACCMODE}
	c.nextFh++
	c.files = append(c.files, f)
	kn.handles++
	return f
}

func (c *ffCase) opCreate() {
	if len(c.files) >= ffMaxFileHandles {
		return
	}
	kn := c.pickDirNode("dir")
	d := kn.m
	name := c.pickNameP(d, "name", 4)
	flags := c.drawOpenFlags(true)
	exec := rapid.Bool().Draw(c.rt, "executable")
	mode := uint32(syscall.S_IFREG | 0o644)
	if exec {
		mode = syscall.S_IFREG | 0o755
	}
	c.noteNodeUse(kn)
	c.noteDirMutation(d)
	c.begin(ffStep{Op: "Create", Node: c.nname(kn), Name: name, Arg: fmt.Sprintf("%s mode=%#o", accName(flags), mode)}, false)
	want, child := c.m.opCreate(d, name, flags&syscall.O_EXCL != 0, flags&syscall.O_TRUNC != 0, exec)
	var out go_fuse.CreateOut
	var st go_fuse.Status
	in := &go_fuse.CreateIn{InHeader: header(kn), Flags: flags, Mode: mode}
	c.real(func() { st = c.w.rfs.Create(nil, in, name, &out) })
	if c.checkStatus("Create", want, st) {
		ck := c.gotEntry("Create reply", child, &out.EntryOut)
		f := c.newFileHandle(ck, flags)
		c.note(" ->n%d fh%d", ck.idx, f.idx)
	}
	c.finish()
}

func (c *ffCase) opOpen() {
	if len(c.files) >= ffMaxFileHandles {
		return
	}
	cands := c.leafNodes(func(n *mNode) bool { return n.kind == "file" })
	if len(cands) == 0 {
		return
	}
	kn := cands[rapid.IntRange(0, len(cands)-1).Draw(c.rt, "file")]
	n := kn.m
	flags := c.drawOpenFlags(false)
	c.noteNodeUse(kn)
	c.begin(ffStep{Op: "Open", Node: c.nname(kn), Arg: accName(flags)}, false)
	want := one(rOK)
	if !n.alive() {
		// No name and no open handle: the backing file is gone.
		want = one(rStale)
		c.sawStaleOpen = true
	} else {
		if flags&syscall.O_TRUNC != 0 {
			n.content = nil
		}
		n.opens++
	}
	var st go_fuse.Status
	in := &go_fuse.OpenIn{InHeader: header(kn), Flags: flags}
	c.real(func() { st = c.w.rfs.Open(nil, in, &go_fuse.OpenOut{}) })
	if c.checkStatus("Open", want, st) {
		f := c.newFileHandle(kn, flags)
		c.note(" ->fh%d", f.idx)
	}
	c.finish()
}

func (c *ffCase) pickFile(label string, filter func(f *kFile) bool) *kFile {
	var cands []*kFile
	for _, f := range c.files {
		if filter(f) {
			cands = append(cands, f)
		}
	}
	if len(cands) == 0 {
		return nil
	}
	return cands[rapid.IntRange(0, len(cands)-1).Draw(c.rt, label)]
}

func (c *ffCase) fhName(f *kFile) string {
	return fmt.Sprintf("fh%d", f.idx)
}

func (c *ffCase) opRead() {
	f := c.pickFile("handle", (*kFile).canRead)
	if f == nil {
		return
	}
	n := f.node.m
	off := rapid.IntRange(0, len(n.content)+2).Draw(c.rt, "offset")
	size := rapid.IntRange(0, 8).Draw(c.rt, "size")
	c.noteNodeUse(f.node)
	c.begin(ffStep{Op: "Read", Node: c.nname(f.node), Arg: fmt.Sprintf("%s off=%d size=%d", c.fhName(f), off, size)}, false)
	var want []byte
	if off < len(n.content) {
		end := off + size
		if end > len(n.content) {
			end = len(n.content)
		}
		want = n.content[off:end]
	}
	buf := make([]byte, size)
	var st go_fuse.Status
	var data []byte
	in := &go_fuse.ReadIn{InHeader: header(f.node), Fh: 0, Offset: uint64(off), Size: uint32(size)}
	c.real(func() {
		var res go_fuse.ReadResult
		res, st = c.w.rfs.Read(nil, in, buf)
		if st == go_fuse.OK {
			data, _ = res.Bytes(buf)
		}
	})
	if c.checkStatus("Read", one(rOK), st) && string(data) != string(want) {
		c.fail("Read returned %q, the reference tree says %q", data, want)
	}
	c.finish()
}

func writeAt(content []byte, off int, data []byte) []byte {
	if end := off + len(data); end > len(content) {
		content = append(append([]byte(nil), content...), make([]byte, end-len(content))...)
	} else {
		content = append([]byte(nil), content...)
	}
	copy(content[off:], data)
	return content
}

func resize(content []byte, size int) []byte {
	if size <= len(content) {
		return append([]byte(nil), content[:size]...)
	}
	return append(append([]byte(nil), content...), make([]byte, size-len(content))...)
}

func (c *ffCase) opWrite() {
	f := c.pickFile("handle", (*kFile).canWrite)
	if f == nil {
		return
	}
	n := f.node.m
	off := rapid.IntRange(0, len(n.content)+3).Draw(c.rt, "offset")
	data := []byte(c.nextTag())
	if len(n.content)+len(data) > 40 {
		off = rapid.IntRange(0, 8).Draw(c.rt, "offset_low")
	}
	c.noteNodeUse(f.node)
	c.begin(ffStep{Op: "Write", Node: c.nname(f.node), Arg: fmt.Sprintf("%s off=%d data=%q", c.fhName(f), off, data)}, false)
	n.content = writeAt(n.content, off, data)
	var st go_fuse.Status
	var written uint32
	in := &go_fuse.WriteIn{InHeader: header(f.node), Offset: uint64(off), Size: uint32(len(data))}
	c.real(func() { written, st = c.w.rfs.Write(nil, in, data) })
	if c.checkStatus("Write", one(rOK), st) && int(written) != len(data) {
		c.fail("Write reported %d bytes written, %d were sent", written, len(data))
	}
	c.finish()
}

func (c *ffCase) removeFileHandle(f *kFile) {
	for i, x := range c.files {
		if x == f {
			c.files = append(c.files[:i:i], c.files[i+1:]...)
		}
	}
	f.node.handles--
	f.node.m.opens--
}

func (c *ffCase) opRelease() {
	f := c.pickFile("handle", func(*kFile) bool { return true })
	if f == nil {
		return
	}
	c.noteNodeUse(f.node)
	c.begin(ffStep{Op: "Release", Node: c.nname(f.node), Arg: c.fhName(f)}, false)
	var st go_fuse.Status
	c.real(func() {
		// close(2): FLUSH, then (last reference to the open file) RELEASE.
		st = c.w.rfs.Flush(nil, &go_fuse.FlushIn{InHeader: header(f.node)})
		c.w.rfs.Release(nil, &go_fuse.ReleaseIn{InHeader: header(f.node), Flags: f.flags})
	})
	c.removeFileHandle(f)
	c.checkStatus("Flush", one(rOK), st)
	c.finish()
}

// opHandleMisc: FSYNC, LSEEK, FALLOCATE on an open handle.
func (c *ffCase) opHandleMisc() {
	f := c.pickFile("handle", func(*kFile) bool { return true })
	if f == nil {
		return
	}
	n := f.node.m
	which := rapid.SampledFrom([]string{"Fsync", "Lseek", "Lseek", "Fallocate", "Fallocate"}).Draw(c.rt, "which")
	if which == "Fallocate" && !f.canWrite() {
		which = "Lseek"
	}
	c.noteNodeUse(f.node)
	var st go_fuse.Status
	switch which {
	case "Fsync":
		c.begin(ffStep{Op: "Fsync", Node: c.nname(f.node), Arg: c.fhName(f)}, false)
		c.real(func() { st = c.w.rfs.Fsync(nil, &go_fuse.FsyncIn{InHeader: header(f.node)}) })
		c.checkStatus("Fsync", one(rOK), st)
	case "Lseek":
		off := rapid.IntRange(0, len(n.content)+1).Draw(c.rt, "offset")
		whence := rapid.SampledFrom([]uint32{3, 4}).Draw(c.rt, "whence") // SEEK_DATA, SEEK_HOLE
		c.begin(ffStep{Op: "Lseek", Node: c.nname(f.node), Arg: fmt.Sprintf("%s off=%d whence=%d", c.fhName(f), off, whence)}, false)
		var out go_fuse.LseekOut
		in := &go_fuse.LseekIn{InHeader: header(f.node), Offset: uint64(off), Whence: whence}
		c.real(func() { st = c.w.rfs.Lseek(nil, in, &out) })
		// The in-memory pool has no holes inside a file: data runs to the
		// end, where the implicit hole starts.
		if off >= len(n.content) {
			c.checkStatus("Lseek", one(rNXIO), st)
		} else if c.checkStatus("Lseek", one(rOK), st) {
			want := uint64(off)
			if whence == 4 {
				want = uint64(len(n.content))
			}
			if out.Offset != want {
				c.fail("Lseek(off=%d, whence=%d) returned offset %d, expected %d for a file of %d bytes", off, whence, out.Offset, want, len(n.content))
			}
		}
	case "Fallocate":
		off := rapid.IntRange(0, len(n.content)+2).Draw(c.rt, "offset")
		length := rapid.IntRange(1, 4).Draw(c.rt, "length")
		if off+length > 48 {
			off, length = 0, 1
		}
		c.begin(ffStep{Op: "Fallocate", Node: c.nname(f.node), Arg: fmt.Sprintf("%s off=%d len=%d", c.fhName(f), off, length)}, false)
		if off+length > len(n.content) {
			n.content = resize(n.content, off+length)
		}
		in := &go_fuse.FallocateIn{InHeader: header(f.node), Offset: uint64(off), Length: uint64(length)}
		c.real(func() { st = c.w.rfs.Fallocate(nil, in) })
		c.checkStatus("Fallocate", one(rOK), st)
	}
	c.finish()
}

func (c *ffCase) pickAnyNode(label string) *kNode {
	// Nodes without a name are preferred now and then.
	var orphans []*kNode
	for _, kn := range c.order {
		n := kn.m
		if n.dir && n.deleted || !n.dir && n.kind != "symlink" && n.nlink == 0 {
			orphans = append(orphans, kn)
		}
	}
	if len(orphans) > 0 && rapid.IntRange(0, 9).Draw(c.rt, label+"_orphan") < 3 {
		return orphans[rapid.IntRange(0, len(orphans)-1).Draw(c.rt, label+"_orphan_idx")]
	}
	return c.order[rapid.IntRange(0, len(c.order)-1).Draw(c.rt, label)]
}

func (c *ffCase) opGetAttr() {
	kn := c.pickAnyNode("node")
	c.noteNodeUse(kn)
	c.begin(ffStep{Op: "GetAttr", Node: c.nname(kn)}, false)
	var out go_fuse.AttrOut
	var st go_fuse.Status
	in := &go_fuse.GetAttrIn{InHeader: header(kn)}
	c.real(func() { st = c.w.rfs.GetAttr(nil, in, &out) })
	if c.checkStatus("GetAttr", one(rOK), st) {
		c.checkAttr("GetAttr reply", kn.m, &out.Attr)
	}
	c.finish()
}

func (c *ffCase) opSetAttr() {
	kn := c.pickAnyNode("node")
	n := kn.m
	if !n.dir && n.kind == "symlink" {
		return // the kernel sends no SETATTR for symlinks
	}
	what := rapid.SampledFrom([]string{"mode", "mode", "size", "size", "size+mode", "uid", "gid", "uid+mode"}).Draw(c.rt, "what")
	if n.dir || n.kind != "file" {
		// truncate(2) on anything but a regular file is refused by the VFS.
		switch what {
		case "size", "size+mode":
			what = "mode"
		}
	}
	in := &go_fuse.SetAttrIn{}
	in.InHeader = header(kn)
	arg := what
	size := 0
	exec := false
	if what == "size" || what == "size+mode" {
		size = rapid.IntRange(0, len(n.content)+3).Draw(c.rt, "size")
		if size > 48 {
			size = 48
		}
		in.Valid |= go_fuse.FATTR_SIZE
		in.Size = uint64(size)
		arg += fmt.Sprintf(" size=%d", size)
	}
	if what == "mode" || what == "size+mode" || what == "uid+mode" {
		exec = rapid.Bool().Draw(c.rt, "executable")
		in.Valid |= go_fuse.FATTR_MODE
		in.Mode = 0o644
		if exec {
			in.Mode = 0o755
		}
		arg += fmt.Sprintf(" mode=%#o", in.Mode)
	}
	if what == "uid" || what == "uid+mode" {
		in.Valid |= go_fuse.FATTR_UID
		in.Uid = 1000
	}
	if what == "gid" {
		in.Valid |= go_fuse.FATTR_GID
		in.Gid = 1000
	}
	c.noteNodeUse(kn)
	c.begin(ffStep{Op: "SetAttr", Node: c.nname(kn), Arg: arg}, false)
	want := one(rOK)
	switch {
	case in.Valid&(go_fuse.FATTR_UID|go_fuse.FATTR_GID) != 0:
		// Ownership is not tracked; the tree documents EPERM.
		want = one(rPerm)
	case in.Valid&go_fuse.FATTR_SIZE != 0 && !n.alive():
		want = one(rStale)
	default:
		if in.Valid&go_fuse.FATTR_SIZE != 0 {
			n.content = resize(n.content, size)
		}
		if in.Valid&go_fuse.FATTR_MODE != 0 && n.kind == "file" {
			n.exec = exec
		}
	}
	var out go_fuse.AttrOut
	var st go_fuse.Status
	c.real(func() { st = c.w.rfs.SetAttr(nil, in, &out) })
	if c.checkStatus("SetAttr", want, st) {
		c.checkAttr("SetAttr reply", n, &out.Attr)
	}
	c.finish()
}

func (c *ffCase) opAccess() {
	kn := c.pickAnyNode("node")
	n := kn.m
	mask := uint32(rapid.IntRange(0, 7).Draw(c.rt, "mask"))
	c.noteNodeUse(kn)
	c.begin(ffStep{Op: "Access", Node: c.nname(kn), Arg: fmt.Sprintf("mask=%d", mask)}, false)
	mode, _, _ := wantAttr(n)
	want := one(rOK)
	if mask&go_fuse.R_OK != 0 && mode&0o444 == 0 || mask&go_fuse.W_OK != 0 && mode&0o222 == 0 || mask&go_fuse.X_OK != 0 && mode&0o111 == 0 {
		want = one(rAcces)
	}
	var st go_fuse.Status
	in := &go_fuse.AccessIn{InHeader: header(kn), Mask: mask}
	c.real(func() { st = c.w.rfs.Access(nil, in) })
	c.checkStatus("Access", want, st)
	c.finish()
}

func (c *ffCase) opUnlinkOrRmdir() {
	kn := c.pickDirNode("dir")
	d := kn.m
	name := c.pickNameP(d, "name", 8)
	rmdir := rapid.Bool().Draw(c.rt, "rmdir")
	// Mostly the variant that fits the entry, as the kernel would choose.
	if !d.uninit {
		if e := c.m.lookup(d, name); e != nil && rapid.IntRange(0, 9).Draw(c.rt, "fitting") < 8 {
			rmdir = e.child.dir
		}
	}
	fn := "Unlink"
	if rmdir {
		fn = "Rmdir"
	}
	c.noteNodeUse(kn)
	c.noteDirMutation(d)
	c.begin(ffStep{Op: fn, Node: c.nname(kn), Name: name}, false)
	want := c.m.opRemove(d, name, rmdir, !rmdir)
	var st go_fuse.Status
	h := header(kn)
	c.real(func() {
		if rmdir {
			st = c.w.rfs.Rmdir(nil, &h, name)
		} else {
			st = c.w.rfs.Unlink(nil, &h, name)
		}
	})
	if st == go_fuse.Status(syscall.ENOTEMPTY) {
		c.sawRemoveHard = true
	}
	c.checkStatus(fn, want, st)
	c.finish()
}

func (c *ffCase) opRename() {
	knOld := c.pickDirNode("old_dir")
	knNew := knOld
	if rapid.IntRange(0, 9).Draw(c.rt, "cross_directory") < 6 {
		knNew = c.pickDirNode("new_dir")
	}
	dOld, dNew := knOld.m, knNew.m
	oldName := c.pickNameP(dOld, "old_name", 9)
	newName := c.pickNameP(dNew, "new_name", 5)
	// The VFS refuses to move a directory into its own subtree before the
	// request is sent (the code carries a TODO for the missing check).
	if !dOld.uninit {
		if e := c.m.lookup(dOld, oldName); e != nil && e.child.dir && c.m.isAncestorOrSelf(e.child, dNew) {
			c.rec.Exclude("Rename of a directory into its own subtree (the kernel refuses this before calling the server)")
			return
		}
	}
	c.noteNodeUse(knOld)
	c.noteNodeUse(knNew)
	c.noteDirMutation(dOld)
	c.noteDirMutation(dNew)
	c.begin(ffStep{Op: "Rename", Node: c.nname(knOld), Name: oldName, Node2: c.nname(knNew), Name2: newName}, false)
	var over *mNode
	var moved *mNode
	if !dOld.uninit && !dNew.uninit {
		if e := c.m.lookup(dNew, newName); e != nil {
			over = e.child
		}
		if e := c.m.lookup(dOld, oldName); e != nil {
			moved = e.child
		}
	}
	want := c.m.opRename(dOld, oldName, dNew, newName)
	var st go_fuse.Status
	in := &go_fuse.RenameIn{InHeader: header(knOld), Newdir: knNew.id}
	c.real(func() { st = c.w.rfs.Rename(nil, in, oldName, newName) })
	if st == go_fuse.Status(syscall.ENOTEMPTY) {
		c.sawRemoveHard = true
	}
	if c.checkStatus("Rename", want, st) && over != nil && moved != nil && over != moved {
		c.sawRenameOver = true
		if over.dir {
			c.labels["rename_over_empty_directory"] = true
		}
	}
	c.finish()
}

func (c *ffCase) opLink() {
	leaves := c.leafNodes(func(n *mNode) bool { return true })
	if len(leaves) == 0 {
		return
	}
	kl := leaves[rapid.IntRange(0, len(leaves)-1).Draw(c.rt, "leaf")]
	leaf := kl.m
	if leaf.kind == "symlink" && c.m.symCount[leaf.tag] > 1 {
		c.rec.Exclude("Link of a symlink node ID that stands for several symlink objects with one target (which object gets linked is not specified)")
		return
	}
	kn := c.pickDirNode("dir")
	d := kn.m
	name := c.pickNewName(d, "name")
	c.noteNodeUse(kn)
	c.noteNodeUse(kl)
	c.noteDirMutation(d)
	c.begin(ffStep{Op: "Link", Node: c.nname(kn), Name: name, Node2: c.nname(kl)}, false)
	want := c.m.opLink(d, name, leaf)
	var out go_fuse.EntryOut
	var st go_fuse.Status
	in := &go_fuse.LinkIn{InHeader: header(kn), Oldnodeid: kl.id}
	c.real(func() { st = c.w.rfs.Link(nil, in, name, &out) })
	if c.checkStatus("Link", want, st) {
		ck := c.gotEntry("Link reply", leaf, &out)
		if ck != kl {
			c.fail("Link reply carries node ID %d, the linked node is %d: hard links must share one node", out.NodeId, kl.id)
		}
		c.sawHardLink = true
	}
	c.finish()
}

func (c *ffCase) opReadlink() {
	cands := c.leafNodes(func(n *mNode) bool { return n.kind == "symlink" })
	if len(cands) == 0 {
		return
	}
	kn := cands[rapid.IntRange(0, len(cands)-1).Draw(c.rt, "symlink")]
	c.begin(ffStep{Op: "Readlink", Node: c.nname(kn)}, false)
	var target []byte
	var st go_fuse.Status
	h := header(kn)
	c.real(func() { target, st = c.w.rfs.Readlink(nil, &h) })
	if c.checkStatus("Readlink", one(rOK), st) && string(target) != kn.m.tag {
		c.fail("Readlink returned %q, the symlink was created with target %q", target, kn.m.tag)
	}
	c.finish()
}

// ---------------------------------------------------------------- directory handles

func (c *ffCase) opOpenDir() {
	if len(c.dirs) >= ffMaxDirHandles {
		return
	}
	// Of two candidates the fuller one is listed, so that listings usually
	// need several pages.
	kn := c.pickDirNode("dir")
	if kn2 := c.pickDirNode("dir_alt"); len(c.m.visibleEnts(kn2.m)) > len(c.m.visibleEnts(kn.m)) {
		kn = kn2
	}
	c.noteNodeUse(kn)
	c.begin(ffStep{Op: "OpenDir", Node: c.nname(kn)}, false)
	var st go_fuse.Status
	in := &go_fuse.OpenIn{InHeader: header(kn)}
	c.real(func() { st = c.w.rfs.OpenDir(nil, in, &go_fuse.OpenOut{}) })
	if c.checkStatus("OpenDir", one(rOK), st) {
		dh := &kDir{idx: c.nextFh, node: kn, start: c.m.tick}
		c.nextFh++
		c.dirs = append(c.dirs, dh)
		kn.handles++
		c.note("->dh%d", dh.idx)
	}
	c.finish()
}

func (c *ffCase) opReleaseDir() {
	if len(c.dirs) == 0 {
		return
	}
	i := rapid.IntRange(0, len(c.dirs)-1).Draw(c.rt, "dir_handle")
	dh := c.dirs[i]
	c.begin(ffStep{Op: "ReleaseDir", Node: c.nname(dh.node), Arg: fmt.Sprintf("dh%d", dh.idx)}, false)
	c.real(func() { c.w.rfs.ReleaseDir(&go_fuse.ReleaseIn{InHeader: header(dh.node)}) })
	c.dirs = append(c.dirs[:i:i], c.dirs[i+1:]...)
	dh.node.handles--
	c.script[len(c.script)-1].Res = rOK
	c.finish()
}

// opReadDir sends one READDIR or READDIRPLUS on an open directory handle,
// from the current position or (seekdir) from 0 or any offset returned
// before on this handle.
func (c *ffCase) opReadDir() {
	if len(c.dirs) == 0 {
		return
	}
	i := rapid.IntRange(0, len(c.dirs)-1).Draw(c.rt, "dir_handle")
	dh := c.dirs[i]
	kn := dh.node
	d := kn.m
	if rapid.IntRange(0, 9).Draw(c.rt, "seek") == 0 && (len(dh.hist) > 0 || dh.pos > 0) {
		// seekdir to an offset handed out earlier; -1 = rewinddir.
		j := rapid.IntRange(-1, len(dh.hist)-1).Draw(c.rt, "seek_to")
		if j < 0 {
			dh.hist, dh.pos, dh.start, dh.pages, dh.mixed = nil, 0, c.m.tick+1, 0, false
		} else {
			dh.hist = dh.hist[:j+1]
			dh.pos = dh.hist[j].off
		}
		c.labels["listing_seek_back"] = true
		if c.mutations[d] != dh.mutAtLast {
			c.sawReaddirAfter = true
		}
	}
	plus := rapid.Bool().Draw(c.rt, "plus")
	capacity := rapid.SampledFrom([]int{1, 1, 2, 2, 3}).Draw(c.rt, "capacity")
	fn := "ReadDir"
	if plus {
		fn = "ReadDirPlus"
	}
	c.noteNodeUse(kn)
	c.begin(ffStep{Op: fn, Node: c.nname(kn), Arg: fmt.Sprintf("dh%d off=%d cap=%d", dh.idx, dh.pos, capacity)}, false)
	if dh.pos == 0 {
		dh.start = c.m.tick
	}
	if dh.pages > 0 && c.mutations[d] != dh.mutAtLast {
		dh.mixed = true
		c.sawInterleaved = true
	}
	list := &ffEntryList{capacity: capacity}
	// The dot entries are produced by the front end itself; the directory
	// is only consulted when they fit.
	dots := 0
	if dh.pos < 2 {
		dots = 2 - int(dh.pos)
	}
	if capacity >= dots {
		c.m.need(d)
	}
	var st go_fuse.Status
	in := &go_fuse.ReadIn{InHeader: header(kn), Offset: dh.pos}
	c.real(func() {
		if plus {
			st = c.w.rfs.ReadDirPlus(nil, in, list)
		} else {
			st = c.w.rfs.ReadDir(nil, in, list)
		}
	})
	if list.problem != "" {
		c.fail("%s", list.problem)
	}
	if c.checkStatus(fn, one(rOK), st) {
		log := " ->"
		for k, de := range list.entries {
			if de.Off <= dh.pos {
				c.fail("%s: offset %d of %q does not exceed the offset the request resumed from (%d)", fn, de.Off, de.Name, dh.pos)
			}
			log += " " + de.Name
			if de.Off <= 2 {
				want := []string{".", ".."}[de.Off-1]
				if de.Name != want || de.Mode != syscall.S_IFDIR {
					c.fail("%s: entry at offset %d is %q mode %#o, expected %q", fn, de.Off, de.Name, de.Mode, want)
				}
				if plus && *list.outs[k] != (go_fuse.EntryOut{}) {
					c.fail("%s: the %q entry carries a lookup reply", fn, de.Name)
				}
				dh.pos = de.Off
				continue
			}
			var out *go_fuse.EntryOut
			if plus {
				out = list.outs[k]
			}
			child := c.checkDirEntry(fmt.Sprintf("%s(dh%d)", fn, dh.idx), d, de, out)
			if child != nil {
				// READDIRPLUS lookups count as lookups.
				ck := c.gotEntry(fn+" lookup reply", child, out)
				log += fmt.Sprintf("(n%d x%d)", ck.idx, ck.nlookup)
				c.sawPlusLookup = true
			}
			var e *mEnt
			for _, x := range d.ents {
				if x.name == de.Name {
					e = x
				}
			}
			for _, h := range dh.hist {
				if h.eid == e.eid {
					c.fail("%s(dh%d) reported entry %q twice in one pass (same incarnation)", fn, dh.idx, e.name)
				}
			}
			dh.hist = append(dh.hist, kDirItem{eid: e.eid, off: de.Off})
			dh.pos = de.Off
		}
		dh.pages++
		dh.mutAtLast = c.mutations[d]
		if !list.refused {
			// The pass ran to the end: every visible entry that was there
			// from its start until now must have been reported exactly once.
			counts := map[int]int{}
			for _, h := range dh.hist {
				counts[h.eid]++
			}
			for _, e := range d.history {
				if e.hidden || e.born >= dh.start || e.died != -1 {
					continue
				}
				if counts[e.eid] != 1 {
					c.fail("listing dh%d of %s reached the end; entry %q existed during the whole pass but was reported %d times (offsets seen %v)", dh.idx, c.dname(d), e.name, counts[e.eid], dh.hist)
				}
			}
			c.listingsDone++
			if dh.mixed {
				c.labels["listing_completed_across_mutation"] = true
			}
			log += " (end)"
			// rewinddir: the next READDIR on this handle starts a new pass.
			dh.hist, dh.pos, dh.pages, dh.mixed = nil, 0, 0, false
		}
		c.note("%s", log)
	}
	c.finish()
}

// ---------------------------------------------------------------- forgetting

func (c *ffCase) dropNode(kn *kNode) {
	delete(c.nodes, kn.id)
	for i, x := range c.order {
		if x == kn {
			c.order = append(c.order[:i:i], c.order[i+1:]...)
		}
	}
}

// forget sends FORGET(node, count) and does the kernel's side of it.
func (c *ffCase) forget(kn *kNode, count uint64) {
	c.real(func() { c.w.rfs.Forget(kn.id, count) })
	kn.nlookup -= count
	if kn.nlookup == 0 {
		c.dropNode(kn)
		c.fullForgets++
	} else {
		c.partialForgets++
	}
}

// drawForgetCount: a node with open handles is pinned by the kernel, so it
// is never forgotten completely; otherwise partial and complete forgets are
// both drawn.
func (c *ffCase) drawForgetCount(kn *kNode) uint64 {
	max := kn.nlookup
	if kn.handles > 0 {
		max--
	}
	if max == 0 {
		return 0
	}
	if kn.handles == 0 && rapid.IntRange(0, 9).Draw(c.rt, "complete") < 5 {
		return kn.nlookup
	}
	return uint64(rapid.IntRange(1, int(max)).Draw(c.rt, "count"))
}

func (c *ffCase) forgettable() []*kNode {
	var out []*kNode
	for _, kn := range c.order {
		if kn.id != go_fuse.FUSE_ROOT_ID {
			out = append(out, kn)
		}
	}
	return out
}

func (c *ffCase) opForget() {
	cands := c.forgettable()
	if len(cands) == 0 {
		return
	}
	// Half of the time a node with several lookups is chosen and forgotten
	// partially.
	var multi []*kNode
	for _, kn := range cands {
		if kn.nlookup >= 2 {
			multi = append(multi, kn)
		}
	}
	var kn *kNode
	var count uint64
	if len(multi) > 0 && rapid.IntRange(0, 9).Draw(c.rt, "partial") < 7 {
		kn = multi[rapid.IntRange(0, len(multi)-1).Draw(c.rt, "multi_node")]
		count = uint64(rapid.IntRange(1, int(kn.nlookup)-1).Draw(c.rt, "partial_count"))
	} else {
		kn = cands[rapid.IntRange(0, len(cands)-1).Draw(c.rt, "node")]
		count = c.drawForgetCount(kn)
	}
	if count == 0 {
		return
	}
	c.begin(ffStep{Op: "Forget", Node: c.nname(kn), Arg: fmt.Sprintf("%d of %d", count, kn.nlookup)}, false)
	c.forget(kn, count)
	c.script[len(c.script)-1].Res = rOK
	c.finish()
}

// opBatchForget: FUSE_BATCH_FORGET is delivered by go-fuse as a run of
// Forget calls.
func (c *ffCase) opBatchForget() {
	cands := c.forgettable()
	if len(cands) < 2 {
		return
	}
	c.begin(ffStep{Op: "BatchForget"}, false)
	n := 0
	for _, kn := range cands {
		if rapid.IntRange(0, 9).Draw(c.rt, "include") < 5 {
			continue
		}
		count := c.drawForgetCount(kn)
		if count == 0 {
			continue
		}
		c.note(" %s:%d/%d", c.nname(kn), count, kn.nlookup)
		c.forget(kn, count)
		n++
	}
	if n >= 2 {
		c.batchForgets++
	}
	c.script[len(c.script)-1].Res = rOK
	c.finish()
}

// opMisc: requests that do not touch the tree.
func (c *ffCase) opMisc() {
	kn := c.pickAnyNode("node")
	which := rapid.SampledFrom([]string{"StatFs", "GetXAttr", "ListXAttr", "SetXAttr", "RemoveXAttr", "FsyncDir"}).Draw(c.rt, "which")
	if which == "FsyncDir" && !kn.m.dir {
		which = "StatFs"
	}
	c.begin(ffStep{Op: which, Node: c.nname(kn)}, false)
	var st go_fuse.Status
	h := header(kn)
	want := one(rNoSys)
	c.real(func() {
		switch which {
		case "StatFs":
			var out go_fuse.StatfsOut
			st = c.w.rfs.StatFs(nil, &h, &out)
			want = one(rOK)
			if st == go_fuse.OK && out.NameLen != 255 {
				c.fail("StatFs reports a maximum name length of %d, documented is 255", out.NameLen)
			}
		case "GetXAttr":
			_, st = c.w.rfs.GetXAttr(nil, &h, "user.x", make([]byte, 16))
		case "ListXAttr":
			_, st = c.w.rfs.ListXAttr(nil, &h, make([]byte, 16))
		case "SetXAttr":
			st = c.w.rfs.SetXAttr(nil, &go_fuse.SetXAttrIn{InHeader: h}, "user.x", []byte("v"))
		case "RemoveXAttr":
			st = c.w.rfs.RemoveXAttr(nil, &h, "user.x")
		case "FsyncDir":
			st = c.w.rfs.FsyncDir(nil, &go_fuse.FsyncIn{InHeader: h})
			want = one(rOK)
		}
	})
	c.checkStatus(which, want, st)
	c.finish()
}

package fusefront

import (
	"fmt"
	"syscall"

	"github.com/buildbarn/bb-remote-execution/pkg/filesystem/virtual"
	"github.com/buildbarn/bb-storage/pkg/filesystem/path"
	"pgregory.net/rapid"
)

// Worker-facing bulk calls on the underlying PrepopulatedDirectory,
// interleaved with the kernel's requests. They change the tree behind the
// kernel's back; the front end has to tell the kernel through EntryNotify.

func errName(err error) string {
	switch err {
	case nil:
		return rOK
	case syscall.ENOENT:
		return rNoEnt
	case syscall.EEXIST:
		return rExist
	case syscall.ENOTEMPTY:
		return rNotEmpty
	}
	return "ERR(" + err.Error() + ")"
}

func (c *ffCase) checkErr(fn string, want []string, err error) bool {
	got := errName(err)
	c.script[len(c.script)-1].Res = got
	c.statusCounts[fn+":"+got]++
	if !contains(want, got) {
		c.fail("%s returned %s, the reference tree says %v", fn, got, want)
	}
	return got == rOK
}

// pickBoundDir chooses a directory whose real object is known; removed
// ones with a fixed share.
func (c *ffCase) pickBoundDir(label string) *mNode {
	var live, dead []*mNode
	for _, d := range c.bound {
		if d.deleted {
			dead = append(dead, d)
		} else {
			live = append(live, d)
		}
	}
	if len(dead) > 0 && (len(live) == 0 || rapid.IntRange(0, 9).Draw(c.rt, label+"_removed") < 2) {
		return dead[rapid.IntRange(0, len(dead)-1).Draw(c.rt, label)]
	}
	return live[rapid.IntRange(0, len(live)-1).Draw(c.rt, label)]
}

func (c *ffCase) noteKernelKnows(d *mNode) {
	if d == c.m.root || d.ino != 0 && c.nodes[d.ino] != nil {
		c.labels["bulk_call_on_directory_held_by_kernel"] = true
	}
}

// drawSpec draws the declared contents of a lazily populated directory.
func (c *ffCase) drawSpec(depth int, dirBudget *int) *ffSpec {
	spec := &ffSpec{}
	n := rapid.IntRange(0, 3).Draw(c.rt, "lazy_children")
	used := map[string]bool{}
	for i := 0; i < n; i++ {
		name := rapid.SampledFrom(ffAlphabet).Draw(c.rt, "lazy_name")
		if used[c.m.norm(name)] {
			continue
		}
		used[c.m.norm(name)] = true
		kind := rapid.SampledFrom([]string{"file", "file", "symlink", "dir"}).Draw(c.rt, "lazy_kind")
		ch := ffSpecChild{Name: name, Kind: kind}
		switch kind {
		case "dir":
			if depth <= 0 || *dirBudget <= 0 {
				ch.Kind = "file"
				ch.Tag = c.nextTag()
			} else {
				*dirBudget--
				ch.Sub = c.drawSpec(depth-1, dirBudget)
			}
		case "file":
			ch.Tag = c.nextTag()
		case "symlink":
			ch.Tag = rapid.SampledFrom(ffTargets).Draw(c.rt, "lazy_target")
		}
		spec.Children = append(spec.Children, ch)
	}
	return spec
}

func (c *ffCase) opCreateChildren() {
	d := c.pickBoundDir("dir")
	overwrite := rapid.Bool().Draw(c.rt, "overwrite")
	n := rapid.IntRange(1, 3).Draw(c.rt, "children")
	budget := ffMaxLiveDirs - c.m.liveDirCount()
	type newChild struct {
		name string
		kind string
		spec *ffSpec
		node *mNode
		leaf virtual.LinkableLeaf
	}
	var kids []newChild
	used := map[string]bool{}
	for i := 0; i < n; i++ {
		name := c.pickName(d, "child_name")
		if used[c.m.norm(name)] {
			c.rec.Exclude("CreateChildren with two names that collide under the normaliser (callers never do that)")
			continue
		}
		used[c.m.norm(name)] = true
		kind := rapid.SampledFrom([]string{"dir", "dir", "file", "symlink"}).Draw(c.rt, "child_kind")
		k := newChild{name: name, kind: kind}
		if kind == "dir" {
			if budget <= 0 {
				k.kind = "file"
			} else {
				budget--
				k.spec = c.drawSpec(1, &budget)
			}
		}
		kids = append(kids, k)
	}
	if len(kids) == 0 {
		return
	}
	c.noteDirMutation(d)
	c.noteKernelKnows(d)
	arg := fmt.Sprintf("overwrite=%v", overwrite)
	realKids := map[path.Component]virtual.InitialChild{}
	var mkids []mNewChild
	for i := range kids {
		k := &kids[i]
		switch k.kind {
		case "dir":
			k.node = c.m.newDir(k.spec)
			realKids[comp(k.name)] = virtual.InitialChild{}.FromDirectory(newFfFetcher(c.w, k.spec))
			arg += fmt.Sprintf(" %s=dir%s", k.name, k.spec.text())
		case "file":
			tag := c.nextTag()
			k.node = c.m.newLeaf("file")
			k.node.content = []byte(tag)
			c.real(func() { k.leaf = c.w.newFileLeaf([]byte(tag)) })
			realKids[comp(k.name)] = virtual.InitialChild{}.FromLeaf(k.leaf)
			arg += fmt.Sprintf(" %s=file(%s)", k.name, tag)
		case "symlink":
			target := rapid.SampledFrom(ffTargets).Draw(c.rt, "child_target")
			k.node = c.m.newSymlink(target)
			c.real(func() { k.leaf = c.w.newSymlinkLeaf(target) })
			realKids[comp(k.name)] = virtual.InitialChild{}.FromLeaf(k.leaf)
			arg += fmt.Sprintf(" %s=symlink(%s)", k.name, target)
		}
		mkids = append(mkids, mNewChild{name: k.name, node: k.node})
	}
	c.begin(ffStep{Op: "CreateChildren", Node: c.dname(d), Arg: arg}, true)
	want := c.m.opCreateChildren(d, mkids, overwrite)
	var err error
	c.real(func() { err = d.realDir.CreateChildren(realKids, overwrite) })
	if !c.checkErr("CreateChildren", want, err) {
		// The call did not take ownership: the caller drops its leaves,
		// and the directories never come to exist.
		for i := range kids {
			k := &kids[i]
			if k.leaf != nil {
				c.real(func() { k.leaf.Unlink() })
				if k.node.kind != "symlink" {
					k.node.nlink = 0
				}
			} else {
				k.node.deleted = true
				k.node.uninit = false
			}
		}
	}
	c.finish()
}

func (c *ffCase) opCreateAndEnter() {
	d := c.pickBoundDir("dir")
	name := c.pickName(d, "name")
	if !d.deleted && c.m.liveDirCount() >= ffMaxLiveDirs {
		if e := c.m.lookup(d, name); d.uninit || e == nil || !e.child.dir {
			c.rec.Exclude("CreateAndEnterPrepopulatedDirectory skipped: the case already has 6 live directories (size bound)")
			return
		}
	}
	c.noteDirMutation(d)
	c.noteKernelKnows(d)
	c.begin(ffStep{Op: "CreateAndEnterPrepopulatedDirectory", Node: c.dname(d), Name: name}, true)
	want, child := c.m.opCreateAndEnter(d, name)
	var rd virtual.PrepopulatedDirectory
	var err error
	c.real(func() { rd, err = d.realDir.CreateAndEnterPrepopulatedDirectory(comp(name)) })
	if c.checkErr("CreateAndEnterPrepopulatedDirectory", want, err) {
		if rd == nil {
			c.fail("CreateAndEnterPrepopulatedDirectory returned nil without an error")
		}
		c.bind(child, rd)
	}
	c.finish()
}

func (c *ffCase) opWorkerRemove() {
	d := c.pickBoundDir("dir")
	name := c.pickName(d, "name")
	all := rapid.Bool().Draw(c.rt, "recursive")
	fn := "Remove"
	if all {
		fn = "RemoveAll"
	}
	c.noteKernelKnows(d)
	c.begin(ffStep{Op: fn, Node: c.dname(d), Name: name}, true)
	var want []string
	if all {
		want = c.m.opRemoveAll(d, name)
	} else {
		want = c.m.opRemove(d, name, true, true)
	}
	var err error
	c.real(func() {
		if all {
			err = d.realDir.RemoveAll(comp(name))
		} else {
			err = d.realDir.Remove(comp(name))
		}
	})
	if err == syscall.ENOTEMPTY {
		c.sawRemoveHard = true
	}
	c.checkErr(fn, want, err)
	c.finish()
}

func (c *ffCase) opRemoveAllChildren() {
	d := c.pickBoundDir("dir")
	deleteSelf := rapid.IntRange(0, 3).Draw(c.rt, "forbid_new_children") == 0
	if deleteSelf && d == c.m.root {
		// Tombstoning the root ends the interesting part of a case.
		deleteSelf = rapid.IntRange(0, 3).Draw(c.rt, "really_root") == 0
	}
	c.noteKernelKnows(d)
	c.begin(ffStep{Op: "RemoveAllChildren", Node: c.dname(d), Arg: fmt.Sprintf("forbidNewChildren=%v", deleteSelf)}, true)
	c.m.removeAllChildren(d, deleteSelf)
	var err error
	c.real(func() { err = d.realDir.RemoveAllChildren(deleteSelf) })
	c.checkErr("RemoveAllChildren", one(rOK), err)
	c.finish()
}

// ffFilterItem is one child FilterChildren is expected to report, in the
// order the code documents: the leaves of a directory in listing order, then
// its subdirectories recursively; an uninitialised directory is reported as
// one item (its InitialContentsFetcher).
type ffFilterItem struct {
	d *mNode
	e *mEnt // nil: the uninitialised directory d itself
}

func (c *ffCase) filterExpected(d *mNode, out *[]ffFilterItem) {
	if d.uninit {
		*out = append(*out, ffFilterItem{d: d})
		return
	}
	for _, e := range d.ents {
		if !e.child.dir {
			*out = append(*out, ffFilterItem{d: d, e: e})
		}
	}
	for _, e := range d.ents {
		if e.child.dir {
			c.filterExpected(e.child, out)
		}
	}
}

func (c *ffCase) opFilterChildren() {
	d := c.pickBoundDir("dir")
	c.noteKernelKnows(d)
	c.begin(ffStep{Op: "FilterChildren", Node: c.dname(d)}, true)
	var expected []ffFilterItem
	c.filterExpected(d, &expected)
	for _, it := range expected {
		if it.e != nil && it.e.hidden {
			c.script = c.script[:len(c.script)-1]
			c.rec.Exclude("FilterChildren over a subtree that holds a hidden file (whether hidden files are reported to the filter is not documented)")
			return
		}
	}
	next := 0
	stopped := false
	log := ""
	callback := func(child virtual.InitialChild, remove virtual.ChildRemover) bool {
		if stopped {
			c.fail("FilterChildren called the filter again after it had returned false")
		}
		// No lock may be held while the filter runs: the remover takes the
		// directory lock itself.
		c.probeLocks("inside the FilterChildren callback ")
		if next >= len(expected) {
			c.fail("FilterChildren reported more children than the reference tree has below %s", c.dname(d))
		}
		item := expected[next]
		next++
		fetcher, _ := child.GetPair()
		if (fetcher != nil) != (item.e == nil) {
			c.fail("FilterChildren reported child #%d as directory=%v, the reference tree expects directory=%v there", next-1, fetcher != nil, item.e == nil)
		}
		switch rapid.SampledFrom([]string{"keep", "keep", "remove", "remove", "stop"}).Draw(c.rt, "filter_action") {
		case "remove":
			var err error
			c.real(func() { err = remove() })
			if item.e == nil {
				c.m.removeAllChildren(item.d, false)
				log += fmt.Sprintf(" clear(%s)", c.dname(item.d))
				if err != nil {
					c.fail("the remover of an uninitialised directory failed: %v", err)
				}
			} else {
				want := c.m.opRemove(item.d, item.e.name, true, true)
				log += fmt.Sprintf(" rm(%s/%s)", c.dname(item.d), item.e.name)
				if !contains(want, errName(err)) {
					c.fail("the remover of %s/%q returned %v, the reference tree says %v", c.dname(item.d), item.e.name, err, want)
				}
			}
		case "stop":
			stopped = true
			log += " stop"
			return false
		}
		return true
	}
	var err error
	c.real(func() { err = d.realDir.FilterChildren(callback) })
	c.note("%s", log)
	c.checkErr("FilterChildren", one(rOK), err)
	if !stopped && next != len(expected) {
		c.fail("FilterChildren(%s) ran to the end but reported only %d of the %d children the reference tree has", c.dname(d), next, len(expected))
	}
	c.finish()
}

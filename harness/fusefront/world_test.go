package fusefront

import (
	"context"
	"fmt"
	"io"
	"sort"
	"time"

	"github.com/buildbarn/bb-remote-execution/pkg/filesystem/pool"
	"github.com/buildbarn/bb-remote-execution/pkg/filesystem/virtual"
	re_fuse "github.com/buildbarn/bb-remote-execution/pkg/filesystem/virtual/fuse"
	"github.com/buildbarn/bb-storage/pkg/clock"
	"github.com/buildbarn/bb-storage/pkg/filesystem"
	"github.com/buildbarn/bb-storage/pkg/filesystem/path"
	go_fuse "github.com/hanwen/go-fuse/v2/fuse"
)

// ---------------------------------------------------------------- clock

// ffClock is a clock.Clock whose time only moves when the harness says so.
// InMemoryPrepopulatedDirectory only calls Now().
type ffClock struct {
	now time.Time
}

var _ clock.Clock = (*ffClock)(nil)

func (c *ffClock) Now() time.Time { return c.now }

func (c *ffClock) NewContextWithTimeout(parent context.Context, timeout time.Duration) (context.Context, context.CancelFunc) {
	panic("ffClock: NewContextWithTimeout is not expected to be used by the directory code")
}

func (c *ffClock) NewTimer(d time.Duration) (clock.Timer, <-chan time.Time) {
	panic("ffClock: NewTimer is not expected to be used by the directory code")
}

func (c *ffClock) NewTicker(d time.Duration) (clock.Ticker, <-chan time.Time) {
	panic("ffClock: NewTicker is not expected to be used by the directory code")
}

// ---------------------------------------------------------------- rng

// ffRNG is a deterministic random.ThreadSafeGenerator: Uint64 is a bijection
// of a counter (splitmix64 finaliser), so inode numbers handed out by the
// FUSE handle allocator never collide within a case.
type ffRNG struct {
	ctr uint64
}

func ffMix(x uint64) uint64 {
	x += 0x9E3779B97F4A7C15
	x = (x ^ (x >> 30)) * 0xBF58476D1CE4E5B9
	x = (x ^ (x >> 27)) * 0x94D049BB133111EB
	return x ^ (x >> 31)
}

func (r *ffRNG) Uint64() uint64 {
	r.ctr++
	return ffMix(r.ctr)
}
func (r *ffRNG) Uint32() uint32       { return uint32(r.Uint64() >> 32) }
func (r *ffRNG) Float64() float64     { return float64(r.Uint64()>>11) / (1 << 53) }
func (r *ffRNG) Int64N(n int64) int64 { return int64(r.Uint64() % uint64(n)) }
func (r *ffRNG) IntN(n int) int       { return int(r.Uint64() % uint64(n)) }
func (r *ffRNG) IsThreadSafe()        {}
func (r *ffRNG) Read(p []byte) (int, error) {
	for i := range p {
		p[i] = byte(r.Uint64())
	}
	return len(p), nil
}

func (r *ffRNG) Shuffle(n int, swap func(i, j int)) {
	for i := n - 1; i > 0; i-- {
		swap(i, r.IntN(i+1))
	}
}

// ---------------------------------------------------------------- error logger

type ffErrorLogger struct {
	count int
	last  string
}

func (l *ffErrorLogger) Log(err error) {
	l.count++
	l.last = err.Error()
}

// ---------------------------------------------------------------- file pool

// ffMemPool is a trivially correct pool.FilePool: every file is a byte
// slice without holes. The block device backed pool is C15's subject.
type ffMemPool struct {
	opened int
	closed int
}

func (p *ffMemPool) NewFile(holeSource pool.HoleSource, size uint64) (filesystem.FileReadWriter, error) {
	p.opened++
	return &ffMemFile{pool: p, data: make([]byte, size)}, nil
}

type ffMemFile struct {
	pool   *ffMemPool
	data   []byte
	closed bool
}

func (f *ffMemFile) check() {
	if f.closed {
		panic("fusefront: pool file used after Close")
	}
}

func (f *ffMemFile) Close() error {
	f.check()
	f.closed = true
	f.pool.closed++
	return nil
}

func (f *ffMemFile) ReadAt(p []byte, off int64) (int, error) {
	f.check()
	if off >= int64(len(f.data)) {
		return 0, io.EOF
	}
	n := copy(p, f.data[off:])
	if n < len(p) {
		return n, io.EOF
	}
	return n, nil
}

func (f *ffMemFile) WriteAt(p []byte, off int64) (int, error) {
	f.check()
	if end := off + int64(len(p)); end > int64(len(f.data)) {
		f.data = append(f.data, make([]byte, end-int64(len(f.data)))...)
	}
	copy(f.data[off:], p)
	return len(p), nil
}

func (f *ffMemFile) Truncate(size int64) error {
	f.check()
	if size <= int64(len(f.data)) {
		f.data = f.data[:size]
	} else {
		f.data = append(f.data, make([]byte, size-int64(len(f.data)))...)
	}
	return nil
}

func (f *ffMemFile) Sync() error { f.check(); return nil }

func (f *ffMemFile) Len() (int64, error) { f.check(); return int64(len(f.data)), nil }

// GetNextRegionOffset: the file is one data region followed by the implicit
// hole at the end.
func (f *ffMemFile) GetNextRegionOffset(offset int64, regionType filesystem.RegionType) (int64, error) {
	f.check()
	if offset >= int64(len(f.data)) {
		return 0, io.EOF
	}
	if regionType == filesystem.Data {
		return offset, nil
	}
	return int64(len(f.data)), nil
}

// ---------------------------------------------------------------- initial contents fetcher

// ffSpecChild describes one child a lazy directory will have once it is
// initialised.
type ffSpecChild struct {
	Name string  `json:"name"`
	Kind string  `json:"kind"` // "dir", "file", "symlink"
	Tag  string  `json:"tag,omitempty"`
	Sub  *ffSpec `json:"sub,omitempty"`
}

// ffSpec is the declared contents of a lazily populated directory.
type ffSpec struct {
	Children []ffSpecChild `json:"children,omitempty"`
}

func (s *ffSpec) dirCount() int {
	n := 0
	for _, c := range s.Children {
		if c.Kind == "dir" {
			n += 1 + c.Sub.dirCount()
		}
	}
	return n
}

func (s *ffSpec) text() string {
	out := "{"
	for i, c := range s.Children {
		if i > 0 {
			out += " "
		}
		switch c.Kind {
		case "dir":
			out += c.Name + "=dir" + c.Sub.text()
		default:
			out += fmt.Sprintf("%s=%s(%s)", c.Name, c.Kind, c.Tag)
		}
	}
	return out + "}"
}

// ffFetcher is the hand-written InitialContentsFetcher. Leaves are created
// through the real allocators only when FetchContents runs, so a directory
// that is never initialised owns nothing.
type ffFetcher struct {
	w         *ffWorld
	spec      *ffSpec
	successes int
	subs      map[string]*ffFetcher
}

func newFfFetcher(w *ffWorld, spec *ffSpec) *ffFetcher {
	f := &ffFetcher{w: w, spec: spec, subs: map[string]*ffFetcher{}}
	for _, c := range spec.Children {
		if c.Kind == "dir" {
			f.subs[c.Name] = newFfFetcher(w, c.Sub)
		}
	}
	return f
}

func (f *ffFetcher) VirtualApply(data any) bool { return false }

func (f *ffFetcher) FetchContents(fileReadMonitorFactory virtual.FileReadMonitorFactory) (map[path.Component]virtual.InitialChild, error) {
	f.successes++
	if f.successes > 1 {
		f.w.problems = append(f.w.problems, "InitialContentsFetcher.FetchContents was called again after it had succeeded")
	}
	out := map[path.Component]virtual.InitialChild{}
	for _, c := range f.spec.Children {
		name := path.MustNewComponent(c.Name)
		switch c.Kind {
		case "dir":
			out[name] = virtual.InitialChild{}.FromDirectory(f.subs[c.Name])
		case "file":
			out[name] = virtual.InitialChild{}.FromLeaf(f.w.newFileLeaf([]byte(c.Tag)))
		case "symlink":
			out[name] = virtual.InitialChild{}.FromLeaf(f.w.newSymlinkLeaf(c.Tag))
		default:
			panic("fusefront: bad spec kind " + c.Kind)
		}
	}
	return out, nil
}

// ---------------------------------------------------------------- the kernel's notification endpoint

// ffNotification is one EntryNotify the server sent to the "kernel".
type ffNotification struct {
	parent uint64
	name   string
}

// ffServerCallbacks is the fs.ServerCallbacks the front end gets in Init().
type ffServerCallbacks struct {
	w *ffWorld
}

func (s *ffServerCallbacks) DeleteNotify(parent, child uint64, name string) go_fuse.Status {
	s.w.problems = append(s.w.problems, "unexpected DeleteNotify from the front end")
	return go_fuse.OK
}

func (s *ffServerCallbacks) EntryNotify(parent uint64, name string) go_fuse.Status {
	w := s.w
	w.notifications = append(w.notifications, ffNotification{parent: parent, name: name})
	if w.onNotify != nil {
		w.onNotify(parent, name)
	}
	// The kernel answers ENOENT when it has no such dentry; both answers
	// are documented as fine.
	if len(w.notifications)%2 == 0 {
		return go_fuse.ENOENT
	}
	return go_fuse.OK
}

func (s *ffServerCallbacks) InodeNotify(node uint64, off, length int64) go_fuse.Status {
	s.w.problems = append(s.w.problems, "unexpected InodeNotify from the front end")
	return go_fuse.OK
}

func (s *ffServerCallbacks) InodeRetrieveCache(node uint64, offset int64, dest []byte) (int, go_fuse.Status) {
	s.w.problems = append(s.w.problems, "unexpected InodeRetrieveCache from the front end")
	return 0, go_fuse.OK
}

func (s *ffServerCallbacks) InodeNotifyStoreCache(node uint64, offset int64, data []byte) go_fuse.Status {
	s.w.problems = append(s.w.problems, "unexpected InodeNotifyStoreCache from the front end")
	return go_fuse.OK
}

// ---------------------------------------------------------------- world

// ffWorld is everything real that one case is wired to.
type ffWorld struct {
	ctx       context.Context
	clock     *ffClock
	rng       *ffRNG
	logger    *ffErrorLogger
	pool      *ffMemPool
	allocator *virtual.FUSEStatefulHandleAllocator
	files     virtual.FileAllocator
	links     virtual.SymlinkFactory
	caseFold  bool
	hidden    bool
	root      virtual.PrepopulatedDirectory
	rfs       re_fuse.RawFileSystem

	// problems found by fakes while inside a call (reported by the engine
	// after the call returns).
	problems      []string
	notifications []ffNotification
	onNotify      func(parent uint64, name string)
}

func newFfWorld(caseFold, hidden bool) *ffWorld {
	w := &ffWorld{
		ctx:      context.Background(),
		clock:    &ffClock{now: time.Unix(1000, 0)},
		rng:      &ffRNG{},
		logger:   &ffErrorLogger{},
		pool:     &ffMemPool{},
		caseFold: caseFold,
		hidden:   hidden,
	}
	w.allocator = virtual.NewFUSEHandleAllocator(w.rng)
	setter := func(requested virtual.AttributesMask, attributes *virtual.Attributes) {}
	w.files = virtual.NewHandleAllocatingFileAllocator(
		virtual.NewPoolBackedFileAllocator(w.pool, w.logger, setter, virtual.NoNamedAttributesFactory),
		w.allocator)
	w.links = virtual.NewHandleAllocatingSymlinkFactory(
		virtual.NewBaseSymlinkFactory(setter),
		w.allocator.New(),
		path.UNIXFormat)
	var normalizer virtual.ComponentNormalizer = virtual.CaseSensitiveComponentNormalizer
	if caseFold {
		normalizer = virtual.CaseInsensitiveComponentNormalizer
	}
	matcher := virtual.StringMatcher(func(string) bool { return false })
	if hidden {
		matcher = ffHiddenMatcher
	}
	w.root = virtual.NewInMemoryPrepopulatedDirectory(
		w.files, w.links, w.logger, w.allocator, sort.Sort, matcher, w.clock, normalizer, setter, virtual.NoNamedAttributesFactory)
	w.rfs = re_fuse.NewSimpleRawFileSystem(w.root, w.allocator.RegisterRemovalNotifier, re_fuse.AllowAuthenticator)
	return w
}

// newFileLeaf creates a fresh pool-backed regular file with link count one
// holding the given bytes, the way a worker-side caller would before
// handing it to CreateChildren.
func (w *ffWorld) newFileLeaf(content []byte) virtual.LinkableLeaf {
	leaf, err := w.files.NewFile(pool.ZeroHoleSource, false, 0, 0)
	if err != nil {
		panic(fmt.Sprintf("fusefront: cannot create file leaf: %v", err))
	}
	if len(content) > 0 {
		var attr virtual.Attributes
		if s := leaf.VirtualOpenSelf(w.ctx, virtual.ShareMaskWrite, &virtual.OpenExistingOptions{}, 0, &attr); s != virtual.StatusOK {
			panic(fmt.Sprintf("fusefront: cannot open fresh file leaf: status %d", s))
		}
		if n, s := leaf.VirtualWrite(w.ctx, content, 0); s != virtual.StatusOK || n != len(content) {
			panic(fmt.Sprintf("fusefront: cannot write fresh file leaf: n=%d status %d", n, s))
		}
		leaf.VirtualClose(virtual.ShareMaskWrite)
	}
	return leaf
}

// newSymlinkLeaf creates a symlink node through the real symlink factory.
func (w *ffWorld) newSymlinkLeaf(target string) virtual.LinkableLeaf {
	leaf, err := w.links.LookupSymlink(path.UNIXFormat.NewParser(target))
	if err != nil {
		panic(fmt.Sprintf("fusefront: cannot create symlink leaf: %v", err))
	}
	return leaf
}

package fusefront

import (
	"fmt"
	"strings"
	"syscall"
	"testing"
	"time"

	"github.com/buildbarn/bb-remote-execution/pkg/filesystem/virtual"
	go_fuse "github.com/hanwen/go-fuse/v2/fuse"
	"pgregory.net/rapid"

	"verif/harness/internal/simkit"
)

type ffWeighted struct {
	name   string
	weight int
	run    func(c *ffCase)
}

func ffOps() []ffWeighted {
	return []ffWeighted{
		// (rapid draws small indices more often: the requests that matter
		// most for the property come first.)
		{"readdir", 20, (*ffCase).opReadDir},
		{"rename", 12, (*ffCase).opRename},
		{"unlink_rmdir", 10, (*ffCase).opUnlinkOrRmdir},
		{"forget", 11, (*ffCase).opForget},
		{"lookup", 14, (*ffCase).opLookup},
		{"create", 9, (*ffCase).opCreate},
		{"opendir", 5, (*ffCase).opOpenDir},
		{"link", 6, (*ffCase).opLink},
		{"create_children", 5, (*ffCase).opCreateChildren},
		{"worker_remove", 4, (*ffCase).opWorkerRemove},
		{"mkdir", 7, (*ffCase).opMkdir},
		{"write", 6, (*ffCase).opWrite},
		{"release", 5, (*ffCase).opRelease},
		{"open", 5, (*ffCase).opOpen},
		{"symlink", 4, (*ffCase).opSymlink},
		{"mknod", 3, (*ffCase).opMknod},
		{"read", 4, (*ffCase).opRead},
		{"setattr", 4, (*ffCase).opSetAttr},
		{"remove_all_children", 2, (*ffCase).opRemoveAllChildren},
		{"batch_forget", 2, (*ffCase).opBatchForget},
		{"create_and_enter", 2, (*ffCase).opCreateAndEnter},
		{"filter_children", 2, (*ffCase).opFilterChildren},
		{"handle_misc", 3, (*ffCase).opHandleMisc},
		{"getattr", 3, (*ffCase).opGetAttr},
		{"readlink", 1, (*ffCase).opReadlink},
		{"access", 1, (*ffCase).opAccess},
		{"releasedir", 1, (*ffCase).opReleaseDir},
		{"misc", 1, (*ffCase).opMisc},
		{"clock", 1, func(c *ffCase) { c.w.clock.now = c.w.clock.now.Add(time.Second); c.script = append(c.script, ffStep{Op: "clock +1s"}) }},
	}
}

func newFfCase(rt *rapid.T, rec *simkit.Recorder, caseFold, hidden bool) *ffCase {
	w := newFfWorld(caseFold, hidden)
	c := &ffCase{
		rt: rt, rec: rec, w: w, m: newModel(caseFold, hidden),
		cfg:       fmt.Sprintf("{caseInsensitive:%v hiddenFiles:%v}", caseFold, hidden),
		nodes:     map[uint64]*kNode{},
		inoOwner:  map[uint64]string{},
		everSeen:  map[uint64]bool{},
		mutations: map[*mNode]int{}, statusCounts: map[string]int{}, labels: map[string]bool{},
	}
	// The removal notifier stands for the kernel being told to drop a
	// directory entry; the code documents that this must not happen while
	// directory locks are held.
	w.onNotify = func(parent uint64, name string) {
		for _, d := range c.bound {
			if free, known := virtual.VerifLockIsFree(d.realDir); known && !free {
				w.problems = append(w.problems, fmt.Sprintf("EntryNotify(%d, %q) was sent while the lock of directory %s was held", parent, name, c.dname(d)))
			}
		}
	}
	c.bind(c.m.root, w.root)
	root := &kNode{idx: 0, id: go_fuse.FUSE_ROOT_ID, m: c.m.root, nlookup: 1}
	c.nextNode = 1
	c.nodes[root.id] = root
	c.order = append(c.order, root)
	// INIT: the front end registers its removal notifier.
	c.script = append(c.script, ffStep{Op: "Init"})
	c.curCall = "#0 Init"
	c.real(func() { w.rfs.Init(&ffServerCallbacks{w: w}) })
	return c
}

// finalPhase: the kernel lets go of everything (unmount-like), then the
// tree is used again, then every node ID that was ever handed out is probed.
func (c *ffCase) finalPhase() {
	c.begin(ffStep{Op: "release every handle, forget every node"}, false)
	c.real(func() {
		for _, f := range c.files {
			c.w.rfs.Flush(nil, &go_fuse.FlushIn{InHeader: header(f.node)})
			c.w.rfs.Release(nil, &go_fuse.ReleaseIn{InHeader: header(f.node), Flags: f.flags})
			f.node.handles--
			f.node.m.opens--
		}
		for _, dh := range c.dirs {
			c.w.rfs.ReleaseDir(&go_fuse.ReleaseIn{InHeader: header(dh.node)})
			dh.node.handles--
		}
	})
	c.files, c.dirs = nil, nil
	for _, kn := range c.forgettable() {
		c.real(func() { c.w.rfs.Forget(kn.id, kn.nlookup) })
		kn.nlookup = 0
		c.dropNode(kn)
	}
	// Using the tree afterwards works and agrees with the reference tree
	// (the walk looks everything up again and forgets it again).
	c.finish()

	// Every pool-backed file that has neither a name nor an open handle
	// must have given its backing file back.
	alive := 0
	for _, n := range c.m.leaves {
		if n.kind == "file" && n.alive() {
			alive++
		}
	}
	if got := c.w.pool.opened - c.w.pool.closed; got != alive {
		c.fail("after releasing every handle %d backing files are still open, the reference tree has %d regular files with a name", got, alive)
	}

	// A node ID that was forgotten completely must not be resolvable any
	// more: the front end documents a panic for a request on an unknown
	// node ID. This is the one deliberate protocol violation of the
	// harness, it is read-only and it is the last thing done to the case.
	c.curCall = "the final probe (GETATTR on every node ID ever handed out, all of them forgotten completely)"
	for _, id := range c.everIDs {
		if !c.panicsUnknownNode(id) {
			c.fail("node ID %d was forgotten completely (every lookup, including those of READDIRPLUS, was matched by FORGET) but the front end still resolves it: node table entry retained", id)
		}
	}
}

func (c *ffCase) panicsUnknownNode(id uint64) (panicked bool) {
	defer func() {
		if r := recover(); r != nil {
			if s, ok := r.(string); ok && strings.Contains(s, "does not correspond to a known directory or leaf") {
				panicked = true
				return
			}
			panic(r)
		}
	}()
	var out go_fuse.AttrOut
	c.w.rfs.GetAttr(nil, &go_fuse.GetAttrIn{InHeader: go_fuse.InHeader{NodeId: id}}, &out)
	return false
}

func ffRunCase(rt *rapid.T, rec *simkit.Recorder) {
	caseFold := rapid.Bool().Draw(rt, "case_insensitive")
	hidden := rapid.Bool().Draw(rt, "hidden_files")
	c := newFfCase(rt, rec, caseFold, hidden)
	ops := ffOps()
	// rapid biases integer draws towards small values, so the weighted
	// table is interleaved: every prefix has roughly the intended mix.
	var table []int
	for round := 0; ; round++ {
		added := false
		for i, o := range ops {
			if round < o.weight {
				table = append(table, i)
				added = true
			}
		}
		if !added {
			break
		}
	}
	step := func(rt *rapid.T) {
		c.rt = rt
		// A request that is not possible right now (no handle to read
		// from, ...) is replaced by another draw.
		for try := 0; try < 4; try++ {
			before := len(c.script)
			o := ops[table[rapid.IntRange(0, len(table)-1).Draw(rt, "op")]]
			o.run(c)
			if len(c.script) != before {
				break
			}
		}
	}
	rt.Repeat(map[string]func(*rapid.T){"step": step})
	c.rt = rt
	handlesAtEnd := len(c.files) + len(c.dirs)
	nodesAtEnd := len(c.order) - 1
	c.finalPhase()

	var labels []string
	flag := func(b bool, l string) {
		if b {
			labels = append(labels, l)
		}
	}
	flag(caseFold, "case_insensitive")
	flag(hidden, "hidden_files")
	flag(c.sawRenameOver, "rename_over_existing")
	flag(c.sawRemoveHard, "remove_nonempty_or_mutate_removed_dir")
	flag(c.sawInterleaved, "listing_interleaved_with_mutation")
	flag(c.sawUnlinkedOp, "request_on_unlinked_but_referenced_node")
	flag(c.partialForgets > 0, "partial_forget")
	flag(c.fullForgets > 0, "complete_forget_mid_case")
	flag(c.batchForgets > 0, "batch_forget")
	flag(c.sawHardLink, "hard_link")
	flag(c.sawPlusLookup, "readdirplus_lookup_counted")
	flag(c.sawNotify > 0, "entry_notify_delivered")
	flag(c.sawDropped > 0, "removal_in_directory_unknown_to_kernel")
	flag(c.listingsDone > 0, "listing_completed")
	flag(c.sawStaleOpen, "open_of_dead_file_estale")
	flag(c.sawReaddirAfter, "readdir_seek_back_after_mutation")
	flag(handlesAtEnd > 0, "handles_open_at_end")
	flag(nodesAtEnd >= 4, "four_or_more_nodes_held_at_end")
	flag(len(c.everIDs) >= 8, "eight_or_more_node_ids_probed")
	for l, on := range c.labels {
		if on {
			labels = append(labels, l)
		}
	}
	removed := 0
	for _, d := range c.m.dirs {
		if d.deleted {
			removed++
		}
	}
	flag(removed > 0, "has_removed_directory")
	for _, k := range sortedKeys(c.statusCounts) {
		rec.LabelN("ret:"+k, c.statusCounts[k])
	}
	nontrivial := (c.sawRenameOver || c.sawRemoveHard) && (c.sawInterleaved || c.sawUnlinkedOp) && c.partialForgets > 0
	rec.Case(c.script, nontrivial, labels...)
}

func TestC13FUSEFrontEndModel(t *testing.T) {
	rec := simkit.NewRecorder(t, "C13", "fuse_front_end_model",
		"rapid state machine in which the harness plays a kernel that follows the FUSE protocol against the real fuse.NewSimpleRawFileSystem over the real InMemoryPrepopulatedDirectory (real FUSE handle allocator and removal notifier registration, pool-backed file allocator over an in-memory pool, BaseSymlinkFactory, allow-all authenticator; case-sensitive or -insensitive, optional hidden-files matcher): it only uses node IDs from entry replies (LOOKUP/MKDIR/MKNOD/SYMLINK/CREATE/LINK/READDIRPLUS), counts lookups per node ID, sends partial, complete and batched FORGETs, keeps file and directory handles and releases each once, never uses a node ID after forgetting it completely; worker-facing bulk calls (CreateChildren, CreateAndEnterPrepopulatedDirectory, Remove, RemoveAll, RemoveAllChildren, FilterChildren) on the underlying directories are interleaved. Oracle: naive POSIX-style reference tree plus the kernel bookkeeping; every reply's status and payload (node ID = inode number stable per object and never shared, mode/type, link count, size, symlink target, file bytes) is compared, after every request the whole reachable tree is re-read through LOOKUP/READDIR(PLUS)/GETATTR/OPEN/READ/READLINK and every directory lock is probed; paginated READDIR/READDIRPLUS on open directory handles resumed from any returned offset across mutations must report every entry that existed during the whole pass exactly once; EntryNotify must be sent (without directory locks held, with the right parent node ID) for exactly the entries bulk calls removed from directories the kernel holds; at the end everything is released and forgotten, the tree is read again, and every node ID ever handed out must be unknown to the front end. Non-trivial: (a rename onto an existing entry OR removal of a non-empty directory / a mutation attempted on a removed directory) AND (a paginated listing that saw a mutation of its directory between two of its pages OR a request on an unlinked/removed node the kernel still references) AND at least one partial FORGET; distinct by script hash")
	rapid.Check(t, func(rt *rapid.T) { ffRunCase(rt, rec) })
}

var _ = syscall.O_RDONLY

// Package fusefront decides C13 (directory tree behaves like a POSIX
// hierarchy) THROUGH THE FUSE FRONT END: the real
// fuse.NewSimpleRawFileSystem on top of the real
// virtual.NewInMemoryPrepopulatedDirectory is driven in-process by a
// harness that plays a kernel following the FUSE protocol, and every reply
// is compared with a naive POSIX-style reference tree plus the kernel-side
// bookkeeping (node IDs, lookup counts, file handles).
package fusefront

import (
	"sort"
	"strings"

	"github.com/buildbarn/bb-remote-execution/pkg/filesystem/virtual"
)

// The reference model: a deliberately naive POSIX-style tree (adapted from
// harness/vfsdir). Directories hold an ordered list of entries, leaves carry
// a link count, the number of open file handles and (for regular files)
// their bytes. It shares no code with /repo.

// Result codes of the model.
const (
	rOK       = "OK"
	rExist    = "EEXIST"
	rNoEnt    = "ENOENT"
	rIsDir    = "EISDIR"
	rNotDir   = "ENOTDIR"
	rNotEmpty = "ENOTEMPTY"
	rPerm     = "EPERM"
	rStale    = "ESTALE"
	rInval    = "EINVAL"
	rAcces    = "EACCES"
	rNXIO     = "ENXIO"
	rNoSys    = "ENOSYS"
	rAnyError = "ANY-ERROR" // any non-OK status is acceptable (several errors apply / not specified)
)

type mNode struct {
	id  int
	dir bool

	// Directories.
	ents    []*mEnt
	history []*mEnt // every entry that was ever attached, in attach order
	deleted bool
	// uninit: getContents() has not run yet. spec is nil for directories
	// created empty (EmptyInitialContentsFetcher).
	uninit  bool
	spec    *ffSpec
	fetcher *ffFetcher
	parent  *mNode
	realDir virtual.PrepopulatedDirectory

	// Leaves.
	kind    string // "file", "symlink", "fifo", "socket"
	content []byte
	exec    bool
	nlink   int
	opens   int    // open file handles (FUSE Open/Create not yet released)
	tag     string // symlink target

	// Identity as seen through FUSE: inode number == node ID, recorded at
	// the first sighting, must never change afterwards.
	ino uint64
}

// alive: the pool-backed file still has its backing store (a name or an
// open handle keeps it).
func (n *mNode) alive() bool { return n.nlink > 0 || n.opens > 0 }

func (n *mNode) kindName() string {
	if n.dir {
		return "dir"
	}
	return n.kind
}

type mEnt struct {
	eid    int
	name   string
	norm   string
	child  *mNode
	hidden bool
	born   int
	died   int // -1 while attached
	dir    *mNode
}

// mRemoval is an entry a worker-facing bulk call took out of a directory;
// the FUSE removal notifier has to hear about the "must" ones.
type mRemoval struct {
	dir  *mNode
	name string
	must bool
}

type mModel struct {
	caseFold bool
	hiddenOn bool
	nextID   int
	nextEID  int
	tick     int
	root     *mNode
	symIno   map[string]uint64 // FUSE: symlinks are stateless, the inode number is a function of the target
	symCount map[string]int    // number of symlink objects ever created per target
	dirs     []*mNode
	leaves   []*mNode

	// Per call bookkeeping, reset by beginCall().
	changed  map[*mNode]bool
	bulk     bool
	removals []mRemoval
}

func newModel(caseFold, hiddenOn bool) *mModel {
	m := &mModel{caseFold: caseFold, hiddenOn: hiddenOn, changed: map[*mNode]bool{}, symIno: map[string]uint64{}, symCount: map[string]int{}}
	m.root = m.newDir(nil)
	return m
}

func (m *mModel) beginCall(bulk bool) {
	m.tick++
	m.changed = map[*mNode]bool{}
	m.bulk = bulk
	m.removals = nil
}

func (m *mModel) norm(name string) string {
	if m.caseFold {
		return strings.ToLower(name)
	}
	return name
}

func ffHiddenMatcher(s string) bool {
	return len(s) >= 2 && s[0] == '.' && s[1] == 'h'
}

func (m *mModel) isHiddenName(name string) bool {
	return m.hiddenOn && ffHiddenMatcher(name)
}

func (m *mModel) newDir(spec *ffSpec) *mNode {
	m.nextID++
	n := &mNode{id: m.nextID, dir: true, uninit: true, spec: spec}
	m.dirs = append(m.dirs, n)
	return n
}

func (m *mModel) newLeaf(kind string) *mNode {
	m.nextID++
	n := &mNode{id: m.nextID, kind: kind, nlink: 1}
	m.leaves = append(m.leaves, n)
	return n
}

// newSymlink creates a symlink object. Through the FUSE handle allocator
// symlinks are stateless leaves: the inode number (= node ID) is a function
// of the target only, Link() always succeeds, Unlink() does nothing and the
// link count is a constant. Two symlinks with one target are still two
// objects as far as rename's "same file" rule is concerned.
func (m *mModel) newSymlink(target string) *mNode {
	n := m.newLeaf("symlink")
	n.tag = target
	m.symCount[target]++
	return n
}

// getIno / setIno: the identity a node has through FUSE.
func (m *mModel) getIno(n *mNode) uint64 {
	if !n.dir && n.kind == "symlink" {
		return m.symIno[n.tag]
	}
	return n.ino
}

func (m *mModel) setIno(n *mNode, ino uint64) {
	if !n.dir && n.kind == "symlink" {
		m.symIno[n.tag] = ino
		return
	}
	n.ino = ino
}

func (m *mModel) lookup(d *mNode, name string) *mEnt {
	norm := m.norm(name)
	for _, e := range d.ents {
		if e.norm == norm {
			return e
		}
	}
	return nil
}

func (m *mModel) attach(d *mNode, name string, child *mNode) *mEnt {
	if d.deleted || m.lookup(d, name) != nil {
		panic("fusefront model: attach to deleted directory or over existing name")
	}
	m.nextEID++
	e := &mEnt{eid: m.nextEID, name: name, norm: m.norm(name), child: child, born: m.tick, died: -1, dir: d}
	e.hidden = !child.dir && m.isHiddenName(name)
	d.ents = append(d.ents, e)
	d.history = append(d.history, e)
	if child.dir {
		child.parent = d
	}
	m.changed[d] = true
	return e
}

func (m *mModel) detachQuiet(d *mNode, e *mEnt) {
	for i, x := range d.ents {
		if x == e {
			d.ents = append(d.ents[:i:i], d.ents[i+1:]...)
			e.died = m.tick
			if e.child.dir && e.child.parent == d {
				e.child.parent = nil
			}
			m.changed[d] = true
			return
		}
	}
	panic("fusefront model: detach of an entry that is not attached")
}

// detach removes an entry; inside a worker-facing bulk call the removal is
// one the FUSE removal notifier must report.
func (m *mModel) detach(d *mNode, e *mEnt) {
	m.detachQuiet(d, e)
	if m.bulk {
		m.removals = append(m.removals, mRemoval{dir: d, name: e.name, must: true})
	}
}

func (m *mModel) unlink(n *mNode) {
	if n.kind == "symlink" {
		return // stateless
	}
	if n.nlink <= 0 {
		panic("fusefront model: unlink of a leaf with link count zero")
	}
	n.nlink--
}

// need makes the contents of d available, the way getContents() does.
func (m *mModel) need(d *mNode) {
	if !d.uninit {
		return
	}
	d.uninit = false
	if d.spec != nil {
		// Children are attached in sorted name order (the harness passes
		// sort.Sort as the initial contents sorter).
		children := append([]ffSpecChild(nil), d.spec.Children...)
		sort.Slice(children, func(i, j int) bool { return children[i].Name < children[j].Name })
		for _, c := range children {
			var child *mNode
			switch c.Kind {
			case "dir":
				child = m.newDir(c.Sub)
			case "file":
				child = m.newLeaf("file")
				child.content = []byte(c.Tag)
			case "symlink":
				child = m.newSymlink(c.Tag)
			}
			m.attach(d, c.Name, child)
		}
		// Initialisation is not a modification as seen from outside.
		delete(m.changed, d)
	}
}

func (m *mModel) isDeletable(d *mNode) bool {
	for _, e := range d.ents {
		if e.child.dir || !e.hidden {
			return false
		}
	}
	return true
}

// markDeleted tombstones an (effectively empty) directory; hidden leaves
// still in it are unlinked. The code does not notify the kernel about
// those (it carries a TODO), so they are "may" removals.
func (m *mModel) markDeleted(d *mNode) {
	if d.deleted {
		return
	}
	for len(d.ents) > 0 {
		e := d.ents[0]
		m.detachQuiet(d, e)
		if m.bulk {
			m.removals = append(m.removals, mRemoval{dir: d, name: e.name, must: false})
		}
		m.unlink(e.child)
	}
	d.deleted = true
}

// removeAllChildren is the recursive bulk removal.
func (m *mModel) removeAllChildren(d *mNode, deleteSelf bool) {
	if d.uninit {
		// Forcefully initialised as empty without fetching.
		d.uninit = false
		if deleteSelf {
			m.markDeleted(d)
		}
		return
	}
	ents := append([]*mEnt(nil), d.ents...)
	for _, e := range ents {
		m.detach(d, e)
	}
	if deleteSelf {
		m.markDeleted(d)
	}
	for _, e := range ents {
		if e.child.dir {
			m.removeAllChildren(e.child, true)
		} else {
			m.unlink(e.child)
		}
	}
}

func (m *mModel) isAncestorOrSelf(anc, d *mNode) bool {
	for x := d; x != nil; x = x.parent {
		if x == anc {
			return true
		}
	}
	return false
}

// liveDirCount counts directories that are not tombstoned, including the
// ones declared by specs that have not been materialised yet.
func (m *mModel) liveDirCount() int {
	n := 0
	for _, d := range m.dirs {
		if d.deleted {
			continue
		}
		n++
		if d.uninit && d.spec != nil {
			n += d.spec.dirCount()
		}
	}
	return n
}

// ---- operations. Each returns the set of acceptable result codes; effects
// are applied iff the set is exactly {OK}.

func one(code string) []string { return []string{code} }

func (m *mModel) opMkdir(d *mNode, name string) ([]string, *mNode) {
	m.need(d)
	if d.deleted {
		return one(rNoEnt), nil
	}
	if m.lookup(d, name) != nil {
		return one(rExist), nil
	}
	child := m.newDir(nil)
	m.attach(d, name, child)
	return one(rOK), child
}

// opMknod: kind is "fifo", "socket", "symlink" or "refused" (a type the
// front end refuses with EPERM before looking at the directory).
func (m *mModel) opMknod(d *mNode, name, kind, target string) ([]string, *mNode) {
	if kind == "refused" {
		// POSIX would also allow EEXIST/ENOENT here.
		errs := []string{rPerm}
		if d.deleted {
			errs = append(errs, rNoEnt)
		} else if !d.uninit && m.lookup(d, name) != nil {
			errs = append(errs, rExist)
		}
		return errs, nil
	}
	m.need(d)
	if d.deleted {
		return one(rNoEnt), nil
	}
	if m.lookup(d, name) != nil {
		return one(rExist), nil
	}
	var child *mNode
	if kind == "symlink" {
		child = m.newSymlink(target)
	} else {
		child = m.newLeaf(kind)
	}
	m.attach(d, name, child)
	return one(rOK), child
}

func (m *mModel) opLink(d *mNode, name string, leaf *mNode) []string {
	m.need(d)
	var errs []string
	if d.deleted {
		errs = append(errs, rNoEnt)
	} else if m.lookup(d, name) != nil {
		errs = append(errs, rExist)
	}
	if leaf.kind != "symlink" && leaf.nlink == 0 {
		errs = append(errs, rStale)
	}
	if len(errs) > 0 {
		return errs
	}
	if leaf.kind != "symlink" {
		leaf.nlink++
	}
	m.attach(d, name, leaf)
	return one(rOK)
}

// opCreate models FUSE CREATE (VirtualOpenChild with create attributes).
func (m *mModel) opCreate(d *mNode, name string, excl, truncate, exec bool) ([]string, *mNode) {
	m.need(d)
	if e := m.lookup(d, name); e != nil {
		if excl {
			return one(rExist), nil
		}
		if e.child.dir {
			return one(rIsDir), nil
		}
		if e.child.kind != "file" {
			// The code answers StatusErrSymlink for every irregular file;
			// what errno that should be is not specified.
			return one(rAnyError), nil
		}
		if truncate {
			e.child.content = nil
		}
		e.child.opens++
		return one(rOK), e.child
	}
	if d.deleted {
		return one(rNoEnt), nil
	}
	child := m.newLeaf("file")
	child.exec = exec
	child.opens++
	m.attach(d, name, child)
	return one(rOK), child
}

// opRemove models VirtualRemove / Remove.
func (m *mModel) opRemove(d *mNode, name string, rmDir, rmLeaf bool) []string {
	m.need(d)
	e := m.lookup(d, name)
	if e == nil {
		return one(rNoEnt)
	}
	if e.child.dir {
		if !rmDir {
			// POSIX: EPERM; Linux: EISDIR. The code answers EPERM.
			return []string{rPerm, rIsDir}
		}
		m.need(e.child)
		if !m.isDeletable(e.child) {
			return one(rNotEmpty)
		}
		m.markDeleted(e.child)
	} else {
		if !rmLeaf {
			return one(rNotDir)
		}
		m.unlink(e.child)
	}
	m.detach(d, e)
	return one(rOK)
}

func (m *mModel) opRemoveAll(d *mNode, name string) []string {
	m.need(d)
	e := m.lookup(d, name)
	if e == nil {
		return one(rNoEnt)
	}
	m.detach(d, e)
	if e.child.dir {
		m.removeAllChildren(e.child, true)
	} else {
		m.unlink(e.child)
	}
	return one(rOK)
}

type mNewChild struct {
	name string
	node *mNode
}

// opCreateChildren: children must not collide under normalisation.
func (m *mModel) opCreateChildren(d *mNode, children []mNewChild, overwrite bool) []string {
	m.need(d)
	if d.deleted {
		return one(rNoEnt)
	}
	if !overwrite {
		for _, c := range children {
			if m.lookup(d, c.name) != nil {
				return one(rExist)
			}
		}
	}
	var replaced []*mEnt
	for _, c := range children {
		if e := m.lookup(d, c.name); e != nil {
			m.detach(d, e)
			replaced = append(replaced, e)
		}
	}
	sorted := append([]mNewChild(nil), children...)
	sort.Slice(sorted, func(i, j int) bool { return sorted[i].name < sorted[j].name })
	for _, c := range sorted {
		m.attach(d, c.name, c.node)
	}
	for _, e := range replaced {
		if e.child.dir {
			m.removeAllChildren(e.child, true)
		} else {
			m.unlink(e.child)
		}
	}
	return one(rOK)
}

func (m *mModel) opCreateAndEnter(d *mNode, name string) ([]string, *mNode) {
	m.need(d)
	if e := m.lookup(d, name); e != nil {
		if e.child.dir {
			return one(rOK), e.child
		}
		m.detach(d, e)
		m.unlink(e.child)
		child := m.newDir(nil)
		m.attach(d, name, child)
		return one(rOK), child
	}
	if d.deleted {
		return one(rNoEnt), nil
	}
	child := m.newDir(nil)
	m.attach(d, name, child)
	return one(rOK), child
}

func (m *mModel) opRename(dOld *mNode, oldName string, dNew *mNode, newName string) []string {
	m.need(dOld)
	m.need(dNew)
	if eNew := m.lookup(dNew, newName); eNew != nil {
		eOld := m.lookup(dOld, oldName)
		if eOld == nil {
			return one(rNoEnt)
		}
		if eNew.child.dir {
			if !eOld.child.dir {
				return one(rIsDir)
			}
			if eNew.child == eOld.child {
				return one(rOK)
			}
			m.need(eNew.child)
			if !m.isDeletable(eNew.child) {
				return one(rNotEmpty)
			}
			m.detach(dOld, eOld)
			m.detach(dNew, eNew)
			m.markDeleted(eNew.child)
			m.attach(dNew, newName, eOld.child)
			return one(rOK)
		}
		if eOld.child.dir {
			return one(rNotDir)
		}
		if eNew.child == eOld.child {
			// Two names of one file: POSIX says nothing happens.
			return one(rOK)
		}
		m.detach(dOld, eOld)
		m.detach(dNew, eNew)
		m.unlink(eNew.child)
		m.attach(dNew, newName, eOld.child)
		return one(rOK)
	}
	if dNew.deleted {
		return one(rNoEnt)
	}
	eOld := m.lookup(dOld, oldName)
	if eOld == nil {
		return one(rNoEnt)
	}
	m.detach(dOld, eOld)
	m.attach(dNew, newName, eOld.child)
	return one(rOK)
}

// visibleEnts returns the entries directory listings report.
func (m *mModel) visibleEnts(d *mNode) []*mEnt {
	var out []*mEnt
	for _, e := range d.ents {
		if !e.hidden {
			out = append(out, e)
		}
	}
	return out
}

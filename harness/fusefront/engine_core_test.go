package fusefront

import (
	"fmt"
	"runtime/debug"
	"sort"
	"strings"
	"syscall"

	"github.com/buildbarn/bb-remote-execution/pkg/filesystem/virtual"
	"github.com/buildbarn/bb-storage/pkg/filesystem/path"
	go_fuse "github.com/hanwen/go-fuse/v2/fuse"
	"pgregory.net/rapid"

	"verif/harness/internal/simkit"
)

// ffStep is one executed request of a case, as it appears in replay scripts.
// Nodes are named n<k> in the order in which the kernel first learnt their
// node ID (n0 is the root), file handles fh<k>, directory handles dh<k>,
// directories addressed from the worker side d<k> (model node number).
type ffStep struct {
	Op    string `json:"op"`
	Node  string `json:"node,omitempty"`
	Name  string `json:"name,omitempty"`
	Node2 string `json:"node2,omitempty"`
	Name2 string `json:"name2,omitempty"`
	Arg   string `json:"arg,omitempty"`
	Res   string `json:"res,omitempty"`
}

var ffAlphabet = []string{"a", "b", "A", "c", ".hidden"}

var ffTargets = []string{"t0", "t1", "sub/t2", "/abs/t3", "../t4"}

// ---------------------------------------------------------------- the kernel's bookkeeping

// kNode is a node ID the kernel holds: it was handed out in an entry reply
// and has not been forgotten completely.
type kNode struct {
	idx     int
	id      uint64
	m       *mNode
	nlookup uint64
	handles int // open file / directory handles on this node
}

// kFile is an open file handle (FUSE Open/Create not yet released).
type kFile struct {
	idx   int
	node  *kNode
	flags uint32 // access mode the handle was opened with
}

func (f *kFile) canRead() bool  { return f.flags&syscall.O_ACCMODE != syscall.O_WRONLY }
func (f *kFile) canWrite() bool { return f.flags&syscall.O_ACCMODE != syscall.O_RDONLY }

type kDirItem struct {
	eid int
	off uint64
}

// kDir is an open directory handle with the state of its listing pass.
type kDir struct {
	idx       int
	node      *kNode
	pos       uint64     // offset the next READDIR will be sent with
	hist      []kDirItem // entries reported since the pass started, up to pos
	start     int        // model tick at which the pass started (offset 0)
	pages     int
	mutAtLast int
	mixed     bool
}

// ffCase is the state of one generated case.
type ffCase struct {
	rt  *rapid.T
	rec *simkit.Recorder
	w   *ffWorld
	m   *mModel
	cfg string

	nodes    map[uint64]*kNode
	order    []*kNode // nodes currently held, in order of first sighting
	nextNode int
	inoOwner map[uint64]string // inode number -> identity that owns it
	everIDs  []uint64          // every node ID ever handed out (except the root)
	everSeen map[uint64]bool
	files    []*kFile
	dirs     []*kDir
	nextFh   int

	bound     []*mNode // directories whose real object is known
	mutations map[*mNode]int
	script    []ffStep
	curCall   string
	tagCtr    int
	verifying bool

	// coverage
	sawRenameOver   bool
	sawRemoveHard   bool // ENOTEMPTY, or a mutation attempted on a removed directory
	sawInterleaved  bool
	sawUnlinkedOp   bool
	partialForgets  int
	fullForgets     int
	batchForgets    int
	sawHardLink     bool
	sawPlusLookup   bool
	sawNotify       int
	sawDropped      int // removals whose parent the kernel did not know
	listingsDone    int
	sawStaleOpen    bool
	sawReaddirAfter bool // READDIR resumed from an earlier offset after a mutation
	statusCounts    map[string]int
	labels          map[string]bool
}

func (c *ffCase) scriptText() string {
	return fmt.Sprintf("config=%s script=%+v", c.cfg, c.script)
}

// fail reports a disagreement with the reference model / the protocol.
func (c *ffCase) fail(format string, args ...any) {
	msg := fmt.Sprintf(format, args...)
	c.rt.Fatalf("C13 (FUSE front end) violation after %s: %s; %s", c.curCall, msg, c.scriptText())
}

// harnessBug is for conditions that can only mean the harness is wrong.
func (c *ffCase) harnessBug(format string, args ...any) {
	c.rt.Fatalf("HARNESS BUG: %s; %s", fmt.Sprintf(format, args...), c.scriptText())
}

// real runs code that calls into /repo, converting Go panics raised there
// into a violation: the harness stays inside the FUSE protocol, so a panic
// means the server lost track of a node or broke an internal invariant.
func (c *ffCase) real(f func()) {
	defer func() {
		if r := recover(); r != nil {
			switch r.(type) {
			case string, error:
				c.fail("the request panicked: %v\n%s", r, debug.Stack())
			default:
				panic(r)
			}
		}
	}()
	f()
}

func stName(s go_fuse.Status) string {
	switch s {
	case go_fuse.OK:
		return rOK
	case go_fuse.Status(syscall.EEXIST):
		return rExist
	case go_fuse.ENOENT:
		return rNoEnt
	case go_fuse.EISDIR:
		return rIsDir
	case go_fuse.ENOTDIR:
		return rNotDir
	case go_fuse.Status(syscall.ENOTEMPTY):
		return rNotEmpty
	case go_fuse.EPERM:
		return rPerm
	case go_fuse.Status(syscall.ESTALE):
		return rStale
	case go_fuse.EINVAL:
		return rInval
	case go_fuse.EACCES:
		return rAcces
	case go_fuse.Status(syscall.ENXIO):
		return rNXIO
	case go_fuse.ENOSYS:
		return rNoSys
	case go_fuse.EIO:
		return "EIO"
	case go_fuse.EXDEV:
		return "EXDEV"
	case go_fuse.Status(syscall.EOPNOTSUPP):
		return "EOPNOTSUPP"
	case go_fuse.EBADF:
		return "EBADF"
	case go_fuse.EROFS:
		return "EROFS"
	case go_fuse.Status(syscall.ENAMETOOLONG):
		return "ENAMETOOLONG"
	}
	return fmt.Sprintf("errno(%d)", int(s))
}

func contains(set []string, x string) bool {
	for _, s := range set {
		if s == x {
			return true
		}
	}
	return false
}

// checkStatus compares the status of a reply with the acceptable set and
// does the coverage bookkeeping. It returns true if the request succeeded.
func (c *ffCase) checkStatus(fn string, want []string, st go_fuse.Status) bool {
	got := stName(st)
	if !c.verifying {
		c.script[len(c.script)-1].Res = got
		c.statusCounts[fn+":"+got]++
	}
	if contains(want, rAnyError) {
		if st == go_fuse.OK {
			c.fail("%s returned OK, the reference tree says it must fail", fn)
		}
		return false
	}
	if !contains(want, got) {
		c.fail("%s returned %s, the reference tree says %v", fn, got, want)
	}
	if len(want) == 1 && want[0] == rOK {
		return true
	}
	if st == go_fuse.OK {
		c.fail("%s returned OK, the reference tree says %v", fn, want)
	}
	return false
}

// ---------------------------------------------------------------- names used in scripts

func (c *ffCase) nname(kn *kNode) string {
	s := fmt.Sprintf("n%d", kn.idx)
	n := kn.m
	switch {
	case n.dir && n.deleted:
		s += "(removed dir)"
	case n.dir:
		s += "(dir)"
	case n.kind == "symlink":
		s += "(symlink " + n.tag + ")"
	case n.nlink == 0:
		s += "(unlinked " + n.kind + ")"
	default:
		s += "(" + n.kind + ")"
	}
	return s
}

func (c *ffCase) dname(d *mNode) string {
	s := fmt.Sprintf("d%d", d.id)
	if d.deleted {
		s += "(removed)"
	} else if d.uninit {
		s += "(uninit)"
	}
	return s
}

func comp(name string) path.Component { return path.MustNewComponent(name) }

// ---------------------------------------------------------------- attribute and entry oracles

func identityOf(n *mNode) string {
	if !n.dir && n.kind == "symlink" {
		return "symlink:" + n.tag
	}
	return fmt.Sprintf("node#%d", n.id)
}

func wantAttr(n *mNode) (mode, nlink uint32, size uint64) {
	switch {
	case n.dir:
		return syscall.S_IFDIR | 0o777, virtual.ImplicitDirectoryLinkCount, 0
	case n.kind == "file":
		mode = syscall.S_IFREG | 0o666
		if n.exec {
			mode |= 0o111
		}
		return mode, uint32(n.nlink), uint64(len(n.content))
	case n.kind == "symlink":
		return syscall.S_IFLNK | 0o777, virtual.StatelessLeafLinkCount, uint64(len(n.tag))
	case n.kind == "fifo":
		return syscall.S_IFIFO | 0o666, uint32(n.nlink), 0
	case n.kind == "socket":
		return syscall.S_IFSOCK | 0o666, uint32(n.nlink), 0
	}
	panic("fusefront: unknown node kind " + n.kind)
}

// checkIno: the inode number of an object never changes and is not shared
// with another object.
func (c *ffCase) checkIno(where string, n *mNode, ino uint64) {
	if ino == 0 {
		c.fail("%s: inode number 0", where)
	}
	if known := c.m.getIno(n); known != 0 {
		if ino != known {
			c.fail("%s: inode number %d, but this object (%s) had inode number %d before", where, ino, identityOf(n), known)
		}
		return
	}
	if owner, ok := c.inoOwner[ino]; ok && owner != identityOf(n) {
		c.fail("%s: inode number %d is that of another object (%s), the reference tree has %s here", where, ino, owner, identityOf(n))
	}
	c.inoOwner[ino] = identityOf(n)
	c.m.setIno(n, ino)
}

func (c *ffCase) checkAttr(where string, n *mNode, a *go_fuse.Attr) {
	c.checkIno(where, n, a.Ino)
	mode, nlink, size := wantAttr(n)
	if a.Mode != mode {
		c.fail("%s: mode %#o, the reference tree says %#o (%s)", where, a.Mode, mode, n.kindName())
	}
	if a.Nlink != nlink {
		c.fail("%s: link count %d, the reference tree says %d", where, a.Nlink, nlink)
	}
	if a.Size != size {
		c.fail("%s: size %d, the reference tree says %d", where, a.Size, size)
	}
}

// checkEntry validates an entry reply (no kernel bookkeeping).
func (c *ffCase) checkEntry(where string, n *mNode, out *go_fuse.EntryOut) {
	if out.NodeId == 0 {
		c.fail("%s: entry reply with node ID 0", where)
	}
	if out.NodeId != out.Attr.Ino {
		c.fail("%s: node ID %d differs from the inode number %d (the front end documents node ID = inode number)", where, out.NodeId, out.Attr.Ino)
	}
	if out.NodeId == go_fuse.FUSE_ROOT_ID {
		c.fail("%s: entry reply with the node ID of the root", where)
	}
	c.checkAttr(where, n, &out.Attr)
}

// gotEntry is checkEntry plus what the kernel does with an entry reply: it
// now holds one more lookup of that node ID.
func (c *ffCase) gotEntry(where string, n *mNode, out *go_fuse.EntryOut) *kNode {
	c.checkEntry(where, n, out)
	kn := c.nodes[out.NodeId]
	if kn == nil {
		kn = &kNode{idx: c.nextNode, id: out.NodeId, m: n}
		c.nextNode++
		c.nodes[out.NodeId] = kn
		c.order = append(c.order, kn)
		if !c.everSeen[out.NodeId] {
			c.everSeen[out.NodeId] = true
			c.everIDs = append(c.everIDs, out.NodeId)
		}
	} else if identityOf(kn.m) != identityOf(n) {
		c.fail("%s: node ID %d is held by the kernel for %s, now it is handed out for %s", where, out.NodeId, identityOf(kn.m), identityOf(n))
	}
	kn.m = n
	kn.nlookup++
	return kn
}

// noteNodeUse records that a request addressed a node that has no name any
// more but is still referenced by the kernel.
func (c *ffCase) noteNodeUse(kn *kNode) {
	n := kn.m
	if n.dir && n.deleted || !n.dir && n.kind != "symlink" && n.nlink == 0 {
		c.sawUnlinkedOp = true
	}
}

// ---------------------------------------------------------------- per step frame

func (c *ffCase) begin(st ffStep, bulk bool) {
	c.m.beginCall(bulk)
	c.script = append(c.script, st)
	c.curCall = fmt.Sprintf("#%d %+v", len(c.script)-1, st)
}

func (c *ffCase) note(format string, args ...any) {
	c.script[len(c.script)-1].Arg += fmt.Sprintf(format, args...)
}

// finish runs after every request.
func (c *ffCase) finish() {
	c.takeProblems()
	c.checkNotifications()
	c.bindDirectories()
	c.probeLocks("")
	for _, d := range sortedDirs(c.m.changed) {
		c.mutations[d]++
	}
	call := c.curCall
	c.curCall = "the read-only verification walk (LOOKUP/READDIR(PLUS)/GETATTR/OPEN/READ/READLINK, every lookup forgotten again) issued after " + call
	c.verifying = true
	c.verify()
	c.verifying = false
	c.takeProblems()
	if len(c.w.notifications) > 0 {
		c.fail("EntryNotify(%d, %q) was sent although nothing was removed", c.w.notifications[0].parent, c.w.notifications[0].name)
	}
	c.probeLocks("")
	c.curCall = call
}

func sortedDirs(set map[*mNode]bool) []*mNode {
	var out []*mNode
	for d := range set {
		out = append(out, d)
	}
	sort.Slice(out, func(i, j int) bool { return out[i].id < out[j].id })
	return out
}

func (c *ffCase) takeProblems() {
	if len(c.w.problems) > 0 {
		p := c.w.problems[0]
		c.w.problems = nil
		c.fail("%s", p)
	}
}

// checkNotifications: entries removed behind the kernel's back by a
// worker-facing bulk call must be reported through EntryNotify with the
// node ID of the parent (1 for the root) iff the kernel holds that
// directory; nothing else may be reported.
func (c *ffCase) checkNotifications() {
	notes := c.w.notifications
	c.w.notifications = nil
	matched := make([]bool, len(c.m.removals))
	for _, nt := range notes {
		var d *mNode
		if nt.parent == go_fuse.FUSE_ROOT_ID {
			d = c.m.root
		} else if kn := c.nodes[nt.parent]; kn != nil && kn.m.dir {
			d = kn.m
		} else {
			c.fail("EntryNotify(%d, %q): the kernel holds no directory with that node ID", nt.parent, nt.name)
		}
		found := false
		for i, r := range c.m.removals {
			if !matched[i] && r.dir == d && c.m.norm(r.name) == c.m.norm(nt.name) {
				matched[i] = true
				found = true
				break
			}
		}
		if !found {
			c.fail("EntryNotify(%d, %q): the reference tree removed no such entry from %s in this call", nt.parent, nt.name, c.dname(d))
		}
		c.sawNotify++
	}
	for i, r := range c.m.removals {
		if matched[i] || !r.must {
			continue
		}
		known := r.dir == c.m.root
		if !known {
			if ino := r.dir.ino; ino != 0 && c.nodes[ino] != nil {
				known = true
			}
		}
		if known {
			c.fail("entry %q was removed from %s behind the kernel's back, the kernel holds that directory, but no EntryNotify was sent", r.name, c.dname(r.dir))
		}
		c.sawDropped++
	}
}

func (c *ffCase) bind(d *mNode, rd virtual.PrepopulatedDirectory) {
	if d.realDir != nil {
		if d.realDir != rd {
			c.fail("directory node %d resolved to a different object than before", d.id)
		}
		return
	}
	d.realDir = rd
	c.bound = append(c.bound, d)
}

// bindDirectories resolves the real PrepopulatedDirectory of every model
// directory below an initialised, bound directory (worker-facing calls and
// lock probes need the object). It never initialises anything.
func (c *ffCase) bindDirectories() {
	for i := 0; i < len(c.bound); i++ {
		d := c.bound[i]
		if d.uninit {
			continue
		}
		for _, e := range d.ents {
			if !e.child.dir || e.child.realDir != nil {
				continue
			}
			var child virtual.PrepopulatedDirectoryChild
			var err error
			c.real(func() { child, err = d.realDir.LookupChild(comp(e.name)) })
			if err != nil {
				c.fail("LookupChild(%s, %q) failed with %v although the reference tree has that entry", c.dname(d), e.name, err)
			}
			rd, _ := child.GetPair()
			if rd == nil {
				c.fail("LookupChild(%s, %q) returned a leaf, the reference tree has a directory", c.dname(d), e.name)
			}
			c.bind(e.child, rd)
		}
	}
}

// probeLocks: no request is in progress, so a directory lock that cannot be
// taken was leaked.
func (c *ffCase) probeLocks(where string) {
	for _, d := range c.bound {
		free, known := virtual.VerifLockIsFree(d.realDir)
		if !known {
			c.harnessBug("VerifLockIsFree does not know directory %s", c.dname(d))
		}
		if !free {
			c.fail("%sthe lock of directory %s is still held at quiescence", where, c.dname(d))
		}
	}
}

// ---------------------------------------------------------------- pickers

func (c *ffCase) dirNodes() []*kNode {
	var out []*kNode
	for _, kn := range c.order {
		if kn.m.dir {
			out = append(out, kn)
		}
	}
	return out
}

// pickDirNode chooses a directory node ID the kernel holds; removed ones
// and ones with an open listing are chosen on purpose with a fixed share.
func (c *ffCase) pickDirNode(label string) *kNode {
	if len(c.dirs) > 0 && rapid.IntRange(0, 9).Draw(c.rt, label+"_listed") < 4 {
		return c.dirs[rapid.IntRange(0, len(c.dirs)-1).Draw(c.rt, label+"_listing")].node
	}
	var live, dead []*kNode
	for _, kn := range c.dirNodes() {
		if kn.m.deleted {
			dead = append(dead, kn)
		} else {
			live = append(live, kn)
		}
	}
	if len(dead) > 0 && (len(live) == 0 || rapid.IntRange(0, 9).Draw(c.rt, label+"_removed") < 2) {
		return dead[rapid.IntRange(0, len(dead)-1).Draw(c.rt, label)]
	}
	return live[rapid.IntRange(0, len(live)-1).Draw(c.rt, label)]
}

// pickNameP chooses a name in d: with probability existing/10 one that
// exists, otherwise (if there is one) mostly one that is free.
func (c *ffCase) pickNameP(d *mNode, label string, existing int) string {
	if !d.uninit && len(d.ents) > 0 && rapid.IntRange(0, 9).Draw(c.rt, label+"_existing") < existing {
		return d.ents[rapid.IntRange(0, len(d.ents)-1).Draw(c.rt, label+"_idx")].name
	}
	name := rapid.SampledFrom(ffAlphabet).Draw(c.rt, label)
	if !d.uninit && c.m.lookup(d, name) != nil && rapid.IntRange(0, 9).Draw(c.rt, label+"_retry") < 7 {
		name = rapid.SampledFrom(ffAlphabet).Draw(c.rt, label+"_again")
	}
	return name
}

func (c *ffCase) pickName(d *mNode, label string) string { return c.pickNameP(d, label, 6) }

// pickNewName is for requests that create an entry: mostly a free name.
func (c *ffCase) pickNewName(d *mNode, label string) string { return c.pickNameP(d, label, 2) }

func (c *ffCase) leafNodes(filter func(n *mNode) bool) []*kNode {
	var out []*kNode
	for _, kn := range c.order {
		if !kn.m.dir && filter(kn.m) {
			out = append(out, kn)
		}
	}
	return out
}

func (c *ffCase) nextTag() string {
	c.tagCtr++
	return fmt.Sprintf("T%d.", c.tagCtr)
}

func header(kn *kNode) go_fuse.InHeader {
	return go_fuse.InHeader{NodeId: kn.id}
}

// ---------------------------------------------------------------- read-only verification walk

// verify compares everything that is reachable through FUSE with the
// reference tree: every directory reachable from the root through
// initialised directories, plus every removed directory the kernel still
// holds. It behaves like a kernel too: every lookup it takes is forgotten
// at the end, every handle released, so the bookkeeping is unchanged.
func (c *ffCase) verify() {
	taken := map[uint64]uint64{}
	var takenOrder []uint64
	take := func(id uint64) {
		if taken[id] == 0 {
			takenOrder = append(takenOrder, id)
		}
		taken[id]++
	}
	visited := map[*mNode]bool{}
	var walk func(id uint64, d *mNode)
	walk = func(id uint64, d *mNode) {
		if visited[d] {
			return
		}
		visited[d] = true
		c.verifyListing(id, d, take)
		for _, name := range ffAlphabet {
			e := c.m.lookup(d, name)
			var out go_fuse.EntryOut
			var st go_fuse.Status
			c.real(func() { st = c.w.rfs.Lookup(nil, &go_fuse.InHeader{NodeId: id}, name, &out) })
			where := fmt.Sprintf("Lookup(%s, %q)", c.dname(d), name)
			if e == nil {
				if st != go_fuse.ENOENT {
					c.fail("%s returned %s, the reference tree has no such entry", where, stName(st))
				}
				continue
			}
			if st != go_fuse.OK {
				c.fail("%s returned %s, the reference tree has entry %q (%s)", where, stName(st), e.name, e.child.kindName())
			}
			c.checkEntry(where, e.child, &out)
			take(out.NodeId)
			if visited[e.child] {
				continue
			}
			switch {
			case e.child.dir:
				if !e.child.uninit {
					walk(out.NodeId, e.child)
				}
			default:
				visited[e.child] = true
				c.verifyLeaf(out.NodeId, e.child)
			}
		}
	}
	if !c.m.root.uninit {
		// (Looking into a directory initialises it; the walk must not
		// change what the generated requests find.)
		walk(go_fuse.FUSE_ROOT_ID, c.m.root)
	}
	for _, kn := range c.order {
		if kn.m.dir && !visited[kn.m] {
			if !kn.m.deleted {
				if kn.m.uninit {
					continue
				}
				c.harnessBug("directory %s is held by the kernel, not removed, but not reachable from the root", c.dname(kn.m))
			}
			walk(kn.id, kn.m)
		}
	}
	for _, kn := range c.order {
		if !kn.m.dir && !visited[kn.m] {
			visited[kn.m] = true
			c.verifyLeaf(kn.id, kn.m)
		}
	}
	for _, id := range takenOrder {
		c.real(func() { c.w.rfs.Forget(id, taken[id]) })
	}
}

// verifyLeaf checks a leaf through its node ID: attributes, symlink target,
// file bytes (one file per node ID, so the bytes are the same through every
// hard link).
func (c *ffCase) verifyLeaf(id uint64, n *mNode) {
	where := fmt.Sprintf("GetAttr(%s)", identityOf(n))
	var ao go_fuse.AttrOut
	var st go_fuse.Status
	c.real(func() { st = c.w.rfs.GetAttr(nil, &go_fuse.GetAttrIn{InHeader: go_fuse.InHeader{NodeId: id}}, &ao) })
	if st != go_fuse.OK {
		c.fail("%s returned %s", where, stName(st))
	}
	c.checkAttr(where, n, &ao.Attr)
	switch n.kind {
	case "symlink":
		var target []byte
		c.real(func() { target, st = c.w.rfs.Readlink(nil, &go_fuse.InHeader{NodeId: id}) })
		if st != go_fuse.OK || string(target) != n.tag {
			c.fail("Readlink(%s) returned %q (%s), the reference tree says %q", identityOf(n), target, stName(st), n.tag)
		}
	case "file":
		if !n.alive() {
			return
		}
		c.real(func() {
			st = c.w.rfs.Open(nil, &go_fuse.OpenIn{InHeader: go_fuse.InHeader{NodeId: id}, Flags: syscall.O_RDONLY}, &go_fuse.OpenOut{})
		})
		if st != go_fuse.OK {
			c.fail("Open(%s, O_RDONLY) returned %s although the file has %d names and %d open handles", identityOf(n), stName(st), n.nlink, n.opens)
		}
		buf := make([]byte, len(n.content)+8)
		var data []byte
		c.real(func() {
			var res go_fuse.ReadResult
			res, st = c.w.rfs.Read(nil, &go_fuse.ReadIn{InHeader: go_fuse.InHeader{NodeId: id}, Size: uint32(len(buf))}, buf)
			if st == go_fuse.OK {
				data, _ = res.Bytes(buf)
			}
			c.w.rfs.Release(nil, &go_fuse.ReleaseIn{InHeader: go_fuse.InHeader{NodeId: id}, Flags: syscall.O_RDONLY})
		})
		if st != go_fuse.OK || string(data) != string(n.content) {
			c.fail("reading %s returned %q (%s), the reference tree says %q", identityOf(n), data, stName(st), n.content)
		}
	}
}

// ffEntryList collects READDIR / READDIRPLUS output the way the kernel's
// buffer does: a fixed number of entries fit.
type ffEntryList struct {
	capacity int
	entries  []go_fuse.DirEntry
	outs     []*go_fuse.EntryOut // READDIRPLUS only, parallel to entries
	refused  bool
	problem  string
}

func (l *ffEntryList) AddDirEntry(e go_fuse.DirEntry) bool {
	if l.refused {
		l.problem = "the server kept adding directory entries after the buffer was reported full"
		return false
	}
	if len(l.entries) >= l.capacity {
		l.refused = true
		return false
	}
	l.entries = append(l.entries, e)
	return true
}

func (l *ffEntryList) AddDirLookupEntry(e go_fuse.DirEntry) *go_fuse.EntryOut {
	if !l.AddDirEntry(e) {
		return nil
	}
	out := &go_fuse.EntryOut{}
	l.outs = append(l.outs, out)
	return out
}

// verifyListing reads the whole directory in one go (READDIR on even ticks,
// READDIRPLUS on odd ones) and compares it with the visible entries.
func (c *ffCase) verifyListing(id uint64, d *mNode, take func(uint64)) {
	plus := c.m.tick%2 == 1
	dn := c.dname(d)
	var st go_fuse.Status
	c.real(func() { st = c.w.rfs.OpenDir(nil, &go_fuse.OpenIn{InHeader: go_fuse.InHeader{NodeId: id}}, &go_fuse.OpenOut{}) })
	if st != go_fuse.OK {
		c.fail("OpenDir(%s) returned %s", dn, stName(st))
	}
	list := &ffEntryList{capacity: 1 << 20}
	in := &go_fuse.ReadIn{InHeader: go_fuse.InHeader{NodeId: id}}
	c.real(func() {
		if plus {
			st = c.w.rfs.ReadDirPlus(nil, in, list)
		} else {
			st = c.w.rfs.ReadDir(nil, in, list)
		}
		c.w.rfs.ReleaseDir(&go_fuse.ReleaseIn{InHeader: go_fuse.InHeader{NodeId: id}})
	})
	if st != go_fuse.OK {
		c.fail("ReadDir(%s) returned %s", dn, stName(st))
	}
	vis := c.m.visibleEnts(d)
	if len(list.entries) != len(vis)+2 {
		c.fail("ReadDir(%s) reported %s, the reference tree has %s", dn, listNames(list.entries), entNames(vis))
	}
	seen := map[string]bool{}
	prev := uint64(0)
	for i, de := range list.entries {
		if de.Off <= prev {
			c.fail("ReadDir(%s): offset %d of %q does not exceed the previous offset %d", dn, de.Off, de.Name, prev)
		}
		prev = de.Off
		if i < 2 {
			if de.Name != []string{".", ".."}[i] || de.Mode != syscall.S_IFDIR {
				c.fail("ReadDir(%s): entry #%d is %q mode %#o, expected the dot entries first", dn, i, de.Name, de.Mode)
			}
			if plus && *list.outs[i] != (go_fuse.EntryOut{}) {
				c.fail("ReadDirPlus(%s): the %q entry carries a lookup reply", dn, de.Name)
			}
			continue
		}
		if seen[de.Name] {
			c.fail("ReadDir(%s) reported %q twice", dn, de.Name)
		}
		seen[de.Name] = true
		var out *go_fuse.EntryOut
		if plus {
			out = list.outs[i]
		}
		if n := c.checkDirEntry("ReadDir("+dn+")", d, de, out); n != nil {
			take(out.NodeId)
		}
	}
}

// checkDirEntry validates one listed entry of d; for READDIRPLUS it also
// validates the lookup reply and returns the node that was looked up.
func (c *ffCase) checkDirEntry(where string, d *mNode, de go_fuse.DirEntry, out *go_fuse.EntryOut) *mNode {
	var e *mEnt
	for _, x := range d.ents {
		if x.name == de.Name {
			e = x
		}
	}
	if e == nil {
		c.fail("%s reports %q, the reference tree has no entry of that name", where, de.Name)
	}
	if e.hidden {
		c.fail("%s reports the hidden file %q", where, de.Name)
	}
	mode, _, _ := wantAttr(e.child)
	if de.Mode != mode&syscall.S_IFMT {
		c.fail("%s: entry %q has type %#o, the reference tree says %s", where, de.Name, de.Mode, e.child.kindName())
	}
	c.checkIno(fmt.Sprintf("%s entry %q", where, de.Name), e.child, de.Ino)
	if out == nil {
		return nil
	}
	c.checkEntry(fmt.Sprintf("%s lookup reply of %q", where, de.Name), e.child, out)
	return e.child
}

func entNames(ents []*mEnt) string {
	var parts []string
	for _, e := range ents {
		parts = append(parts, e.name+":"+e.child.kindName())
	}
	return "[" + strings.Join(parts, " ") + "]"
}

func listNames(entries []go_fuse.DirEntry) string {
	var parts []string
	for _, e := range entries {
		parts = append(parts, e.Name)
	}
	return "[" + strings.Join(parts, " ") + "]"
}

func sortedKeys(m map[string]int) []string {
	out := make([]string, 0, len(m))
	for k := range m {
		out = append(out, k)
	}
	sort.Strings(out)
	return out
}

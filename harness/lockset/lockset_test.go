// Package lockset decides C20(a): virtual.ByteRangeLockSet against a naive
// per-byte reference model over a compressed universe of offsets.
package lockset

import (
	"fmt"
	"math"
	"testing"

	"github.com/buildbarn/bb-remote-execution/pkg/filesystem/virtual"
	"pgregory.net/rapid"

	"verif/harness/internal/simkit"
)

// The compressed universe: units 0..15 are bytes 0..15, unit 16 is the
// gap [16, 2^64-17), units 17..32 are the 16 highest lockable bytes. A
// lock range is [cut(i), cut(j)) for 0 <= i < j <= nUnits; cut(nUnits) is
// 2^64-1, the largest value the End field can have.
const nUnits = 33

func cut(i int) uint64 {
	switch {
	case i <= 16:
		return uint64(i)
	default:
		return math.MaxUint64 - uint64(nUnits-i)
	}
}

func unitOf(off uint64) (int, bool) {
	for i := 0; i <= nUnits; i++ {
		if cut(i) == off {
			return i, true
		}
	}
	return 0, false
}

// model: per unit, per owner, lock type held (0 = none).
type model struct {
	owners int
	held   [][nUnits]virtual.ByteRangeLockType // [owner][unit]
}

func newModel(owners int) *model {
	return &model{owners: owners, held: make([][nUnits]virtual.ByteRangeLockType, owners)}
}

// runs counts maximal runs of adjacent units held by the same owner with
// the same type: the number of entries a canonical lock table needs.
func (m *model) runs() int {
	n := 0
	for o := 0; o < m.owners; o++ {
		prev := virtual.ByteRangeLockTypeUnlocked
		for u := 0; u < nUnits; u++ {
			cur := m.held[o][u]
			if cur != virtual.ByteRangeLockTypeUnlocked && cur != prev {
				n++
			}
			prev = cur
		}
	}
	return n
}

func (m *model) conflicts(owner, i, j int, typ virtual.ByteRangeLockType) bool {
	for o := 0; o < m.owners; o++ {
		if o == owner {
			continue
		}
		for u := i; u < j; u++ {
			h := m.held[o][u]
			if h == virtual.ByteRangeLockTypeUnlocked {
				continue
			}
			if h == virtual.ByteRangeLockTypeLockedExclusive || typ == virtual.ByteRangeLockTypeLockedExclusive {
				return true
			}
		}
	}
	return false
}

func (m *model) set(owner, i, j int, typ virtual.ByteRangeLockType) {
	for u := i; u < j; u++ {
		m.held[owner][u] = typ
	}
}

type step struct {
	Op    string `json:"op"`
	Owner int    `json:"owner"`
	From  int    `json:"from"`
	To    int    `json:"to"`
	Type  string `json:"type"`
	Res   string `json:"res,omitempty"`
}

func typeName(t virtual.ByteRangeLockType) string {
	switch t {
	case virtual.ByteRangeLockTypeLockedExclusive:
		return "excl"
	case virtual.ByteRangeLockTypeLockedShared:
		return "shared"
	}
	return "unlock"
}

// checkConflict validates a lock returned by Test: it must describe a
// genuinely conflicting maximal run of the model.
func checkConflict(m *model, got *virtual.ByteRangeLock[int], owner, i, j int, typ virtual.ByteRangeLockType) error {
	if got.Owner == owner {
		return fmt.Errorf("reported conflict with the owner's own lock %+v", *got)
	}
	if got.Owner < 0 || got.Owner >= m.owners {
		return fmt.Errorf("reported conflict with unknown owner %+v", *got)
	}
	a, ok1 := unitOf(got.Start)
	b, ok2 := unitOf(got.End)
	if !ok1 || !ok2 || a >= b {
		return fmt.Errorf("reported conflict has a range that was never locked: %+v", *got)
	}
	if got.Type != virtual.ByteRangeLockTypeLockedExclusive && got.Type != virtual.ByteRangeLockTypeLockedShared {
		return fmt.Errorf("reported conflict has invalid type: %+v", *got)
	}
	if got.Type != virtual.ByteRangeLockTypeLockedExclusive && typ != virtual.ByteRangeLockTypeLockedExclusive {
		return fmt.Errorf("reported conflict between two shared locks: %+v", *got)
	}
	for u := a; u < b; u++ {
		if m.held[got.Owner][u] != got.Type {
			return fmt.Errorf("reported conflicting lock %+v (units %d..%d) is not held with that type at unit %d in the model", *got, a, b, u)
		}
	}
	if a >= j || b <= i {
		return fmt.Errorf("reported conflicting lock %+v (units %d..%d) does not overlap the tested units %d..%d", *got, a, b, i, j)
	}
	// Maximality: canonical tables merge adjacent same-type runs.
	if a > 0 && m.held[got.Owner][a-1] == got.Type {
		return fmt.Errorf("reported conflicting lock %+v is not a maximal run (extends left)", *got)
	}
	if b < nUnits && m.held[got.Owner][b] == got.Type {
		return fmt.Errorf("reported conflicting lock %+v is not a maximal run (extends right)", *got)
	}
	return nil
}

// probeAll compares the complete observable state: for every owner
// (including one that never locks), every unit and both types, Test must
// report a conflict iff the model does, and name a real conflicting lock.
func probeAll(ls *virtual.ByteRangeLockSet[int], m *model) error {
	for o := 0; o < m.owners; o++ {
		for _, typ := range []virtual.ByteRangeLockType{virtual.ByteRangeLockTypeLockedExclusive, virtual.ByteRangeLockTypeLockedShared} {
			for u := 0; u < nUnits; u++ {
				got := ls.Test(&virtual.ByteRangeLock[int]{Start: cut(u), End: cut(u + 1), Owner: o, Type: typ})
				want := m.conflicts(o, u, u+1, typ)
				if (got != nil) != want {
					return fmt.Errorf("probe owner=%d unit=%d type=%s: Test conflict=%v, model conflict=%v", o, u, typeName(typ), got != nil, want)
				}
				if got != nil {
					if err := checkConflict(m, got, o, u, u+1, typ); err != nil {
						return fmt.Errorf("probe owner=%d unit=%d type=%s: %w", o, u, typeName(typ), err)
					}
				}
			}
		}
	}
	return nil
}

func TestC20LockSetModel(t *testing.T) {
	rec := simkit.NewRecorder(t, "C20", "lockset", "rapid state machine over ByteRangeLockSet[int] with 2-4 owners on a 33-unit compressed offset universe (bytes 0..15, gap, 16 highest offsets); oracle: per-byte model compared by probing Test for every owner x unit x type after every step, delta == change in number of maximal runs. Non-trivial: >=2 owners hold locks at some point AND a split or merge of an owner's runs happened AND some lock ended at the maximum offset; distinct by script hash")
	rapid.Check(t, func(rt *rapid.T) {
		owners := rapid.IntRange(2, 4).Draw(rt, "owners")
		// One extra owner index never locks: the pure observer.
		m := newModel(owners + 1)
		var ls virtual.ByteRangeLockSet[int]
		ls.Initialize()
		var script []step
		sawTwoOwners, sawSplitMerge, sawMaxEnd := false, false, false
		denied := 0
		rt.Repeat(map[string]func(*rapid.T){
			"lock": func(rt *rapid.T) {
				o := rapid.IntRange(0, owners-1).Draw(rt, "owner")
				i, j := drawRange(rt)
				typ := rapid.SampledFrom([]virtual.ByteRangeLockType{virtual.ByteRangeLockTypeLockedExclusive, virtual.ByteRangeLockTypeLockedShared}).Draw(rt, "type")
				l := &virtual.ByteRangeLock[int]{Start: cut(i), End: cut(j), Owner: o, Type: typ}
				got := ls.Test(l)
				want := m.conflicts(o, i, j, typ)
				st := step{Op: "lock", Owner: o, From: i, To: j, Type: typeName(typ)}
				if (got != nil) != want {
					rt.Fatalf("Test(%+v) conflict=%v but model says %v; script=%+v", *l, got != nil, want, script)
				}
				if got != nil {
					if err := checkConflict(m, got, o, i, j, typ); err != nil {
						rt.Fatalf("Test(%+v): %v; script=%+v", *l, err, script)
					}
					st.Res = "denied"
					denied++
					script = append(script, st)
					return
				}
				before := m.runs()
				m.set(o, i, j, typ)
				after := m.runs()
				delta := ls.Set(l)
				if delta != after-before {
					rt.Fatalf("Set(%+v) returned delta %d, model run count went %d -> %d; script=%+v", *l, delta, before, after, script)
				}
				if after-before != 1 {
					sawSplitMerge = true
				}
				if j == nUnits {
					sawMaxEnd = true
				}
				st.Res = fmt.Sprintf("granted delta=%d", delta)
				script = append(script, st)
			},
			"unlock": func(rt *rapid.T) {
				o := rapid.IntRange(0, owners-1).Draw(rt, "owner")
				i, j := drawRange(rt)
				l := &virtual.ByteRangeLock[int]{Start: cut(i), End: cut(j), Owner: o, Type: virtual.ByteRangeLockTypeUnlocked}
				before := m.runs()
				m.set(o, i, j, virtual.ByteRangeLockTypeUnlocked)
				after := m.runs()
				delta := ls.Set(l)
				if delta != after-before {
					rt.Fatalf("Set(unlock %+v) returned delta %d, model run count went %d -> %d; script=%+v", *l, delta, before, after, script)
				}
				if after > before {
					sawSplitMerge = true
				}
				script = append(script, step{Op: "unlock", Owner: o, From: i, To: j, Type: "unlock", Res: fmt.Sprintf("delta=%d", delta)})
			},
			"": func(rt *rapid.T) {
				if err := probeAll(&ls, m); err != nil {
					rt.Fatalf("%v; script=%+v", err, script)
				}
				holders := 0
				for o := 0; o < owners; o++ {
					for u := 0; u < nUnits; u++ {
						if m.held[o][u] != virtual.ByteRangeLockTypeUnlocked {
							holders++
							break
						}
					}
				}
				if holders >= 2 {
					sawTwoOwners = true
				}
			},
		})
		// Final: unlocking everything for every owner must empty the set.
		total := m.runs()
		sum := 0
		for o := 0; o < owners; o++ {
			sum += ls.Set(&virtual.ByteRangeLock[int]{Start: 0, End: math.MaxUint64, Owner: o, Type: virtual.ByteRangeLockTypeUnlocked})
			m.set(o, 0, nUnits, virtual.ByteRangeLockTypeUnlocked)
		}
		if sum != -total {
			rt.Fatalf("unlocking everything returned total delta %d, model had %d runs; script=%+v", sum, total, script)
		}
		if err := probeAll(&ls, m); err != nil {
			rt.Fatalf("after unlocking everything: %v; script=%+v", err, script)
		}
		labels := []string{}
		if sawTwoOwners {
			labels = append(labels, "two_owners")
		}
		if sawSplitMerge {
			labels = append(labels, "split_or_merge")
		}
		if sawMaxEnd {
			labels = append(labels, "max_offset_end")
		}
		if denied > 0 {
			labels = append(labels, "denied")
		}
		rec.Case(script, sawTwoOwners && sawSplitMerge && sawMaxEnd, labels...)
	})
}

func drawRange(rt *rapid.T) (int, int) {
	// Weighted towards short ranges, adjacency and the two ends.
	i := rapid.OneOf(rapid.IntRange(0, nUnits-1), rapid.SampledFrom([]int{0, 15, 16, 17, nUnits - 2, nUnits - 1})).Draw(rt, "from")
	maxLen := nUnits - i
	n := rapid.OneOf(rapid.IntRange(1, maxLen), rapid.IntRange(1, min(4, maxLen)), rapid.Just(maxLen)).Draw(rt, "len")
	return i, i + n
}

package lockset

// C20, lock table of one opened file shared by several owners that issue
// their requests at the same time (real goroutines): NFSv4.1 serialises
// requests per client only and the NFSv4.0 and NFSv4.1 servers share one
// OpenedFilesPool, so OpenedFile.Lock / Unlock / OpenedFilesPool.TestLock
// of different owners do run concurrently and "test for a conflict, then
// insert" has to be atomic per file.

import (
	"encoding/json"
	"fmt"
	"os"
	"runtime"
	"sync"
	"sync/atomic"
	"testing"

	xdr "github.com/buildbarn/go-xdr/pkg/protocols/nfsv4"
	"pgregory.net/rapid"

	"github.com/buildbarn/bb-remote-execution/pkg/filesystem/virtual/nfsv4"

	"verif/harness/internal/simkit"
)

const cUnits = 12 // contended bytes base..base+11

type cReq struct {
	Kind string // "lock", "unlock", "test", "none"
	From int    // unit
	To   int    // unit, exclusive
	Type int    // 1 = read, 2 = write
}

type cRound struct {
	Unlock bool
	Reqs   []cReq // one per owner
}

type cScript struct {
	Owners int
	Filler int // number of foreign locks in front of the contended bytes
	Rounds []cRound
}

func (s cScript) String() string {
	b, _ := json.Marshal(s)
	return string(b)
}

type cOutcome struct {
	Granted bool
	Denied  *xdr.Lock4denied
	Status  xdr.Nfsstat4
}

type cModel [][cUnits]int // [owner][unit] 0 none, 1 read, 2 write

func (m cModel) clone() cModel {
	return append(cModel(nil), m...)
}

func (m cModel) conflict(owner, from, to, typ int) bool {
	for o := range m {
		if o == owner {
			continue
		}
		for u := from; u < to; u++ {
			if h := m[o][u]; h != 0 && (h == 2 || typ == 2) {
				return true
			}
		}
	}
	return false
}

func (m cModel) incompatible() string {
	for u := 0; u < cUnits; u++ {
		for a := range m {
			for b := range m {
				if a != b && m[a][u] == 2 && m[b][u] != 0 {
					return fmt.Sprintf("byte %d of the contended region is held exclusively by owner %d while owner %d holds it too (%s)", u, a, b, map[int]string{1: "shared", 2: "exclusive"}[m[b][u]])
				}
			}
		}
	}
	return ""
}

func xdrType(t int) xdr.NfsLockType4 {
	if t == 2 {
		return xdr.WRITE_LT
	}
	return xdr.READ_LT
}

// deniedConsistent: the lock named by a DENIED reply belongs to another
// owner, overlaps the request, conflicts with it, and is held with that
// type over its whole extent (as far as it lies inside the contended
// bytes) in the table before the round or in the table after it.
func deniedConsistent(d *xdr.Lock4denied, owners []*xdr.LockOwner4, self int, base uint64, from, to, typ int, before, after cModel) error {
	who := -1
	for i, o := range owners {
		if o.Clientid == d.Owner.Clientid && string(o.Owner) == string(d.Owner.Owner) {
			who = i
		}
	}
	if who < 0 {
		return fmt.Errorf("names an owner nobody uses: %+v", d.Owner)
	}
	if who == self {
		return fmt.Errorf("names the requester's own lock")
	}
	dt := 1
	if d.Locktype == xdr.WRITE_LT || d.Locktype == xdr.WRITEW_LT {
		dt = 2
	}
	if dt != 2 && typ != 2 {
		return fmt.Errorf("names a shared lock as conflicting with a shared request")
	}
	if d.Offset < base || d.Offset+d.Length > base+cUnits || d.Length == 0 {
		return fmt.Errorf("names the range offset=%d length=%d outside the contended bytes [%d,%d)", d.Offset, d.Length, base, base+cUnits)
	}
	a, b := int(d.Offset-base), int(d.Offset-base+d.Length)
	if a >= to || b <= from {
		return fmt.Errorf("names units %d..%d, which do not overlap the requested units %d..%d", a, b, from, to)
	}
	held := func(m cModel) bool {
		for u := a; u < b; u++ {
			if m[who][u] != dt {
				return false
			}
		}
		return true
	}
	if !held(before) && !held(after) {
		return fmt.Errorf("names units %d..%d type %d of owner %d, which that owner holds neither before nor after this round", a, b, dt, who)
	}
	return nil
}

func drawCScript(rt *rapid.T, maxRounds int) cScript {
	s := cScript{
		Owners: rapid.IntRange(2, 5).Draw(rt, "owners"),
		Filler: rapid.SampledFrom([]int{0, 0, 8, 64, 300}).Draw(rt, "filler"),
	}
	n := rapid.IntRange(2, maxRounds).Draw(rt, "rounds")
	for r := 0; r < n; r++ {
		round := cRound{Unlock: rapid.IntRange(0, 4).Draw(rt, "unlockRound") == 0}
		hot := rapid.IntRange(0, cUnits-1).Draw(rt, "hot")
		for o := 0; o < s.Owners; o++ {
			var q cReq
			from := rapid.IntRange(0, cUnits-1).Draw(rt, "from")
			to := rapid.IntRange(from+1, cUnits).Draw(rt, "to")
			if rapid.IntRange(0, 9).Draw(rt, "aroundHot") < 7 {
				// Ranges of different owners meet at one byte.
				from = max(0, hot-rapid.IntRange(0, 2).Draw(rt, "l"))
				to = min(cUnits, hot+1+rapid.IntRange(0, 2).Draw(rt, "r"))
			}
			q.From, q.To = from, to
			switch {
			case round.Unlock:
				q.Kind = rapid.SampledFrom([]string{"unlock", "unlock", "unlock", "none"}).Draw(rt, "kind")
			default:
				q.Kind = rapid.SampledFrom([]string{"lock", "lock", "lock", "lock", "lock", "lock", "test", "none"}).Draw(rt, "kind")
				q.Type = rapid.SampledFrom([]int{2, 2, 1}).Draw(rt, "type")
			}
			round.Reqs = append(round.Reqs, q)
		}
		s.Rounds = append(s.Rounds, round)
	}
	return s
}

// runCScript executes the script once on a fresh pool and returns a
// description of the first inconsistency ("" if none) and whether two
// conflicting requests were in flight in the same round.
func runCScript(s cScript) (problem string, contended int) {
	pool := nfsv4.NewOpenedFilesPool(nil)
	handle := xdr.NfsFh4("f")
	base := uint64(2*s.Filler + 10)

	owners := make([]*xdr.LockOwner4, s.Owners)
	files := make([]*nfsv4.OpenedFile, s.Owners)
	for i := range owners {
		owners[i] = &xdr.LockOwner4{Clientid: uint64(100 + i), Owner: []byte{byte('a' + i)}}
		files[i] = pool.Open(handle, nil)
	}
	fillerOwner := &xdr.LockOwner4{Clientid: 7, Owner: []byte("filler")}
	observer := &xdr.LockOwner4{Clientid: 8, Owner: []byte("observer")}
	ff := pool.Open(handle, nil)
	for i := 0; i < s.Filler; i++ {
		// Locks on every other byte in front of the contended ones: they
		// never conflict with a request, the table only gets longer.
		if _, res := ff.Lock(fillerOwner, uint64(2*i), 1, xdr.WRITE_LT); res != nil {
			return fmt.Sprintf("filler lock %d refused: %#v", i, res), 0
		}
	}

	m := make(cModel, s.Owners)
	for ri, round := range s.Rounds {
		before := m.clone()
		outs := make([]cOutcome, s.Owners)
		var arrived atomic.Int32
		var wg sync.WaitGroup
		active := int32(0)
		for _, q := range round.Reqs {
			if q.Kind != "none" {
				active++
			}
		}
		for o := 0; o < s.Owners; o++ {
			q := round.Reqs[o]
			if q.Kind == "none" {
				continue
			}
			wg.Add(1)
			go func() {
				defer wg.Done()
				arrived.Add(1)
				for spins := 1; arrived.Load() < active; spins++ {
					// Spinning barrier.
					if spins%256 == 0 {
						runtime.Gosched()
					}
				}
				off, length := base+uint64(q.From), uint64(q.To-q.From)
				switch q.Kind {
				case "lock":
					_, res := files[o].Lock(owners[o], off, length, xdrType(q.Type))
					switch r := res.(type) {
					case nil:
						outs[o].Granted = true
					case *xdr.Lock4res_NFS4ERR_DENIED:
						outs[o].Denied = &r.Denied
					case *xdr.Lock4res_default:
						outs[o].Status = r.Status
					}
				case "unlock":
					_, st := files[o].Unlock(owners[o], off, length)
					outs[o].Status = st
					outs[o].Granted = st == xdr.NFS4_OK
				case "test":
					switch r := pool.TestLock(handle, owners[o], off, length, xdrType(q.Type)).(type) {
					case *xdr.Lockt4res_NFS4_OK:
						outs[o].Granted = true
					case *xdr.Lockt4res_NFS4ERR_DENIED:
						outs[o].Denied = &r.Denied
					case *xdr.Lockt4res_default:
						outs[o].Status = r.Status
					}
				}
			}()
		}
		wg.Wait()

		// The table after the round: every owner's own requests only
		// touch that owner's locks, so the order among granted requests
		// of different owners is immaterial.
		describe := func() string {
			b, _ := json.Marshal(outs)
			return fmt.Sprintf("round %d outcomes=%s", ri, b)
		}
		for o, q := range round.Reqs {
			switch q.Kind {
			case "lock":
				if outs[o].Granted {
					for u := q.From; u < q.To; u++ {
						m[o][u] = q.Type
					}
				} else if outs[o].Denied == nil {
					return fmt.Sprintf("owner %d: LOCK of units %d..%d failed with status %d; %s", o, q.From, q.To, outs[o].Status, describe()), contended
				}
			case "unlock":
				if !outs[o].Granted {
					return fmt.Sprintf("owner %d: LOCKU of units %d..%d failed with status %d; %s", o, q.From, q.To, outs[o].Status, describe()), contended
				}
				for u := q.From; u < q.To; u++ {
					m[o][u] = 0
				}
			}
		}
		// Did the round contain two lock requests of different owners
		// that cannot both be granted?
		for a, qa := range round.Reqs {
			for b, qb := range round.Reqs {
				if a < b && qa.Kind == "lock" && qb.Kind == "lock" && qa.From < qb.To && qb.From < qa.To && (qa.Type == 2 || qb.Type == 2) {
					contended++
				}
			}
		}
		// (1) Whatever the schedule was, owners never hold incompatible
		// locks on a byte.
		if p := m.incompatible(); p != "" {
			return p + "; " + describe(), contended
		}
		// (2) A refusal is explained by a lock another owner held before
		// the round or holds after it; a grant of a test likewise.
		for o, q := range round.Reqs {
			if q.Kind != "lock" && q.Kind != "test" {
				continue
			}
			if d := outs[o].Denied; d != nil {
				if !before.conflict(o, q.From, q.To, q.Type) && !m.conflict(o, q.From, q.To, q.Type) {
					return fmt.Sprintf("owner %d: %s of units %d..%d type %d was DENIED although no other owner holds a conflicting lock before or after the round; %s", o, q.Kind, q.From, q.To, q.Type, describe()), contended
				}
				if err := deniedConsistent(d, owners, o, base, q.From, q.To, q.Type, before, m); err != nil {
					return fmt.Sprintf("owner %d: %s of units %d..%d type %d DENIED, but the reply %v; %s", o, q.Kind, q.From, q.To, q.Type, err, describe()), contended
				}
			} else if q.Kind == "test" && outs[o].Granted {
				if before.conflict(o, q.From, q.To, q.Type) && m.conflict(o, q.From, q.To, q.Type) {
					// Conflicting both before and after: the conflicting
					// owner made at most one request, so it conflicted
					// throughout, unless two different owners took turns.
					same := false
					for x := range m {
						if x != o && (cModel{before[x]}).conflictSelf(q.From, q.To, q.Type) && (cModel{m[x]}).conflictSelf(q.From, q.To, q.Type) {
							same = true
						}
					}
					if same {
						return fmt.Sprintf("owner %d: LOCKT of units %d..%d type %d found no conflict although one owner held a conflicting lock throughout the round; %s", o, q.From, q.To, q.Type, describe()), contended
					}
				}
			} else if outs[o].Status != 0 {
				return fmt.Sprintf("owner %d: %s failed with status %d; %s", o, q.Kind, outs[o].Status, describe()), contended
			}
		}
		// (3) Read the table back, sequentially, as an owner that holds
		// nothing: every contended byte for both lock types.
		for u := 0; u < cUnits; u++ {
			for _, typ := range []int{1, 2} {
				res := pool.TestLock(handle, observer, base+uint64(u), 1, xdrType(typ))
				_, free := res.(*xdr.Lockt4res_NFS4_OK)
				if want := !m.conflict(-1, u, u+1, typ); free != want {
					return fmt.Sprintf("read-back after round %d: byte %d type %d free=%v, the model says free=%v; %s", ri, u, typ, free, want, describe()), contended
				}
				if d, ok := res.(*xdr.Lockt4res_NFS4ERR_DENIED); ok {
					if err := deniedConsistent(&d.Denied, owners, -1, base, u, u+1, typ, m, m); err != nil {
						return fmt.Sprintf("read-back after round %d: byte %d type %d DENIED, but the reply %v; %s", ri, u, typ, err, describe()), contended
					}
				}
			}
		}
	}
	// The filler locks are untouched.
	if s.Filler > 0 {
		if _, free := pool.TestLock(handle, observer, 0, uint64(2*s.Filler), xdr.READ_LT).(*xdr.Lockt4res_NFS4_OK); free {
			return "the locks in front of the contended bytes have vanished", contended
		}
	}
	for i := range files {
		files[i].UnlockAll(owners[i])
		files[i].Close()
	}
	ff.UnlockAll(fillerOwner)
	ff.Close()
	if n, ok := pool.VerifOpenedCount(); !ok || n != 0 {
		return fmt.Sprintf("after closing every open the pool still tracks %d files (lock free=%v)", n, ok), contended
	}
	return "", contended
}

// conflictSelf: m has a single row; does it conflict with the request?
func (m cModel) conflictSelf(from, to, typ int) bool {
	for u := from; u < to; u++ {
		if h := m[0][u]; h != 0 && (h == 2 || typ == 2) {
			return true
		}
	}
	return false
}

const concurrentRule = "One case = a generated script of 2..10 rounds for 2..5 lock-owners of different clients that share ONE opened file of a real nfsv4.OpenedFilesPool (Open per owner; 0/8/64/300 never-conflicting locks of a further owner in front of the contended bytes make the table long). In a round every owner makes one request - lock rounds: LOCK read/write of a range of the 12 contended bytes (70% meeting at one drawn byte), LOCKT, or nothing; unlock rounds: LOCKU or nothing - and the requests of a round are issued AT THE SAME TIME by one goroutine per owner released from a spinning barrier (real parallelism, race detector on in the driver); between rounds everything is joined. Each script is executed several times on fresh pools (quick 4, thorough 8 executions), since the schedule is the Go runtime's. ORACLE (validity over all schedules, per-byte reference table): (1) after every round no byte is held exclusively by one owner and at all by another - the table after the round is the table before it with every granted request applied to its own owner, which does not depend on the order; (2) a DENIED LOCK/LOCKT is explained by a conflicting lock that another owner held before the round or holds after it, and the lock it names belongs to another owner, overlaps, conflicts, and is held like that before or after the round; a LOCKT finding no conflict although one owner conflicted throughout is wrong; no other error status; (3) the table is read back sequentially with LOCKT (every contended byte, both types, an owner that holds nothing) and must equal the reference table; at the end the filler locks are still there and after UnlockAll+Close of every open the pool is empty. NON-TRIVIAL: a round contained two LOCK requests of different owners that cannot both be granted. Distinct by script hash."

func thoroughTier() bool { return os.Getenv("VERIF_TIER") == "thorough" }

func TestC20OpenedFileConcurrentOwners(t *testing.T) {
	rec := simkit.NewRecorder(t, "C20", "opened_file_concurrent_owners", concurrentRule)
	maxRounds, reps := 6, 4
	if thoroughTier() {
		maxRounds, reps = 10, 8
	}
	rapid.Check(t, func(rt *rapid.T) {
		s := drawCScript(rt, maxRounds)
		contended := 0
		for rep := 0; rep < reps; rep++ {
			problem, c := runCScript(s)
			contended = c
			if problem != "" {
				// The schedule is not ours: print the history here, rapid
				// may not be able to reproduce it.
				fmt.Printf("VERIF-VIOLATION property=C20 execution %d of script %s: %s\n", rep, s, problem)
				rt.Fatalf("C20: %s; script=%s", problem, s)
			}
		}
		var labels []string
		if contended > 0 {
			labels = append(labels, "round_with_conflicting_lock_requests")
		}
		if s.Filler >= 300 {
			labels = append(labels, "long_table")
		}
		for _, r := range s.Rounds {
			if r.Unlock {
				labels = append(labels, "unlock_round")
				break
			}
		}
		rec.Case(s, contended > 0, labels...)
	})
}

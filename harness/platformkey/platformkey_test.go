package platformkey

// C05, key level: a task can only reach a worker whose platform
// properties EQUAL the action's and whose instance name prefix is the
// longest registered prefix. Both rest on platform.Key being an injective
// encoding of (instance name prefix, Platform message) and on
// platform.Trie being a faithful map from such keys with longest-prefix
// lookup. These two checks decide that directly, with property names and
// values drawn from an alphabet of characters that are special to the JSON
// encoding the key is built from.

import (
	"encoding/json"
	"fmt"
	"sort"
	"strings"
	"testing"

	remoteexecution "github.com/bazelbuild/remote-apis/build/bazel/remote/execution/v2"
	"github.com/buildbarn/bb-remote-execution/pkg/scheduler/platform"
	"github.com/buildbarn/bb-storage/pkg/digest"
	"google.golang.org/grpc/codes"
	"google.golang.org/grpc/status"
	"google.golang.org/protobuf/proto"
	"pgregory.net/rapid"

	"verif/harness/internal/simkit"
)

var fragments = []string{
	"a", "b", "os", "linux", "cpu", ",", ", ", " ,", " ", "  ", ":", ": ", "\"", "\\", "\\\"", "{", "}", "[", "]", "\n", "\t", "é", " ", "<", ">", "&", "0", "name", "value", "",
}

func genString(rt *rapid.T, label string) string {
	n := rapid.IntRange(0, 3).Draw(rt, label+"N")
	var b strings.Builder
	for i := 0; i < n; i++ {
		b.WriteString(rapid.SampledFrom(fragments).Draw(rt, label))
	}
	return b.String()
}

type prop struct{ Name, Value string }

func genPlatform(rt *rapid.T, label string) []prop {
	n := rapid.IntRange(0, 3).Draw(rt, label+"Props")
	ps := make([]prop, 0, n)
	for i := 0; i < n; i++ {
		ps = append(ps, prop{genString(rt, label+"Name"), genString(rt, label+"Value")})
	}
	return ps
}

// normal form required by REv2 and by NewKey: strictly increasing by
// (name, value).
func sortedUnique(ps []prop) []prop {
	out := append([]prop(nil), ps...)
	sort.Slice(out, func(i, j int) bool {
		if out[i].Name != out[j].Name {
			return out[i].Name < out[j].Name
		}
		return out[i].Value < out[j].Value
	})
	w := 0
	for i, p := range out {
		if i == 0 || p != out[i-1] {
			out[w] = p
			w++
		}
	}
	return out[:w]
}

func toProto(ps []prop) *remoteexecution.Platform {
	p := &remoteexecution.Platform{}
	for _, x := range ps {
		p.Properties = append(p.Properties, &remoteexecution.Platform_Property{Name: x.Name, Value: x.Value})
	}
	return p
}

var prefixes = []string{"", "a", "a/b", "a/b/c", "a/bb", "x", "x/y"}

func mustInstance(s string) digest.InstanceName {
	i, err := digest.NewInstanceName(s)
	if err != nil {
		panic(err)
	}
	return i
}

func equalProps(a, b []prop) bool {
	if len(a) != len(b) {
		return false
	}
	for i := range a {
		if a[i] != b[i] {
			return false
		}
	}
	return true
}

type keyCase struct {
	PrefixA, PrefixB string
	A, B             []prop
	Relation         string
}

func TestC05PlatformKeyInjective(t *testing.T) {
	rec := simkit.NewRecorder(t, "C05", "platform-key-injective",
		"rapid-generated pairs of (instance name prefix, Platform) with 0-3 properties whose names and values are concatenations of fragments special to JSON (commas with and without spaces, quotes, backslashes, braces, colons, control and non-ASCII characters); the second platform is an independent draw, a copy, or a near copy (one fragment of one name or value replaced). Oracle: NewKey accepts exactly the platforms whose properties are strictly increasing by (name, value); two accepted inputs give equal Keys iff prefixes and property lists are equal; the Key gives back the prefix and a Platform equal to the input (GetPlatformQueueName). Non-trivial: both inputs accepted and they differ only inside one property string, or are equal; distinct by script hash")
	rapid.Check(t, func(rt *rapid.T) {
		a := sortedUnique(genPlatform(rt, "a"))
		var b []prop
		relation := rapid.SampledFrom([]string{"independent", "copy", "near", "near", "near", "unsorted"}).Draw(rt, "relation")
		switch relation {
		case "independent":
			b = sortedUnique(genPlatform(rt, "b"))
		case "copy":
			b = append([]prop(nil), a...)
		case "near":
			b = append([]prop(nil), a...)
			if len(b) == 0 {
				b = []prop{{genString(rt, "nearName"), genString(rt, "nearValue")}}
			} else {
				i := rapid.IntRange(0, len(b)-1).Draw(rt, "nearIndex")
				s := b[i].Value
				onName := rapid.Bool().Draw(rt, "nearOnName")
				if onName {
					s = b[i].Name
				}
				// Replace, insert or delete one fragment.
				from := rapid.SampledFrom(fragments).Draw(rt, "nearFrom")
				to := rapid.SampledFrom(fragments).Draw(rt, "nearTo")
				if from != "" && strings.Contains(s, from) {
					s = strings.Replace(s, from, to, 1)
				} else {
					s += to
				}
				if onName {
					b[i].Name = s
				} else {
					b[i].Value = s
				}
			}
			b = sortedUnique(b)
		case "unsorted":
			b = genPlatform(rt, "b")
		}
		pa := rapid.SampledFrom(prefixes).Draw(rt, "prefixA")
		pb := pa
		if rapid.IntRange(0, 3).Draw(rt, "otherPrefix") == 0 {
			pb = rapid.SampledFrom(prefixes).Draw(rt, "prefixB")
		}
		script := keyCase{pa, pb, a, b, relation}

		ka, err := platform.NewKey(mustInstance(pa), toProto(a))
		if err != nil {
			rt.Fatalf("NewKey rejected a platform in normal form: %v; script=%+v", err, script)
		}
		bNormal := equalProps(b, sortedUnique(b))
		if bNormal {
			// sortedUnique keeps order only if the input was strictly increasing.
			for i := 1; i < len(b); i++ {
				if b[i-1].Name > b[i].Name || (b[i-1].Name == b[i].Name && b[i-1].Value >= b[i].Value) {
					bNormal = false
				}
			}
		}
		kb, err := platform.NewKey(mustInstance(pb), toProto(b))
		if !bNormal {
			if err == nil {
				rt.Fatalf("NewKey accepted properties that are not strictly increasing by (name, value); script=%+v", script)
			}
			if status.Code(err) != codes.InvalidArgument {
				rt.Fatalf("NewKey rejected unsorted properties with %v, expected INVALID_ARGUMENT; script=%+v", err, script)
			}
			rec.Case(script, false, "relation:"+relation, "unsorted_rejected")
			return
		}
		if err != nil {
			rt.Fatalf("NewKey rejected a platform in normal form: %v; script=%+v", err, script)
		}
		same := pa == pb && equalProps(a, b)
		if (ka == kb) != same {
			rt.Fatalf("keys equal = %v, but inputs equal = %v: key A %q/%q, key B %q/%q; script=%+v", ka == kb, same, ka.GetInstanceNamePrefix().String(), ka.GetPlatformString(), kb.GetInstanceNamePrefix().String(), kb.GetPlatformString(), script)
		}
		if (ka.GetPlatformString() == kb.GetPlatformString()) != equalProps(a, b) {
			rt.Fatalf("platform strings equal = %v, but property lists equal = %v: %q vs %q; script=%+v", ka.GetPlatformString() == kb.GetPlatformString(), equalProps(a, b), ka.GetPlatformString(), kb.GetPlatformString(), script)
		}
		for _, x := range []struct {
			k  platform.Key
			p  string
			ps []prop
		}{{ka, pa, a}, {kb, pb, b}} {
			q := x.k.GetPlatformQueueName()
			if q.InstanceNamePrefix != x.p || !proto.Equal(q.Platform, toProto(x.ps)) {
				rt.Fatalf("the key does not give back its input: prefix %q platform %v, input prefix %q platform %v; script=%+v", q.InstanceNamePrefix, q.Platform, x.p, toProto(x.ps), script)
			}
			var js any
			if err := json.Unmarshal([]byte(x.k.GetPlatformString()), &js); err != nil {
				rt.Fatalf("platform string %q is not JSON: %v; script=%+v", x.k.GetPlatformString(), err, script)
			}
		}
		labels := []string{"relation:" + relation}
		if same {
			labels = append(labels, "equal_inputs_equal_keys")
		} else {
			labels = append(labels, "different_inputs_different_keys")
		}
		nearMiss := relation == "near" && !equalProps(a, b) && len(a) == len(b)
		if nearMiss {
			labels = append(labels, "differ_inside_one_property_string")
		}
		rec.Case(script, nearMiss || same, labels...)
	})
}

// ---------------------------------------------------------------------------

type trieStep struct {
	Op       string
	Prefix   string
	Platform int
	Value    int
	Got      string
}

func TestC05PlatformTrieModel(t *testing.T) {
	rec := simkit.NewRecorder(t, "C05", "platform-trie-model",
		"rapid state machine over platform.Trie with 3 platforms x 7 nested instance name prefixes: Set, Remove (of present keys only, as the scheduler does), ContainsExact, GetExact, GetLongestPrefix; reference model: a map from (platform string, prefix) to value, longest prefix computed by walking the components. Oracle after every step: all 21 exact lookups and longest-prefix lookups for all 21 keys plus deeper request names agree with the model. Non-trivial: a Remove of a key while another prefix of the same platform stays registered, followed by lookups; distinct by script hash")
	platforms := [][]prop{nil, {{"os", "linux"}}, {{"cpu", "arm"}, {"os", "linux"}}}
	requestNames := append(append([]string(nil), prefixes...), "a/b/c/d", "a/bb/c", "x/y/z", "q")
	rapid.Check(t, func(rt *rapid.T) {
		tr := platform.NewTrie()
		model := map[string]int{}
		mk := func(prefix string, pl int) (platform.Key, string) {
			k, err := platform.NewKey(mustInstance(prefix), toProto(platforms[pl]))
			if err != nil {
				panic(err)
			}
			return k, fmt.Sprintf("%d|%s", pl, prefix)
		}
		longest := func(name string, pl int) int {
			comps := []string{}
			if name != "" {
				comps = strings.Split(name, "/")
			}
			for n := len(comps); n >= 0; n-- {
				if v, ok := model[fmt.Sprintf("%d|%s", pl, strings.Join(comps[:n], "/"))]; ok {
					return v
				}
			}
			return -1
		}
		var script []trieStep
		removedWithSibling := false
		check := func() {
			for pl := range platforms {
				for _, p := range prefixes {
					k, mkey := mk(p, pl)
					v, ok := model[mkey]
					if tr.ContainsExact(k) != ok {
						rt.Fatalf("ContainsExact(%s) = %v, model %v; script=%+v", mkey, !ok, ok, script)
					}
					want := -1
					if ok {
						want = v
					}
					if got := tr.GetExact(k); got != want {
						rt.Fatalf("GetExact(%s) = %d, model %d; script=%+v", mkey, got, want, script)
					}
				}
				for _, name := range requestNames {
					k, mkey := mk(name, pl)
					if got, want := tr.GetLongestPrefix(k), longest(name, pl); got != want {
						rt.Fatalf("GetLongestPrefix(%s) = %d, model %d; script=%+v", mkey, got, want, script)
					}
				}
			}
		}
		nextValue := 0
		rt.Repeat(map[string]func(*rapid.T){
			"set": func(rt *rapid.T) {
				p, pl := rapid.SampledFrom(prefixes).Draw(rt, "prefix"), rapid.IntRange(0, len(platforms)-1).Draw(rt, "platform")
				k, mkey := mk(p, pl)
				tr.Set(k, nextValue)
				model[mkey] = nextValue
				script = append(script, trieStep{Op: "set", Prefix: p, Platform: pl, Value: nextValue})
				nextValue++
			},
			"remove": func(rt *rapid.T) {
				keys := make([]string, 0, len(model))
				for k := range model {
					keys = append(keys, k)
				}
				if len(keys) == 0 {
					rt.Skip("nothing registered")
				}
				sort.Strings(keys)
				mkey := rapid.SampledFrom(keys).Draw(rt, "key")
				var pl int
				var p string
				parts := strings.SplitN(mkey, "|", 2)
				fmt.Sscanf(parts[0], "%d", &pl)
				p = parts[1]
				k, _ := mk(p, pl)
				tr.Remove(k)
				delete(model, mkey)
				for other := range model {
					if strings.HasPrefix(other, parts[0]+"|") {
						removedWithSibling = true
					}
				}
				script = append(script, trieStep{Op: "remove", Prefix: p, Platform: pl})
			},
			"": func(rt *rapid.T) { check() },
		})
		check()
		labels := []string{}
		if removedWithSibling {
			labels = append(labels, "removed_one_of_several_prefixes_of_a_platform")
		}
		rec.Case(script, removedWithSibling, labels...)
	})
}

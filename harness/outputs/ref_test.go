package outputs

// Independent reference: lexical path normaliser, expected ActionResult,
// expected parent directories, and the Tree well-formedness checker. None
// of this uses bb-storage's path package.

import (
	"fmt"
	"sort"
	"strings"

	remoteexecution "github.com/bazelbuild/remote-apis/build/bazel/remote/execution/v2"
	"google.golang.org/protobuf/encoding/protowire"
	"google.golang.org/protobuf/proto"
)

// refResolve resolves UNIX path p lexically against base (a list of names
// below the input root). ok is false if p is absolute or at any point
// climbs above the input root. Once a prefix has climbed above the root no
// later component can cancel that, so "some prefix escapes" and "the
// normalised path starts with .." are the same predicate.
func refResolve(base []string, p string) (loc []string, ok bool) {
	if strings.HasPrefix(p, "/") {
		return nil, false
	}
	loc = append([]string{}, base...)
	for _, tok := range strings.Split(p, "/") {
		switch tok {
		case "", ".":
		case "..":
			if len(loc) == 0 {
				return nil, false
			}
			loc = loc[:len(loc)-1]
		default:
			loc = append(loc, tok)
		}
	}
	return loc, true
}

// mustBeDirectory: the spelling of p can only denote a directory
// (trailing slash, or last component "." / "..").
func mustBeDirectory(p string) bool {
	toks := strings.Split(p, "/")
	last := toks[len(toks)-1]
	return last == "" || last == "." || last == ".."
}

type refCommand struct {
	valid       bool
	workdirOK   bool
	firstBadIdx int        // index of first escaping output path, -1 if none
	wloc        []string   // working directory location
	locs        [][]string // per output path (only if valid)
}

func refCommandOf(workdir string, paths []string) refCommand {
	rc := refCommand{firstBadIdx: -1}
	rc.wloc, rc.workdirOK = refResolve(nil, workdir)
	if !rc.workdirOK {
		return rc
	}
	for i, p := range paths {
		loc, ok := refResolve(rc.wloc, p)
		if !ok {
			if rc.firstBadIdx < 0 {
				rc.firstBadIdx = i
			}
			continue
		}
		rc.locs = append(rc.locs, loc)
	}
	rc.valid = rc.firstBadIdx < 0
	return rc
}

// parentChains returns every directory that has to exist before the
// command runs: all proper, non-empty prefixes of every output location.
func parentChains(locs [][]string) map[string][]string {
	out := map[string][]string{}
	for _, loc := range locs {
		for i := 1; i < len(loc); i++ {
			out[strings.Join(loc[:i], "/")] = loc[:i]
		}
	}
	return out
}

// ---------------------------------------------------------------------
// Symlink target equivalence. The code reports targets after passing them
// through a path builder that drops empty and "." components, so the
// oracle is "denotes the same path under POSIX resolution", not string
// equality.

type canonTarget struct {
	abs   bool
	comps string
	dir   bool
}

func canonicalTarget(t string) canonTarget {
	c := canonTarget{abs: strings.HasPrefix(t, "/")}
	var comps []string
	for _, tok := range strings.Split(t, "/") {
		switch tok {
		case "", ".":
		case "..":
			if c.abs && len(comps) == 0 {
				continue // "/.." is "/"
			}
			comps = append(comps, tok)
		default:
			comps = append(comps, tok)
		}
	}
	c.comps = strings.Join(comps, "\x00")
	c.dir = len(comps) == 0 || comps[len(comps)-1] == ".." || mustBeDirectory(t)
	return c
}

func isPlainTarget(t string) bool {
	if t == "" || t == "/" {
		return false
	}
	for _, tok := range strings.Split(strings.TrimPrefix(t, "/"), "/") {
		if tok == "" || tok == "." {
			return false
		}
	}
	return true
}

// ---------------------------------------------------------------------
// Expected outputs.

type expected struct {
	Kind   string // "file", "dir", "symlink", "none" (missing or unreachable), "special"
	Exec   bool
	Data   string
	Target string
	Node   *node
	// Lenient: the declared spelling can only denote a directory (trailing
	// slash) but the location holds a non-directory; whether that "exists"
	// is not specified, so reporting it or not are both accepted.
	Lenient bool
	// Volatile: the file is rewritten in place while it is uploaded; the
	// upload may fail (then the output is not reported), and if it is
	// reported the digest must still describe the bytes stored for it.
	Volatile bool
}

func expectedAt(root *node, loc []string, declared string) expected {
	var n *node
	if len(loc) == 0 {
		n = root
	} else {
		n = root.walk(loc)
	}
	if n == nil {
		return expected{Kind: "none"}
	}
	e := expected{Node: n}
	switch n.kind {
	case kFile:
		e.Kind, e.Exec, e.Data = "file", n.exec, n.data
	case kSymlink:
		e.Kind, e.Target = "symlink", n.target
	case kDir:
		e.Kind = "dir"
	default:
		e.Kind = "special"
	}
	if e.Kind != "dir" && mustBeDirectory(declared) {
		e.Lenient = true
	}
	if n.volatile {
		e.Volatile = true // rewritten while being uploaded: the upload may fail
	}
	return e
}

// unreachable reports whether some proper prefix of loc is a
// non-directory (so the location cannot be looked at through
// directory-only traversal and the code is entitled to an error).
func unreachable(root *node, loc []string) bool {
	cur := root
	for _, c := range loc[:max(len(loc)-1, 0)] {
		next := cur.children[c]
		if next == nil {
			return false
		}
		if next.kind != kDir {
			return true
		}
		cur = next
	}
	return false
}

// dirIdentity is a structural hash of a directory as REv2 sees it
// (special files are invisible), used to detect repeated identical
// subdirectories in the model without marshalling protos.
func dirIdentity(n *node, memo map[*node]string) string {
	if s, ok := memo[n]; ok {
		return s
	}
	var sb strings.Builder
	for _, name := range n.sortedNames() {
		c := n.children[name]
		switch c.kind {
		case kFile:
			fmt.Fprintf(&sb, "F%q%v%q;", name, c.exec, c.data)
		case kSymlink:
			fmt.Fprintf(&sb, "L%q%q;", name, c.target)
		case kDir:
			fmt.Fprintf(&sb, "D%q{%s};", name, dirIdentity(c, memo))
		}
	}
	s := sha256Hex([]byte(sb.String()))
	memo[n] = s
	return s
}

type treeShape struct {
	dirs              int
	depth             int
	repeated          bool // some identity occurs at >= 2 places below the root
	repeatedNonEmpty  bool
	repeatedDiffDepth bool // ... at two different depths (DAG, not just siblings)
	hasSpecial        bool
	visibleEntries    int
}

func shapeOf(root *node) treeShape {
	memo := map[*node]string{}
	depths := map[string]map[int]int{}
	nonEmpty := map[string]bool{}
	var s treeShape
	var rec func(n *node, depth int)
	rec = func(n *node, depth int) {
		s.dirs++
		if depth > s.depth {
			s.depth = depth
		}
		if depth > 0 {
			id := dirIdentity(n, memo)
			if depths[id] == nil {
				depths[id] = map[int]int{}
			}
			depths[id][depth]++
			vis := 0
			for _, c := range n.children {
				if c.kind != kSpecial {
					vis++
				}
			}
			nonEmpty[id] = vis > 0
		}
		for _, name := range n.sortedNames() {
			c := n.children[name]
			switch c.kind {
			case kDir:
				s.visibleEntries++
				rec(c, depth+1)
			case kSpecial:
				s.hasSpecial = true
			default:
				s.visibleEntries++
			}
		}
	}
	rec(root, 0)
	for id, m := range depths {
		total := 0
		for _, c := range m {
			total += c
		}
		if total >= 2 {
			s.repeated = true
			if nonEmpty[id] {
				s.repeatedNonEmpty = true
			}
			if len(m) >= 2 {
				s.repeatedDiffDepth = true
			}
		}
	}
	return s
}

// ---------------------------------------------------------------------
// Tree checker.

type rawDir struct {
	raw    []byte
	hash   string
	size   int64
	msg    *remoteexecution.Directory
	refd   bool
	parsed bool
}

// checkTree verifies that the Tree stored under treeDigest is well formed
// (root first on the wire, every referenced child present exactly once,
// no unreferenced children, parents before children) and that it expands
// to exactly the model directory want.
func checkTree(cas *fakeCAS, od *remoteexecution.OutputDirectory, want *node, requireRootDirectoryDigest bool, tol *tolerance) error {
	data, ok := cas.lookup(od.TreeDigest)
	if !ok {
		return fmt.Errorf("tree digest %v is not in the CAS", od.TreeDigest)
	}
	// Wire-level walk: field 1 (root) first and once, then only field 2.
	var dirs []*rawDir
	rest := data
	for i := 0; len(rest) > 0; i++ {
		num, typ, n := protowire.ConsumeTag(rest)
		if n < 0 {
			return fmt.Errorf("tree: malformed tag at entry %d", i)
		}
		rest = rest[n:]
		if typ != protowire.BytesType {
			return fmt.Errorf("tree: entry %d has wire type %d", i, typ)
		}
		b, n := protowire.ConsumeBytes(rest)
		if n < 0 {
			return fmt.Errorf("tree: malformed length at entry %d", i)
		}
		rest = rest[n:]
		switch {
		case i == 0 && num != 1:
			return fmt.Errorf("tree: first entry on the wire is field %d, not the root", num)
		case i > 0 && num != 2:
			return fmt.Errorf("tree: entry %d on the wire is field %d (root must come first and only once)", i, num)
		}
		var msg remoteexecution.Directory
		if err := proto.Unmarshal(b, &msg); err != nil {
			return fmt.Errorf("tree: entry %d does not decode as Directory: %v", i, err)
		}
		dirs = append(dirs, &rawDir{raw: b, hash: sha256Hex(b), size: int64(len(b)), msg: &msg})
	}
	if len(dirs) == 0 {
		return fmt.Errorf("tree: no root directory")
	}
	// Cross-check with the regular proto decoder.
	var tree remoteexecution.Tree
	if err := proto.Unmarshal(data, &tree); err != nil {
		return fmt.Errorf("tree does not decode: %v", err)
	}
	if tree.Root == nil || len(tree.Children) != len(dirs)-1 {
		return fmt.Errorf("tree: proto decoder sees root=%v and %d children, wire walk saw %d entries", tree.Root != nil, len(tree.Children), len(dirs))
	}

	pos := map[string]int{}
	for i, d := range dirs {
		key := casKey(d.hash, d.size)
		if j, dup := pos[key]; dup {
			return fmt.Errorf("tree: directory %s present twice (entries %d and %d)", d.hash[:12], j, i)
		}
		pos[key] = i
	}
	for i, d := range dirs {
		for _, sub := range d.msg.Directories {
			j, ok := pos[casKey(sub.GetDigest().GetHash(), sub.GetDigest().GetSizeBytes())]
			if !ok {
				return fmt.Errorf("tree: entry %d references child %q with digest %v that is not in the tree", i, sub.Name, sub.Digest)
			}
			if j <= i {
				return fmt.Errorf("tree: entry %d references child %q stored at entry %d (parents must come before children)", i, sub.Name, j)
			}
			dirs[j].refd = true
		}
	}
	for i, d := range dirs[1:] {
		if !d.refd {
			return fmt.Errorf("tree: child entry %d is referenced by no directory", i+1)
		}
	}

	// Expansion equals the model.
	var cmp func(d *rawDir, want *node, where string) error
	cmp = func(d *rawDir, want *node, where string) error {
		seen := map[string]string{}
		note := func(name, k string) error {
			if prev, ok := seen[name]; ok {
				return fmt.Errorf("%s: name %q listed twice (%s and %s)", where, name, prev, k)
			}
			seen[name] = k
			return nil
		}
		for _, f := range d.msg.Files {
			if err := note(f.Name, "file"); err != nil {
				return err
			}
			w := want.children[f.Name]
			if w == nil || w.kind != kFile {
				return fmt.Errorf("%s: Tree lists file %q, model has %s", where, f.Name, describe(w))
			}
			if err := checkFileDigest(cas, f.Digest, w.data, w.alts()...); err != nil {
				return fmt.Errorf("%s/%s: %v", where, f.Name, err)
			}
			if f.IsExecutable != w.exec {
				return fmt.Errorf("%s/%s: is_executable=%v, model exec=%v", where, f.Name, f.IsExecutable, w.exec)
			}
		}
		for _, s := range d.msg.Symlinks {
			if err := note(s.Name, "symlink"); err != nil {
				return err
			}
			w := want.children[s.Name]
			if w == nil || w.kind != kSymlink {
				return fmt.Errorf("%s: Tree lists symlink %q, model has %s", where, s.Name, describe(w))
			}
			if canonicalTarget(s.Target) != canonicalTarget(w.target) {
				return fmt.Errorf("%s/%s: symlink target %q, model target %q", where, s.Name, s.Target, w.target)
			}
		}
		for _, sub := range d.msg.Directories {
			if err := note(sub.Name, "directory"); err != nil {
				return err
			}
			w := want.children[sub.Name]
			if w == nil || w.kind != kDir {
				return fmt.Errorf("%s: Tree lists directory %q, model has %s", where, sub.Name, describe(w))
			}
			j := pos[casKey(sub.GetDigest().GetHash(), sub.GetDigest().GetSizeBytes())]
			if err := cmp(dirs[j], w, where+"/"+sub.Name); err != nil {
				return err
			}
		}
		for _, name := range want.sortedNames() {
			if want.children[name].kind == kSpecial {
				continue
			}
			if want.children[name].volatile {
				continue // rewritten while being uploaded: the upload may fail, the file is then left out
			}
			if tol.allows(want.children[name]) {
				continue // its upload was hit by the injected fault
			}
			if _, ok := seen[name]; !ok {
				return fmt.Errorf("%s: model has %s %q, Tree does not list it", where, want.children[name].kind, name)
			}
		}
		return nil
	}
	if err := cmp(dirs[0], want, "."); err != nil {
		return err
	}

	// root_directory_digest, if given, must name the root, and then every
	// Directory has to be retrievable on its own.
	if od.RootDirectoryDigest != nil {
		if od.RootDirectoryDigest.Hash != dirs[0].hash || od.RootDirectoryDigest.SizeBytes != dirs[0].size {
			return fmt.Errorf("root_directory_digest %v is not the digest of the Tree's root (%s/%d)", od.RootDirectoryDigest, dirs[0].hash, dirs[0].size)
		}
		for i, d := range dirs {
			b, ok := cas.blobs[casKey(d.hash, d.size)]
			if !ok {
				return fmt.Errorf("root_directory_digest is set but Directory entry %d (%s) is not in the CAS", i, d.hash[:12])
			}
			if string(b) != string(d.raw) {
				return fmt.Errorf("Directory entry %d: CAS blob differs from Tree entry", i)
			}
		}
	} else if requireRootDirectoryDigest {
		return fmt.Errorf("output_directory_format asks for Directory messages but root_directory_digest is not set")
	}
	return nil
}

// alts lists the other contents a file may legitimately be stored with.
func (n *node) alts() []string {
	if n != nil && n.volatile {
		return []string{n.alt}
	}
	return nil
}

// volatilePaths lists the files (path below n -> replacement contents)
// that are rewritten during upload.
func volatilePaths(n *node) map[string]string {
	out := map[string]string{}
	var rec func(prefix string, d *node)
	rec = func(prefix string, d *node) {
		for _, name := range d.sortedNames() {
			c := d.children[name]
			if c.kind == kDir {
				rec(prefix+name+"/", c)
			} else if c.kind == kFile && c.volatile {
				out[prefix+name] = c.alt
			}
		}
	}
	rec("", n)
	return out
}

func describe(n *node) string {
	if n == nil {
		return "nothing"
	}
	return "a " + n.kind.String()
}

func checkFileDigest(cas *fakeCAS, d *remoteexecution.Digest, want string, alternatives ...string) error {
	if d == nil {
		return fmt.Errorf("no digest")
	}
	stored, ok := cas.lookup(d)
	if !ok {
		return fmt.Errorf("digest %s/%d is not in the CAS", d.Hash, d.SizeBytes)
	}
	if sha256Hex(stored) != d.Hash || int64(len(stored)) != d.SizeBytes {
		return fmt.Errorf("digest %s/%d does not match the %d bytes stored in the CAS", d.Hash, d.SizeBytes, len(stored))
	}
	for _, a := range alternatives {
		if string(stored) == a {
			return nil
		}
	}
	if string(stored) != want {
		return fmt.Errorf("stored contents %q differ from the file contents %q", truncate(string(stored)), truncate(want))
	}
	return nil
}

func truncate(s string) string {
	if len(s) > 40 {
		return s[:40] + "..."
	}
	return s
}

// ---------------------------------------------------------------------
// ActionResult versus model.

type reported struct {
	kind string
	file *remoteexecution.OutputFile
	dir  *remoteexecution.OutputDirectory
	sym  *remoteexecution.OutputSymlink
}

// checkActionResult compares the three output lists with the model as
// multisets keyed by the declared path string. A string declared k times
// may be reported 1..k times (the code reports k; the property does not
// say whether exact duplicates have to be repeated).
//
// tol (may be nil) names the entries whose upload was hit by an injected
// fault: those may be left out, everything else has to be there.
func checkActionResult(cas *fakeCAS, ar *remoteexecution.ActionResult, root *node, paths []string, locs [][]string, requireRootDirectoryDigest bool, tol *tolerance) error {
	declared := map[string]int{}
	locOf := map[string][]string{}
	var order []string
	for i, p := range paths {
		if declared[p] == 0 {
			order = append(order, p)
		}
		declared[p]++
		locOf[p] = locs[i]
	}
	got := map[string][]reported{}
	for _, f := range ar.OutputFiles {
		got[f.Path] = append(got[f.Path], reported{kind: "file", file: f})
	}
	for _, d := range ar.OutputDirectories {
		got[d.Path] = append(got[d.Path], reported{kind: "dir", dir: d})
	}
	for _, s := range ar.OutputSymlinks {
		got[s.Path] = append(got[s.Path], reported{kind: "symlink", sym: s})
	}
	var gotPaths []string
	for p := range got {
		gotPaths = append(gotPaths, p)
	}
	sort.Strings(gotPaths)
	for _, p := range gotPaths {
		if declared[p] == 0 {
			return fmt.Errorf("ActionResult reports path %q (%s), which the client never declared", p, got[p][0].kind)
		}
		if len(got[p]) > declared[p] {
			return fmt.Errorf("ActionResult reports path %q %d times, declared %d times", p, len(got[p]), declared[p])
		}
	}
	for _, p := range order {
		e := expectedAt(root, locOf[p], p)
		rs := got[p]
		switch e.Kind {
		case "none", "special":
			if len(rs) != 0 {
				return fmt.Errorf("path %q: model has %s there, ActionResult reports a %s", p, e.Kind, rs[0].kind)
			}
			continue
		}
		if len(rs) == 0 {
			if e.Lenient || e.Volatile || tol.allows(e.Node) {
				continue
			}
			return fmt.Errorf("path %q: model has a %s at %q, ActionResult does not report it", p, e.Kind, strings.Join(locOf[p], "/"))
		}
		for _, r := range rs {
			if r.kind != e.Kind {
				return fmt.Errorf("path %q: reported as %s, model has a %s", p, r.kind, e.Kind)
			}
			switch r.kind {
			case "file":
				if err := checkFileDigest(cas, r.file.Digest, e.Data, e.Node.alts()...); err != nil {
					return fmt.Errorf("output file %q: %v", p, err)
				}
				if r.file.IsExecutable != e.Exec {
					return fmt.Errorf("output file %q: is_executable=%v, model exec=%v", p, r.file.IsExecutable, e.Exec)
				}
			case "symlink":
				if canonicalTarget(r.sym.Target) != canonicalTarget(e.Target) {
					return fmt.Errorf("output symlink %q: target %q, model target %q", p, r.sym.Target, e.Target)
				}
			case "dir":
				if err := checkTree(cas, r.dir, e.Node, requireRootDirectoryDigest, tol); err != nil {
					return fmt.Errorf("output directory %q: %v", p, err)
				}
			}
		}
	}
	return nil
}

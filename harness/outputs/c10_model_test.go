package outputs

import (
	"fmt"
	"os"
	"sort"
	"strings"
	"testing"

	remoteexecution "github.com/bazelbuild/remote-apis/build/bazel/remote/execution/v2"
	"github.com/buildbarn/bb-remote-execution/pkg/builder"
	"google.golang.org/grpc/codes"
	"google.golang.org/grpc/status"
	"pgregory.net/rapid"

	"verif/harness/internal/simkit"
)

// script is the JSON-marshallable description of one executed case.
type script struct {
	Workdir     string       `json:"workdir"`
	Paths       []string     `json:"output_paths"`
	LegacyFiles []string     `json:"output_files,omitempty"`
	LegacyDirs  []string     `json:"output_directories,omitempty"`
	Format      string       `json:"format"`
	Force       bool         `json:"force,omitempty"`
	Backend     string       `json:"backend,omitempty"`
	Initial     []string     `json:"input_root,omitempty"`
	Produced    []string     `json:"produced,omitempty"`
	Outcome     string       `json:"outcome,omitempty"`
	IOError     bool         `json:"io_error_during_run,omitempty"`
	Stdout      string       `json:"stdout,omitempty"`
	Stderr      string       `json:"stderr,omitempty"`
	ExitCode    int          `json:"exit_code,omitempty"`
	DoNotCache  bool         `json:"do_not_cache,omitempty"`
	Fault       *faultScript `json:"fault,omitempty"`
}

type commandInput struct {
	workdir     string
	paths       []string
	legacyFiles []string
	legacyDirs  []string
	format      remoteexecution.Command_OutputDirectoryFormat
	force       bool
}

func (ci *commandInput) command() *remoteexecution.Command {
	return &remoteexecution.Command{
		Arguments:             []string{"true"},
		WorkingDirectory:      ci.workdir,
		OutputPaths:           ci.paths,
		OutputFiles:           ci.legacyFiles,
		OutputDirectories:     ci.legacyDirs,
		OutputDirectoryFormat: ci.format,
	}
}

func (ci *commandInput) script() script {
	return script{Workdir: ci.workdir, Paths: ci.paths, LegacyFiles: ci.legacyFiles, LegacyDirs: ci.legacyDirs, Format: ci.format.String(), Force: ci.force}
}

// drawCommand draws working directory and output path lists.
func drawCommand(rt *rapid.T) commandInput {
	var ci commandInput
	// 0: the working directory may escape; 1, 2: one output path may
	// escape; otherwise everything is steered to stay inside.
	mode := rapid.IntRange(0, 11).Draw(rt, "escape_mode")
	ci.workdir = genPath(rt, "wd", 0, 3, mode == 0)
	wloc, wok := refResolve(nil, ci.workdir)
	depth := 0
	if wok {
		depth = len(wloc)
	}
	n := rapid.IntRange(0, 6).Draw(rt, "npaths")
	escapeAt := -1
	if (mode == 1 || mode == 2) && n > 0 {
		escapeAt = rapid.IntRange(0, n-1).Draw(rt, "escape_at")
	}
	for i := 0; i < n; i++ {
		switch r := rapid.IntRange(0, 9).Draw(rt, "path_kind"); {
		case r == 0 && i != escapeAt:
			ci.paths = append(ci.paths, genRootPath(rt, depth))
		case r <= 3 && len(ci.paths) > 0 && i != escapeAt:
			src := rapid.SampledFrom(ci.paths).Draw(rt, "alias_of")
			ci.paths = append(ci.paths, genAlias(rt, src, wloc))
		default:
			ci.paths = append(ci.paths, genPath(rt, "p", depth, 5, i == escapeAt))
		}
	}
	ci.format = rapid.SampledFrom([]remoteexecution.Command_OutputDirectoryFormat{
		remoteexecution.Command_TREE_ONLY, remoteexecution.Command_DIRECTORY_ONLY, remoteexecution.Command_TREE_AND_DIRECTORY,
	}).Draw(rt, "format")
	ci.force = rapid.IntRange(0, 4).Draw(rt, "force") == 0
	// REv2: "If output_paths is used, output_files and output_directories
	// will be ignored!" -- so the legacy fields may hold anything, but only
	// next to a non-empty output_paths.
	if len(ci.paths) > 0 && rapid.IntRange(0, 4).Draw(rt, "legacy") == 0 {
		k := rapid.IntRange(1, 3).Draw(rt, "nlegacy")
		for i := 0; i < k; i++ {
			p := genPath(rt, "legacy", depth, 4, rapid.IntRange(0, 3).Draw(rt, "legacy_escape") == 0)
			if rapid.Bool().Draw(rt, "legacy_is_dir") {
				ci.legacyDirs = append(ci.legacyDirs, p)
			} else {
				ci.legacyFiles = append(ci.legacyFiles, p)
			}
		}
	}
	return ci
}

type pathFacts struct {
	dot, dotdot, empty, trailing, absolute bool
	alias, exactDup, rootOutput, nested    bool
	oddName                                bool
}

func factsOf(ci *commandInput, rc *refCommand) pathFacts {
	var f pathFacts
	all := append([]string{ci.workdir}, ci.paths...)
	for _, p := range all {
		toks := strings.Split(p, "/")
		if strings.HasPrefix(p, "/") {
			f.absolute = true
		}
		for i, t := range toks {
			switch t {
			case ".":
				f.dot = true
			case "..":
				f.dotdot = true
			case "":
				if i == len(toks)-1 && len(toks) > 1 {
					f.trailing = true
				} else if len(toks) > 1 && i > 0 {
					f.empty = true
				}
			default:
				for _, o := range oddNames {
					if t == o {
						f.oddName = true
					}
				}
			}
		}
	}
	if rc.valid {
		seenLoc := map[string]string{}
		seenStr := map[string]bool{}
		for i, p := range ci.paths {
			key := strings.Join(rc.locs[i], "/")
			if len(rc.locs[i]) == 0 {
				f.rootOutput = true
			}
			if seenStr[p] {
				f.exactDup = true
			} else if prev, ok := seenLoc[key]; ok && prev != p {
				f.alias = true
			}
			seenStr[p] = true
			if _, ok := seenLoc[key]; !ok {
				seenLoc[key] = p
			}
		}
		for i := range rc.locs {
			for j := range rc.locs {
				a, b := rc.locs[i], rc.locs[j]
				if len(a) < len(b) && strings.Join(b[:len(a)], "/") == strings.Join(a, "/") && len(a) > 0 {
					f.nested = true
				}
			}
		}
	}
	return f
}

func (f pathFacts) labels() []string {
	var l []string
	add := func(b bool, s string) {
		if b {
			l = append(l, s)
		}
	}
	add(f.dot, "path_dot")
	add(f.dotdot, "path_dotdot")
	add(f.empty, "path_empty_component")
	add(f.trailing, "path_trailing_slash")
	add(f.absolute, "path_absolute")
	add(f.alias, "path_alias")
	add(f.exactDup, "path_exact_duplicate")
	add(f.rootOutput, "output_is_input_root")
	add(f.nested, "outputs_nested")
	add(f.oddName, "odd_name")
	return l
}

// checkConstruction asserts NewOutputHierarchy accepts iff the reference
// says no path escapes.
func checkConstruction(ci *commandInput, rc *refCommand) (*builder.OutputHierarchy, error) {
	oh, err := builder.NewOutputHierarchy(ci.command())
	if err != nil {
		if rc.valid {
			return nil, fmt.Errorf("NewOutputHierarchy rejected a command in which no path escapes the input root: %v", err)
		}
		if c := status.Code(err); c != codes.InvalidArgument {
			return nil, fmt.Errorf("NewOutputHierarchy rejected an escaping command with code %s, want INVALID_ARGUMENT: %v", c, err)
		}
		if oh != nil {
			return nil, fmt.Errorf("NewOutputHierarchy returned both a hierarchy and an error")
		}
		return nil, nil
	}
	if !rc.valid {
		why := "working directory"
		if rc.workdirOK {
			why = fmt.Sprintf("output path #%d %q", rc.firstBadIdx, ci.paths[rc.firstBadIdx])
		}
		return nil, fmt.Errorf("NewOutputHierarchy accepted a command whose %s escapes the input root", why)
	}
	if oh == nil {
		return nil, fmt.Errorf("NewOutputHierarchy returned nil without an error")
	}
	return oh, nil
}

// diffTrees lists paths present in after but not before; it fails if
// anything that existed before was removed or changed.
func diffTrees(before, after *node) (added []string, err error) {
	var rec func(prefix string, b, a *node) error
	var addAll func(prefix string, a *node)
	addAll = func(prefix string, a *node) {
		added = append(added, prefix+":"+a.kind.String())
		if a.kind == kDir {
			for _, name := range a.sortedNames() {
				addAll(prefix+"/"+name, a.children[name])
			}
		}
	}
	rec = func(prefix string, b, a *node) error {
		for _, name := range b.sortedNames() {
			bc := b.children[name]
			ac, ok := a.children[name]
			p := strings.TrimPrefix(prefix+"/"+name, "/")
			if !ok {
				return fmt.Errorf("%q was removed", p)
			}
			if bc.kind != ac.kind || bc.data != ac.data || bc.exec != ac.exec || canonicalTarget(bc.target) != canonicalTarget(ac.target) {
				return fmt.Errorf("%q was changed from %s to %s", p, bc.kind, ac.kind)
			}
			if bc.kind == kDir {
				if err := rec(p, bc, ac); err != nil {
					return err
				}
			}
		}
		for _, name := range a.sortedNames() {
			if _, ok := b.children[name]; !ok {
				addAll(strings.TrimPrefix(prefix+"/"+name, "/"), a.children[name])
			}
		}
		return nil
	}
	err = rec("", before, after)
	sort.Strings(added)
	return added, err
}

// checkParents runs CreateParentDirectories (run; afterwards root must
// reflect the state of the directory) and compares with the dirname chains
// of the model.
func checkParents(root *node, rc *refCommand, run func() error) (conflict bool, created int, err error) {
	before := root.clone()
	chains := parentChains(rc.locs)
	var keys []string
	for k := range chains {
		keys = append(keys, k)
	}
	sort.Strings(keys)
	var wantAdded []string
	for _, k := range keys {
		n := before.walk(chains[k])
		switch {
		case n == nil:
			// Missing, unless an ancestor is a non-directory (then it is a conflict, found below).
			wantAdded = append(wantAdded, k+":dir")
		case n.kind != kDir:
			conflict = true
		}
	}
	cerr := run()
	added, derr := diffTrees(before, root)
	if derr != nil {
		return conflict, 0, fmt.Errorf("CreateParentDirectories touched an existing entry: %v", derr)
	}
	// Whatever happened, only directories on a dirname chain may appear.
	for _, a := range added {
		p := strings.TrimSuffix(a, ":dir")
		if _, ok := chains[p]; !ok || p == a {
			return conflict, 0, fmt.Errorf("CreateParentDirectories created %s, which is not a parent directory of any declared output (parents: %v)", a, keys)
		}
	}
	if conflict {
		// A non-directory sits where a parent directory is needed: the
		// input root contradicts the command. The code documents that
		// EEXIST from Mkdir is not an error, so success and failure are
		// both accepted here.
		return true, len(added), nil
	}
	if cerr != nil {
		return false, 0, fmt.Errorf("CreateParentDirectories failed although nothing is in the way: %v", cerr)
	}
	sort.Strings(wantAdded)
	if strings.Join(added, "|") != strings.Join(wantAdded, "|") {
		return false, 0, fmt.Errorf("CreateParentDirectories created %v, model says exactly %v", added, wantAdded)
	}
	for _, k := range keys {
		if n := root.walk(chains[k]); n == nil || n.kind != kDir {
			return false, 0, fmt.Errorf("parent directory %q does not exist after CreateParentDirectories", k)
		}
	}
	return false, len(added), nil
}

// drawInputRoot draws what the input root contains before the command.
func drawInputRoot(rt *rapid.T, rc *refCommand) *node {
	root := newDir()
	if len(rc.wloc) > 0 && rapid.IntRange(0, 7).Draw(rt, "wd_exists") != 0 {
		root.put(rc.wloc, newDir())
	}
	n := rapid.IntRange(0, 3).Draw(rt, "input_entries")
	for i := 0; i < n; i++ {
		loc := drawLoc(rt, rc, "in")
		switch r := rapid.IntRange(0, 9).Draw(rt, "input_kind"); {
		case r <= 4:
			root.put(loc, newDir())
		case r <= 7:
			root.put(loc, &node{kind: kFile, data: rapid.SampledFrom(dataPool).Draw(rt, "data")})
		case r == 8:
			root.put(loc, &node{kind: kSymlink, target: rapid.SampledFrom(targetPool).Draw(rt, "target")})
		default:
			root.put(loc, &node{kind: kSpecial})
		}
	}
	return root
}

// drawLoc draws a location that is likely to coincide with an output
// location, one of its parents, or a sibling.
func drawLoc(rt *rapid.T, rc *refCommand, label string) []string {
	var nonRoot [][]string
	for _, l := range rc.locs {
		if len(l) > 0 {
			nonRoot = append(nonRoot, l)
		}
	}
	if len(nonRoot) > 0 && rapid.IntRange(0, 2).Draw(rt, label+"_near") != 0 {
		base := rapid.SampledFrom(nonRoot).Draw(rt, label+"_base")
		k := rapid.IntRange(1, len(base)).Draw(rt, label+"_prefix")
		loc := append([]string{}, base[:k]...)
		if rapid.IntRange(0, 3).Draw(rt, label+"_sibling") == 0 {
			loc[len(loc)-1] = genName(rt, label+"_name")
		}
		return loc
	}
	k := rapid.IntRange(1, 3).Draw(rt, label+"_len")
	var loc []string
	for i := 0; i < k; i++ {
		loc = append(loc, genName(rt, label+"_name"))
	}
	return loc
}

// drawAction mutates root the way a build action could: it produces (or
// fails to produce) each declared output and scribbles elsewhere.
func drawAction(rt *rapid.T, root *node, rc *refCommand) (clobbered bool) {
	pool := &subtreePool{}
	seen := map[string]bool{}
	for _, loc := range rc.locs {
		key := strings.Join(loc, "/")
		if seen[key] {
			continue
		}
		seen[key] = true
		if len(loc) == 0 {
			continue
		}
		switch r := rapid.IntRange(0, 19).Draw(rt, "produce"); {
		case r <= 2:
			// not produced
		case r == 3 && len(loc) > 1:
			// a parent directory is replaced by something else
			k := rapid.IntRange(1, len(loc)-1).Draw(rt, "clobber_at")
			if rapid.Bool().Draw(rt, "clobber_kind") {
				root.put(loc[:k], &node{kind: kFile, data: "clobber"})
			} else {
				root.put(loc[:k], &node{kind: kSymlink, target: "elsewhere"})
			}
			clobbered = true
		case r == 4 && len(loc) > 1:
			// a parent directory is removed again
			k := rapid.IntRange(1, len(loc)-1).Draw(rt, "rm_at")
			root.remove(loc[:k])
		default:
			root.put(loc, genLeafOrDir(rt, pool))
		}
	}
	extras := rapid.IntRange(0, 3).Draw(rt, "extras")
	for i := 0; i < extras; i++ {
		root.put(drawLoc(rt, rc, "extra"), genLeafOrDir(rt, pool))
	}
	return clobbered
}

type uploadFacts struct {
	outDirs, outFiles, outSymlinks  int
	execFile, missing, special      bool
	specialInDir, unreachable       bool
	repeated, repeatedNonEmpty, dag bool
	deep, lenient, nonPlainTarget   bool
	maxTreeDirs                     int
	volatileOutput, volatileInDir   bool
}

// describeOutputs classifies what the model expects for every declared
// path, and says whether UploadOutputs is entitled to an error.
func describeOutputs(ci *commandInput, rc *refCommand, root *node) (uf uploadFacts, errAllowed bool) {
	seen := map[string]bool{}
	for i, p := range ci.paths {
		loc := rc.locs[i]
		e := expectedAt(root, loc, p)
		if e.Lenient {
			uf.lenient = true
		}
		if len(loc) > 0 && unreachable(root, loc) {
			errAllowed = true
			uf.unreachable = true
		}
		if e.Volatile {
			errAllowed = true // checksum mismatch on upload is the documented answer
			uf.volatileOutput = true
		}
		key := strings.Join(loc, "/")
		first := !seen[key]
		seen[key] = true
		switch e.Kind {
		case "none":
			uf.missing = true
		case "special":
			uf.special = true
			errAllowed = true // documented: INVALID_ARGUMENT "not a directory, regular file or symlink"
		case "file":
			if first {
				uf.outFiles++
			}
			if e.Exec {
				uf.execFile = true
			}
		case "symlink":
			if first {
				uf.outSymlinks++
			}
			if !isPlainTarget(e.Target) {
				uf.nonPlainTarget = true
			}
		case "dir":
			if first {
				uf.outDirs++
			}
			s := shapeOf(e.Node)
			if len(volatilePaths(e.Node)) > 0 {
				errAllowed = true
				uf.volatileInDir = true
			}
			uf.repeated = uf.repeated || s.repeated
			uf.repeatedNonEmpty = uf.repeatedNonEmpty || s.repeatedNonEmpty
			uf.dag = uf.dag || s.repeatedDiffDepth
			uf.specialInDir = uf.specialInDir || s.hasSpecial
			uf.deep = uf.deep || s.depth >= 3
			if s.dirs > uf.maxTreeDirs {
				uf.maxTreeDirs = s.dirs
			}
		}
	}
	return uf, errAllowed
}

// checkUpload runs UploadOutputs over dir (a view of root) and compares
// the ActionResult and CAS contents with the model.
//
// The upload goes through the handle-tracking wrapper (transparent without
// a planned fault), which records the fallible calls made: clean reports
// whether UploadOutputs returned no error.
func checkUpload(oh *builder.OutputHierarchy, ci *commandInput, rc *refCommand, root *node, dir builder.BuildDirectory, cas *fakeCAS) (uf uploadFacts, trace []faultPoint, clean bool, err error) {
	run := runUpload(oh, ci, dir, cas, -1, nil)
	ar, uerr := &run.ar, run.err
	trace, clean = run.plan.trace, uerr == nil

	uf, errAllowed := describeOutputs(ci, rc, root)
	if uerr != nil && !errAllowed {
		return uf, trace, clean, fmt.Errorf("UploadOutputs failed although every declared output is a file, directory, symlink or absent: %v", uerr)
	}
	if len(cas.corrupt) > 0 {
		return uf, trace, clean, fmt.Errorf("blobs were stored under digests that do not match their contents: %v", cas.corrupt)
	}
	requireRDD := ci.format == remoteexecution.Command_DIRECTORY_ONLY || ci.format == remoteexecution.Command_TREE_AND_DIRECTORY
	if err := checkActionResult(cas, ar, root, ci.paths, rc.locs, requireRDD, nil); err != nil {
		return uf, trace, clean, err
	}
	return uf, trace, clean, nil
}

func (uf uploadFacts) labels() []string {
	var l []string
	add := func(b bool, s string) {
		if b {
			l = append(l, s)
		}
	}
	add(uf.outDirs > 0, "output_directory")
	add(uf.outFiles > 0, "output_file")
	add(uf.outSymlinks > 0, "output_symlink")
	add(uf.execFile, "output_file_executable")
	add(uf.missing, "output_missing")
	add(uf.special, "output_is_special_file")
	add(uf.specialInDir, "special_file_inside_output_directory")
	add(uf.unreachable, "output_parent_not_a_directory")
	add(uf.repeated, "repeated_identical_subdirectory")
	add(uf.repeatedNonEmpty, "repeated_nonempty_subdirectory")
	add(uf.dag, "repeated_subdirectory_at_different_depths")
	add(uf.deep, "tree_depth_ge_3")
	add(uf.maxTreeDirs >= 8, "tree_ge_8_directories")
	add(uf.lenient, "trailing_slash_on_non_directory")
	add(uf.nonPlainTarget, "symlink_target_not_normalised")
	add(uf.volatileOutput, "output_file_rewritten_during_upload")
	add(uf.volatileInDir, "file_in_output_directory_rewritten_during_upload")
	return l
}

const modelRule = "rapid: working directory and output_paths drawn from a grammar over {4 plain + 10 odd names, '.', '..', '', leading/trailing '/'} with aliases of earlier paths, exact duplicates, spellings of the input root, nesting and (1 case in 4) an escaping/absolute working directory or path; legacy output_files/output_directories only next to output_paths. Input root and produced tree are drawn into a hand-written in-memory BuildDirectory (files with exec bit, symlinks, FIFOs, directories whose subdirectories are copies of earlier ones, missing outputs, clobbered/removed parents, undeclared extras). Oracle: independent lexical normaliser; accept <=> no path escapes (INVALID_ARGUMENT otherwise); CreateParentDirectories adds exactly the missing dirname chains and touches nothing else; ActionResult == model keyed by verbatim declared string (kind, exec bit, symlink target up to POSIX equivalence, SHA-256 and bytes of the blob in the fake CAS); every Tree parsed from the CAS at wire level: root first, no duplicate, no missing and no unreferenced child, parents before children, expansion == model subtree. In 1 case in 3 the upload is repeated into an emptied CAS with one recorded call failing (CAS Put, Lstat, ReadDir, Readlink, Enter, UploadFile; gRPC status or errno drawn; a Put 1 time in 4 by cancelling the context instead): UploadOutputs must return an error, every digest listed must be in the CAS, and every output except the entry the fault hit is still listed exactly. NON-TRIVIAL: accepted command with a '.', '..' or alias path AND a reported output directory containing a repeated identical subdirectory; distinct by script hash"

func TestC10OutputHierarchyModel(t *testing.T) {
	rec := simkit.NewRecorder(t, "C10", "hierarchy_model", modelRule)
	rapid.Check(t, func(rt *rapid.T) {
		runModelCase(rt, rec, "mem", nil)
	})
}

// backendFactory materialises root in some other BuildDirectory
// implementation; it returns a view of the input root and a function that
// reads the tree back (nil if the view is the tree itself).
type backendFactory func(rt *rapid.T, cas *fakeCAS, root *node) (dir builder.BuildDirectory, sync func(root *node) error, readBack func() (*node, error), cleanup func(), err error)

func runModelCase(rt *rapid.T, rec *simkit.Recorder, backend string, factory backendFactory) {
	ci := drawCommand(rt)
	rc := refCommandOf(ci.workdir, ci.paths)
	sc := ci.script()
	sc.Backend = backend
	facts := factsOf(&ci, &rc)
	labels := facts.labels()

	oh, err := checkConstruction(&ci, &rc)
	if err != nil {
		rt.Fatalf("%v; script=%+v", err, sc)
	}
	if oh == nil {
		if rc.workdirOK {
			labels = append(labels, "rejected_output_path")
		} else {
			labels = append(labels, "rejected_working_directory")
		}
		sc.Outcome = "rejected"
		rec.Case(sc, false, labels...)
		return
	}
	labels = append(labels, "accepted")

	cas := newFakeCAS()
	root := drawInputRoot(rt, &rc)
	sc.Initial = root.render()
	fs := &fakeFS{cas: cas}
	var dir builder.BuildDirectory = fs.open(root, nil)
	var sync func(*node) error
	var readBack func() (*node, error)
	if factory != nil {
		var cleanup func()
		dir, sync, readBack, cleanup, err = factory(rt, cas, root)
		if cleanup != nil {
			defer cleanup()
		}
		if err != nil {
			rt.Fatalf("VERIF-INCONCLUSIVE harness: cannot materialise input root in backend %s: %v; script=%+v", backend, err, sc)
		}
	}

	// Phase 1: parent directories.
	var conflict bool
	var created int
	conflict, created, err = checkParents(root, &rc, func() error {
		cerr := oh.CreateParentDirectories(dir)
		if readBack != nil {
			// The directory lives elsewhere: read the result back into
			// the model tree so that it is compared in the same way.
			after, rerr := readBack()
			if rerr != nil {
				rt.Fatalf("VERIF-INCONCLUSIVE harness: read back: %v; script=%+v", rerr, sc)
			}
			*root = *after
		}
		return cerr
	})
	if err != nil {
		rt.Fatalf("%v; script=%+v", err, sc)
	}
	if conflict {
		labels = append(labels, "input_root_blocks_parent_directory")
	}
	if created > 0 {
		labels = append(labels, "parent_directories_created")
	}
	if created >= 3 {
		labels = append(labels, "parent_directories_created_ge_3")
	}

	// Phase 2: the action runs.
	clobbered := drawAction(rt, root, &rc)
	if backend == "naive" {
		// Only the naive build directory reads files through handles the
		// harness can interpose on.
		if drawVolatile(rt, root) > 0 {
			labels = append(labels, "file_rewritten_during_upload")
		}
	}
	sc.Produced = root.render()
	if sync != nil {
		if err := sync(root); err != nil {
			rt.Fatalf("VERIF-INCONCLUSIVE harness: cannot materialise produced tree in backend %s: %v; script=%+v", backend, err, sc)
		}
	}
	if clobbered {
		labels = append(labels, "parent_clobbered_by_action")
	}

	// Phase 3: upload.
	before := root.clone()
	fs.mutations = nil
	uf, trace, cleanUpload, err := checkUpload(oh, &ci, &rc, root, dir, cas)
	if err != nil {
		rt.Fatalf("%v; script=%+v", err, sc)
	}
	if len(fs.mutations) > 0 || !equalTrees(before, root) {
		rt.Fatalf("UploadOutputs modified the build directory: %v; script=%+v", fs.mutations, sc)
	}
	if readBack != nil {
		after, err := readBack()
		if err != nil {
			rt.Fatalf("VERIF-INCONCLUSIVE harness: read back: %v; script=%+v", err, sc)
		}
		if !equalTrees(before, after) {
			rt.Fatalf("UploadOutputs modified the build directory: now %v; script=%+v", after.render(), sc)
		}
	}
	if len(fs.useAfterClose) > 0 {
		rec.Note(fmt.Sprintf("diagnostic: directory handle used after Close: %v", fs.useAfterClose))
	}
	if fs.opened-1 != fs.closed && factory == nil {
		rec.Label("diagnostic_directory_handle_leak")
	}
	// Phase 4 (1 case in 3): the same upload once more into an emptied CAS
	// with one storage or directory call failing (or the context cancelled
	// at a Put). The failure has to surface, nothing may be listed whose
	// blobs are not in the CAS, and every output the fault did not hit is
	// still listed exactly.
	if cands := uploadFaultCandidates(trace); len(cands) > 0 && rapid.IntRange(0, 2).Draw(rt, "upload_fault") == 0 {
		i := rapid.SampledFrom(cands).Draw(rt, "fault_position")
		fault := &faultScript{Index: i, Point: trace[i].String(), Mode: "error"}
		var ferr error
		if trace[i].Kind == "cas.Put" && rapid.IntRange(0, 3).Draw(rt, "fault_is_cancellation") == 0 {
			fault.Mode = "cancel"
		} else {
			ferr = drawFaultError(rt, trace[i].Kind)
			fault.Error = ferr.Error()
		}
		sc.Fault = fault
		cas.blobs, cas.puts, cas.corrupt, cas.refused = map[string][]byte{}, map[string]int{}, nil, 0
		fs.mutations = nil
		run := runUpload(oh, &ci, dir, cas, i, ferr)
		if run.plan.hit == nil {
			labels = append(labels, "upload_fault_not_reached")
		} else {
			if err := judgeFaultedUpload(run, &ci, &rc, root, cas, cleanUpload, factory == nil); err != nil {
				rt.Fatalf("upload with an injected fault: %v; script=%+v", err, sc)
			}
			labels = append(labels, "upload_fault_"+fault.Mode, "upload_fault_at_"+run.plan.hit.Kind)
			if n := len(run.ar.OutputFiles) + len(run.ar.OutputDirectories) + len(run.ar.OutputSymlinks); n > 0 {
				labels = append(labels, "outputs_listed_despite_upload_fault")
			}
		}
		if len(fs.mutations) > 0 || !equalTrees(before, root) {
			rt.Fatalf("UploadOutputs (with an injected fault) modified the build directory: %v; script=%+v", fs.mutations, sc)
		}
	}
	labels = append(labels, uf.labels()...)
	if len(ci.legacyFiles)+len(ci.legacyDirs) > 0 {
		labels = append(labels, "legacy_fields_set")
	}
	if ci.format != remoteexecution.Command_TREE_ONLY || ci.force {
		labels = append(labels, "directories_uploaded_separately")
	}
	nontrivial := (facts.dot || facts.dotdot || facts.alias) && uf.repeated
	sc.Outcome = "accepted"
	rec.Case(sc, nontrivial, labels...)
}

// TestC10NaiveBuildDirectory is hierarchy_model with the tree held by the
// real naive build directory on a real file system.
func TestC10NaiveBuildDirectory(t *testing.T) {
	base := scratchBase(t)
	rec := simkit.NewRecorder(t, "C10", "hierarchy_model_naive", "as hierarchy_model, but input root and produced tree are materialised on a real file system (package os: files, chmod, symlinks, mkfifo) and handed to the code as builder.NewNaiveBuildDirectory over a bb-storage local directory; 1 non-empty file in 6 is rewritten in place (same length, all bytes changed) by an interposed file handle the moment its first complete read ends, i.e. between the digest pass and the upload pass of UploadFile -- such a file may be left out (upload fails) but whatever is reported must carry the digest of the bytes the CAS stored (the fake CAS records every Put whose bytes do not hash to its key); parent directories and 'UploadOutputs does not modify' are judged on the tree read back with package os. "+modelRule)
	rapid.Check(t, func(rt *rapid.T) {
		runModelCase(rt, rec, "naive", func(rt *rapid.T, cas *fakeCAS, root *node) (builder.BuildDirectory, func(*node) error, func() (*node, error), func(), error) {
			p, err := newScratchDir(base)
			if err != nil {
				return nil, nil, nil, nil, err
			}
			cleanup := func() { os.RemoveAll(p) }
			if err := materialise(p, root); err != nil {
				return nil, nil, nil, cleanup, err
			}
			rw := &rewriter{}
			d, err := newNaiveDirectory(p, cas, rw)
			if err != nil {
				return nil, nil, nil, cleanup, err
			}
			return d,
				func(want *node) error {
					rw.set("", volatilePaths(want))
					return rematerialise(p, want)
				},
				func() (*node, error) { return readTree(p) },
				func() { d.Close(); os.RemoveAll(p) },
				nil
		})
	})
}

// TestC10VirtualBuildDirectory is hierarchy_model with the tree held by
// the real virtual build directory.
func TestC10VirtualBuildDirectory(t *testing.T) {
	rec := simkit.NewRecorder(t, "C10", "hierarchy_model_virtual", "as hierarchy_model, but input root and produced tree live in the real builder.NewVirtualBuildDirectory over virtual.NewInMemoryPrepopulatedDirectory with pool-backed files, written and read back through Virtual* calls (create+write, mknod symlink/FIFO, mkdir); covers virtual_build_directory.go Lstat/Readlink/UploadFile/Mkdir. "+modelRule)
	rapid.Check(t, func(rt *rapid.T) {
		runModelCase(rt, rec, "virtual", func(rt *rapid.T, cas *fakeCAS, root *node) (builder.BuildDirectory, func(*node) error, func() (*node, error), func(), error) {
			w := newVirtualWorld(cas)
			if err := materialiseVirtual(w.top, root); err != nil {
				return nil, nil, nil, nil, err
			}
			return w.bd,
				func(want *node) error { return rematerialiseVirtual(w.top, want) },
				func() (*node, error) { return readTreeVirtual(w.top) },
				nil,
				nil
		})
	})
}

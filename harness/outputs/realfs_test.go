package outputs

// Helpers that move a model tree onto a real local file system and back,
// written against package os only (not bb-storage's filesystem package),
// plus the factory that wraps such a directory in the real
// builder.NewNaiveBuildDirectory.

import (
	"fmt"
	"os"
	"path/filepath"
	"sync/atomic"
	"syscall"
	"testing"

	"github.com/buildbarn/bb-remote-execution/pkg/builder"
	"github.com/buildbarn/bb-remote-execution/pkg/cas"
	"github.com/buildbarn/bb-storage/pkg/filesystem"
	"github.com/buildbarn/bb-storage/pkg/filesystem/path"
	"golang.org/x/sync/semaphore"
)

var scratchCounter atomic.Int64

// scratchBase returns the directory under which per-case directories are
// made: the driver's per-run scratch directory, or the test's temporary
// directory when run by hand.
func scratchBase(t *testing.T) string {
	if d := os.Getenv("VERIF_SCRATCH"); d != "" {
		sub := filepath.Join(d, fmt.Sprintf("outputs-%d", os.Getpid()))
		if err := os.MkdirAll(sub, 0o777); err == nil {
			return sub
		}
	}
	return t.TempDir()
}

func newScratchDir(base string) (string, error) {
	d := filepath.Join(base, fmt.Sprintf("case-%d", scratchCounter.Add(1)))
	return d, os.Mkdir(d, 0o777)
}

// materialise creates the children of n inside dir (which must exist).
func materialise(dir string, n *node) error {
	for _, name := range n.sortedNames() {
		c := n.children[name]
		p := filepath.Join(dir, name)
		switch c.kind {
		case kFile:
			mode := os.FileMode(0o644)
			if c.exec {
				mode = 0o755
			}
			if err := os.WriteFile(p, []byte(c.data), mode); err != nil {
				return err
			}
			if err := os.Chmod(p, mode); err != nil {
				return err
			}
		case kSymlink:
			if err := os.Symlink(c.target, p); err != nil {
				return err
			}
		case kSpecial:
			if err := syscall.Mkfifo(p, 0o644); err != nil {
				return err
			}
		case kDir:
			if err := os.Mkdir(p, 0o777); err != nil {
				return err
			}
			if err := materialise(p, c); err != nil {
				return err
			}
		}
	}
	return nil
}

// rematerialise makes dir hold exactly the children of n.
func rematerialise(dir string, n *node) error {
	entries, err := os.ReadDir(dir)
	if err != nil {
		return err
	}
	for _, e := range entries {
		if err := os.RemoveAll(filepath.Join(dir, e.Name())); err != nil {
			return err
		}
	}
	return materialise(dir, n)
}

// readTree reads dir back into a model tree.
func readTree(dir string) (*node, error) {
	n := newDir()
	entries, err := os.ReadDir(dir)
	if err != nil {
		return nil, err
	}
	for _, e := range entries {
		p := filepath.Join(dir, e.Name())
		fi, err := os.Lstat(p)
		if err != nil {
			return nil, err
		}
		switch m := fi.Mode(); {
		case m.IsRegular():
			data, err := os.ReadFile(p)
			if err != nil {
				return nil, err
			}
			n.children[e.Name()] = &node{kind: kFile, exec: m&0o111 != 0, data: string(data)}
		case m.IsDir():
			c, err := readTree(p)
			if err != nil {
				return nil, err
			}
			n.children[e.Name()] = c
		case m&os.ModeSymlink != 0:
			t, err := os.Readlink(p)
			if err != nil {
				return nil, err
			}
			n.children[e.Name()] = &node{kind: kSymlink, target: t}
		default:
			n.children[e.Name()] = &node{kind: kSpecial}
		}
	}
	return n, nil
}

// rewriter stands for a process the action left behind: the moment a
// file registered in flips (path relative to base -> replacement bytes of
// the same length) has been read to its end for the first time, it is
// rewritten in place on the real file system.
type rewriter struct {
	base    string
	flips   map[string]string
	flipped map[string]bool
}

func (rw *rewriter) set(prefix string, flips map[string]string) {
	rw.flips = map[string]string{}
	rw.flipped = map[string]bool{}
	for k, v := range flips {
		rw.flips[prefix+k] = v
	}
}

// rewritingDirectory passes everything through to the real local
// directory, but hands out files that trigger the rewriter.
type rewritingDirectory struct {
	filesystem.DirectoryCloser
	rw  *rewriter
	rel string
}

func (d *rewritingDirectory) EnterDirectory(name path.Component) (filesystem.DirectoryCloser, error) {
	c, err := d.DirectoryCloser.EnterDirectory(name)
	if err != nil {
		return nil, err
	}
	return &rewritingDirectory{DirectoryCloser: c, rw: d.rw, rel: d.rel + name.String() + "/"}, nil
}

func (d *rewritingDirectory) OpenRead(name path.Component) (filesystem.FileReader, error) {
	f, err := d.DirectoryCloser.OpenRead(name)
	if err != nil {
		return nil, err
	}
	rel := d.rel + name.String()
	if _, ok := d.rw.flips[rel]; !ok {
		return f, nil
	}
	return &rewritingFile{FileReader: f, rw: d.rw, rel: rel}, nil
}

type rewritingFile struct {
	filesystem.FileReader
	rw  *rewriter
	rel string
}

func (f *rewritingFile) ReadAt(p []byte, off int64) (int, error) {
	n, err := f.FileReader.ReadAt(p, off)
	alt := f.rw.flips[f.rel]
	if !f.rw.flipped[f.rel] && n > 0 && off+int64(n) >= int64(len(alt)) {
		f.rw.flipped[f.rel] = true
		// Same inode, same length, other bytes.
		if w, werr := os.OpenFile(filepath.Join(f.rw.base, filepath.FromSlash(f.rel)), os.O_WRONLY, 0); werr == nil {
			w.WriteAt([]byte(alt), 0)
			w.Close()
		}
	}
	return n, err
}

// newNaiveDirectory opens dir through bb-storage's local directory and
// wraps it in the real naive build directory. If rw is not nil, files are
// opened through the rewriter.
func newNaiveDirectory(dir string, c *fakeCAS, rw *rewriter) (builder.BuildDirectory, error) {
	var d filesystem.DirectoryCloser
	d, err := filesystem.NewLocalDirectory(path.LocalFormat.NewParser(dir))
	if err != nil {
		return nil, err
	}
	if rw != nil {
		rw.base = dir
		d = &rewritingDirectory{DirectoryCloser: d, rw: rw}
	}
	return builder.NewNaiveBuildDirectory(
		d,
		cas.NewBlobAccessDirectoryFetcher(c, 1<<20, 1<<24),
		cas.NewBlobAccessFileFetcher(c),
		semaphore.NewWeighted(4),
		c,
	), nil
}

package outputs

// Helpers that move a model tree onto a real local file system and back,
// written against package os only (not bb-storage's filesystem package),
// plus the factory that wraps such a directory in the real
// builder.NewNaiveBuildDirectory.

import (
	"fmt"
	"os"
	"path/filepath"
	"sync/atomic"
	"syscall"
	"testing"

	"github.com/buildbarn/bb-remote-execution/pkg/builder"
	"github.com/buildbarn/bb-remote-execution/pkg/cas"
	"github.com/buildbarn/bb-storage/pkg/filesystem"
	"github.com/buildbarn/bb-storage/pkg/filesystem/path"
	"golang.org/x/sync/semaphore"
)

var scratchCounter atomic.Int64

// scratchBase returns the directory under which per-case directories are
// made: the driver's per-run scratch directory, or the test's temporary
// directory when run by hand.
func scratchBase(t *testing.T) string {
	if d := os.Getenv("VERIF_SCRATCH"); d != "" {
		sub := filepath.Join(d, fmt.Sprintf("outputs-%d", os.Getpid()))
		if err := os.MkdirAll(sub, 0o777); err == nil {
			return sub
		}
	}
	return t.TempDir()
}

func newScratchDir(base string) (string, error) {
	d := filepath.Join(base, fmt.Sprintf("case-%d", scratchCounter.Add(1)))
	return d, os.Mkdir(d, 0o777)
}

// materialise creates the children of n inside dir (which must exist).
func materialise(dir string, n *node) error {
	for _, name := range n.sortedNames() {
		c := n.children[name]
		p := filepath.Join(dir, name)
		switch c.kind {
		case kFile:
			mode := os.FileMode(0o644)
			if c.exec {
				mode = 0o755
			}
			if err := os.WriteFile(p, []byte(c.data), mode); err != nil {
				return err
			}
			if err := os.Chmod(p, mode); err != nil {
				return err
			}
		case kSymlink:
			if err := os.Symlink(c.target, p); err != nil {
				return err
			}
		case kSpecial:
			if err := syscall.Mkfifo(p, 0o644); err != nil {
				return err
			}
		case kDir:
			if err := os.Mkdir(p, 0o777); err != nil {
				return err
			}
			if err := materialise(p, c); err != nil {
				return err
			}
		}
	}
	return nil
}

// rematerialise makes dir hold exactly the children of n.
func rematerialise(dir string, n *node) error {
	entries, err := os.ReadDir(dir)
	if err != nil {
		return err
	}
	for _, e := range entries {
		if err := os.RemoveAll(filepath.Join(dir, e.Name())); err != nil {
			return err
		}
	}
	return materialise(dir, n)
}

// readTree reads dir back into a model tree.
func readTree(dir string) (*node, error) {
	n := newDir()
	entries, err := os.ReadDir(dir)
	if err != nil {
		return nil, err
	}
	for _, e := range entries {
		p := filepath.Join(dir, e.Name())
		fi, err := os.Lstat(p)
		if err != nil {
			return nil, err
		}
		switch m := fi.Mode(); {
		case m.IsRegular():
			data, err := os.ReadFile(p)
			if err != nil {
				return nil, err
			}
			n.children[e.Name()] = &node{kind: kFile, exec: m&0o111 != 0, data: string(data)}
		case m.IsDir():
			c, err := readTree(p)
			if err != nil {
				return nil, err
			}
			n.children[e.Name()] = c
		case m&os.ModeSymlink != 0:
			t, err := os.Readlink(p)
			if err != nil {
				return nil, err
			}
			n.children[e.Name()] = &node{kind: kSymlink, target: t}
		default:
			n.children[e.Name()] = &node{kind: kSpecial}
		}
	}
	return n, nil
}

// newNaiveDirectory opens dir through bb-storage's local directory and
// wraps it in the real naive build directory.
func newNaiveDirectory(dir string, c *fakeCAS) (builder.BuildDirectory, error) {
	d, err := filesystem.NewLocalDirectory(path.LocalFormat.NewParser(dir))
	if err != nil {
		return nil, err
	}
	return builder.NewNaiveBuildDirectory(
		d,
		cas.NewBlobAccessDirectoryFetcher(c, 1<<20, 1<<24),
		cas.NewBlobAccessFileFetcher(c),
		semaphore.NewWeighted(4),
		c,
	), nil
}

package outputs

// Fault plan shared by the fakes of one run (CAS, build directory wrapper,
// runner, build directory creator), and the wrapper that follows every
// directory handle the code under test obtains.
//
// A run with at < 0 only records the fallible calls it makes (the trace);
// fault enumeration then repeats the scenario once per recorded position.

import (
	"context"
	"fmt"
	"os"
	"strings"
	"sync"
	"syscall"

	"github.com/buildbarn/bb-remote-execution/pkg/builder"
	"github.com/buildbarn/bb-remote-execution/pkg/filesystem/access"
	"github.com/buildbarn/bb-remote-execution/pkg/filesystem/pool"
	"github.com/buildbarn/bb-storage/pkg/digest"
	"github.com/buildbarn/bb-storage/pkg/filesystem"
	"github.com/buildbarn/bb-storage/pkg/filesystem/path"
	"github.com/buildbarn/bb-storage/pkg/util"
	"google.golang.org/grpc/codes"
	"google.golang.org/grpc/status"
	"pgregory.net/rapid"
)

type faultPoint struct {
	Kind  string `json:"kind"`  // cas.Put, cas.Get, dir.<Op>, runner.Run, creator.Get
	Path  string `json:"path"`  // directory calls: the entry concerned, relative to the directory handed to the code
	Phase string `json:"phase"` // setup (before the runner returned) or upload
}

func (p faultPoint) String() string { return p.Phase + ":" + p.Kind + "(" + p.Path + ")" }

type faultPlan struct {
	mu    sync.Mutex
	trace []faultPoint
	phase string
	// Position to fail (-1: none). err != nil: the call fails with err and
	// has no effect; err == nil: the caller's context is cancelled right
	// before the call, which then proceeds.
	at     int
	err    error
	cancel context.CancelFunc
	// The harness' own calls on the fakes (reading the input root back
	// through the CAS) are neither counted nor failed.
	suspended int

	// Set when the planned position was reached.
	hit      *faultPoint
	affected []string // entry whose upload the fault hit (build-directory relative); nil: none
	// Attribution of Put calls: the file being uploaded (UploadFile in
	// progress), otherwise the declared output whose Tree / Directory
	// messages are being stored (the last Lstat; before any Lstat: the
	// input root itself).
	curUpload  []string
	lastLstat  []string
	rootPrefix []string // where the input root lives below the wrapped top directory
}

func newFaultPlan(rootPrefix ...string) *faultPlan {
	return &faultPlan{at: -1, phase: "setup", rootPrefix: rootPrefix}
}

func (p *faultPlan) suspend() {
	if p != nil {
		p.mu.Lock()
		p.suspended++
		p.mu.Unlock()
	}
}

func (p *faultPlan) resume() {
	if p != nil {
		p.mu.Lock()
		p.suspended--
		p.mu.Unlock()
	}
}

func (p *faultPlan) setPhase(ph string) {
	if p != nil {
		p.mu.Lock()
		p.phase = ph
		p.mu.Unlock()
	}
}

// step records one fallible call; it returns the error to fail it with.
func (p *faultPlan) step(kind string, entry []string) error {
	if p == nil {
		return nil
	}
	p.mu.Lock()
	defer p.mu.Unlock()
	if p.suspended > 0 {
		return nil
	}
	fp := faultPoint{Kind: kind, Path: strings.Join(entry, "/"), Phase: p.phase}
	idx := len(p.trace)
	p.trace = append(p.trace, fp)
	if idx != p.at {
		return nil
	}
	p.hit = &fp
	switch {
	case kind == "cas.Put" && p.curUpload != nil:
		p.affected = append([]string{}, p.curUpload...)
	case kind == "cas.Put" && p.lastLstat != nil:
		p.affected = append([]string{}, p.lastLstat...)
	case kind == "cas.Put":
		p.affected = append([]string{}, p.rootPrefix...)
	case strings.HasPrefix(kind, "dir."):
		p.affected = append([]string{}, entry...)
	}
	if p.err == nil {
		if p.cancel != nil {
			p.cancel()
		}
		return nil
	}
	return p.err
}

func (p *faultPlan) noteLstat(entry []string) {
	if p != nil {
		p.mu.Lock()
		p.lastLstat = append([]string{}, entry...)
		p.mu.Unlock()
	}
}

func (p *faultPlan) setUpload(entry []string) {
	if p != nil {
		p.mu.Lock()
		p.curUpload = entry
		p.mu.Unlock()
	}
}

// Injected errors. ENOENT and EEXIST are left out on purpose: the code
// documents them as "the output does not exist" / "the directory is
// already there", i.e. not as failures.
var faultCodes = []codes.Code{
	codes.Unavailable, codes.Internal, codes.DeadlineExceeded, codes.AlreadyExists, codes.Aborted,
	codes.ResourceExhausted, codes.NotFound, codes.PermissionDenied, codes.Canceled, codes.Unknown,
	codes.FailedPrecondition, codes.DataLoss,
}

func drawFaultError(rt *rapid.T, kind string) error {
	if strings.HasPrefix(kind, "dir.") && rapid.IntRange(0, 2).Draw(rt, "fault_errno") == 0 {
		return rapid.SampledFrom([]error{syscall.EIO, syscall.EACCES, syscall.ENOSPC, syscall.ELOOP}).Draw(rt, "errno")
	}
	c := rapid.SampledFrom(faultCodes).Draw(rt, "fault_code")
	return status.Errorf(c, "injected %s failure", kind)
}

func faultErrorCode(err error) codes.Code { return status.Code(err) } // plain errno => Unknown

// ---------------------------------------------------------------------
// Directory handle tracking.

type dirTracker struct {
	plan    *faultPlan
	seq     int
	handles []*trackedDir
	misuse  []string // calls on a handle after its Close, second Close
}

type trackedDir struct {
	t      *dirTracker
	bd     builder.BuildDirectory
	ud     builder.UploadableDirectory
	ppd    builder.ParentPopulatableDirectory
	path   []string
	closes int
	// Sequence numbers: when the handle was closed and when any call was
	// last made on it.
	closedAt, lastUse int
	lastOp            string
}

var _ builder.BuildDirectory = (*trackedDir)(nil)

func (t *dirTracker) wrap(bd builder.BuildDirectory, ud builder.UploadableDirectory, ppd builder.ParentPopulatableDirectory, p []string) *trackedDir {
	d := &trackedDir{t: t, bd: bd, ud: ud, ppd: ppd, path: p}
	if bd != nil {
		d.ud, d.ppd = bd, bd
	}
	t.handles = append(t.handles, d)
	return d
}

func (t *dirTracker) wrapRoot(bd builder.BuildDirectory) *trackedDir {
	return t.wrap(bd, nil, nil, nil)
}

func (d *trackedDir) use(op string) {
	d.t.seq++
	d.lastUse, d.lastOp = d.t.seq, op
	if d.closes > 0 {
		d.t.misuse = append(d.t.misuse, fmt.Sprintf("%s on handle of %q after its Close", op, strings.Join(d.path, "/")))
	}
}

func (d *trackedDir) entry(name path.Component) []string {
	return append(append([]string{}, d.path...), name.String())
}

var errWrongHandle = status.Error(codes.Internal, "VERIF harness: call not supported by this kind of directory handle")

func (d *trackedDir) Close() error {
	d.use("Close")
	d.closes++
	d.closedAt = d.t.seq
	ferr := d.t.plan.step("dir.Close", d.path)
	// The underlying handle is released either way: a failing close(2)
	// releases the descriptor too.
	var err error
	switch {
	case d.bd != nil:
		err = d.bd.Close()
	case d.ud != nil:
		err = d.ud.Close()
	case d.ppd != nil:
		err = d.ppd.Close()
	}
	if ferr != nil {
		return ferr
	}
	return err
}

func (d *trackedDir) EnterBuildDirectory(name path.Component) (builder.BuildDirectory, error) {
	d.use("EnterBuildDirectory")
	if err := d.t.plan.step("dir.Enter", d.entry(name)); err != nil {
		return nil, err
	}
	if d.bd == nil {
		return nil, errWrongHandle
	}
	c, err := d.bd.EnterBuildDirectory(name)
	if err != nil {
		return nil, err
	}
	return d.t.wrap(c, nil, nil, d.entry(name)), nil
}

func (d *trackedDir) EnterUploadableDirectory(name path.Component) (builder.UploadableDirectory, error) {
	d.use("EnterUploadableDirectory")
	if err := d.t.plan.step("dir.Enter", d.entry(name)); err != nil {
		return nil, err
	}
	if d.ud == nil {
		return nil, errWrongHandle
	}
	c, err := d.ud.EnterUploadableDirectory(name)
	if err != nil {
		return nil, err
	}
	return d.t.wrap(nil, c, nil, d.entry(name)), nil
}

func (d *trackedDir) EnterParentPopulatableDirectory(name path.Component) (builder.ParentPopulatableDirectory, error) {
	d.use("EnterParentPopulatableDirectory")
	if err := d.t.plan.step("dir.Enter", d.entry(name)); err != nil {
		return nil, err
	}
	if d.ppd == nil {
		return nil, errWrongHandle
	}
	c, err := d.ppd.EnterParentPopulatableDirectory(name)
	if err != nil {
		return nil, err
	}
	return d.t.wrap(nil, nil, c, d.entry(name)), nil
}

func (d *trackedDir) Mkdir(name path.Component, perm os.FileMode) error {
	d.use("Mkdir")
	if err := d.t.plan.step("dir.Mkdir", d.entry(name)); err != nil {
		return err
	}
	if d.ppd == nil {
		return errWrongHandle
	}
	return d.ppd.Mkdir(name, perm)
}

func (d *trackedDir) Mknod(name path.Component, perm os.FileMode, deviceNumber filesystem.DeviceNumber) error {
	d.use("Mknod")
	if err := d.t.plan.step("dir.Mknod", d.entry(name)); err != nil {
		return err
	}
	if d.bd == nil {
		return errWrongHandle
	}
	return d.bd.Mknod(name, perm, deviceNumber)
}

func (d *trackedDir) Remove(name path.Component) error {
	d.use("Remove")
	if d.bd == nil {
		return errWrongHandle
	}
	return d.bd.Remove(name)
}

func (d *trackedDir) RemoveAll(name path.Component) error {
	d.use("RemoveAll")
	if d.bd == nil {
		return errWrongHandle
	}
	return d.bd.RemoveAll(name)
}

func (d *trackedDir) InstallHooks(filePool pool.FilePool, errorLogger util.ErrorLogger) {
	d.use("InstallHooks")
	if d.bd != nil {
		d.bd.InstallHooks(filePool, errorLogger)
	}
}

func (d *trackedDir) MergeDirectoryContents(ctx context.Context, errorLogger util.ErrorLogger, dg digest.Digest, monitor access.UnreadDirectoryMonitor) error {
	d.use("MergeDirectoryContents")
	if err := d.t.plan.step("dir.MergeDirectoryContents", d.path); err != nil {
		return err
	}
	if d.bd == nil {
		return errWrongHandle
	}
	return d.bd.MergeDirectoryContents(ctx, errorLogger, dg, monitor)
}

func (d *trackedDir) Lstat(name path.Component) (filesystem.FileInfo, error) {
	d.use("Lstat")
	d.t.plan.noteLstat(d.entry(name))
	if err := d.t.plan.step("dir.Lstat", d.entry(name)); err != nil {
		return filesystem.FileInfo{}, err
	}
	if d.ud == nil {
		return filesystem.FileInfo{}, errWrongHandle
	}
	return d.ud.Lstat(name)
}

func (d *trackedDir) ReadDir() ([]filesystem.FileInfo, error) {
	d.use("ReadDir")
	if err := d.t.plan.step("dir.ReadDir", d.path); err != nil {
		return nil, err
	}
	if d.ud == nil {
		return nil, errWrongHandle
	}
	return d.ud.ReadDir()
}

func (d *trackedDir) Readlink(name path.Component) (path.Parser, error) {
	d.use("Readlink")
	if err := d.t.plan.step("dir.Readlink", d.entry(name)); err != nil {
		return nil, err
	}
	if d.ud == nil {
		return nil, errWrongHandle
	}
	return d.ud.Readlink(name)
}

func (d *trackedDir) UploadFile(ctx context.Context, name path.Component, df digest.Function, writableFileUploadDelay <-chan struct{}) (digest.Digest, error) {
	d.use("UploadFile")
	if err := d.t.plan.step("dir.UploadFile", d.entry(name)); err != nil {
		return digest.BadDigest, err
	}
	if d.ud == nil {
		return digest.BadDigest, errWrongHandle
	}
	d.t.plan.setUpload(d.entry(name))
	defer d.t.plan.setUpload(nil)
	return d.ud.UploadFile(ctx, name, df, writableFileUploadDelay)
}

// lifecycle judges the handles of one finished run: top is the handle the
// creator handed out (nil if it never did). If the harness rather than
// the code under test owns top, only the handles below it are judged.
func (t *dirTracker) lifecycle(top *trackedDir, topOwnedByCode bool) error {
	if len(t.misuse) > 0 {
		return fmt.Errorf("directory handle misused: %v", t.misuse)
	}
	for _, h := range t.handles {
		what := fmt.Sprintf("handle of %q", strings.Join(h.path, "/"))
		if h == top {
			if !topOwnedByCode {
				continue
			}
			what = "the build directory"
		}
		if h.closes == 0 {
			return fmt.Errorf("%s was never closed (last call on it: %s)", what, h.lastOp)
		}
		if h.closes > 1 {
			return fmt.Errorf("%s was closed %d times", what, h.closes)
		}
	}
	if top != nil && topOwnedByCode {
		for _, h := range t.handles {
			if h != top && h.lastUse > top.closedAt {
				return fmt.Errorf("%s on the handle of %q happened after the build directory was closed", h.lastOp, strings.Join(h.path, "/"))
			}
		}
	}
	return nil
}

// ---------------------------------------------------------------------
// What may be missing from a result because of the injected fault.

type tolerance struct {
	// Entries of the produced tree that may be left out (of the output
	// lists, or of the Tree that contains them): the upload of exactly
	// these was hit by the fault.
	optional map[*node]bool
	// Everything may be left out (the context was cancelled).
	all            bool
	stdout, stderr bool
}

func (t *tolerance) allows(n *node) bool {
	return t != nil && (t.all || (n != nil && t.optional[n]))
}

func (t *tolerance) markSubtree(n *node) {
	if n == nil {
		return
	}
	if t.optional == nil {
		t.optional = map[*node]bool{}
	}
	t.optional[n] = true
	for _, c := range n.children {
		t.markSubtree(c)
	}
}

// toleranceOf derives what the fault of a finished run excuses. produced
// is the model of the input root during the upload.
func (p *faultPlan) toleranceOf(produced *node) *tolerance {
	tol := &tolerance{}
	if p == nil || p.hit == nil {
		return tol
	}
	if p.err == nil || (p.hit.Phase == "upload" && p.hit.Kind == "cas.Get") {
		// Cancellation: every later storage call is refused. A failing
		// read in the upload phase (lazily loaded directory): whatever is
		// below it cannot be listed.
		tol.all, tol.stdout, tol.stderr = true, true, true
		return tol
	}
	a := p.affected
	if a == nil || produced == nil {
		return tol
	}
	if len(a) == 1 && len(p.rootPrefix) > 0 {
		switch a[0] {
		case "stdout":
			tol.stdout = true
		case "stderr":
			tol.stderr = true
		}
	}
	if len(a) < len(p.rootPrefix) || strings.Join(a[:len(p.rootPrefix)], "/") != strings.Join(p.rootPrefix, "/") {
		return tol
	}
	rest := a[len(p.rootPrefix):]
	n := produced
	if len(rest) > 0 {
		n = produced.walk(rest)
	}
	tol.markSubtree(n)
	return tol
}

package outputs

// Readiness-check scenarios of TestC12ExecutorBuildDirectoryLifecycle: the
// real LocalBuildExecutor.CheckReadiness over the same tracked build
// directory / fault plan as the Execute scenarios. Every fallible call the
// fault-free run records (whatever the code under test calls: today
// GetBuildDirectory, Mkdir of check_readiness, the runner's CheckReadiness,
// Close of the build directory; Enter/Close of entered handles would be
// recorded by the same wrapper) is failed once and is once the point at
// which the caller's context is cancelled.

import (
	"context"
	"fmt"
	"time"

	"github.com/buildbarn/bb-remote-execution/pkg/builder"
	runner_pb "github.com/buildbarn/bb-remote-execution/pkg/proto/runner"
	"google.golang.org/grpc/codes"
	"google.golang.org/grpc/status"
	"pgregory.net/rapid"

	"verif/harness/internal/simkit"
)

const readinessDirectoryName = "check_readiness"

type readinessScript struct {
	Scenario string       `json:"scenario"` // readiness_check
	Backend  string       `json:"backend"`
	Runner   string       `json:"runner"` // what the runner answers: ready | <status code>
	Fault    *faultScript `json:"fault,omitempty"`
	Outcome  string       `json:"outcome,omitempty"`
}

type readinessRunnerCall struct {
	path           string
	directoryThere bool // check_readiness existed in the build directory when the runner was asked
	topClosed      bool // the build directory had been closed by then
	noTop          bool // no build directory had been handed out
}

type readinessOutcome struct {
	eo            execOutcome // creator bookkeeping (creatorCalls, creatorArgs, top, tracker, plan)
	err           error       // what CheckReadiness returned
	runnerCalls   []readinessRunnerCall
	runnerRefused bool
	entries       []string
	harness       string
}

// runReadinessScenario runs CheckReadiness once. at < 0: no fault; ferr ==
// nil with at >= 0: the context is cancelled at that position.
func runReadinessScenario(newRig func(*fakeCAS) (execRig, error), runnerErr error, at int, ferr error) *readinessOutcome {
	out := &readinessOutcome{}
	cas := newFakeCAS()
	out.eo.cas = cas
	rig, err := newRig(cas)
	if err != nil {
		out.harness = fmt.Sprintf("VERIF-INCONCLUSIVE harness: %v", err)
		return out
	}
	defer rig.close()

	ctx, cancel := context.WithCancel(context.Background())
	defer cancel()
	plan := newFaultPlan()
	plan.at, plan.err = at, ferr
	if ferr == nil {
		plan.cancel = cancel
	}
	out.eo.plan = plan
	cas.plan = plan
	out.eo.tracker = &dirTracker{plan: plan}

	runner := &scenarioRunner{}
	runner.check = func(rctx context.Context, req *runner_pb.CheckReadinessRequest) error {
		call := readinessRunnerCall{path: req.GetPath()}
		plan.suspend()
		entries, lerr := rig.buildDirectoryEntries()
		plan.resume()
		if lerr != nil {
			out.harness = fmt.Sprintf("VERIF-INCONCLUSIVE harness: cannot list the build directory: %v", lerr)
		}
		for _, e := range entries {
			if e == readinessDirectoryName {
				call.directoryThere = true
			}
		}
		if top := out.eo.top; top == nil {
			call.noTop = true
		} else {
			call.topClosed = top.closes > 0
		}
		out.runnerCalls = append(out.runnerCalls, call)
		if err := plan.step("runner.CheckReadiness", nil); err != nil {
			return err
		}
		// Like a gRPC client: nothing is sent on a context that is done.
		if err := rctx.Err(); err != nil {
			out.runnerRefused = true
			return status.FromContextError(err).Err()
		}
		return runnerErr
	}
	creator := &trackingCreator{out: &out.eo, rig: rig}
	executor := builder.NewLocalBuildExecutor(cas, creator, runner, fakeClock{}, time.Minute, nil, 1<<20, map[string]string{"PATH": "/bin"}, false)
	out.err = executor.CheckReadiness(ctx)

	plan.suspend()
	if out.harness == "" {
		if out.entries, err = rig.buildDirectoryEntries(); err != nil {
			out.harness = fmt.Sprintf("VERIF-INCONCLUSIVE harness: cannot list the build directory: %v", err)
		}
	}
	return out
}

// judgeReadinessRun applies the oracles to one (possibly faulted) readiness
// check. runnerErr: what the fake runner answers when it is reached.
func judgeReadinessRun(out *readinessOutcome, runnerErr error) error {
	if out.harness != "" {
		return fmt.Errorf("%s", out.harness)
	}
	eo := &out.eo
	plan := eo.plan
	hit := plan.hit
	errMode := hit != nil && plan.err != nil
	cancelMode := hit != nil && plan.err == nil

	// --- the build directory: obtained once, not named after any action,
	// closed exactly once, after everything else.
	if eo.creatorCalls != 1 {
		return fmt.Errorf("GetBuildDirectory was called %d times for one readiness check", eo.creatorCalls)
	}
	if arg := eo.creatorArgs[0]; arg != nil {
		return fmt.Errorf("a readiness check belongs to no action, but GetBuildDirectory was given action digest %s", arg)
	}
	if eo.top == nil && len(eo.tracker.handles) > 0 {
		return fmt.Errorf("harness: handles without a build directory")
	}
	if err := eo.tracker.lifecycle(eo.top, true); err != nil {
		return err
	}

	// --- the runner is asked at most once, about a directory that exists
	// in a build directory that is still open ("The runner will validate
	// that it exists").
	if len(out.runnerCalls) > 1 {
		return fmt.Errorf("the runner's CheckReadiness was called %d times", len(out.runnerCalls))
	}
	for _, c := range out.runnerCalls {
		if c.noTop {
			return fmt.Errorf("the runner was asked to check readiness although no build directory was obtained")
		}
		if c.path != readinessDirectoryName {
			return fmt.Errorf("the runner was asked to check path %q, the directory created is %q in a build directory whose path is empty", c.path, readinessDirectoryName)
		}
		if !c.directoryThere {
			return fmt.Errorf("the runner was asked to check %q, which does not exist in the build directory", c.path)
		}
		if c.topClosed {
			return fmt.Errorf("the runner was asked to check readiness after the build directory had been closed")
		}
	}

	// --- failures surface as an error. The result of Close is dropped by
	// the code (deferred); nothing is required of it.
	closeFault := hit != nil && hit.Kind == "dir.Close"
	if errMode && !closeFault {
		if out.err == nil {
			return fmt.Errorf("%s failed with %v, but CheckReadiness returned no error", hit, plan.err)
		}
		if got, want := status.Code(out.err), faultErrorCode(plan.err); got != want {
			return fmt.Errorf("%s failed with %v and nothing else went wrong, but CheckReadiness returned %s: %v", hit, plan.err, got, out.err)
		}
	}
	creatorRefused := cancelMode && hit.Kind == "creator.Get"
	if (creatorRefused || out.runnerRefused) && out.err == nil {
		return fmt.Errorf("the context was cancelled at %s and a call was refused because of it, but CheckReadiness returned no error", hit)
	}
	if hit == nil {
		if len(out.runnerCalls) != 1 {
			return fmt.Errorf("nothing failed but the runner's CheckReadiness was called %d times", len(out.runnerCalls))
		}
		switch {
		case runnerErr == nil && out.err != nil:
			return fmt.Errorf("nothing failed and the runner is ready, but CheckReadiness returned %v", out.err)
		case runnerErr != nil && out.err == nil:
			return fmt.Errorf("the runner answered %v, but CheckReadiness returned no error", runnerErr)
		case runnerErr != nil && status.Code(out.err) != status.Code(runnerErr):
			return fmt.Errorf("the runner answered %v, but CheckReadiness returned %v", runnerErr, out.err)
		}
	}

	// --- nothing but the readiness directory is created in the build
	// directory (removing it is left to Close of the build directory).
	for _, e := range out.entries {
		if e != readinessDirectoryName {
			return fmt.Errorf("unexpected entry %q in the build directory after a readiness check (entries: %v)", e, out.entries)
		}
	}
	return nil
}

// runReadinessFaultCase: one generated readiness-check scenario, fault-free
// and then once per (recorded call x {error, cancel}).
func runReadinessFaultCase(rt *rapid.T, rec *simkit.Recorder, backends []string) {
	backend := rapid.SampledFrom(backends).Draw(rt, "backend")
	var newRig func(c *fakeCAS) (execRig, error)
	switch backend {
	case "mem":
		newRig = func(c *fakeCAS) (execRig, error) { return &memRig{fs: &fakeFS{cas: c}, bd: newDir()}, nil }
	case "virtual":
		newRig = func(c *fakeCAS) (execRig, error) { return &virtualRig{w: newVirtualWorld(c), pool: &faultyPool{}}, nil }
	default:
		rt.Fatalf("VERIF-INCONCLUSIVE harness: readiness scenarios do not support backend %q", backend)
	}
	var runnerErr error
	script := readinessScript{Scenario: "readiness_check", Backend: "executor/" + backend, Runner: "ready"}
	if rapid.IntRange(0, 2).Draw(rt, "runner_not_ready") == 0 {
		c := rapid.SampledFrom(faultCodes).Draw(rt, "runner_code")
		runnerErr = status.Errorf(c, "runner is not ready")
		script.Runner = c.String()
	}

	base := runReadinessScenario(newRig, runnerErr, -1, nil)
	if err := judgeReadinessRun(base, runnerErr); err != nil {
		rt.Fatalf("fault-free readiness check: %v; script=%+v", err, script)
	}
	labels := []string{"readiness_check", "fault_free", "backend_" + backend}
	if runnerErr != nil {
		labels = append(labels, "readiness_runner_not_ready")
	}
	script.Outcome = "fault-free: " + status.Code(base.err).String()
	rec.Case(script, false, labels...)

	trace := base.eo.plan.trace
	for i, point := range trace {
		for _, mode := range []string{"error", "cancel"} {
			var ferr error
			fs := &faultScript{Index: i, Point: point.String(), Mode: mode}
			if mode == "error" {
				ferr = drawFaultError(rt, point.Kind)
				fs.Error = ferr.Error()
			}
			fscript := script
			fscript.Fault = fs
			out := runReadinessScenario(newRig, runnerErr, i, ferr)
			if err := judgeReadinessRun(out, runnerErr); err != nil {
				rt.Fatalf("readiness check: %v; fault=%+v; script=%+v", err, *fs, fscript)
			}
			flabels := []string{"readiness_check", "backend_" + backend}
			hit := out.eo.plan.hit
			if hit == nil {
				flabels = append(flabels, "fault_not_reached")
			} else {
				flabels = append(flabels, "fault_"+mode, "readiness_fault_"+mode, "readiness_fault_at_"+hit.Kind)
				if hit.Kind != point.Kind {
					flabels = append(flabels, "fault_position_shifted")
				}
			}
			if out.err != nil {
				flabels = append(flabels, "readiness_error_returned")
			}
			if runnerErr != nil {
				flabels = append(flabels, "readiness_runner_not_ready")
			}
			code := codes.OK
			if out.err != nil {
				code = status.Code(out.err)
			}
			fscript.Outcome = code.String()
			rec.Case(fscript, hit != nil, flabels...)
		}
	}
}

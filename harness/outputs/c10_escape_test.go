package outputs

import (
	"sort"
	"strings"
	"testing"

	"pgregory.net/rapid"

	"verif/harness/internal/simkit"
)

type escapeScript struct {
	Workdir string   `json:"workdir"`
	Paths   []string `json:"output_paths"`
	Outcome string   `json:"outcome"`
}

// genRawPath draws either a string over the alphabet {a, b, '.', '/'}
// (unbiased: "...", "..a", ".//..", "/./" all appear) or a token path
// from the grammar of sub-check 1 with escaping allowed.
func genRawPath(rt *rapid.T, label string, depth int) string {
	switch rapid.IntRange(0, 3).Draw(rt, label+"_gen") {
	case 0:
		return rapid.StringOfN(rapid.SampledFrom([]rune{'a', 'b', '.', '.', '/', '/'}), 0, 12, -1).Draw(rt, label+"_raw")
	case 1:
		return genPath(rt, label, depth, 8, true)
	default:
		return genPath(rt, label, depth, 8, false)
	}
}

// touchesRoot: resolving p from base comes back to exactly the input root
// through a ".." at some point (the boundary next to escaping).
func touchesRoot(base []string, p string) bool {
	if strings.HasPrefix(p, "/") {
		return false
	}
	d := len(base)
	for _, tok := range strings.Split(p, "/") {
		switch tok {
		case "", ".":
		case "..":
			d--
			if d < 0 {
				return false
			}
			if d == 0 {
				return true
			}
		default:
			d++
		}
	}
	return false
}

func checkEscapeCase(workdir string, paths []string) (sc escapeScript, labels []string, nontrivial bool, failure string) {
	sc = escapeScript{Workdir: workdir, Paths: paths}
	rc := refCommandOf(workdir, paths)
	ci := commandInput{workdir: workdir, paths: paths}
	oh, err := checkConstruction(&ci, &rc)
	if err != nil {
		return sc, nil, false, err.Error()
	}
	all := append([]string{workdir}, paths...)
	for _, p := range all {
		if strings.Contains(p, "..") || strings.HasPrefix(p, "/") || strings.Contains(p, "//") {
			nontrivial = true
		}
	}
	if oh == nil {
		sc.Outcome = "rejected"
		switch {
		case !rc.workdirOK && strings.HasPrefix(workdir, "/"):
			labels = append(labels, "rejected_absolute_working_directory")
		case !rc.workdirOK:
			labels = append(labels, "rejected_working_directory_climbs_out")
		case strings.HasPrefix(paths[rc.firstBadIdx], "/"):
			labels = append(labels, "rejected_absolute_output_path")
		default:
			labels = append(labels, "rejected_output_path_climbs_out")
		}
		if rc.workdirOK && rc.firstBadIdx > 0 {
			labels = append(labels, "rejected_after_valid_paths")
		}
		return sc, labels, nontrivial, ""
	}
	sc.Outcome = "accepted"
	labels = append(labels, "accepted")
	if touchesRoot(nil, workdir) {
		labels = append(labels, "working_directory_returns_to_root")
	}
	for _, p := range paths {
		if touchesRoot(rc.wloc, p) {
			labels = append(labels, "path_returns_to_root")
			break
		}
	}
	// Accepted: the normalised locations must agree as well. Observe them
	// through the directories CreateParentDirectories makes in an empty
	// input root.
	root := newDir()
	fs := &fakeFS{cas: newFakeCAS()}
	if err := oh.CreateParentDirectories(fs.open(root, nil)); err != nil {
		return sc, labels, nontrivial, "CreateParentDirectories on an empty input root failed: " + err.Error()
	}
	chains := parentChains(rc.locs)
	var want []string
	for k := range chains {
		want = append(want, k+":dir")
	}
	sort.Strings(want)
	got, _ := diffTrees(newDir(), root)
	if strings.Join(got, "|") != strings.Join(want, "|") {
		return sc, labels, nontrivial, "CreateParentDirectories on an empty input root created " + strings.Join(got, ",") + "; reference normaliser says " + strings.Join(want, ",")
	}
	if len(want) > 0 {
		labels = append(labels, "parents_compared")
	}
	return sc, labels, nontrivial, ""
}

func TestC10PathEscapeDifferential(t *testing.T) {
	rec := simkit.NewRecorder(t, "C10", "path_escape_differential", "rapid: working directory and 0-5 output paths, each either a raw string over {a,b,'.','/'} (length 0-12) or a token path (<= 8 tokens from names, '.', '..', '', optional leading/trailing '/'); oracle: NewOutputHierarchy accepts <=> independent lexical normaliser says that neither the working directory nor any path is absolute or climbs above the input root at any prefix; rejections must be INVALID_ARGUMENT; for accepted commands the set of directories CreateParentDirectories creates in an empty root must equal the normaliser's dirname chains. NON-TRIVIAL: some string contains '..', a leading '/' or '//'; distinct by script hash")
	rapid.Check(t, func(rt *rapid.T) {
		workdir := genRawPath(rt, "wd", 0)
		wloc, ok := refResolve(nil, workdir)
		depth := 0
		if ok {
			depth = len(wloc)
		}
		n := rapid.IntRange(0, 5).Draw(rt, "npaths")
		var paths []string
		for i := 0; i < n; i++ {
			paths = append(paths, genRawPath(rt, "p", depth))
		}
		sc, labels, nontrivial, failure := checkEscapeCase(workdir, paths)
		if failure != "" {
			rt.Fatalf("%s; script=%+v", failure, sc)
		}
		rec.Case(sc, nontrivial, labels...)
	})
}

// Exhaustive companion: every working directory and single output path
// over the token alphabet {a, ., .., ""} up to 4 tokens each, with and
// without a leading slash. Deterministic, cheap, and independent of the
// random draw, so the boundary cases are always covered.
func TestC10PathEscapeExhaustive(t *testing.T) {
	rec := simkit.NewRecorder(t, "C10", "path_escape_exhaustive", "exhaustive: all (working directory, one output path) pairs where each is <= 4 tokens from {a, '.', '..', ''} joined by '/', optionally with a leading '/'; same oracle as path_escape_differential. NON-TRIVIAL: contains '..', leading '/' or '//'")
	toks := []string{"a", ".", "..", ""}
	var all []string
	var gen func(prefix []string, n int)
	gen = func(prefix []string, n int) {
		s := strings.Join(prefix, "/")
		all = append(all, s, "/"+s)
		if n == 0 {
			return
		}
		for _, t := range toks {
			gen(append(append([]string{}, prefix...), t), n-1)
		}
	}
	gen(nil, 4)
	seen := map[string]bool{}
	var uniq []string
	for _, s := range all {
		if !seen[s] {
			seen[s] = true
			uniq = append(uniq, s)
		}
	}
	for _, wd := range uniq {
		if len(strings.Split(wd, "/")) > 3 {
			continue
		}
		for _, p := range uniq {
			sc, labels, nontrivial, failure := checkEscapeCase(wd, []string{p})
			if failure != "" {
				t.Fatalf("VERIF-VIOLATION %s; script=%+v", failure, sc)
			}
			rec.Case(sc, nontrivial, labels...)
		}
	}
}

// Native fuzz target (thorough tier only): the same differential on three
// raw strings, coverage guided.
func FuzzC10PathEscape(f *testing.F) {
	f.Add("foo", "../alice/bob", "bar/baz")
	f.Add("hello/../..", "x", "")
	f.Add(".", "/etc/passwd", "a//b/")
	f.Add("a/b", "../../..", "../..")
	f.Fuzz(func(t *testing.T, workdir, p1, p2 string) {
		for _, s := range []string{workdir, p1, p2} {
			if strings.ContainsRune(s, 0) {
				t.Skip() // NUL bytes are rejected for another reason (not a valid C string)
			}
		}
		sc, _, _, failure := checkEscapeCase(workdir, []string{p1, p2})
		if failure != "" {
			t.Fatalf("VERIF-VIOLATION %s; script=%+v", failure, sc)
		}
	})
}

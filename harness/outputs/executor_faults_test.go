package outputs

// Fault enumeration over the real LocalBuildExecutor.Execute:
//
//   TestC09ExecutorUploadFaults            (checks.d/C09.executor.py)
//   TestC09OutputHierarchyUploadFaults     (checks.d/C09.executor.py)
//   TestC12ExecutorBuildDirectoryLifecycle (checks.d/C12.executor.py)
//
// A generated scenario (command, input root, produced tree, exit code,
// stdout/stderr, do_not_cache) is executed once without faults while every
// fallible call of the fakes is recorded; then it is executed again once
// per selected (position x fault kind).

import (
	"context"
	"fmt"
	"os"
	"sort"
	"strings"
	"testing"
	"time"

	remoteexecution "github.com/bazelbuild/remote-apis/build/bazel/remote/execution/v2"
	"github.com/buildbarn/bb-remote-execution/pkg/builder"
	"github.com/buildbarn/bb-remote-execution/pkg/proto/remoteworker"
	runner_pb "github.com/buildbarn/bb-remote-execution/pkg/proto/runner"
	"github.com/buildbarn/bb-storage/pkg/digest"
	"github.com/buildbarn/bb-storage/pkg/filesystem/path"
	"google.golang.org/grpc"
	"google.golang.org/grpc/codes"
	"google.golang.org/grpc/status"
	"google.golang.org/protobuf/types/known/durationpb"
	"google.golang.org/protobuf/types/known/emptypb"
	"pgregory.net/rapid"

	"verif/harness/internal/simkit"
)

var (
	stdoutPool = []string{"", "out\n", "o1\no2\n"}
	stderrPool = []string{"", "err\n", "e1\ne2\n"}
)

// checkStream judges stdout_digest / stderr_digest: set (and describing
// exactly the stream's bytes, present in the CAS) iff the stream is not
// empty. The two pools are disjoint, so swapped streams fail here.
func checkStream(cas *fakeCAS, name string, d *remoteexecution.Digest, raw []byte, want string, mayBeMissing bool) error {
	if len(raw) > 0 && string(raw) != want {
		return fmt.Errorf("%s_raw holds %q, the command wrote %q", name, truncate(string(raw)), truncate(want))
	}
	if want == "" {
		if d != nil && d.SizeBytes != 0 {
			return fmt.Errorf("%s is empty but %s_digest is %s/%d", name, name, d.Hash, d.SizeBytes)
		}
		if d != nil {
			return checkFileDigest(cas, d, "")
		}
		return nil
	}
	if d == nil {
		if mayBeMissing || len(raw) > 0 {
			return nil
		}
		return fmt.Errorf("the command wrote %q to %s but %s_digest is not set", truncate(want), name, name)
	}
	if err := checkFileDigest(cas, d, want); err != nil {
		return fmt.Errorf("%s_digest: %v", name, err)
	}
	return nil
}

// documentedBuildDirectoryEntries: what Execute itself creates in the
// build directory (root, tmp, server_logs), what the runner creates there
// (stdout, stderr) and the harness' own probe file of the virtual rig.
var documentedBuildDirectoryEntries = map[string]bool{
	"root": true, "tmp": true, "server_logs": true, "stdout": true, "stderr": true, "io_error_probe": true,
}

func checkBuildDirectoryEntries(entries []string, rejected, ran bool) error {
	for _, e := range entries {
		if !documentedBuildDirectoryEntries[e] {
			return fmt.Errorf("unexpected entry %q in the build directory (entries: %v)", e, entries)
		}
		if rejected && e != "root" {
			return fmt.Errorf("the command was rejected, yet %q exists in the build directory (entries: %v)", e, entries)
		}
	}
	if ran {
		have := map[string]bool{}
		for _, e := range entries {
			have[e] = true
		}
		for _, w := range []string{"root", "tmp", "server_logs"} {
			if !have[w] {
				return fmt.Errorf("the command ran but %q does not exist in the build directory (entries: %v)", w, entries)
			}
		}
	}
	return nil
}

type execScenario struct {
	ci         commandInput
	rc         refCommand
	initial    *node
	exitCode   int
	stdout     string
	stderr     string
	doNotCache bool
	// Tree the action leaves behind; drawn inside the runner of the
	// fault-free run (it depends on what the executor prepared), replayed
	// afterwards.
	produced *node
}

type faultScript struct {
	Index int    `json:"index"`
	Point string `json:"point"`
	Mode  string `json:"mode"` // error | cancel
	Error string `json:"error,omitempty"`
}

func (f *faultScript) String() string {
	if f == nil {
		return "<nil>"
	}
	return fmt.Sprintf("{Index:%d Point:%s Mode:%s Error:%s}", f.Index, f.Point, f.Mode, f.Error)
}

type execOutcome struct {
	response     *remoteexecution.ExecuteResponse
	cas          *fakeCAS
	plan         *faultPlan
	tracker      *dirTracker
	top          *trackedDir
	runnerCalls  int
	runnerFailed bool
	creatorCalls int
	creatorArgs  []*digest.Digest
	actionDigest digest.Digest
	produced     *node // nil: the runner was not invoked (or refused to start)
	final        *node
	entries      []string
	outside      []string
	harness      string
	// The input root could not be read back after a cancellation.
	finalUnreadable bool
	// The runner was called on a context that was already done and did
	// nothing; if the input root could not be read at that moment the
	// outputs cannot be judged.
	runnerRefused, outputsUnjudgeable bool
}

type scenarioRunner struct {
	calls int
	run   func(ctx context.Context, req *runner_pb.RunRequest) (*runner_pb.RunResponse, error)
	// Readiness-check scenarios (readiness_faults_test.go); nil: ready.
	check func(ctx context.Context, req *runner_pb.CheckReadinessRequest) error
}

func (r *scenarioRunner) CheckReadiness(ctx context.Context, in *runner_pb.CheckReadinessRequest, opts ...grpc.CallOption) (*emptypb.Empty, error) {
	if r.check != nil {
		if err := r.check(ctx, in); err != nil {
			return nil, err
		}
	}
	return &emptypb.Empty{}, nil
}

func (r *scenarioRunner) Run(ctx context.Context, in *runner_pb.RunRequest, opts ...grpc.CallOption) (*runner_pb.RunResponse, error) {
	r.calls++
	return r.run(ctx, in)
}

type trackingCreator struct {
	out *execOutcome
	rig execRig
}

func (c *trackingCreator) GetBuildDirectory(ctx context.Context, actionDigestIfNotRunInParallel *digest.Digest) (builder.BuildDirectory, *path.Trace, error) {
	c.out.creatorCalls++
	var arg *digest.Digest
	if actionDigestIfNotRunInParallel != nil {
		cp := *actionDigestIfNotRunInParallel
		arg = &cp
	}
	c.out.creatorArgs = append(c.out.creatorArgs, arg)
	if err := c.out.plan.step("creator.Get", nil); err != nil {
		return nil, nil, err
	}
	if err := ctx.Err(); err != nil {
		return nil, nil, status.FromContextError(err).Err()
	}
	d, err := c.rig.buildDirectory()
	if err != nil {
		return nil, nil, err
	}
	c.out.top = c.out.tracker.wrapRoot(d)
	return c.out.top, nil, nil
}

// outsideLister is implemented by rigs whose build directory has
// surroundings that could be touched (the real file system).
type outsideLister interface {
	outsideEntries() ([]string, error)
}

// runExecScenario executes sc once. at < 0: no fault. ferr == nil with
// at >= 0: the context given to Execute is cancelled at that position.
func runExecScenario(sc *execScenario, newRig func(*fakeCAS) (execRig, error), at int, ferr error, produce func(cur *node) *node) *execOutcome {
	out := &execOutcome{}
	cas := newFakeCAS()
	out.cas = cas
	commandDigest := cas.putProto(sc.ci.command())
	action := &remoteexecution.Action{
		CommandDigest:   commandDigest,
		InputRootDigest: storeTree(cas, sc.initial),
		Timeout:         durationpb.New(time.Hour),
		DoNotCache:      sc.doNotCache,
	}
	actionDigestProto := cas.putProto(action)
	var derr error
	if out.actionDigest, derr = digestFunction.NewDigestFromProto(actionDigestProto); derr != nil {
		out.harness = fmt.Sprintf("VERIF-INCONCLUSIVE harness: %v", derr)
		return out
	}

	rig, err := newRig(cas)
	if err != nil {
		out.harness = fmt.Sprintf("VERIF-INCONCLUSIVE harness: %v", err)
		return out
	}
	defer rig.close()

	ctx, cancel := context.WithCancel(context.Background())
	defer cancel()
	plan := newFaultPlan("root")
	plan.at, plan.err = at, ferr
	if ferr == nil {
		plan.cancel = cancel
	}
	out.plan = plan
	cas.plan = plan
	out.tracker = &dirTracker{plan: plan}

	runner := &scenarioRunner{}
	runner.run = func(rctx context.Context, req *runner_pb.RunRequest) (*runner_pb.RunResponse, error) {
		defer plan.setPhase("upload")
		// Like a gRPC client: nothing is started on a context that is done.
		if err := rctx.Err(); err != nil {
			// Execute goes on to upload whatever the input root holds.
			out.runnerFailed, out.runnerRefused = true, true
			plan.suspend()
			if cur, rerr := rig.inputRoot(); rerr == nil && cur != nil {
				out.produced = cur
			} else {
				out.outputsUnjudgeable = true
			}
			plan.resume()
			return nil, status.FromContextError(err).Err()
		}
		plan.suspend()
		cur, err := rig.inputRoot()
		if err != nil || cur == nil {
			plan.resume()
			out.harness = fmt.Sprintf("runner invoked but the input root cannot be read: %v", err)
			return nil, fmt.Errorf("harness failure")
		}
		if req.InputRootDirectory != "root" {
			out.harness = fmt.Sprintf("runner told that the input root is %q, the executor created \"root\"", req.InputRootDirectory)
		}
		produced := produce(cur)
		err = rig.runAction(produced, sc.stdout, sc.stderr)
		plan.resume()
		if err != nil {
			out.harness = fmt.Sprintf("VERIF-INCONCLUSIVE harness: cannot perform the action: %v", err)
			return nil, fmt.Errorf("harness failure")
		}
		out.produced = produced
		// The command has run; the call may still fail (runner killed,
		// connection lost).
		if err := plan.step("runner.Run", nil); err != nil {
			out.runnerFailed = true
			return nil, err
		}
		return &runner_pb.RunResponse{ExitCode: int64(sc.exitCode)}, nil
	}
	creator := &trackingCreator{out: out, rig: rig}
	executor := builder.NewLocalBuildExecutor(cas, creator, runner, fakeClock{}, time.Minute, nil, 1<<20, map[string]string{"PATH": "/bin"}, sc.ci.force)
	updates := make(chan *remoteworker.CurrentState_Executing, 16)
	out.response = executor.Execute(ctx, rig.filePool(), nil, digestFunction, &remoteworker.DesiredState_Executing{
		ActionDigest: actionDigestProto,
		Action:       action,
	}, updates)
	out.runnerCalls = runner.calls

	plan.suspend() // everything below is the harness looking at the result
	if out.harness == "" {
		if out.final, err = rig.inputRoot(); err != nil {
			if plan.hit != nil && plan.err == nil {
				// A lazily loading build directory fetches on the context it
				// was given by Execute, which the plan has cancelled.
				out.final, out.finalUnreadable = nil, true
			} else {
				out.harness = fmt.Sprintf("VERIF-INCONCLUSIVE harness: cannot read the input root after Execute: %v", err)
			}
		}
	}
	if out.harness == "" {
		if out.entries, err = rig.buildDirectoryEntries(); err != nil {
			out.harness = fmt.Sprintf("VERIF-INCONCLUSIVE harness: cannot list the build directory: %v", err)
		}
	}
	if ol, ok := rig.(outsideLister); ok && out.harness == "" {
		if out.outside, err = ol.outsideEntries(); err != nil {
			out.harness = fmt.Sprintf("VERIF-INCONCLUSIVE harness: cannot list the surroundings of the build directory: %v", err)
		}
	}
	return out
}

type execFacts struct {
	rejected, ran, conflict bool
	errAllowed              bool
	code                    codes.Code
	uf                      uploadFacts
}

// judgeExecRun applies every oracle to one (possibly faulted) run.
// baselineOK: the fault-free run of the same scenario ended with status OK.
func judgeExecRun(sc *execScenario, out *execOutcome, backend string, baselineOK bool) (execFacts, error) {
	var f execFacts
	if out.harness != "" {
		return f, fmt.Errorf("%s", out.harness)
	}
	resp := out.response
	if resp == nil || resp.Result == nil {
		return f, fmt.Errorf("Execute returned no result")
	}
	ar := resp.Result
	code := codes.Code(resp.GetStatus().GetCode())
	f.code = code
	plan := out.plan
	hit := plan.hit
	errMode := hit != nil && plan.err != nil
	cancelMode := hit != nil && plan.err == nil

	// --- the build directory: obtained once, for the right key, closed
	// exactly once after its last use.
	if out.creatorCalls != 1 {
		return f, fmt.Errorf("GetBuildDirectory was called %d times for one action", out.creatorCalls)
	}
	switch arg := out.creatorArgs[0]; {
	case sc.doNotCache && arg != nil:
		return f, fmt.Errorf("do_not_cache is set, so the action may run in parallel with an identical one, but GetBuildDirectory was given action digest %s (a directory named after the digest is not parallel-safe)", arg)
	case !sc.doNotCache && arg == nil:
		return f, fmt.Errorf("do_not_cache is not set but GetBuildDirectory was given no action digest")
	case arg != nil && *arg != out.actionDigest:
		return f, fmt.Errorf("GetBuildDirectory was given digest %s, the action's digest is %s", arg, out.actionDigest)
	}
	if out.top == nil && len(out.tracker.handles) > 0 {
		return f, fmt.Errorf("harness: handles without a build directory")
	}
	if err := out.tracker.lifecycle(out.top, true); err != nil {
		return f, err
	}

	// --- failures surface as an error status.
	rootClose := errMode && hit.Kind == "dir.Close" && hit.Path == ""
	childClose := errMode && hit.Kind == "dir.Close" && hit.Path != ""
	if errMode && !childClose && code == codes.OK {
		return f, fmt.Errorf("%s failed with %v, but the response status is OK", hit, plan.err)
	}
	if cancelMode && out.cas.refused > 0 && code == codes.OK {
		return f, fmt.Errorf("%d storage calls were refused after the cancellation, but the response status is OK", out.cas.refused)
	}
	if errMode && !childClose && baselineOK && (backend == "mem" || rootClose) {
		if want := faultErrorCode(plan.err); code != want {
			return f, fmt.Errorf("%s failed with %v and nothing else went wrong, but the response status is %s %q", hit, plan.err, code, resp.GetStatus().GetMessage())
		}
	}
	if len(out.cas.corrupt) > 0 {
		return f, fmt.Errorf("blobs were stored under digests that do not match their contents: %v", out.cas.corrupt)
	}

	// --- the build directory holds nothing but the documented entries.
	f.rejected = !sc.rc.valid
	f.ran = out.produced != nil && !out.runnerRefused
	if err := checkBuildDirectoryEntries(out.entries, f.rejected, f.ran && hit == nil); err != nil {
		return f, err
	}
	if len(out.outside) > 0 {
		return f, fmt.Errorf("entries %v were created next to the build directory", out.outside)
	}

	// --- outputs.
	if !sc.rc.valid {
		if hit == nil && code != codes.InvalidArgument {
			return f, fmt.Errorf("escaping command: response status is %s (%q), want INVALID_ARGUMENT", code, resp.GetStatus().GetMessage())
		}
		if code == codes.OK {
			return f, fmt.Errorf("escaping command: response status is OK")
		}
		if out.runnerCalls != 0 {
			return f, fmt.Errorf("escaping command: the runner was invoked %d times", out.runnerCalls)
		}
		if out.final != nil && hit == nil && !equalTrees(out.final, sc.initial) {
			return f, fmt.Errorf("escaping command: the input root was touched: now %v", out.final.render())
		}
		if out.final != nil {
			// With a fault the declared inputs may be there only in part,
			// but nothing else.
			if _, err := diffTrees(out.final, sc.initial); err != nil {
				return f, fmt.Errorf("escaping command: the input root holds something that is not a declared input: %v; now %v", err, out.final.render())
			}
		}
	}
	if out.runnerCalls > 1 {
		return f, fmt.Errorf("the runner was invoked %d times", out.runnerCalls)
	}
	if out.outputsUnjudgeable {
		return f, nil
	}
	if out.produced == nil {
		if n := len(ar.OutputFiles) + len(ar.OutputDirectories) + len(ar.OutputSymlinks); n != 0 {
			return f, fmt.Errorf("the command never ran but %d outputs are reported", n)
		}
		if ar.StdoutDigest != nil || ar.StderrDigest != nil {
			return f, fmt.Errorf("the command never ran but stdout/stderr digests are reported")
		}
		if code == codes.OK {
			return f, fmt.Errorf("the command never ran but the response status is OK")
		}
		return f, nil
	}
	if !out.finalUnreadable && (out.final == nil || !equalTrees(out.final, out.produced)) {
		return f, fmt.Errorf("uploading outputs modified the input root: now %v", renderOrNil(out.final))
	}
	uf, errAllowed := describeOutputs(&sc.ci, &sc.rc, out.produced)
	f.uf, f.errAllowed = uf, errAllowed
	if hit == nil && code != codes.OK && !errAllowed {
		return f, fmt.Errorf("response status %s %q although every declared output is a file, directory, symlink or absent", code, resp.GetStatus().GetMessage())
	}
	if !out.runnerFailed && int(ar.ExitCode) != sc.exitCode {
		return f, fmt.Errorf("exit code %d reported, runner returned %d", ar.ExitCode, sc.exitCode)
	}
	tol := plan.toleranceOf(out.produced)
	requireRDD := sc.ci.format == remoteexecution.Command_DIRECTORY_ONLY || sc.ci.format == remoteexecution.Command_TREE_AND_DIRECTORY
	if err := checkActionResult(out.cas, ar, out.produced, sc.ci.paths, sc.rc.locs, requireRDD, tol); err != nil {
		return f, err
	}
	wantStdout, wantStderr := sc.stdout, sc.stderr
	if out.runnerRefused {
		wantStdout, wantStderr = "", ""
	}
	if err := checkStream(out.cas, "stdout", ar.StdoutDigest, ar.StdoutRaw, wantStdout, tol.stdout); err != nil {
		return f, err
	}
	if err := checkStream(out.cas, "stderr", ar.StderrDigest, ar.StderrRaw, wantStderr, tol.stderr); err != nil {
		return f, err
	}
	return f, nil
}

func renderOrNil(n *node) []string {
	if n == nil {
		return nil
	}
	return n.render()
}

// drawExecScenario draws everything of a scenario that does not depend on
// what the executor prepares.
func drawExecScenario(rt *rapid.T) *execScenario {
	sc := &execScenario{}
	sc.ci = drawCommand(rt)
	sc.rc = refCommandOf(sc.ci.workdir, sc.ci.paths)
	sc.initial = drawInputRoot(rt, &sc.rc)
	dropSpecials(sc.initial)
	sc.exitCode = rapid.SampledFrom([]int{0, 0, 0, 1, 137, 255, 256, 512, 0x7fffff00, -1}).Draw(rt, "exit_code")
	sc.stdout = rapid.SampledFrom(stdoutPool).Draw(rt, "stdout")
	sc.stderr = rapid.SampledFrom(stderrPool).Draw(rt, "stderr")
	sc.doNotCache = rapid.Bool().Draw(rt, "do_not_cache")
	return sc
}

type faultSelection struct {
	index int
	mode  string // error | cancel
}

type faultTestConfig struct {
	property, sub string
	// selects which recorded positions are failed, and how.
	selectFaults func(rt *rapid.T, trace []faultPoint) []faultSelection
	nontrivial   func(sc *execScenario, base *execOutcome, out *execOutcome) bool
	backends     []string // drawn from (repeat a name to weight it)
}

func pickAtMost(rt *rapid.T, label string, cands []int, n int) []int {
	if len(cands) <= n {
		return cands
	}
	perm := rapid.Permutation(cands).Draw(rt, label)
	perm = perm[:n]
	sort.Ints(perm)
	return perm
}

func runExecutorFaultCase(rt *rapid.T, t *testing.T, rec *simkit.Recorder, cfg *faultTestConfig, scratch func() string) {
	sc := drawExecScenario(rt)
	backend := rapid.SampledFrom(cfg.backends).Draw(rt, "backend")
	if b := os.Getenv("VERIF_FAULT_BACKEND"); b != "" {
		backend = b // development aid: pin the backend
	}
	var newRig func(c *fakeCAS) (execRig, error)
	switch backend {
	case "mem":
		newRig = func(c *fakeCAS) (execRig, error) { return &memRig{fs: &fakeFS{cas: c}, bd: newDir()}, nil }
	case "virtual":
		newRig = func(c *fakeCAS) (execRig, error) { return &virtualRig{w: newVirtualWorld(c), pool: &faultyPool{}}, nil }
	case "naive":
		newRig = func(c *fakeCAS) (execRig, error) {
			p, err := newScratchDir(scratch())
			if err != nil {
				return nil, err
			}
			return &naiveRig{cas: c, path: p, rw: &rewriter{}}, nil
		}
	}
	script := sc.ci.script()
	script.Backend = "executor/" + backend
	script.Initial = sc.initial.render()
	script.Stdout, script.Stderr, script.ExitCode, script.DoNotCache = sc.stdout, sc.stderr, sc.exitCode, sc.doNotCache
	pathLabels := factsOf(&sc.ci, &sc.rc).labels()

	// Fault-free run: draws what the action produces, records the trace.
	base := runExecScenario(sc, newRig, -1, nil, func(cur *node) *node {
		produced := cur
		if sc.rc.valid {
			drawAction(rt, produced, &sc.rc)
		}
		sc.produced = produced.clone()
		return produced
	})
	if sc.produced != nil {
		script.Produced = sc.produced.render()
	}
	bf, err := judgeExecRun(sc, base, backend, true)
	if err != nil {
		rt.Fatalf("fault-free run: %v; script=%+v", err, script)
	}
	baselineOK := bf.code == codes.OK
	labels := append([]string{"fault_free", "backend_" + backend}, pathLabels...)
	switch {
	case bf.rejected:
		labels = append(labels, "rejected")
	case !bf.ran:
		labels = append(labels, "not_run")
	default:
		labels = append(labels, "ran")
		labels = append(labels, bf.uf.labels()...)
	}
	if sc.doNotCache {
		labels = append(labels, "do_not_cache")
	}
	if sc.stdout != "" {
		labels = append(labels, "stdout_nonempty")
	}
	if sc.stderr != "" {
		labels = append(labels, "stderr_nonempty")
	}
	script.Outcome = "fault-free: " + bf.code.String()
	rec.Case(script, false, labels...)

	trace := base.plan.trace
	for _, sel := range cfg.selectFaults(rt, trace) {
		point := trace[sel.index]
		var ferr error
		fs := &faultScript{Index: sel.index, Point: point.String(), Mode: sel.mode}
		if sel.mode == "error" {
			ferr = drawFaultError(rt, point.Kind)
			fs.Error = ferr.Error()
		}
		fscript := script
		fscript.Fault = fs
		out := runExecScenario(sc, newRig, sel.index, ferr, func(cur *node) *node {
			if sc.produced == nil {
				// The fault-free run never reached the runner (something in
				// the input root blocks a parent directory).
				return cur
			}
			return sc.produced.clone()
		})
		f, err := judgeExecRun(sc, out, backend, baselineOK)
		if err != nil {
			rt.Fatalf("%v; fault=%+v; script=%+v", err, *fs, fscript)
		}
		flabels := []string{"backend_" + backend}
		reached := out.plan.hit != nil
		if !reached {
			// Positions can shift when storage calls of one phase run
			// concurrently (naive input fetching); nothing to judge beyond
			// the general oracles.
			flabels = append(flabels, "fault_not_reached")
		} else {
			flabels = append(flabels, "fault_"+sel.mode, "fault_at_"+out.plan.hit.Kind, "fault_in_"+out.plan.hit.Phase)
			if out.plan.hit.Kind != point.Kind {
				flabels = append(flabels, "fault_position_shifted")
			}
		}
		if f.code != codes.OK {
			flabels = append(flabels, "status_not_ok")
		}
		if out.produced != nil {
			flabels = append(flabels, "fault_with_command_run")
			ar := out.response.Result
			if n := len(ar.OutputFiles) + len(ar.OutputDirectories) + len(ar.OutputSymlinks); n > 0 {
				flabels = append(flabels, "outputs_listed_despite_fault")
			}
			if tol := out.plan.toleranceOf(out.produced); len(tol.optional) > 0 {
				flabels = append(flabels, "fault_excuses_an_entry")
			}
		}
		fscript.Outcome = fmt.Sprintf("%s %s", f.code, strings.TrimSpace(out.response.GetStatus().GetMessage()))
		rec.Case(fscript, reached && cfg.nontrivial(sc, base, out), flabels...)
	}
}

func countKind(trace []faultPoint, kind string) int {
	n := 0
	for _, p := range trace {
		if p.Kind == kind {
			n++
		}
	}
	return n
}

const c09ExecutorRule = "rapid: scenario = command (same grammar as C10 hierarchy_model, 1 in 4 escaping), input root, produced tree, exit code, stdout/stderr from {empty, one line, two lines} (disjoint pools), do_not_cache, backend in {in-memory fake x6, real virtual build directory x3, real naive build directory on disk x1}; the real LocalBuildExecutor.Execute runs it once fault-free over fakes (digest-verifying CAS, runner, build directory creator) while every fallible call is recorded, then once per selected position: every CAS Put and Get (the k-th call fails with a status drawn from 12 gRPC codes and stores nothing; every Put additionally once with the context cancelled at that call, after which the CAS refuses every call) and every Lstat/ReadDir/Readlink/Enter/UploadFile of the upload phase (fails with a drawn gRPC status or EIO/EACCES/ENOSPC/ELOOP), at most 48 positions per scenario (drawn subset beyond). Oracle per run: a reached failing call => response status non-OK (in-memory rig, fault-free run OK: the injected code); every output file digest, tree_digest, root_directory_digest with every Directory of the Tree, stdout_digest and stderr_digest mentioned in the ActionResult is in the CAS with bytes hashing to it; every declared output that exists is listed exactly as in C10 (kind, exec bit, target, bytes, well-formed Tree == model subtree) except the one entry whose upload the fault hit (the file being uploaded; the output directory whose Tree/Directory message was refused; the entry whose Lstat/ReadDir/Readlink/Enter failed) -- after a cancellation anything may be missing but nothing wrong may be listed; stdout/stderr digest set iff the stream is non-empty and not swapped; the input root is unchanged by the upload; plus the build directory lifecycle oracles of C12 executor_lifecycle. NON-TRIVIAL: the fault was reached in the upload phase, the command had run and produced >= 2 blobs to store (fault-free run made >= 2 Put calls); distinct by (scenario, fault) hash"

func TestC09ExecutorUploadFaults(t *testing.T) {
	rec := simkit.NewRecorder(t, "C09", "executor_upload_faults", c09ExecutorRule)
	var base string
	scratch := func() string {
		if base == "" {
			base = scratchBase(t)
		}
		return base
	}
	cfg := &faultTestConfig{
		backends: []string{"mem", "mem", "mem", "mem", "mem", "mem", "virtual", "virtual", "virtual", "naive"},
		selectFaults: func(rt *rapid.T, trace []faultPoint) []faultSelection {
			var cands []int
			for i, p := range trace {
				switch {
				case p.Kind == "cas.Put" || p.Kind == "cas.Get":
					cands = append(cands, i)
				case p.Phase == "upload" && (p.Kind == "dir.Lstat" || p.Kind == "dir.ReadDir" || p.Kind == "dir.Readlink" || p.Kind == "dir.Enter" || p.Kind == "dir.UploadFile"):
					cands = append(cands, i)
				}
			}
			var out []faultSelection
			for _, i := range pickAtMost(rt, "fault_positions", cands, 48) {
				out = append(out, faultSelection{i, "error"})
				if trace[i].Kind == "cas.Put" {
					out = append(out, faultSelection{i, "cancel"})
				}
			}
			return out
		},
		nontrivial: func(sc *execScenario, base, out *execOutcome) bool {
			return out.plan.hit.Phase == "upload" && out.produced != nil && countKind(base.plan.trace, "cas.Put") >= 2
		},
	}
	rapid.Check(t, func(rt *rapid.T) { runExecutorFaultCase(rt, t, rec, cfg, scratch) })
}

const c12ExecutorRule = "rapid: scenarios as C09 executor_upload_faults (including escaping working directories / output paths), backend in {in-memory fake x3, real virtual build directory x1}; the BuildDirectory returned by the fake BuildDirectoryCreator and every handle entered from it are wrapped (call sequence numbers, Close counts). After the fault-free run, one run per fault: every fallible call before the runner returns (GetBuildDirectory, Mkdir of root / output parents / tmp / server_logs, EnterBuildDirectory, MergeDirectoryContents, fetching the command, Close of the handles used to create parents), the runner call, every Close, and up to 10 drawn calls of the upload phase (UploadFile, Lstat, ReadDir, Readlink, Enter, CAS Put) -- each once failing (drawn gRPC status / errno) and once with the outer context cancelled at that call (fake runner, CAS and creator refuse a done context like gRPC clients). Oracle per run: GetBuildDirectory is called exactly once, with nil iff do_not_cache and otherwise the action's own digest; if it returned a directory, that handle is closed exactly once, no call is made on any handle after its Close, every entered handle is closed exactly once and before the build directory is closed; a failing Close of the build directory yields a non-OK response (its code when nothing else failed); any other reached failing call except Close of an entered handle yields a non-OK response; nothing but root, tmp, server_logs, stdout, stderr exists in the build directory (only root when the command was rejected); plus the result oracles of C09 executor_upload_faults. NON-TRIVIAL: the fault was reached and at least 3 directory handles had been opened in that run, or the fault hit GetBuildDirectory/Close of the build directory;  READINESS CHECKS (one case in five, labels readiness_check, readiness_fault_at_<call>): scenario = backend x what the fake runner answers (ready x2 / one of 12 gRPC codes x1); the real LocalBuildExecutor.CheckReadiness runs once fault-free, then once per recorded fallible call (today creator.Get, dir.Mkdir of check_readiness, runner.CheckReadiness, dir.Close of the build directory; any Enter/Close the code would add is recorded by the same wrapper) x {the call fails with a drawn gRPC status / errno, the context is cancelled at the call}. Oracle per run: GetBuildDirectory called exactly once with a nil digest; a handed-out build directory is closed exactly once, after every other handle, nothing used after its Close, every entered handle closed exactly once; the runner is asked at most once (exactly once when nothing failed), for path check_readiness, while that directory exists in a build directory that is still open; a reached failing GetBuildDirectory / Mkdir / runner call makes CheckReadiness return an error with the injected code, a call refused because of the cancellation makes it return an error, a runner that is not ready makes it return the runner's code, otherwise nil (the result of the deferred Close is dropped by the code: nothing required); nothing but check_readiness exists in the build directory afterwards. NON-TRIVIAL (readiness): the fault was reached; distinct by (scenario, fault) hash"

func TestC12ExecutorBuildDirectoryLifecycle(t *testing.T) {
	rec := simkit.NewRecorder(t, "C12", "executor_lifecycle", c12ExecutorRule)
	cfg := &faultTestConfig{
		backends: []string{"mem", "mem", "mem", "virtual"},
		selectFaults: func(rt *rapid.T, trace []faultPoint) []faultSelection {
			var always, sampled []int
			for i, p := range trace {
				if p.Phase == "setup" || p.Kind == "dir.Close" || p.Kind == "runner.Run" || p.Kind == "creator.Get" {
					always = append(always, i)
				} else {
					sampled = append(sampled, i)
				}
			}
			idx := append(pickAtMost(rt, "setup_positions", always, 40), pickAtMost(rt, "upload_positions", sampled, 10)...)
			sort.Ints(idx)
			var out []faultSelection
			for _, i := range idx {
				out = append(out, faultSelection{i, "error"}, faultSelection{i, "cancel"})
			}
			return out
		},
		nontrivial: func(sc *execScenario, base, out *execOutcome) bool {
			h := out.plan.hit
			return len(out.tracker.handles) >= 3 || h.Kind == "creator.Get" || (h.Kind == "dir.Close" && h.Path == "")
		},
	}
	rapid.Check(t, func(rt *rapid.T) {
		// One case in five drives CheckReadiness() instead of Execute().
		if rapid.IntRange(0, 4).Draw(rt, "readiness_check") == 0 {
			runReadinessFaultCase(rt, rec, cfg.backends)
			return
		}
		runExecutorFaultCase(rt, t, rec, cfg, func() string { return "" })
	})
}

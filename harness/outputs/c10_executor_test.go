package outputs

import (
	"context"
	"fmt"
	"os"
	"path/filepath"
	"sort"
	"strings"
	"testing"
	"time"

	remoteexecution "github.com/bazelbuild/remote-apis/build/bazel/remote/execution/v2"
	"github.com/buildbarn/bb-remote-execution/pkg/builder"
	"github.com/buildbarn/bb-remote-execution/pkg/filesystem/pool"
	"github.com/buildbarn/bb-remote-execution/pkg/filesystem/virtual"
	"github.com/buildbarn/bb-remote-execution/pkg/proto/remoteworker"
	runner_pb "github.com/buildbarn/bb-remote-execution/pkg/proto/runner"
	"github.com/buildbarn/bb-storage/pkg/clock"
	"github.com/buildbarn/bb-storage/pkg/digest"
	"github.com/buildbarn/bb-storage/pkg/filesystem/path"
	"google.golang.org/grpc"
	"google.golang.org/grpc/codes"
	"google.golang.org/grpc/status"
	"google.golang.org/protobuf/types/known/durationpb"
	"google.golang.org/protobuf/types/known/emptypb"
	"pgregory.net/rapid"

	"verif/harness/internal/simkit"
)

// ---------------------------------------------------------------------
// Fakes around LocalBuildExecutor.

// fakeClock never fires: execution time-outs are C11's business.
type fakeClock struct{}

type stubTimer struct{}

func (stubTimer) Stop() bool { return true }

type stubTicker struct{}

func (stubTicker) Stop() {}

func (fakeClock) Now() time.Time { return time.Unix(1700000000, 0) }
func (fakeClock) NewContextWithTimeout(parent context.Context, timeout time.Duration) (context.Context, context.CancelFunc) {
	return context.WithCancel(parent)
}
func (fakeClock) NewTimer(d time.Duration) (clock.Timer, <-chan time.Time) {
	return stubTimer{}, make(chan time.Time)
}
func (fakeClock) NewTicker(d time.Duration) (clock.Ticker, <-chan time.Time) {
	return stubTicker{}, make(chan time.Time)
}

type fakeRunner struct {
	calls int
	onRun func(req *runner_pb.RunRequest) (*runner_pb.RunResponse, error)
}

func (r *fakeRunner) CheckReadiness(ctx context.Context, in *runner_pb.CheckReadinessRequest, opts ...grpc.CallOption) (*emptypb.Empty, error) {
	return &emptypb.Empty{}, nil
}

func (r *fakeRunner) Run(ctx context.Context, in *runner_pb.RunRequest, opts ...grpc.CallOption) (*runner_pb.RunResponse, error) {
	r.calls++
	return r.onRun(in)
}

type fakeCreator struct {
	calls int
	get   func() (builder.BuildDirectory, error)
}

func (c *fakeCreator) GetBuildDirectory(ctx context.Context, actionDigestIfNotRunInParallel *digest.Digest) (builder.BuildDirectory, *path.Trace, error) {
	c.calls++
	d, err := c.get()
	return d, nil, err
}

// execRig is one way of giving LocalBuildExecutor a build directory.
type execRig interface {
	buildDirectory() (builder.BuildDirectory, error)
	// inputRoot returns the current contents of <build directory>/root as
	// a model tree (nil if it does not exist).
	inputRoot() (*node, error)
	// runAction makes <build directory>/root hold exactly want and
	// creates stdout/stderr like a runner does.
	runAction(want *node, stdout, stderr string) error
	buildDirectoryEntries() ([]string, error)
	// filePool is what Execute hands to InstallHooks.
	filePool() pool.FilePool
	// ioError makes the build directory report a fatal I/O error through
	// the error logger it got with InstallHooks, the way a failing file
	// pool or a lazily loaded input that is missing does while the
	// command runs. False if this kind of build directory has no hooks.
	ioError() bool
	close()
}

type memRig struct {
	fs *fakeFS
	bd *node
}

func (m *memRig) buildDirectory() (builder.BuildDirectory, error) { return m.fs.open(m.bd, nil), nil }
func (m *memRig) inputRoot() (*node, error) {
	r := m.bd.children["root"]
	if r == nil {
		return nil, nil
	}
	return r.clone(), nil
}
func (m *memRig) runAction(want *node, stdout, stderr string) error {
	m.bd.children["root"].children = want.clone().children
	m.bd.children["stdout"] = &node{kind: kFile, data: stdout}
	m.bd.children["stderr"] = &node{kind: kFile, data: stderr}
	return nil
}
func (m *memRig) buildDirectoryEntries() ([]string, error) { return m.bd.sortedNames(), nil }
func (m *memRig) close()                                   {}
func (m *memRig) filePool() pool.FilePool                  { return memPool{} }
func (m *memRig) ioError() bool {
	if m.fs.errorLogger == nil {
		return false
	}
	m.fs.errorLogger.Log(status.Error(codes.Internal, "simulated disk failure below the build directory"))
	return true
}

type naiveRig struct {
	cas  *fakeCAS
	path string
	rw   *rewriter
}

func (n *naiveRig) buildDirectory() (builder.BuildDirectory, error) {
	return newNaiveDirectory(n.path, n.cas, n.rw)
}
func (n *naiveRig) inputRoot() (*node, error) {
	p := filepath.Join(n.path, "root")
	if _, err := os.Lstat(p); err != nil {
		return nil, nil
	}
	return readTree(p)
}
func (n *naiveRig) runAction(want *node, stdout, stderr string) error {
	n.rw.set("root/", volatilePaths(want))
	if err := rematerialise(filepath.Join(n.path, "root"), want); err != nil {
		return err
	}
	if err := os.WriteFile(filepath.Join(n.path, "stdout"), []byte(stdout), 0o644); err != nil {
		return err
	}
	return os.WriteFile(filepath.Join(n.path, "stderr"), []byte(stderr), 0o644)
}
func (n *naiveRig) buildDirectoryEntries() ([]string, error) {
	es, err := os.ReadDir(n.path)
	if err != nil {
		return nil, err
	}
	var out []string
	for _, e := range es {
		out = append(out, e.Name())
	}
	sort.Strings(out)
	return out, nil
}
func (n *naiveRig) close() { os.RemoveAll(n.path) }

// outsideEntries lists what exists next to the build directory: every
// case removes its own directory, so anything else was put there by the
// code under test.
func (n *naiveRig) outsideEntries() ([]string, error) {
	es, err := os.ReadDir(filepath.Dir(n.path))
	if err != nil {
		return nil, err
	}
	var out []string
	for _, e := range es {
		if e.Name() != filepath.Base(n.path) {
			out = append(out, e.Name())
		}
	}
	sort.Strings(out)
	return out, nil
}
func (n *naiveRig) filePool() pool.FilePool { return memPool{} }
func (n *naiveRig) ioError() bool           { return false } // the naive build directory ignores the hooks

// storeTree uploads n as REv2 Directory messages (special files cannot
// be part of an input root and are dropped by the caller beforehand).
func storeTree(c *fakeCAS, n *node) *remoteexecution.Digest {
	var d remoteexecution.Directory
	for _, name := range n.sortedNames() {
		ch := n.children[name]
		switch ch.kind {
		case kFile:
			data := []byte(ch.data)
			h := sha256Hex(data)
			c.blobs[casKey(h, int64(len(data)))] = data
			d.Files = append(d.Files, &remoteexecution.FileNode{Name: name, Digest: &remoteexecution.Digest{Hash: h, SizeBytes: int64(len(data))}, IsExecutable: ch.exec})
		case kSymlink:
			d.Symlinks = append(d.Symlinks, &remoteexecution.SymlinkNode{Name: name, Target: ch.target})
		case kDir:
			d.Directories = append(d.Directories, &remoteexecution.DirectoryNode{Name: name, Digest: storeTree(c, ch)})
		}
	}
	return c.putProto(&d)
}

func dropSpecials(n *node) {
	for name, c := range n.children {
		if c.kind == kSpecial {
			delete(n.children, name)
		} else if c.kind == kDir {
			dropSpecials(c)
		}
	}
}

const executorRule = "rapid: same command and tree generators as hierarchy_model, driven through the real LocalBuildExecutor.Execute with hand-written fakes (build directory creator, runner, clock, CAS holding Action/Command/input root); the fake runner inspects the input root at the moment it is invoked and then performs the drawn action; in 1 case in 5 it then makes the build directory report a fatal I/O error through the logger installed with InstallHooks (mem: direct; virtual: a failing file-pool write) and either returns normally or as killed; the fake CAS refuses Put/Get on a context that is done; on the naive rig 1 non-empty file in 6 is rewritten in place between the digest pass and the upload pass. Oracle: escaping working directory or output path => response status INVALID_ARGUMENT, runner never invoked, input root holds exactly the declared input contents, no outputs reported; otherwise when the runner is invoked every dirname chain exists and nothing else was added to the input root, and the response's ActionResult equals the model (same comparison as hierarchy_model) -- also after an I/O error during the run: outputs that exist are still uploaded and listed; stdout and stderr are drawn independently from {empty, one line, two lines} (disjoint pools): stdout_digest / stderr_digest is set iff that stream is non-empty and names a CAS blob holding exactly that stream's bytes; after Execute the build directory holds nothing but root, tmp, server_logs, stdout, stderr (only root for a rejected command) and, on the real file system, nothing was created next to it. NON-TRIVIAL: rejected-with-inputs-present, or accepted with a '.', '..' or alias path AND (>= 2 parent directories created before the run OR an output directory with a repeated identical subdirectory); distinct by script hash"

func TestC10LocalBuildExecutor(t *testing.T) {
	rec := simkit.NewRecorder(t, "C10", "local_build_executor", executorRule)
	rapid.Check(t, func(rt *rapid.T) {
		runExecutorCase(rt, rec, "mem", func(c *fakeCAS) (execRig, error) {
			return &memRig{fs: &fakeFS{cas: c}, bd: newDir()}, nil
		})
	})
}

func TestC10LocalBuildExecutorNaive(t *testing.T) {
	base := scratchBase(t)
	rec := simkit.NewRecorder(t, "C10", "local_build_executor_naive", "as local_build_executor, but the build directory is the real builder.NewNaiveBuildDirectory over a bb-storage local directory on a real file system (files, chmod, symlinks, mkfifo made and read back with package os); covers naive_build_directory.go UploadFile/MergeDirectoryContents. "+executorRule)
	rapid.Check(t, func(rt *rapid.T) {
		runExecutorCase(rt, rec, "naive", func(c *fakeCAS) (execRig, error) {
			p, err := newScratchDir(base)
			if err != nil {
				return nil, err
			}
			return &naiveRig{cas: c, path: p, rw: &rewriter{}}, nil
		})
	})
}

type virtualRig struct {
	w    *virtualWorld
	pool *faultyPool
}

func (v *virtualRig) buildDirectory() (builder.BuildDirectory, error) { return v.w.bd, nil }
func (v *virtualRig) rootDirectory() (virtual.PrepopulatedDirectory, error) {
	child, err := v.w.top.LookupChild(vcomp("root"))
	if err != nil {
		return nil, nil
	}
	d, _ := child.GetPair()
	if d == nil {
		return nil, fmt.Errorf("root is not a directory")
	}
	return d, nil
}
func (v *virtualRig) inputRoot() (*node, error) {
	d, err := v.rootDirectory()
	if err != nil || d == nil {
		return nil, err
	}
	return readTreeVirtual(d)
}
func (v *virtualRig) runAction(want *node, stdout, stderr string) error {
	d, err := v.rootDirectory()
	if err != nil || d == nil {
		return fmt.Errorf("no input root: %v", err)
	}
	if err := rematerialiseVirtual(d, want); err != nil {
		return err
	}
	logs := newDir()
	logs.children["stdout"] = &node{kind: kFile, data: stdout}
	logs.children["stderr"] = &node{kind: kFile, data: stderr}
	return materialiseVirtual(v.w.top, logs)
}
func (v *virtualRig) buildDirectoryEntries() ([]string, error) {
	dirs, leaves, err := v.w.top.LookupAllChildren()
	if err != nil {
		return nil, err
	}
	var out []string
	for _, e := range dirs {
		out = append(out, e.Name.String())
	}
	for _, e := range leaves {
		out = append(out, e.Name.String())
	}
	sort.Strings(out)
	return out, nil
}
func (v *virtualRig) close()                  {}
func (v *virtualRig) filePool() pool.FilePool { return v.pool }

// ioError: the file pool behind the build directory fails a write, which
// the pool-backed file reports through the installed error logger.
func (v *virtualRig) ioError() bool {
	v.pool.failWrites = true
	defer func() { v.pool.failWrites = false }()
	var out virtual.Attributes
	share := virtual.ShareMaskRead | virtual.ShareMaskWrite
	leaf, _, _, s := v.w.top.VirtualOpenChild(vctx, vcomp("io_error_probe"), share, (&virtual.Attributes{}).SetPermissions(virtual.PermissionsRead|virtual.PermissionsWrite), nil, 0, &out)
	if s != virtual.StatusOK {
		return false
	}
	_, s = leaf.VirtualWrite(vctx, []byte("x"), 0)
	leaf.VirtualClose(share)
	return s == virtual.StatusErrIO
}

func TestC10LocalBuildExecutorVirtual(t *testing.T) {
	rec := simkit.NewRecorder(t, "C10", "local_build_executor_virtual", "as local_build_executor, but the build directory is the real builder.NewVirtualBuildDirectory over virtual.NewInMemoryPrepopulatedDirectory (CAS-backed lazily loaded input root, pool-backed output files); the fake runner reads and writes it through the Virtual* calls of a FUSE/NFS front end; covers virtual_build_directory.go Lstat/Readlink/UploadFile/Mkdir/MergeDirectoryContents. "+executorRule)
	rapid.Check(t, func(rt *rapid.T) {
		runExecutorCase(rt, rec, "virtual", func(c *fakeCAS) (execRig, error) {
			return &virtualRig{w: newVirtualWorld(c), pool: &faultyPool{}}, nil
		})
	})
}

// checkSurroundings lists the build directory (and, on a real file system,
// its siblings) after Execute: only what Execute and the runner are
// documented to create there may exist.
func checkSurroundings(rig execRig, rejected, ran bool) error {
	entries, err := rig.buildDirectoryEntries()
	if err != nil {
		return fmt.Errorf("VERIF-INCONCLUSIVE harness: cannot list the build directory: %v", err)
	}
	if err := checkBuildDirectoryEntries(entries, rejected, ran); err != nil {
		return err
	}
	if ol, ok := rig.(outsideLister); ok {
		outside, err := ol.outsideEntries()
		if err != nil {
			return fmt.Errorf("VERIF-INCONCLUSIVE harness: cannot list the surroundings of the build directory: %v", err)
		}
		if len(outside) > 0 {
			return fmt.Errorf("entries %v were created next to the build directory", outside)
		}
	}
	return nil
}

func runExecutorCase(rt *rapid.T, rec *simkit.Recorder, backend string, newRig func(*fakeCAS) (execRig, error)) {
	ci := drawCommand(rt)
	rc := refCommandOf(ci.workdir, ci.paths)
	sc := ci.script()
	sc.Backend = "executor/" + backend
	facts := factsOf(&ci, &rc)
	labels := facts.labels()

	cas := newFakeCAS()
	// When the command is invalid rc.locs is incomplete; the input root is
	// then drawn around whatever did resolve.
	initial := drawInputRoot(rt, &rc)
	dropSpecials(initial)
	sc.Initial = initial.render()
	exitCode := rapid.SampledFrom([]int{0, 0, 0, 1, 137, 255, 256, 512, 0x7fffff00, -1}).Draw(rt, "exit_code")
	// Both streams from {empty, one line, two lines}; the pools are disjoint
	// so that swapped digests cannot go unnoticed.
	stdout := rapid.SampledFrom(stdoutPool).Draw(rt, "stdout")
	stderr := rapid.SampledFrom(stderrPool).Draw(rt, "stderr")
	sc.Stdout, sc.Stderr = stdout, stderr
	// An I/O error reported by the build directory while the command runs,
	// after it produced its outputs; the runner is then killed (returns an
	// error) or happens to finish first.
	wantIOError := rapid.IntRange(0, 4).Draw(rt, "io_error_during_run") == 0
	runnerKilled := rapid.Bool().Draw(rt, "runner_killed_by_io_error")

	commandDigest := cas.putProto(ci.command())
	action := &remoteexecution.Action{
		CommandDigest:   commandDigest,
		InputRootDigest: storeTree(cas, initial),
		Timeout:         durationpb.New(time.Hour),
		DoNotCache:      rapid.Bool().Draw(rt, "do_not_cache"),
	}
	actionDigest := cas.putProto(action)

	rig, err := newRig(cas)
	if err != nil {
		rt.Fatalf("VERIF-INCONCLUSIVE harness: %v", err)
	}
	defer rig.close()

	var atRun *node // input root when the runner was invoked
	var produced *node
	var clobbered, rewritten, ioErrorReported, runnerFailed bool
	var runFailure string
	runner := &fakeRunner{}
	runner.onRun = func(req *runner_pb.RunRequest) (*runner_pb.RunResponse, error) {
		cur, err := rig.inputRoot()
		if err != nil || cur == nil {
			runFailure = fmt.Sprintf("runner invoked but the input root cannot be read: %v", err)
			return nil, fmt.Errorf("harness failure")
		}
		atRun = cur.clone()
		if req.InputRootDirectory != "root" {
			runFailure = fmt.Sprintf("runner told that the input root is %q, the executor created \"root\"", req.InputRootDirectory)
		}
		produced = cur
		if rc.valid {
			clobbered = drawAction(rt, produced, &rc)
			if backend == "naive" {
				rewritten = drawVolatile(rt, produced) > 0
			}
		}
		if err := rig.runAction(produced, stdout, stderr); err != nil {
			runFailure = fmt.Sprintf("VERIF-INCONCLUSIVE harness: cannot perform the action: %v", err)
			return nil, fmt.Errorf("harness failure")
		}
		if wantIOError && rig.ioError() {
			ioErrorReported = true
			if runnerKilled {
				runnerFailed = true
				return nil, status.Error(codes.Canceled, "context canceled")
			}
		}
		return &runner_pb.RunResponse{ExitCode: int64(exitCode)}, nil
	}
	creator := &fakeCreator{get: rig.buildDirectory}
	executor := builder.NewLocalBuildExecutor(cas, creator, runner, fakeClock{}, time.Minute, nil, 1<<20, map[string]string{"PATH": "/bin"}, ci.force)
	updates := make(chan *remoteworker.CurrentState_Executing, 16)
	response := executor.Execute(context.Background(), rig.filePool(), nil, digestFunction, &remoteworker.DesiredState_Executing{
		ActionDigest: actionDigest,
		Action:       action,
	}, updates)

	if produced != nil {
		sc.Produced = produced.render()
	}
	sc.IOError = ioErrorReported
	if runFailure != "" {
		rt.Fatalf("%s; script=%+v", runFailure, sc)
	}
	if response == nil || response.Result == nil {
		rt.Fatalf("Execute returned no result; script=%+v", sc)
	}
	code := codes.Code(response.GetStatus().GetCode())
	ar := response.Result

	if !rc.valid {
		// Rejected instead of being touched.
		sc.Outcome = "rejected"
		if code != codes.InvalidArgument {
			rt.Fatalf("escaping command: response status is %s (%q), want INVALID_ARGUMENT; script=%+v", code, response.GetStatus().GetMessage(), sc)
		}
		if runner.calls != 0 {
			rt.Fatalf("escaping command: the runner was invoked %d times; script=%+v", runner.calls, sc)
		}
		if n := len(ar.OutputFiles) + len(ar.OutputDirectories) + len(ar.OutputSymlinks); n != 0 {
			rt.Fatalf("escaping command: %d outputs reported; script=%+v", n, sc)
		}
		cur, err := rig.inputRoot()
		if err != nil {
			rt.Fatalf("VERIF-INCONCLUSIVE harness: %v; script=%+v", err, sc)
		}
		if cur != nil && !equalTrees(cur, initial) {
			rt.Fatalf("escaping command: the input root was touched: now %v; script=%+v", cur.render(), sc)
		}
		if err := checkSurroundings(rig, true, false); err != nil {
			rt.Fatalf("escaping command: %v; script=%+v", err, sc)
		}
		if rc.workdirOK {
			labels = append(labels, "rejected_output_path")
		} else {
			labels = append(labels, "rejected_working_directory")
		}
		if len(initial.children) > 0 {
			labels = append(labels, "rejected_with_inputs_present")
		}
		rec.Case(sc, len(initial.children) > 0, labels...)
		return
	}
	labels = append(labels, "accepted")

	// Which parents are missing in the declared input root, and is
	// something in the way?
	chains := parentChains(rc.locs)
	var keys, wantAdded []string
	conflict := false
	for k := range chains {
		keys = append(keys, k)
	}
	sort.Strings(keys)
	for _, k := range keys {
		switch n := initial.walk(chains[k]); {
		case n == nil:
			wantAdded = append(wantAdded, k+":dir")
		case n.kind != kDir:
			conflict = true
		}
	}
	sort.Strings(wantAdded)
	if runner.calls > 1 {
		rt.Fatalf("the runner was invoked %d times; script=%+v", runner.calls, sc)
	}
	if runner.calls == 0 {
		if !conflict {
			rt.Fatalf("valid command, nothing in the way, but the runner was never invoked: status %s %q; script=%+v", code, response.GetStatus().GetMessage(), sc)
		}
		if code == codes.OK {
			rt.Fatalf("the runner was never invoked but the response is OK; script=%+v", sc)
		}
		if err := checkSurroundings(rig, false, false); err != nil {
			rt.Fatalf("%v; script=%+v", err, sc)
		}
		labels = append(labels, "input_root_blocks_parent_directory", "not_run")
		sc.Outcome = "not run: " + response.GetStatus().GetMessage()
		rec.Case(sc, false, labels...)
		return
	}

	// Parent directories existed when the command started, and nothing
	// else was added to or changed in the input root before that.
	added, derr := diffTrees(initial, atRun)
	if derr != nil {
		rt.Fatalf("before the command ran, an input %v; script=%+v", derr, sc)
	}
	for _, a := range added {
		p := strings.TrimSuffix(a, ":dir")
		if _, ok := chains[p]; !ok || p == a {
			rt.Fatalf("before the command ran, %s was created in the input root, which is not a parent directory of a declared output; script=%+v", a, sc)
		}
	}
	if conflict {
		labels = append(labels, "input_root_blocks_parent_directory")
	} else {
		if strings.Join(added, "|") != strings.Join(wantAdded, "|") {
			rt.Fatalf("when the command started the executor had created %v, model says exactly %v; script=%+v", added, wantAdded, sc)
		}
		for _, k := range keys {
			if n := atRun.walk(chains[k]); n == nil || n.kind != kDir {
				rt.Fatalf("parent directory %q of a declared output did not exist when the command started; script=%+v", k, sc)
			}
		}
	}
	if len(added) > 0 {
		labels = append(labels, "parent_directories_created")
	}

	// Outputs.
	sc.Produced = produced.render()
	final, err := rig.inputRoot()
	if err != nil {
		rt.Fatalf("VERIF-INCONCLUSIVE harness: cannot read the input root after Execute: %v; script=%+v", err, sc)
	}
	if final == nil {
		rt.Fatalf("the input root no longer exists after Execute; script=%+v", sc)
	}
	if !equalTrees(final, produced) {
		rt.Fatalf("uploading outputs modified the input root: now %v; script=%+v", final.render(), sc)
	}
	uf, errAllowed := describeOutputs(&ci, &rc, produced)
	if ioErrorReported {
		// The response carries the I/O error; the outputs that exist must
		// still be uploaded and listed (the upload phase deliberately does
		// not run on the context that the I/O error cancels).
		errAllowed = true
		if code == codes.OK {
			rt.Fatalf("the build directory reported an I/O error while the command ran, but the response status is OK; script=%+v", sc)
		}
	}
	if code != codes.OK && !errAllowed {
		rt.Fatalf("response status %s %q although every declared output is a file, directory, symlink or absent; script=%+v", code, response.GetStatus().GetMessage(), sc)
	}
	if len(cas.corrupt) > 0 {
		rt.Fatalf("blobs were stored under digests that do not match their contents: %v; script=%+v", cas.corrupt, sc)
	}
	if !runnerFailed && int(ar.ExitCode) != exitCode {
		rt.Fatalf("exit code %d reported, runner returned %d; script=%+v", ar.ExitCode, exitCode, sc)
	}
	requireRDD := ci.format == remoteexecution.Command_DIRECTORY_ONLY || ci.format == remoteexecution.Command_TREE_AND_DIRECTORY
	if err := checkActionResult(cas, ar, produced, ci.paths, rc.locs, requireRDD, nil); err != nil {
		rt.Fatalf("%v; script=%+v", err, sc)
	}
	if stdout != "" {
		if err := checkFileDigest(cas, ar.StdoutDigest, stdout); err != nil {
			rt.Fatalf("stdout: %v; script=%+v", err, sc)
		}
	}
	// Digest set iff the stream is not empty, describing that stream's bytes.
	if err := checkStream(cas, "stdout", ar.StdoutDigest, ar.StdoutRaw, stdout, false); err != nil {
		rt.Fatalf("%v; script=%+v", err, sc)
	}
	if err := checkStream(cas, "stderr", ar.StderrDigest, ar.StderrRaw, stderr, false); err != nil {
		rt.Fatalf("%v; script=%+v", err, sc)
	}
	// Nothing but the documented entries in (and around) the build directory.
	if err := checkSurroundings(rig, false, true); err != nil {
		rt.Fatalf("%v; script=%+v", err, sc)
	}
	if stdout != "" {
		labels = append(labels, "stdout_nonempty")
	}
	if stderr != "" {
		labels = append(labels, "stderr_nonempty")
	}
	if stdout != "" && stderr != "" {
		labels = append(labels, "stdout_and_stderr_nonempty")
	}
	labels = append(labels, uf.labels()...)
	if clobbered {
		labels = append(labels, "parent_clobbered_by_action")
	}
	if exitCode != 0 {
		labels = append(labels, "nonzero_exit_code")
	}
	if ioErrorReported {
		labels = append(labels, "io_error_reported_during_run")
		if uf.outFiles+uf.outDirs > 0 {
			labels = append(labels, "io_error_with_outputs_to_upload")
		}
	}
	if runnerFailed {
		labels = append(labels, "runner_killed_by_io_error")
	}
	if rewritten {
		labels = append(labels, "file_rewritten_during_upload")
	}

	sc.Outcome = "accepted"
	nontrivial := (facts.dot || facts.dotdot || facts.alias) && (len(added) >= 2 || uf.repeated)
	rec.Case(sc, nontrivial, labels...)
}

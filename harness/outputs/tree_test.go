// Package outputs decides C10: "Worker: reported outputs are exactly what
// the action produced" for builder.OutputHierarchy (and, in the thorough
// tier, the same through builder.LocalBuildExecutor and the naive build
// directory on a real file system).
//
// Everything in this file is the hand-written in-memory file tree that acts
// as ground truth, the fake builder.BuildDirectory that exposes it to the
// code under test, and the fake CAS.
package outputs

import (
	"context"
	"crypto/sha256"
	"encoding/hex"
	"fmt"
	"os"
	"sort"
	"strings"
	"syscall"

	remoteexecution "github.com/bazelbuild/remote-apis/build/bazel/remote/execution/v2"
	"github.com/buildbarn/bb-remote-execution/pkg/builder"
	"github.com/buildbarn/bb-remote-execution/pkg/filesystem/access"
	"github.com/buildbarn/bb-remote-execution/pkg/filesystem/pool"
	"github.com/buildbarn/bb-storage/pkg/blobstore/buffer"
	"github.com/buildbarn/bb-storage/pkg/blobstore/slicing"
	"github.com/buildbarn/bb-storage/pkg/digest"
	"github.com/buildbarn/bb-storage/pkg/filesystem"
	"github.com/buildbarn/bb-storage/pkg/filesystem/path"
	"github.com/buildbarn/bb-storage/pkg/util"
	"google.golang.org/grpc/codes"
	"google.golang.org/grpc/status"
	"google.golang.org/protobuf/proto"
)

// ---------------------------------------------------------------------
// Ground-truth tree.

type kind int

const (
	kFile kind = iota
	kDir
	kSymlink
	kSpecial // FIFO / socket / device: anything REv2 cannot describe
)

func (k kind) String() string {
	return [...]string{"file", "dir", "symlink", "special"}[k]
}

type node struct {
	kind     kind
	exec     bool
	data     string
	target   string
	children map[string]*node
	// volatile: something the action left behind rewrites the file in
	// place (same length, contents alt) while it is being uploaded.
	volatile bool
	alt      string
}

func newDir() *node { return &node{kind: kDir, children: map[string]*node{}} }

func (n *node) clone() *node {
	c := *n
	if n.children != nil {
		c.children = make(map[string]*node, len(n.children))
		for k, v := range n.children {
			c.children[k] = v.clone()
		}
	}
	return &c
}

func (n *node) sortedNames() []string {
	names := make([]string, 0, len(n.children))
	for k := range n.children {
		names = append(names, k)
	}
	sort.Strings(names)
	return names
}

// walk returns the node at loc without following symlinks; nil if any
// component is missing or an intermediate component is not a directory.
func (n *node) walk(loc []string) *node {
	cur := n
	for _, c := range loc {
		if cur == nil || cur.kind != kDir {
			return nil
		}
		cur = cur.children[c]
	}
	return cur
}

// put places child at loc with "mkdir -p" semantics: missing or
// non-directory intermediate components are replaced by directories.
func (n *node) put(loc []string, child *node) {
	cur := n
	for _, c := range loc[:len(loc)-1] {
		next := cur.children[c]
		if next == nil || next.kind != kDir {
			next = newDir()
			cur.children[c] = next
		}
		cur = next
	}
	cur.children[loc[len(loc)-1]] = child
}

func (n *node) remove(loc []string) {
	parent := n.walk(loc[:len(loc)-1])
	if parent != nil && parent.kind == kDir {
		delete(parent.children, loc[len(loc)-1])
	}
}

// render gives a compact, deterministic listing used in scripts.
func (n *node) render() []string {
	var out []string
	var rec func(prefix string, d *node)
	rec = func(prefix string, d *node) {
		for _, name := range d.sortedNames() {
			c := d.children[name]
			p := prefix + name
			switch c.kind {
			case kFile:
				x := ""
				if c.exec {
					x = "+x"
				}
				if c.volatile {
					x += " rewritten-during-upload"
				}
				out = append(out, fmt.Sprintf("%s F%s %q", p, x, c.data))
			case kSymlink:
				out = append(out, fmt.Sprintf("%s L %q", p, c.target))
			case kSpecial:
				out = append(out, p+" P")
			case kDir:
				out = append(out, p+"/")
				rec(p+"/", c)
			}
		}
	}
	rec("", n)
	return out
}

func equalTrees(a, b *node) bool {
	if a.kind != b.kind {
		return false
	}
	switch a.kind {
	case kFile:
		same := a.data == b.data || (a.volatile && a.alt == b.data) || (b.volatile && b.alt == a.data)
		return a.exec == b.exec && same
	case kSymlink:
		// Up to POSIX equivalence: the naive build directory creates input
		// symlinks through a path builder that drops "." and "" components.
		return canonicalTarget(a.target) == canonicalTarget(b.target)
	case kSpecial:
		return true
	}
	if len(a.children) != len(b.children) {
		return false
	}
	for k, v := range a.children {
		w, ok := b.children[k]
		if !ok || !equalTrees(v, w) {
			return false
		}
	}
	return true
}

// ---------------------------------------------------------------------
// Fake CAS: stores bytes by digest and verifies the digest on Put.

var digestFunction = digest.MustNewFunction("main", remoteexecution.DigestFunction_SHA256)

func sha256Hex(b []byte) string {
	h := sha256.Sum256(b)
	return hex.EncodeToString(h[:])
}

func casKey(hash string, size int64) string { return fmt.Sprintf("%s-%d", hash, size) }

type fakeCAS struct {
	blobs map[string][]byte
	puts  map[string]int
	// Put calls whose contents did not match the digest they were stored under.
	corrupt []string
	// Put calls refused because their context was already done.
	refused int
	// Per-call fault plan (nil: calls only fail on a done context).
	plan *faultPlan
}

func newFakeCAS() *fakeCAS {
	return &fakeCAS{blobs: map[string][]byte{}, puts: map[string]int{}}
}

func (c *fakeCAS) GetCapabilities(ctx context.Context, instanceName digest.InstanceName) (*remoteexecution.ServerCapabilities, error) {
	return &remoteexecution.ServerCapabilities{}, nil
}

func (c *fakeCAS) Get(ctx context.Context, d digest.Digest) buffer.Buffer {
	if err := ctx.Err(); err != nil {
		return buffer.NewBufferFromError(status.FromContextError(err).Err())
	}
	if err := c.plan.step("cas.Get", []string{casKey(d.GetHashString(), d.GetSizeBytes())}); err != nil {
		return buffer.NewBufferFromError(err)
	}
	if err := ctx.Err(); err != nil {
		// Cancelled by the plan at this very call.
		return buffer.NewBufferFromError(status.FromContextError(err).Err())
	}
	data, ok := c.blobs[casKey(d.GetHashString(), d.GetSizeBytes())]
	if !ok {
		return buffer.NewBufferFromError(status.Errorf(codes.NotFound, "blob %s not found", d))
	}
	return buffer.NewValidatedBufferFromByteSlice(data)
}

func (c *fakeCAS) GetFromComposite(ctx context.Context, parentDigest, childDigest digest.Digest, slicer slicing.BlobSlicer) buffer.Buffer {
	return buffer.NewBufferFromError(status.Error(codes.Unimplemented, "fake CAS: GetFromComposite"))
}

func (c *fakeCAS) Put(ctx context.Context, d digest.Digest, b buffer.Buffer) error {
	// Like a gRPC client: nothing is stored on a context that is done.
	if err := ctx.Err(); err != nil {
		b.Discard()
		c.refused++
		return status.FromContextError(err).Err()
	}
	if err := c.plan.step("cas.Put", []string{casKey(d.GetHashString(), d.GetSizeBytes())}); err != nil {
		// A failing call stores nothing.
		b.Discard()
		return err
	}
	if err := ctx.Err(); err != nil {
		// Cancelled by the plan at this very call.
		b.Discard()
		c.refused++
		return status.FromContextError(err).Err()
	}
	data, err := b.ToByteSlice(64 << 20)
	if err != nil {
		return err
	}
	key := casKey(d.GetHashString(), d.GetSizeBytes())
	if sha256Hex(data) != d.GetHashString() || int64(len(data)) != d.GetSizeBytes() {
		c.corrupt = append(c.corrupt, key)
		return status.Errorf(codes.InvalidArgument, "fake CAS: contents do not match digest %s", key)
	}
	c.blobs[key] = append([]byte(nil), data...)
	c.puts[key]++
	return nil
}

func (c *fakeCAS) FindMissing(ctx context.Context, digests digest.Set) (digest.Set, error) {
	b := digest.NewSetBuilder(0)
	for _, d := range digests.Items() {
		if _, ok := c.blobs[casKey(d.GetHashString(), d.GetSizeBytes())]; !ok {
			b.Add(d)
		}
	}
	return b.Build(), nil
}

func (c *fakeCAS) lookup(d *remoteexecution.Digest) ([]byte, bool) {
	if d == nil {
		return nil, false
	}
	data, ok := c.blobs[casKey(d.GetHash(), d.GetSizeBytes())]
	return data, ok
}

// putProto stores a message (used to seed commands / input roots).
func (c *fakeCAS) putProto(m proto.Message) *remoteexecution.Digest {
	data, err := proto.MarshalOptions{Deterministic: true}.Marshal(m)
	if err != nil {
		panic(err)
	}
	h := sha256Hex(data)
	c.blobs[casKey(h, int64(len(data)))] = data
	return &remoteexecution.Digest{Hash: h, SizeBytes: int64(len(data))}
}

// ---------------------------------------------------------------------
// Fake build directory over the ground-truth tree.

type fakeFS struct {
	cas *fakeCAS
	// Log of Mkdir calls that created a directory ("a/b").
	created []string
	// Number of handles handed out and closed.
	opened, closed int
	// Operations on a handle after Close (a harness-visible misuse).
	useAfterClose []string
	// Every path (joined) that was touched by a mutating call.
	mutations []string
	// The logger handed over with InstallHooks (fatal I/O errors).
	errorLogger util.ErrorLogger
}

type fakeDir struct {
	fs     *fakeFS
	n      *node
	path   []string
	closed bool
}

func (fs *fakeFS) open(n *node, p []string) *fakeDir {
	fs.opened++
	return &fakeDir{fs: fs, n: n, path: p}
}

var _ builder.BuildDirectory = (*fakeDir)(nil)

func (d *fakeDir) check(op string) {
	if d.closed {
		d.fs.useAfterClose = append(d.fs.useAfterClose, op+" "+strings.Join(d.path, "/"))
	}
}

func (d *fakeDir) childPath(name path.Component) []string {
	return append(append([]string(nil), d.path...), name.String())
}

func (d *fakeDir) Close() error {
	d.check("Close")
	d.closed = true
	d.fs.closed++
	return nil
}

func (d *fakeDir) enter(name path.Component) (*fakeDir, error) {
	d.check("Enter")
	c, ok := d.n.children[name.String()]
	if !ok {
		return nil, syscall.ENOENT
	}
	if c.kind != kDir {
		return nil, syscall.ENOTDIR
	}
	return d.fs.open(c, d.childPath(name)), nil
}

func (d *fakeDir) EnterParentPopulatableDirectory(name path.Component) (builder.ParentPopulatableDirectory, error) {
	c, err := d.enter(name)
	if err != nil {
		return nil, err
	}
	return c, nil
}

func (d *fakeDir) EnterUploadableDirectory(name path.Component) (builder.UploadableDirectory, error) {
	c, err := d.enter(name)
	if err != nil {
		return nil, err
	}
	return c, nil
}

func (d *fakeDir) EnterBuildDirectory(name path.Component) (builder.BuildDirectory, error) {
	c, err := d.enter(name)
	if err != nil {
		return nil, err
	}
	return c, nil
}

func (d *fakeDir) Mkdir(name path.Component, perm os.FileMode) error {
	d.check("Mkdir")
	if _, ok := d.n.children[name.String()]; ok {
		return syscall.EEXIST
	}
	d.n.children[name.String()] = newDir()
	p := strings.Join(d.childPath(name), "/")
	d.fs.created = append(d.fs.created, p)
	d.fs.mutations = append(d.fs.mutations, "mkdir "+p)
	return nil
}

func (d *fakeDir) Mknod(name path.Component, perm os.FileMode, deviceNumber filesystem.DeviceNumber) error {
	d.check("Mknod")
	if _, ok := d.n.children[name.String()]; ok {
		return syscall.EEXIST
	}
	d.n.children[name.String()] = &node{kind: kSpecial}
	d.fs.mutations = append(d.fs.mutations, "mknod "+strings.Join(d.childPath(name), "/"))
	return nil
}

func (d *fakeDir) Remove(name path.Component) error {
	d.check("Remove")
	c, ok := d.n.children[name.String()]
	if !ok {
		return syscall.ENOENT
	}
	if c.kind == kDir && len(c.children) > 0 {
		return syscall.ENOTEMPTY
	}
	delete(d.n.children, name.String())
	d.fs.mutations = append(d.fs.mutations, "remove "+strings.Join(d.childPath(name), "/"))
	return nil
}

func (d *fakeDir) RemoveAll(name path.Component) error {
	d.check("RemoveAll")
	delete(d.n.children, name.String())
	d.fs.mutations = append(d.fs.mutations, "removeall "+strings.Join(d.childPath(name), "/"))
	return nil
}

func (d *fakeDir) InstallHooks(filePool pool.FilePool, errorLogger util.ErrorLogger) {
	d.fs.errorLogger = errorLogger
}

// MergeDirectoryContents instantiates a Directory hierarchy stored in the
// fake CAS (only used by the LocalBuildExecutor rig).
func (d *fakeDir) MergeDirectoryContents(ctx context.Context, errorLogger util.ErrorLogger, dg digest.Digest, monitor access.UnreadDirectoryMonitor) error {
	d.check("MergeDirectoryContents")
	var merge func(n *node, dg *remoteexecution.Digest) error
	merge = func(n *node, dg *remoteexecution.Digest) error {
		data, ok := d.fs.cas.lookup(dg)
		if !ok {
			return status.Errorf(codes.NotFound, "input directory %s not found", dg.GetHash())
		}
		var dir remoteexecution.Directory
		if err := proto.Unmarshal(data, &dir); err != nil {
			return err
		}
		for _, f := range dir.Files {
			content, ok := d.fs.cas.lookup(f.Digest)
			if !ok {
				return status.Errorf(codes.NotFound, "input file %s not found", f.Name)
			}
			n.children[f.Name] = &node{kind: kFile, exec: f.IsExecutable, data: string(content)}
		}
		for _, s := range dir.Symlinks {
			n.children[s.Name] = &node{kind: kSymlink, target: s.Target}
		}
		for _, sub := range dir.Directories {
			c := newDir()
			n.children[sub.Name] = c
			if err := merge(c, sub.Digest); err != nil {
				return err
			}
		}
		return nil
	}
	return merge(d.n, dg.GetProto())
}

func fileTypeOf(n *node) filesystem.FileType {
	switch n.kind {
	case kFile:
		return filesystem.FileTypeRegularFile
	case kDir:
		return filesystem.FileTypeDirectory
	case kSymlink:
		return filesystem.FileTypeSymlink
	}
	return filesystem.FileTypeFIFO
}

func (d *fakeDir) Lstat(name path.Component) (filesystem.FileInfo, error) {
	d.check("Lstat")
	c, ok := d.n.children[name.String()]
	if !ok {
		return filesystem.FileInfo{}, syscall.ENOENT
	}
	return filesystem.NewFileInfo(name, fileTypeOf(c), c.kind == kFile && c.exec), nil
}

func (d *fakeDir) ReadDir() ([]filesystem.FileInfo, error) {
	d.check("ReadDir")
	var out []filesystem.FileInfo
	for _, name := range d.n.sortedNames() {
		c := d.n.children[name]
		out = append(out, filesystem.NewFileInfo(path.MustNewComponent(name), fileTypeOf(c), c.kind == kFile && c.exec))
	}
	return out, nil
}

func (d *fakeDir) Readlink(name path.Component) (path.Parser, error) {
	d.check("Readlink")
	c, ok := d.n.children[name.String()]
	if !ok {
		return nil, syscall.ENOENT
	}
	if c.kind != kSymlink {
		return nil, syscall.EINVAL
	}
	return path.UNIXFormat.NewParser(c.target), nil
}

func (d *fakeDir) UploadFile(ctx context.Context, name path.Component, df digest.Function, writableFileUploadDelay <-chan struct{}) (digest.Digest, error) {
	d.check("UploadFile")
	c, ok := d.n.children[name.String()]
	if !ok {
		return digest.BadDigest, syscall.ENOENT
	}
	if c.kind == kDir {
		return digest.BadDigest, syscall.EISDIR
	}
	if c.kind != kFile {
		return digest.BadDigest, syscall.EINVAL
	}
	g := df.NewGenerator(int64(len(c.data)))
	if _, err := g.Write([]byte(c.data)); err != nil {
		return digest.BadDigest, err
	}
	dg := g.Sum()
	if err := d.fs.cas.Put(ctx, dg, buffer.NewValidatedBufferFromByteSlice([]byte(c.data))); err != nil {
		return digest.BadDigest, err
	}
	return dg, nil
}

package outputs

import (
	"strings"

	"pgregory.net/rapid"
)

var (
	plainNames = []string{"a", "b", "c", "d"}
	oddNames   = []string{"...", "..a", ".x", "a b", "c:", `a\b`, "é", "-", "a.", "~"}
	dataPool   = []string{"", "x", "y", "hello", "hello\n", strings.Repeat("z", 300), "\x00\x01\xff"}
	targetPool = []string{"t", "../t", "a/b", "/abs/t", "x/", ".", "..", "a/../b", "/", "a//b", "./q", "a/./b", "/..", "a/.", "../../../up"}
)

func genName(rt *rapid.T, label string) string {
	if rapid.IntRange(0, 9).Draw(rt, label+"_odd") == 9 {
		return rapid.SampledFrom(oddNames).Draw(rt, label)
	}
	return rapid.SampledFrom(plainNames).Draw(rt, label)
}

// genPath draws a path from the grammar over {name, ".", "..", "", "/"}.
// startDepth is where the path starts relative to the input root; unless
// allowEscape is set the draw is steered (not guaranteed: the oracle is
// refResolve, not this steering) away from climbing above the root and
// from a leading slash.
func genPath(rt *rapid.T, label string, startDepth, maxTokens int, allowEscape bool) string {
	n := rapid.IntRange(1, maxTokens).Draw(rt, label+"_n")
	if rapid.IntRange(0, 11).Draw(rt, label+"_empty") == 0 {
		n = 0
	}
	depth := startDepth
	var toks []string
	for i := 0; i < n; i++ {
		switch r := rapid.IntRange(0, 13).Draw(rt, label+"_tok"); {
		case r <= 7:
			toks = append(toks, genName(rt, label+"_name"))
			depth++
		case r <= 9:
			toks = append(toks, ".")
		case r <= 12:
			if depth <= 0 && !allowEscape {
				toks = append(toks, genName(rt, label+"_name"))
				depth++
			} else {
				toks = append(toks, "..")
				depth--
			}
		default:
			if i == 0 && !allowEscape {
				toks = append(toks, ".") // a leading empty token would make the path absolute
			} else {
				toks = append(toks, "")
			}
		}
	}
	s := strings.Join(toks, "/")
	if allowEscape && rapid.IntRange(0, 5).Draw(rt, label+"_abs") == 0 {
		s = "/" + s
	}
	if s != "" && !strings.HasSuffix(s, "/") && rapid.IntRange(0, 6).Draw(rt, label+"_trail") == 0 {
		s += "/"
	}
	return s
}

// genAlias spells an existing (non-absolute) path differently or repeats it.
func genAlias(rt *rapid.T, p string, wloc []string) string {
	if strings.HasPrefix(p, "/") {
		return p
	}
	switch rapid.IntRange(0, 6).Draw(rt, "alias_kind") {
	case 0:
		return p
	case 1:
		return "./" + p
	case 2:
		if p == "" {
			return "."
		}
		return p + "/."
	case 3:
		return genName(rt, "alias_name") + "/../" + p
	case 4:
		if i := strings.Index(p, "/"); i >= 0 {
			return p[:i] + "/" + p[i:]
		}
		return ".//" + p
	case 5:
		if len(wloc) > 0 {
			return strings.Repeat("../", len(wloc)) + strings.Join(wloc, "/") + "/" + p
		}
		return "./././" + p
	default:
		if p == "" || strings.HasSuffix(p, "/") {
			return p
		}
		return p + "/"
	}
}

// genRootPath spells the input root as seen from depth d.
func genRootPath(rt *rapid.T, d int) string {
	if d == 0 {
		return rapid.SampledFrom([]string{".", "", "./", "a/..", "./.", "a/b/../.."}).Draw(rt, "rootpath")
	}
	s := strings.TrimSuffix(strings.Repeat("../", d), "/")
	return s + rapid.SampledFrom([]string{"", "/", "/."}).Draw(rt, "rootpath_suffix")
}

type subtreePool struct {
	dirs []*node
}

// genDir draws a directory. Subdirectories are frequently copies of
// directories drawn earlier in the same case, so that output directories
// contain repeated identical subdirectories (at equal and at different
// depths).
func genDir(rt *rapid.T, depth int, pool *subtreePool) *node {
	d := newDir()
	n := rapid.IntRange(0, 4).Draw(rt, "dir_entries")
	for i := 0; i < n; i++ {
		name := genName(rt, "entry_name")
		switch r := rapid.IntRange(0, 13).Draw(rt, "entry_kind"); {
		case r <= 3:
			d.children[name] = &node{kind: kFile, exec: rapid.Bool().Draw(rt, "exec"), data: rapid.SampledFrom(dataPool).Draw(rt, "data")}
		case r == 4:
			d.children[name] = &node{kind: kSymlink, target: rapid.SampledFrom(targetPool).Draw(rt, "target")}
		case r == 5:
			d.children[name] = &node{kind: kSpecial}
		case r <= 8 && depth < 3:
			c := genDir(rt, depth+1, pool)
			pool.dirs = append(pool.dirs, c)
			d.children[name] = c.clone()
			// Twins: the same subdirectory again as a sibling and/or one
			// level further down (a DAG once directories are deduplicated).
			switch rapid.IntRange(0, 5).Draw(rt, "twin") {
			case 0:
				d.children[genName(rt, "twin_name")] = c.clone()
			case 1:
				w := newDir()
				w.children[genName(rt, "twin_name")] = c.clone()
				d.children[genName(rt, "wrapper_name")] = w
			}
		default:
			if len(pool.dirs) > 0 {
				d.children[name] = rapid.SampledFrom(pool.dirs).Draw(rt, "reuse").clone()
			} else {
				d.children[name] = newDir()
			}
		}
	}
	return d
}

func genLeafOrDir(rt *rapid.T, pool *subtreePool) *node {
	switch r := rapid.IntRange(0, 19).Draw(rt, "out_kind"); {
	case r <= 4:
		return &node{kind: kFile, data: rapid.SampledFrom(dataPool).Draw(rt, "data")}
	case r <= 6:
		return &node{kind: kFile, exec: true, data: rapid.SampledFrom(dataPool).Draw(rt, "data")}
	case r <= 8:
		return &node{kind: kSymlink, target: rapid.SampledFrom(targetPool).Draw(rt, "target")}
	case r == 9:
		return &node{kind: kSpecial}
	default:
		return genDir(rt, 0, pool)
	}
}

func height(n *node) int {
	h := 0
	for _, c := range n.children {
		if c.kind == kDir {
			if x := 1 + height(c); x > h {
				h = x
			}
		}
	}
	return h
}

// drawVolatile marks some non-empty regular files as rewritten in place
// (same length, every byte changed) while they are being uploaded.
func drawVolatile(rt *rapid.T, n *node) int {
	marked := 0
	for _, name := range n.sortedNames() {
		c := n.children[name]
		switch {
		case c.kind == kDir:
			marked += drawVolatile(rt, c)
		case c.kind == kFile && len(c.data) > 0:
			if rapid.IntRange(0, 5).Draw(rt, "rewritten_during_upload") == 0 {
				b := []byte(c.data)
				for i := range b {
					b[i] ^= 0x55
				}
				c.volatile, c.alt = true, string(b)
				marked++
			}
		}
	}
	return marked
}

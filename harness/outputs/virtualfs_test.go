package outputs

// The real virtual build directory (builder.NewVirtualBuildDirectory over
// virtual.NewInMemoryPrepopulatedDirectory with pool-backed files) as a
// third holder of the tree. The harness writes and reads it through the
// Virtual* calls a FUSE/NFS front end would issue.

import (
	"context"
	"fmt"
	"io"
	"sort"
	"sync"

	"github.com/buildbarn/bb-remote-execution/pkg/builder"
	"github.com/buildbarn/bb-remote-execution/pkg/cas"
	"github.com/buildbarn/bb-remote-execution/pkg/filesystem/pool"
	"github.com/buildbarn/bb-remote-execution/pkg/filesystem/virtual"
	"github.com/buildbarn/bb-storage/pkg/filesystem"
	"github.com/buildbarn/bb-storage/pkg/filesystem/path"
	"google.golang.org/grpc/codes"
	"google.golang.org/grpc/status"
)

type memPool struct{}

type memPoolFile struct {
	data []byte
}

func (memPool) NewFile(holeSource pool.HoleSource, size uint64) (filesystem.FileReadWriter, error) {
	f := &memPoolFile{data: make([]byte, size)}
	if size > 0 && holeSource != nil {
		if _, err := holeSource.ReadAt(f.data, 0); err != nil && err != io.EOF {
			return nil, err
		}
	}
	return f, nil
}

func (f *memPoolFile) Close() error { return nil }
func (f *memPoolFile) ReadAt(p []byte, off int64) (int, error) {
	if off >= int64(len(f.data)) {
		return 0, io.EOF
	}
	n := copy(p, f.data[off:])
	if n < len(p) {
		return n, io.EOF
	}
	return n, nil
}

func (f *memPoolFile) WriteAt(p []byte, off int64) (int, error) {
	if end := int(off) + len(p); end > len(f.data) {
		f.data = append(f.data, make([]byte, end-len(f.data))...)
	}
	copy(f.data[off:], p)
	return len(p), nil
}

func (f *memPoolFile) Truncate(size int64) error {
	if int(size) <= len(f.data) {
		f.data = f.data[:size]
	} else {
		f.data = append(f.data, make([]byte, int(size)-len(f.data))...)
	}
	return nil
}
func (f *memPoolFile) Sync() error         { return nil }
func (f *memPoolFile) Len() (int64, error) { return int64(len(f.data)), nil }
func (f *memPoolFile) GetNextRegionOffset(offset int64, regionType filesystem.RegionType) (int64, error) {
	if offset >= int64(len(f.data)) {
		return 0, io.EOF
	}
	if regionType == filesystem.Data {
		return offset, nil
	}
	return int64(len(f.data)), nil
}

// faultyPool is memPool with a switch that makes writes fail.
type faultyPool struct {
	failWrites bool
}

type faultyPoolFile struct {
	memPoolFile
	pool *faultyPool
}

func (p *faultyPool) NewFile(holeSource pool.HoleSource, size uint64) (filesystem.FileReadWriter, error) {
	return &faultyPoolFile{memPoolFile: memPoolFile{data: make([]byte, size)}, pool: p}, nil
}

func (f *faultyPoolFile) WriteAt(p []byte, off int64) (int, error) {
	if f.pool.failWrites {
		return 0, status.Error(codes.Internal, "simulated disk failure in the file pool")
	}
	return f.memPoolFile.WriteAt(p, off)
}

// counterGenerator hands out distinct, deterministic inode numbers.
type counterGenerator struct {
	mu sync.Mutex
	n  uint64
}

func (g *counterGenerator) Uint64() uint64 {
	g.mu.Lock()
	defer g.mu.Unlock()
	g.n++
	return g.n * 0x9E3779B97F4A7C15
}
func (g *counterGenerator) Uint32() uint32       { return uint32(g.Uint64() >> 32) }
func (g *counterGenerator) Float64() float64     { return float64(g.Uint64()>>11) / (1 << 53) }
func (g *counterGenerator) Int64N(n int64) int64 { return int64(g.Uint64() % uint64(n)) }
func (g *counterGenerator) IntN(n int) int       { return int(g.Uint64() % uint64(n)) }
func (g *counterGenerator) Read(p []byte) (int, error) {
	for i := range p {
		p[i] = byte(g.Uint64() >> 56)
	}
	return len(p), nil
}

func (g *counterGenerator) Shuffle(n int, swap func(i, j int)) {
	for i := n - 1; i > 0; i-- {
		swap(i, g.IntN(i+1))
	}
}
func (g *counterGenerator) IsThreadSafe() {}

type collectingErrorLogger struct {
	mu   sync.Mutex
	errs []string
}

func (l *collectingErrorLogger) Log(err error) {
	l.mu.Lock()
	defer l.mu.Unlock()
	l.errs = append(l.errs, err.Error())
}

type virtualWorld struct {
	top    virtual.PrepopulatedDirectory
	bd     builder.BuildDirectory
	errlog *collectingErrorLogger
}

func newVirtualWorld(c *fakeCAS) *virtualWorld {
	w := &virtualWorld{errlog: &collectingErrorLogger{}}
	handleAllocator := virtual.NewFUSEHandleAllocator(&counterGenerator{})
	noDefaults := func(requested virtual.AttributesMask, attributes *virtual.Attributes) {}
	symlinkFactory := virtual.NewHandleAllocatingSymlinkFactory(virtual.NewBaseSymlinkFactory(noDefaults), handleAllocator.New(), path.LocalFormat)
	characterDeviceFactory := virtual.NewHandleAllocatingCharacterDeviceFactory(virtual.BaseCharacterDeviceFactory, handleAllocator.New())
	w.top = virtual.NewInMemoryPrepopulatedDirectory(
		virtual.NewHandleAllocatingFileAllocator(
			virtual.NewPoolBackedFileAllocator(pool.EmptyFilePool, w.errlog, noDefaults, virtual.NoNamedAttributesFactory),
			handleAllocator,
		),
		virtual.NewErrorSymlinkFactory(status.Error(codes.PermissionDenied, "Symlink outside build directory")),
		w.errlog,
		handleAllocator,
		sort.Sort,
		func(string) bool { return false },
		fakeClock{},
		virtual.CaseSensitiveComponentNormalizer,
		noDefaults,
		virtual.NoNamedAttributesFactory,
	)
	w.bd = builder.NewVirtualBuildDirectory(w.top, cas.NewBlobAccessDirectoryFetcher(c, 1<<20, 1<<24), c, symlinkFactory, characterDeviceFactory, handleAllocator, noDefaults, fakeClock{})
	// What LocalBuildExecutor does first: without hooks nothing can be created.
	w.bd.InstallHooks(memPool{}, w.errlog)
	return w
}

var vctx = context.Background()

func vcomp(name string) path.Component { return path.MustNewComponent(name) }

// materialiseVirtual creates the children of n in d the way an action
// running on the mounted file system would.
func materialiseVirtual(d virtual.Directory, n *node) error {
	for _, name := range n.sortedNames() {
		c := n.children[name]
		var out virtual.Attributes
		switch c.kind {
		case kFile:
			perm := virtual.PermissionsRead | virtual.PermissionsWrite
			if c.exec {
				perm |= virtual.PermissionsExecute
			}
			share := virtual.ShareMaskRead | virtual.ShareMaskWrite
			leaf, _, _, s := d.VirtualOpenChild(vctx, vcomp(name), share, (&virtual.Attributes{}).SetPermissions(perm), nil, 0, &out)
			if s != virtual.StatusOK {
				return fmt.Errorf("create %q: status %v", name, s)
			}
			if len(c.data) > 0 {
				if k, s := leaf.VirtualWrite(vctx, []byte(c.data), 0); s != virtual.StatusOK || k != len(c.data) {
					leaf.VirtualClose(share)
					return fmt.Errorf("write %q: status %v n=%d", name, s, k)
				}
			}
			leaf.VirtualClose(share)
		case kSymlink:
			if _, _, s := d.VirtualMknod(vctx, vcomp(name), (&virtual.Attributes{}).SetFileType(filesystem.FileTypeSymlink).SetSymlinkTarget(path.UNIXFormat.NewParser(c.target)), 0, &out); s != virtual.StatusOK {
				return fmt.Errorf("symlink %q: status %v", name, s)
			}
		case kSpecial:
			if _, _, s := d.VirtualMknod(vctx, vcomp(name), (&virtual.Attributes{}).SetFileType(filesystem.FileTypeFIFO), 0, &out); s != virtual.StatusOK {
				return fmt.Errorf("mkfifo %q: status %v", name, s)
			}
		case kDir:
			child, _, s := d.VirtualMkdir(vctx, vcomp(name), &virtual.Attributes{}, 0, &out)
			if s != virtual.StatusOK {
				return fmt.Errorf("mkdir %q: status %v", name, s)
			}
			if err := materialiseVirtual(child, c); err != nil {
				return err
			}
		}
	}
	return nil
}

func rematerialiseVirtual(d virtual.PrepopulatedDirectory, n *node) error {
	if err := d.RemoveAllChildren(false); err != nil {
		return err
	}
	return materialiseVirtual(d, n)
}

// readTreeVirtual reads a directory back into a model tree.
func readTreeVirtual(d virtual.PrepopulatedDirectory) (*node, error) {
	n := newDir()
	dirs, leaves, err := d.LookupAllChildren()
	if err != nil {
		return nil, err
	}
	for _, e := range dirs {
		c, err := readTreeVirtual(e.Child)
		if err != nil {
			return nil, err
		}
		n.children[e.Name.String()] = c
	}
	for _, e := range leaves {
		var a virtual.Attributes
		e.Child.VirtualGetAttributes(vctx, virtual.AttributesMaskFileType|virtual.AttributesMaskPermissions|virtual.AttributesMaskSizeBytes|virtual.AttributesMaskSymlinkTarget, &a)
		switch a.GetFileType() {
		case filesystem.FileTypeRegularFile:
			perm, _ := a.GetPermissions()
			size, _ := a.GetSizeBytes()
			if s := e.Child.VirtualOpenSelf(vctx, virtual.ShareMaskRead, &virtual.OpenExistingOptions{}, 0, &virtual.Attributes{}); s != virtual.StatusOK {
				return nil, fmt.Errorf("open %q: status %v", e.Name, s)
			}
			buf := make([]byte, size)
			got, _, s := e.Child.VirtualRead(vctx, buf, 0)
			e.Child.VirtualClose(virtual.ShareMaskRead)
			if s != virtual.StatusOK {
				return nil, fmt.Errorf("read %q: status %v", e.Name, s)
			}
			n.children[e.Name.String()] = &node{kind: kFile, exec: perm&virtual.PermissionsExecute != 0, data: string(buf[:got])}
		case filesystem.FileTypeSymlink:
			t, _ := a.GetSymlinkTarget()
			b, w := path.EmptyBuilder.Join(path.VoidScopeWalker)
			if err := path.Resolve(t, w); err != nil {
				return nil, err
			}
			n.children[e.Name.String()] = &node{kind: kSymlink, target: b.GetUNIXString()}
		default:
			n.children[e.Name.String()] = &node{kind: kSpecial}
		}
	}
	return n, nil
}

package outputs

// Upload faults against OutputHierarchy.UploadOutputs directly (the
// hierarchy_model rig): one injected fault per run, fresh CAS per run.

import (
	"context"
	"fmt"
	"testing"

	remoteexecution "github.com/bazelbuild/remote-apis/build/bazel/remote/execution/v2"
	"github.com/buildbarn/bb-remote-execution/pkg/builder"
	"google.golang.org/grpc/status"
	"pgregory.net/rapid"

	"verif/harness/internal/simkit"
)

type uploadRun struct {
	plan    *faultPlan
	tracker *dirTracker
	top     *trackedDir
	ar      remoteexecution.ActionResult
	err     error
}

// runUpload calls UploadOutputs on inner (a view of the input root) through
// the handle-tracking wrapper. at < 0: no fault, the fallible calls are
// only recorded; ferr == nil with at >= 0: the context is cancelled there.
func runUpload(oh *builder.OutputHierarchy, ci *commandInput, inner builder.BuildDirectory, cas *fakeCAS, at int, ferr error) *uploadRun {
	r := &uploadRun{plan: newFaultPlan()}
	r.plan.phase = "upload"
	r.plan.at, r.plan.err = at, ferr
	ctx, cancel := context.WithCancel(context.Background())
	defer cancel()
	if at >= 0 && ferr == nil {
		r.plan.cancel = cancel
	}
	cas.plan = r.plan
	defer func() { cas.plan = nil }()
	r.tracker = &dirTracker{plan: r.plan}
	r.top = r.tracker.wrapRoot(inner)
	r.err = oh.UploadOutputs(ctx, r.top, cas, digestFunction, make(chan struct{}), &r.ar, ci.force)
	return r
}

// judgeFaultedUpload: oracle for a run of runUpload with a fault planned.
// cleanBaseline: the same upload without a fault returned no error.
func judgeFaultedUpload(r *uploadRun, ci *commandInput, rc *refCommand, root *node, cas *fakeCAS, cleanBaseline, checkCode bool) error {
	hit := r.plan.hit
	if hit == nil {
		return nil
	}
	errMode := r.plan.err != nil
	if errMode && hit.Kind != "dir.Close" && r.err == nil {
		return fmt.Errorf("%s failed with %v, but UploadOutputs returned no error", hit, r.plan.err)
	}
	if !errMode && cas.refused > 0 && r.err == nil {
		return fmt.Errorf("%d storage calls were refused after the cancellation, but UploadOutputs returned no error", cas.refused)
	}
	if errMode && hit.Kind != "dir.Close" && cleanBaseline && checkCode {
		if got, want := status.Code(r.err), faultErrorCode(r.plan.err); got != want {
			return fmt.Errorf("%s failed with %v and nothing else went wrong, but UploadOutputs returned code %s: %v", hit, r.plan.err, got, r.err)
		}
	}
	if len(cas.corrupt) > 0 {
		return fmt.Errorf("blobs were stored under digests that do not match their contents: %v", cas.corrupt)
	}
	requireRDD := ci.format == remoteexecution.Command_DIRECTORY_ONLY || ci.format == remoteexecution.Command_TREE_AND_DIRECTORY
	return checkActionResult(cas, &r.ar, root, ci.paths, rc.locs, requireRDD, r.plan.toleranceOf(root))
}

// uploadFaultCandidates: positions of the recorded trace at which a
// failure has to surface (Close of an entered directory is excluded: the
// code documents nothing about it and ignores its result).
func uploadFaultCandidates(trace []faultPoint) []int {
	var out []int
	for i, p := range trace {
		if p.Kind != "dir.Close" {
			out = append(out, i)
		}
	}
	return out
}

const c09ModelRule = "rapid: accepted commands and produced trees as C10 hierarchy_model, held by the in-memory BuildDirectory; OutputHierarchy.UploadOutputs runs once fault-free over a handle-tracking wrapper while every fallible call is recorded, then once per position on a fresh CAS (at most 48 positions per scenario, drawn subset beyond): every CAS Put (once failing with a status drawn from 12 gRPC codes and storing nothing, once with the context cancelled at that call, after which the CAS refuses everything) and every Lstat/ReadDir/Readlink/Enter/UploadFile (failing with a drawn gRPC status or EIO/EACCES/ENOSPC/ELOOP). Oracle per run: a reached failing call => UploadOutputs returns an error (fault-free run clean: with the injected code); every digest the ActionResult mentions (output files, tree_digest, root_directory_digest and every Directory of the Tree) is in the CAS with bytes hashing to it; every declared output that exists is listed exactly as in C10 except the single entry whose upload the fault hit (subtree below a failed ReadDir/Enter) -- after a cancellation anything may be missing, nothing wrong may be listed; every directory handle entered during the upload is closed exactly once and not used afterwards. NON-TRIVIAL: fault reached and the fault-free upload made >= 2 Put calls; distinct by (scenario, fault) hash"

func TestC09OutputHierarchyUploadFaults(t *testing.T) {
	rec := simkit.NewRecorder(t, "C09", "hierarchy_upload_faults", c09ModelRule)
	rapid.Check(t, func(rt *rapid.T) {
		ci := drawCommand(rt)
		rc := refCommandOf(ci.workdir, ci.paths)
		sc := ci.script()
		sc.Backend = "mem"
		oh, err := checkConstruction(&ci, &rc)
		if err != nil {
			rt.Fatalf("%v; script=%+v", err, sc)
		}
		if oh == nil {
			sc.Outcome = "rejected"
			rec.Case(sc, false, "rejected")
			return
		}
		root := drawInputRoot(rt, &rc)
		sc.Initial = root.render()
		// Parent directories as the executor would have made them, then the
		// action.
		prep := &fakeFS{cas: newFakeCAS()}
		oh.CreateParentDirectories(prep.open(root, nil))
		drawAction(rt, root, &rc)
		sc.Produced = root.render()

		cas := newFakeCAS()
		base := runUpload(oh, &ci, (&fakeFS{cas: cas}).open(root, nil), cas, -1, nil)
		uf, errAllowed := describeOutputs(&ci, &rc, root)
		if base.err != nil && !errAllowed {
			rt.Fatalf("UploadOutputs failed although every declared output is a file, directory, symlink or absent: %v; script=%+v", base.err, sc)
		}
		requireRDD := ci.format == remoteexecution.Command_DIRECTORY_ONLY || ci.format == remoteexecution.Command_TREE_AND_DIRECTORY
		if err := checkActionResult(cas, &base.ar, root, ci.paths, rc.locs, requireRDD, nil); err != nil {
			rt.Fatalf("fault-free: %v; script=%+v", err, sc)
		}
		if err := base.tracker.lifecycle(base.top, false); err != nil {
			rt.Fatalf("fault-free: %v; script=%+v", err, sc)
		}
		sc.Outcome = "fault-free"
		rec.Case(sc, false, append([]string{"fault_free"}, uf.labels()...)...)
		trace := base.plan.trace
		puts := countKind(trace, "cas.Put")

		for _, i := range pickAtMost(rt, "fault_positions", uploadFaultCandidates(trace), 48) {
			modes := []string{"error"}
			if trace[i].Kind == "cas.Put" {
				modes = append(modes, "cancel")
			}
			for _, mode := range modes {
				fs := &faultScript{Index: i, Point: trace[i].String(), Mode: mode}
				var ferr error
				if mode == "error" {
					ferr = drawFaultError(rt, trace[i].Kind)
					fs.Error = ferr.Error()
				}
				fsc := sc
				fsc.Fault = fs
				fcas := newFakeCAS()
				run := runUpload(oh, &ci, (&fakeFS{cas: fcas}).open(root, nil), fcas, i, ferr)
				if run.plan.hit == nil {
					rt.Fatalf("harness: planned fault not reached; fault=%+v; script=%+v", *fs, fsc)
				}
				if err := judgeFaultedUpload(run, &ci, &rc, root, fcas, base.err == nil, true); err != nil {
					rt.Fatalf("%v; fault=%+v; script=%+v", err, *fs, fsc)
				}
				if err := run.tracker.lifecycle(run.top, false); err != nil {
					rt.Fatalf("%v; fault=%+v; script=%+v", err, *fs, fsc)
				}
				labels := []string{"fault_" + mode, "fault_at_" + run.plan.hit.Kind}
				if n := len(run.ar.OutputFiles) + len(run.ar.OutputDirectories) + len(run.ar.OutputSymlinks); n > 0 {
					labels = append(labels, "outputs_listed_despite_fault")
				}
				if tol := run.plan.toleranceOf(root); len(tol.optional) > 0 {
					labels = append(labels, "fault_excuses_an_entry")
				}
				fsc.Outcome = fmt.Sprint(run.err)
				rec.Case(fsc, puts >= 2, labels...)
			}
		}
	})
}

package simkit

import (
	"sync/atomic"
	"time"
)

// StallWatchdog calls onStall when *progress has not changed during `need`
// consecutive one-second ticks of the real clock that each arrived on
// time. It is meant for harnesses that run inside a testing/synctest
// bubble, where a goroutine waiting for a sync.Mutex is not "durably
// blocked" and a leaked lock therefore hangs the case without any
// verdict.
//
// A plain deadline would be a flaky oracle: on a machine that is busy
// with other work a case may take arbitrarily long. Two things keep this
// watchdog quiet in that situation: it measures progress (the harness
// bumps the counter at every step of a case, and a step needs milliseconds
// of CPU time), not total duration; and a tick that arrives late (the
// process was not scheduled) resets the count, so only time during which
// this process demonstrably did get the CPU counts. If the watchdog's own
// goroutine ran on time `need` times in a row, the Go scheduler had idle
// Ps for the goroutines of the case as well, yet none of them advanced.
//
// The returned function stops the watchdog.
func StallWatchdog(progress *atomic.Uint64, need int, onStall func()) func() {
	stop := make(chan struct{})
	go func() {
		ticker := time.NewTicker(time.Second)
		defer ticker.Stop()
		last := progress.Load()
		lastTick := time.Now()
		count := 0
		for {
			select {
			case <-stop:
				return
			case <-ticker.C:
			}
			now := time.Now()
			onTime := now.Sub(lastTick) < 1500*time.Millisecond
			lastTick = now
			if p := progress.Load(); p != last {
				last, count = p, 0
				continue
			}
			if !onTime {
				count = 0
				continue
			}
			count++
			if count >= need {
				select {
				case <-stop:
					return
				default:
				}
				onStall()
				return
			}
		}
	}()
	var once atomic.Bool
	return func() {
		if once.CompareAndSwap(false, true) {
			close(stop)
		}
	}
}

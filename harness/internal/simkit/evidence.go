// Package simkit holds the shared pieces of the verification harness:
// evidence recording, known-finding lookup and small generator helpers.
package simkit

import (
	"crypto/sha256"
	"encoding/hex"
	"encoding/json"
	"fmt"
	"os"
	"path/filepath"
	"sort"
	"sync"
	"testing"
)

// Recorder counts what a property function explored. One Recorder per
// test function; Case() is called once per executed case.
type Recorder struct {
	mu         sync.Mutex
	Property   string
	Sub        string
	Rule       string
	Evals      int
	Labels     map[string]int
	hashes     map[string]struct{}
	samples    []sample
	maxSamples int
	Excluded   map[string]int
	notes      []string
}

type sample struct {
	size int
	text json.RawMessage
}

// NewRecorder creates a recorder and registers a cleanup that writes the
// evidence fragment when the test function ends.
func NewRecorder(t testing.TB, property, sub, rule string) *Recorder {
	r := &Recorder{
		Property:   property,
		Sub:        sub,
		Rule:       rule,
		Labels:     map[string]int{},
		hashes:     map[string]struct{}{},
		Excluded:   map[string]int{},
		maxSamples: 4,
	}
	t.Cleanup(func() { r.flush(t) })
	return r
}

// Case records one executed case. script is any JSON-marshallable
// description of the concrete case (operation list); nontrivial says
// whether it satisfies the property's stated non-triviality rule.
func (r *Recorder) Case(script any, nontrivial bool, labels ...string) {
	r.mu.Lock()
	defer r.mu.Unlock()
	r.Evals++
	for _, l := range labels {
		r.Labels[l]++
	}
	if !nontrivial {
		return
	}
	r.Labels["nontrivial"]++
	b, err := json.Marshal(script)
	if err != nil {
		b = []byte(fmt.Sprintf("%q", fmt.Sprint(script)))
	}
	h := sha256.Sum256(b)
	key := hex.EncodeToString(h[:8])
	if _, ok := r.hashes[key]; ok {
		return
	}
	r.hashes[key] = struct{}{}
	// Keep the shortest few non-trivial scripts as samples.
	if len(b) <= 6000 {
		r.samples = append(r.samples, sample{size: len(b), text: b})
		sort.SliceStable(r.samples, func(i, j int) bool { return r.samples[i].size < r.samples[j].size })
		if len(r.samples) > r.maxSamples {
			r.samples = r.samples[:r.maxSamples]
		}
	}
}

// Label bumps a class counter without counting a case.
func (r *Recorder) Label(l string) {
	r.mu.Lock()
	r.Labels[l]++
	r.mu.Unlock()
}

// LabelN adds n to a class counter.
func (r *Recorder) LabelN(l string, n int) {
	r.mu.Lock()
	r.Labels[l] += n
	r.mu.Unlock()
}

// Exclude counts an input that the generator refused to produce for a
// stated soundness reason (or because of an open known finding).
func (r *Recorder) Exclude(reason string) {
	r.mu.Lock()
	r.Excluded[reason]++
	r.mu.Unlock()
}

// Note attaches free text to the fragment (e.g. diagnostic findings).
func (r *Recorder) Note(s string) {
	r.mu.Lock()
	if len(r.notes) < 20 {
		r.notes = append(r.notes, s)
	}
	r.mu.Unlock()
}

type fragment struct {
	Property string            `json:"property"`
	Sub      string            `json:"sub"`
	Rule     string            `json:"rule"`
	Evals    int               `json:"evaluations"`
	Hashes   []string          `json:"hashes"`
	Labels   map[string]int    `json:"labels"`
	Excluded map[string]int    `json:"excluded"`
	Samples  []json.RawMessage `json:"samples"`
	Notes    []string          `json:"notes,omitempty"`
	Failed   bool              `json:"failed"`
}

func (r *Recorder) flush(t testing.TB) {
	dir := os.Getenv("VERIF_EVIDENCE_DIR")
	if dir == "" {
		return
	}
	r.mu.Lock()
	defer r.mu.Unlock()
	f := fragment{Property: r.Property, Sub: r.Sub, Rule: r.Rule, Evals: r.Evals, Labels: r.Labels, Excluded: r.Excluded, Notes: r.notes, Failed: t.Failed()}
	for h := range r.hashes {
		f.Hashes = append(f.Hashes, h)
	}
	sort.Strings(f.Hashes)
	for _, s := range r.samples {
		f.Samples = append(f.Samples, s.text)
	}
	b, _ := json.Marshal(f)
	shard := os.Getenv("VERIF_SHARD")
	if shard == "" {
		shard = "0"
	}
	name := filepath.Join(dir, fmt.Sprintf("%s.%s.%s.json", r.Property, r.Sub, shard))
	if err := os.WriteFile(name, b, 0o644); err != nil {
		t.Logf("cannot write evidence fragment: %v", err)
	}
}

package simkit

import (
	"encoding/json"
	"fmt"
	"os"
	"sync"
)

// KnownFinding is one entry of /verif/known_findings.json.
type KnownFinding struct {
	Property  string `json:"property"`
	Status    string `json:"status"` // "open" or "fixed"
	Signature string `json:"signature"`
	What      string `json:"what"`
	Commit    string `json:"commit,omitempty"`
}

var (
	knownOnce    sync.Once
	knownOpen    map[string]KnownFinding
	knownPrinted sync.Map
)

func loadKnown() {
	knownOpen = map[string]KnownFinding{}
	p := os.Getenv("VERIF_KNOWN_FINDINGS")
	if p == "" {
		return
	}
	b, err := os.ReadFile(p)
	if err != nil {
		return
	}
	var doc struct {
		Findings []KnownFinding `json:"findings"`
	}
	if json.Unmarshal(b, &doc) != nil {
		return
	}
	for _, f := range doc.Findings {
		if f.Status == "open" {
			knownOpen[f.Signature] = f
		}
	}
}

// KnownOpen reports whether a violation signature is listed as an open
// (recorded, unrepaired) finding. The first time it is asked about a listed
// signature it prints the KNOWN-FINDING line. "fixed" entries are never
// returned: they suppress nothing.
func KnownOpen(signature string) bool {
	knownOnce.Do(loadKnown)
	f, ok := knownOpen[signature]
	if !ok {
		return false
	}
	if _, dup := knownPrinted.LoadOrStore(signature, true); !dup {
		fmt.Printf("KNOWN-FINDING: property=%s %s [%s]\n", f.Property, f.What, f.Signature)
	}
	return true
}
